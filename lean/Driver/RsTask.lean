/- Driver/RsTask — C10 model driver: cfg / state / tick -/
import SuplaVerif.Model.RsTask
import Driver.Common
namespace Driver.RsTaskDrv
open SuplaVerif Driver

abbrev St := RsP × RsT

def show' (s : RsT) : String :=
  s!"RT pos={s.pos} rel={s.rel} ts={s.tstate} dir={s.dir} upT={s.upT} downT={s.downT}"  -- (pend, sinceStop are internal)

def step (st : St) (toks : List String) : St × List String :=
  match toks with
  | ["cfg", fo, fc, m, im] =>
    match fo.toNat?, fc.toNat?, m.toNat? with
    | some fo, some fc, some m => (({ fo := fo, fc := fc, margin := m, inMove := im == "1" }, st.2), [])
    | _, _, _ => (st, ["BADOP"])
  | ["state", pos, upT, downT, rel, ts, tg, dir] =>
    match pos.toNat?, upT.toNat?, downT.toNat?, rel.toNat?, ts.toNat?, tg.toNat?, dir.toNat? with
    | some p, some u, some d, some r, some t, some g, some di =>
      ((st.1, { pos := p, upT := u, downT := d, rel := r, tstate := t, target := g, dir := di, comm := 0, pend := 0, sinceStop := 2000000 }), [])
    | _, _, _, _, _, _, _ => (st, ["BADOP"])
  | ["task", g] =>
    match g.toNat? with
    | some g => ((st.1, addTask st.2 g), [])
    | none => (st, ["BADOP"])
  | ["move", r] =>
    match r.toNat? with
    | some r => ((st.1, moveCmd st.1 st.2 r), [])
    | none => (st, ["BADOP"])
  | ["fire"] => ((st.1, fireTrig st.1 st.2), [])
  | ["tick", dt] =>
    match dt.toNat? with
    | some dt => let s' := rsTick st.1 st.2 dt; ((st.1, s'), [show' s'])
    | none => (st, ["BADOP"])
  | _ => (st, [])

def main : IO Unit := do loop (← IO.getStdin) ({ fo := 0, fc := 0, margin := 110, inMove := false }, {}) step
end Driver.RsTaskDrv
