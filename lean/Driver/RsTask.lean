/- Driver/RsTask — C10 model driver: cfg / state / tick -/
import SuplaVerif.Model.RsTask
import SuplaVerif.Model.AutoCal
import SuplaVerif.Gen.Consts
import Driver.Common
import Driver.FbTask
namespace Driver.RsTaskDrv
open SuplaVerif Driver

abbrev St := (RsP × RsT)

def show' (s : RsT) : String :=
  s!"RT pos={s.pos} rel={s.rel} ts={s.tstate} dir={s.dir} upT={s.upT} downT={s.downT}"  -- (pend, sinceStop are internal)

def step (st : St) (toks : List String) : St × List String :=
  match toks with
  | ["cfg", fo, fc, m, im] =>
    match fo.toNat?, fc.toNat?, m.toNat? with
    | some fo, some fc, some m => (({ fo := fo, fc := fc, margin := m, inMove := im == "1" }, st.2), [])
    | _, _, _ => (st, ["BADOP"])
  | ["state", pos, upT, downT, rel, ts, tg, dir] =>
    match pos.toNat?, upT.toNat?, downT.toNat?, rel.toNat?, ts.toNat?, tg.toNat?, dir.toNat? with
    | some p, some u, some d, some r, some t, some g, some di =>
      ((st.1, { pos := p, upT := u, downT := d, rel := r, tstate := t, target := g, dir := di, comm := 0, pend := 0, sinceStop := 2000000 }), [])
    | _, _, _, _, _, _, _ => (st, ["BADOP"])
  | ["task", g] =>
    match g.toNat? with
    | some g => ((st.1, addTask st.2 g), [])
    | none => (st, ["BADOP"])
  | ["move", r] =>
    match r.toNat? with
    | some r => ((st.1, moveCmd st.1 st.2 r), [])
    | none => (st, ["BADOP"])
  | ["fire"] => ((st.1, fireTrig st.1 st.2), [])
  | ["tick", dt] =>
    match dt.toNat? with
    | some dt => let s' := rsTick st.1 st.2 dt; ((st.1, s'), [show' s'])
    | none => (st, ["BADOP"])
  | _ => (st, [])

/-- acprobe step upT downT inMove closing: one call of supla_esp_gpio_rs_autocalibrate from position 50 -/
def acProbe (toks : List String) : List String :=
  match toks with
  | [_, st, u, d, mv, cl] =>
    match st.toNat?, u.toNat?, d.toNat?, cl.toNat? with
    | some st, some u, some d, some cl =>
      let r := acStep Gen.acParams { step := st, closing := cl, opening := 0 } u d (mv == "1")
      let pos := if r.1.done then 100 else if r.1.fail then 0 else 50
      let rel := match r.2.1 with
        | .none => "-"
        | .relay k => toString k
        | .failed => "0"
      [s!"AC {if r.2.2 then 1 else 0} {r.1.step} {r.1.closing} {r.1.opening} {pos} {if r.1.fail then 1 else 0} {rel}"]
    | _, _, _, _ => ["BADOP"]
  | _ => ["BADOP"]

/-- the models behind one driver: roller shutter ops, facade blind ops, auto-calibration probe -/
def step2 (st : St × FbTaskDrv.St) (toks : List String) : (St × FbTaskDrv.St) × List String :=
  match toks with
  | "acprobe" :: _ => (st, acProbe toks)
  | t :: _ =>
    if t.startsWith "fb" then let r := FbTaskDrv.step st.2 toks; ((st.1, r.1), r.2)
    else let r := step st.1 toks; ((r.1, st.2), r.2)
  | [] => (st, [])

def main : IO Unit := do
  loop (← IO.getStdin) (({ fo := 0, fc := 0, margin := 110, inMove := false }, {}),
    ({ fo := 0, fc := 0, margin := 110, inMove := false, ttype := 1, tiltMs := 0 }, {})) step2
end Driver.RsTaskDrv
