/- Driver/GetData — C03 model driver: srpc_getdata's verdict per `msg <call> <hex>` -/
import SuplaVerif.Model.GetData
import SuplaVerif.Gen.GetData
import Driver.Common
namespace Driver.GetDataDrv
open SuplaVerif Driver

def step (_ : Unit) (toks : List String) : Unit × List String :=
  match toks with
  | ["msg", id, h] =>
    match id.toNat?, Bytes.ofHex h with
    | some c, some p =>
      match getdataResult Gen.getDataTable c p.length p with
      | some r => ((), [s!"GETDATA {c} {r}"])
      | none => ((), [s!"GETDATA {c} ?"])
    | _, _ => ((), ["BADOP"])
  | _ => ((), [])

def main : IO Unit := do loop (← IO.getStdin) () step
end Driver.GetDataDrv
