/- Driver/Io — C01/C02 model driver (mirror of harness/drv_io.c) -/
import SuplaVerif.Model.Srpc
import SuplaVerif.Gen.Consts
import Driver.Common
namespace Driver.IoDrv
open SuplaVerif Driver

def P := Gen.protoParams

def showObs : Obs → String
  | .deliver f => s!"DELIVER {f.ver} {f.rrId} {f.callId} {f.payload.length} {hexOrDash f.payload}"
  | .out (.sent c b) => s!"SENT {c} {hexOrDash b}"
  | .out (.log c) => s!"LOG {c}"
  | .out (.callret r) => s!"CALLRET {r}"
  | .log c => s!"LOG {c}"
  | .restart => "RESTART"

def scratch0 : Bytes := List.replicate (P.hdr + P.maxData) 0

def parseInts (l : List String) : Option (List Int) := l.mapM String.toInt?

def step (s : Io) (toks : List String) : Io × List String :=
  let ev : Option Ev :=
    match toks with
    | ["recv", h] => (Bytes.ofHex h).map Ev.recv
    | ["tick"] => some .tick
    | ["call", id, h] => do
        let i ← id.toNat?
        let b ← Bytes.ofHex h
        pure (.call i b)
    | "esp" :: cs => (parseInts cs).map Ev.esp
    | _ => none
  match ev with
  | none => (s, if s.dead then [] else ["BADOP"])
  | some e =>
    let (s', o) := Io.step P Gen.callAllowed scratch0 s e
    (s', o.map showObs)

def main : IO Unit := do
  loop (← IO.getStdin) ({ o := { ver := Gen.espProtoVer } } : Io) step

end Driver.IoDrv
