import Driver.Io
import Driver.GetData
import Driver.Dns
import Driver.Uptime
import Driver.Rs
import Driver.Mqtt
import Driver.CalCfg
import Driver.KeepAlive
import Driver.Countdown
import Driver.Debounce
import Driver.CfgStore
import Driver.Update
import Driver.Form
import Driver.Relay
import Driver.DevConn
import Driver.RsPos
import Driver.RsTask
import Driver.MqttAck

def main (args : List String) : IO UInt32 := do
  match args with
  | ["io"] => Driver.IoDrv.main; return 0
  | ["getdata"] => Driver.GetDataDrv.main; return 0
  | ["dns"] => Driver.DnsDrv.main; return 0
  | ["uptime"] => Driver.UptimeDrv.main; return 0
  | ["rs"] => Driver.RsDrv.main; return 0
  | ["mqtt"] => Driver.MqttDrv.main; return 0
  | ["calcfg"] => Driver.CalCfgDrv.main; return 0
  | ["keepalive"] => Driver.KeepAliveDrv.main; return 0
  | ["countdown"] => Driver.CountdownDrv.main; return 0
  | ["debounce"] => Driver.DebounceDrv.main; return 0
  | ["cfgstore"] => Driver.CfgStoreDrv.main; return 0
  | ["update"] => Driver.UpdateDrv.main; return 0
  | ["form"] => Driver.FormDrv.main; return 0
  | ["relay"] => Driver.RelayDrv.main; return 0
  | ["devconn"] => Driver.DevConnDrv.main; return 0
  | ["rspos"] => Driver.RsPosDrv.main; return 0
  | ["rstask"] => Driver.RsTaskDrv.main; return 0
  | ["mqttack"] => Driver.MqttAckDrv.main; return 0
  | _ => IO.eprintln "usage: svdrv <subsystem>"; return 2
