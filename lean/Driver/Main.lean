import Driver.Io

def main (args : List String) : IO UInt32 := do
  match args with
  | ["io"] => Driver.IoDrv.main; return 0
  | _ => IO.eprintln "usage: svdrv <subsystem>"; return 2
