/- Driver/RsPos — C09 model driver: `mvpos full_ms up pos tilt ttype tilt_ms time dt...` -/
import SuplaVerif.Model.RsPos
import Driver.Common
namespace Driver.RsPosDrv
open SuplaVerif Driver

def run (c : MvCfg) : Mv → List Nat → List String
  | _, [] => []
  | s, dt :: dts =>
    let s' := mvTick c s dt
    s!"MV {s'.pos} {s'.tilt} {s'.time}" :: run c s' dts

def step (_ : Unit) (toks : List String) : Unit × List String :=
  match toks with
  | "mvpos" :: f :: up :: pos :: tilt :: tt :: tms :: tm :: dts =>
    match f.toNat?, pos.toNat?, tilt.toNat?, tt.toNat?, tms.toNat?, tm.toNat?, dts.mapM (·.toNat?) with
    | some f, some p, some t, some tt, some tms, some tm, some ds =>
      ((), run { fullMs := f, tiltMs := tms, ttype := tt, up := up == "1" } { pos := p, tilt := t, time := tm } ds)
    | _, _, _, _, _, _, _ => ((), ["BADOP"])
  | _ => ((), [])

def main : IO Unit := do loop (← IO.getStdin) () step
end Driver.RsPosDrv
