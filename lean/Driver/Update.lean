/- Driver/Update — C18 model driver: slot/gate decisions, chunk bookkeeping, boot-mark decision -/
import SuplaVerif.Model.Update
import SuplaVerif.Model.UpdHdr
import SuplaVerif.Gen.Consts
import Driver.Common
namespace Driver.UpdateDrv
open SuplaVerif Driver

/-- the response head being collected: (bytes so far, 0 collecting / 1 complete / 2 too long) -/
abbrev Hd := Bytes × Nat
abbrev St := Upd × Hd

def init : St := ({ addr := 0, awo := 0, buffPos := 0, downloaded := 0, expected := 0 }, ([], 0))

def stepU (s : Upd) (toks : List String) : Upd × List String :=
  match toks with
  | ["slot", m, ub] =>
    match m.toNat?, ub.toNat? with
    | some m, some ub =>
      match slotOf Gen.updParams m ub with
      | some a => (s, [s!"SLOT {a}"])
      | none => (s, ["NOSLOT"])
    | _, _ => (s, ["BADOP"])
  | ["gate", m, n] =>
    match m.toNat?, n.toNat? with
    | some m, some n => (s, [s!"GATE {if sizeAccepted Gen.updParams m n then 1 else 0}"])
    | _, _ => (s, ["BADOP"])
  | ["start", a, e] =>
    match a.toNat?, e.toNat? with
    | some a, some e => ({ addr := a, awo := a, buffPos := 0, downloaded := 0, expected := e }, [])
    | _, _ => (s, ["BADOP"])
  | ["feed", n] =>
    match n.toNat? with
    | some n =>
      let r := feed Gen.updParams s n
      (r.1, r.2.map (fun w => s!"W {w.1} {w.2}") ++ [s!"DL {r.1.downloaded}"])
    | none => (s, ["BADOP"])
  | ["mark", fh, ok] =>
    match Bytes.ofHex fh with
    | some f => (s, [s!"MARK {if markBoot Gen.updParams (f.map (·.toNat)) (ok == "1") then 1 else 0} {hashedLen Gen.updParams s}"])
    | none => (s, ["BADOP"])
  | _ => (s, [])

def step (s : St) (toks : List String) : St × List String :=
  match toks with
  | ["hdrseg", m, hx] =>
    match m.toNat?, Bytes.ofHex hx with
    | some m, some seg =>
      if s.2.2 != 0 then (s, [])
      else
        let r := collect Gen.hdrParams.maxHdr s.2.1 seg 0
        if r.2.1 == 1 then
          let sc := hdrScan Gen.hdrParams Gen.updParams m r.1
          ((s.1, (r.1, 1)), [s!"SCAN {if sc.2 then 1 else 0} {sc.1}"])
        else ((s.1, (r.1, r.2.1)), [])
    | _, _ => (s, ["BADOP"])
  | "slot" :: _ =>
    let r := stepU s.1 toks
    ((r.1, ([], 0)), r.2)
  | _ =>
    let r := stepU s.1 toks
    ((r.1, s.2), r.2)

def main : IO Unit := do loop (← IO.getStdin) init step
end Driver.UpdateDrv
