/- Driver/Update — C18 model driver: slot/gate decisions, chunk bookkeeping, boot-mark decision -/
import SuplaVerif.Model.Update
import SuplaVerif.Gen.Consts
import Driver.Common
namespace Driver.UpdateDrv
open SuplaVerif Driver

abbrev St := Upd

def init : St := { addr := 0, awo := 0, buffPos := 0, downloaded := 0, expected := 0 }

def step (s : St) (toks : List String) : St × List String :=
  match toks with
  | ["slot", m, ub] =>
    match m.toNat?, ub.toNat? with
    | some m, some ub =>
      match slotOf Gen.updParams m ub with
      | some a => (s, [s!"SLOT {a}"])
      | none => (s, ["NOSLOT"])
    | _, _ => (s, ["BADOP"])
  | ["gate", m, n] =>
    match m.toNat?, n.toNat? with
    | some m, some n => (s, [s!"GATE {if sizeAccepted Gen.updParams m n then 1 else 0}"])
    | _, _ => (s, ["BADOP"])
  | ["start", a, e] =>
    match a.toNat?, e.toNat? with
    | some a, some e => ({ addr := a, awo := a, buffPos := 0, downloaded := 0, expected := e }, [])
    | _, _ => (s, ["BADOP"])
  | ["feed", n] =>
    match n.toNat? with
    | some n =>
      let r := feed Gen.updParams s n
      (r.1, r.2.map (fun w => s!"W {w.1} {w.2}") ++ [s!"DL {r.1.downloaded}"])
    | none => (s, ["BADOP"])
  | ["mark", fh, ok] =>
    match Bytes.ofHex fh with
    | some f => (s, [s!"MARK {if markBoot Gen.updParams (f.map (·.toNat)) (ok == "1") then 1 else 0} {hashedLen Gen.updParams s}"])
    | none => (s, ["BADOP"])
  | _ => (s, [])

def main : IO Unit := do loop (← IO.getStdin) init step
end Driver.UpdateDrv
