/- Driver/Relay — C06 model driver -/
import SuplaVerif.Model.Relay
import SuplaVerif.Gen.Consts
import Driver.Common
namespace Driver.RelayDrv
open SuplaVerif Driver

abbrev St := List (RelayCfg × RelaySt)

def b (x : Bool) : Nat := if x then 1 else 0

def evs (es : List RelayEv) : List String :=
  es.map (fun e => match e with
    | .value v => s!"VALUE {b v}"
    | .result sd ok => s!"RESULT {sd} {b ok}")

def apply (s : St) (i : Nat) (cmd : RelayCmd) : St × List String :=
  match s[i]? with
  | some (c, st) =>
    let r := relayStep c st cmd
    (s.set i (c, r.1), [s!"OUT {i} {b r.1.out} {b (r.1.logical c)}"] ++ evs r.2)
  | none => (s, ["NORELAY"])

def step (s : St) (toks : List String) : St × List String :=
  match toks with
  | ["cfg", i, lo, out] =>
    match i.toNat? with
    | some i =>
      let s' := if s.length ≤ i then s ++ List.replicate (i + 1 - s.length) ({ loLevel := false }, { out := false }) else s
      (s'.set i ({ loLevel := lo == "1" }, { out := out == "1" }), [])
    | none => (s, ["BADOP"])
  | ["rswitch", i, st, ty, h] =>
    match i.toNat?, ty.toNat?, h.toNat? with
    | some i, some ty, some h =>
      match s[i]? with
      | some (c, rs) => (s, [s!"RSW {switchHi (st == "1") ty h (rs.logical c)}"])
      | none => (s, ["NORELAY"])
    | _, _, _ => (s, ["BADOP"])
  | ["hi", i, h] =>
    match i.toNat?, h.toNat? with
    | some i, some h => apply s i (.local h)
    | _, _ => (s, ["BADOP"])
  | ["server", i, sd, v] =>
    match i.toNat?, sd.toInt?, v.toInt? with
    | some i, some sd, some v => apply s i (.server sd v)
    | _, _, _ => (s, ["BADOP"])
  | ["burst", q, k] =>
    match q.toNat?, k.toNat? with
    | some q, some k => (s, [s!"ACCEPT {burstAccepted Gen.protoParams.queue q k}"])
    | _, _ => (s, ["BADOP"])
  | _ => (s, [])

def main : IO Unit := do loop (← IO.getStdin) [] step
end Driver.RelayDrv
