/- Driver/DevConn — C04 model driver: one event per line -/
import SuplaVerif.Model.DevConn
import Driver.Common
namespace Driver.DevConnDrv
open SuplaVerif Driver

def evOf : List String → Option DcEv
  | ["start"] => some .start
  | ["gotip"] => some .gotIp
  | ["dnsfound", "1"] => some (.dnsFound true)
  | ["dnsfound", "0"] => some (.dnsFound false)
  | ["connect"] => some .connectCb
  | ["iterate"] => some .iterate
  | ["regok"] => some .regOk
  | ["regrefused"] => some .regRefused
  | ["othermsg"] => some .otherMsg
  | ["disconnect"] => some .disconnectCb
  | ["recon"] => some .reconFire
  | ["stop"] => some .stopFire
  | ["local"] => some .localEv
  | ["latedata"] => some .lateData
  | _ => none

def b (x : Bool) : Nat := if x then 1 else 0

def count (l : List DcFrame) (f : DcFrame) : Nat := (l.filter (· == f)).length

def step (s : Dc) (toks : List String) : Dc × List String :=
  match evOf toks with
  | none => (s, ["BADOP"])
  | some e =>
    match s.step e with
    | none => (s, ["DISABLED"])
    | some s' =>
      let newReg := if e == .connectCb then 0 else count s'.epoch .reg - count s.epoch .reg
      let newOther := if e == .connectCb then 0 else count s'.epoch .other - count s.epoch .other
      -- for a local event: is the call made at all (the is_registered guard)? what reaches the wire is the ghost
      let oth := if e == .localEv then toString (b (s.srpc && s.registered == 1)) else "-"
      (s', [s!"DC started={b s'.started} srpc={b s'.srpc} registered={s'.registered} reg={newReg} other={oth} stale={b s'.stale}"])

def main : IO Unit := do loop (← IO.getStdin) {} step
end Driver.DevConnDrv
