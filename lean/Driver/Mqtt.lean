/- Driver/Mqtt — C16/C17 model driver for the `unpack` and `val` ops of harness/drv_mqtt.c -/
import SuplaVerif.Model.Mqtt
import SuplaVerif.Model.Cred
import SuplaVerif.Model.MqttRecv
import SuplaVerif.Gen.Consts
import SuplaVerif.Model.MqttTopic
import Driver.Common
namespace Driver.MqttDrv
open SuplaVerif Driver

def errCode : MqttErr → String
  | .forbiddenType => "ERR forbiddenType"
  | .invalidFlags => "ERR invalidFlags"
  | .invalidRemLen => "ERR invalidRemLen"
  | .malformed => "ERR malformed"
  | .otherType => "OTHER"

/-- verdicts of the handler for the packets handled during one op, in order ("-" = none); packets beyond the
    list succeed -/
def verdicts (s : String) : List Bool := if s = "-" then [] else s.toList.map (· == '1')

def showParsed : MqttRecv.Parsed → String
  | .need => "PARSE 0"
  | .bad => "PARSE ERR"
  | .pkt n => s!"PARSE {n}"

/-- observation of one op: the packets handled during it and the buffer state -/
def recvObs (before after : MqttRecv.RState) (vs : List Bool) (withErr : Bool) : List String :=
  let news := after.hs.drop before.hs.length
  let lines := (List.range news.length).map (fun k =>
    let q := news.getD k []
    s!"MQH {(q.getD 0 0).toNat / 16} {q.length} {if vs.getD k true then 1 else 0}")
  lines ++ [if withErr then s!"RECVSTATE kept={after.buf.length} err={if after.err then 1 else 0} gap={if after.gap then 1 else 0}"
            else s!"RECVSTATE kept={after.buf.length} gap={if after.gap then 1 else 0}"]

def iter (f : MqttRecv.RState → MqttRecv.RState) : Nat → MqttRecv.RState → MqttRecv.RState
  | 0, s => s
  | k + 1, s => iter f k (f s)

def step (st : MqttRecv.RState) (toks : List String) : MqttRecv.RState × List String :=
  match toks with
  | ["reset"] => ({}, [])
  | ["parse", h] =>
    match Bytes.ofHex h with
    | none => (st, ["BADOP"])
    | some b => (st, [showParsed (MqttRecv.parse b)])
  | ["seg", h, pre, v] =>
    match Bytes.ofHex h with
    | none => (st, ["BADOP"])
    | some b =>
      let vs := verdicts v
      let s0 : MqttRecv.RState := { st with err := st.err || pre == "1" }
      let hok := fun (hs : List Bytes) (_ : Bytes) => vs.getD (hs.length - s0.hs.length) true
      let s1 := MqttRecv.step MqttRecv.parse hok Gen.mqttRecvBuf s0 (.seg b)
      (s1, recvObs s0 s1 vs true)
  | ["sync", k, pre, v] =>
    match k.toNat? with
    | none => (st, ["BADOP"])
    | some n =>
      let vs := verdicts v
      let s0 : MqttRecv.RState := { st with err := st.err || pre == "1" }
      let hok := fun (hs : List Bytes) (_ : Bytes) => vs.getD (hs.length - s0.hs.length) true
      let s1 := iter (fun s => MqttRecv.step MqttRecv.parse hok Gen.mqttRecvBuf s .sync) n s0
      (s1, recvObs s0 s1 vs false)
  | ["unpack", h] =>
    match Bytes.ofHex h with
    | none => (st, ["BADOP"])
    | some b =>
      match unpackResponse b with
      | .needMore => (st, ["UNPACK 0"])
      | .err e => (st, [s!"UNPACK {errCode e}"])
      | .publish p => (st, [s!"UNPACK {p.consumed} PUBLISH qos={p.qos} dup={p.dup} ret={p.retain} pid={p.pid} topic={p.topicOff}+{p.topicLen} payload={p.payloadOff}+{p.payloadLen}"])
  | ["packhdr", ty, fl, rem] =>
    match ty.toNat?, fl.toNat?, rem.toNat? with
    | some t, some f, some r =>
      match packHeader t f r with
      | none => (st, ["PACKHDR ERR"])
      | some h => (st, [s!"PACKHDR {h.length} {hexOrDash h}"])
    | _, _, _ => (st, ["BADOP"])
  | ["topic", dv, t, m] =>
    match Bytes.ofHex dv, Bytes.ofHex t, Bytes.ofHex m with
    | some d, some tp, some ms =>
      match parserSetOn d tp ms with
      | some (ch, on) => (st, [s!"SETON 1 {ch} {on}"])
      | none => (st, ["SETON 0 0 0"])
    | _, _, _ => (st, ["BADOP"])
  | ["topicrs", dv, t, m] =>
    match Bytes.ofHex dv, Bytes.ofHex t, Bytes.ofHex m with
    | some d, some tp, some ms =>
      match parserRs d tp ms with
      | some (ch, a, pc, tl) => (st, [s!"RSACT 1 {ch} {a} {pc} {tl}"])
      | none => (st, ["RSACT 0 0 0 0 0"])
    | _, _, _ => (st, ["BADOP"])
  | ["val", u, v, p] =>
    match v.toNat?, p.toNat? with
    | some n, some pr => (st, [s!"VAL {prepareVal (u == "1") (n % 2 ^ 64) pr}"])
    | _, _ => (st, ["BADOP"])
  | ["assemble", l, t, ph, th] =>
    match l.toNat?, t.toNat?, Bytes.ofHex ph, Bytes.ofHex th with
    | some L, some T, some pass, some tail => (st, [s!"PASSWORD {hexOrDash (assemblePassword L T pass tail)}"])
    | _, _, _, _ => (st, ["BADOP"])
  | _ => (st, [])

def main : IO Unit := do loop (← IO.getStdin) {} step
end Driver.MqttDrv
