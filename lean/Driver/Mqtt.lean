/- Driver/Mqtt — C16/C17 model driver for the `unpack` and `val` ops of harness/drv_mqtt.c -/
import SuplaVerif.Model.Mqtt
import SuplaVerif.Model.Cred
import Driver.Common
namespace Driver.MqttDrv
open SuplaVerif Driver

def errCode : MqttErr → String
  | .forbiddenType => "ERR forbiddenType"
  | .invalidFlags => "ERR invalidFlags"
  | .invalidRemLen => "ERR invalidRemLen"
  | .malformed => "ERR malformed"
  | .otherType => "OTHER"

def step (_ : Unit) (toks : List String) : Unit × List String :=
  match toks with
  | ["unpack", h] =>
    match Bytes.ofHex h with
    | none => ((), ["BADOP"])
    | some b =>
      match unpackResponse b with
      | .needMore => ((), ["UNPACK 0"])
      | .err e => ((), [s!"UNPACK {errCode e}"])
      | .publish p => ((), [s!"UNPACK {p.consumed} PUBLISH qos={p.qos} dup={p.dup} ret={p.retain} pid={p.pid} topic={p.topicOff}+{p.topicLen} payload={p.payloadOff}+{p.payloadLen}"])
  | ["val", u, v, p] =>
    match v.toNat?, p.toNat? with
    | some n, some pr => ((), [s!"VAL {prepareVal (u == "1") (n % 2 ^ 64) pr}"])
    | _, _ => ((), ["BADOP"])
  | ["assemble", l, t, ph, th] =>
    match l.toNat?, t.toNat?, Bytes.ofHex ph, Bytes.ofHex th with
    | some L, some T, some pass, some tail => ((), [s!"PASSWORD {hexOrDash (assemblePassword L T pass tail)}"])
    | _, _, _, _ => ((), ["BADOP"])
  | _ => ((), [])

def main : IO Unit := do loop (← IO.getStdin) () step
end Driver.MqttDrv
