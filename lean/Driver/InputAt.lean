/- Driver/InputAt — C11 model driver for the action-trigger handling of one input:
     atcfg <typ> <cap> <channel> <hasRelay> <isRs> <cfgHold> <cfgToggle> <holdMs> <multiMs> <cfgPressMs>
     attrig <mask>
     span <t_end> [<ns>@<t> ...]     recognised state changes inside an interval, timer ticks every 20 ms in between -/
import SuplaVerif.Model.InputAt
import Driver.Common
namespace Driver.InputAtDrv
open SuplaVerif Driver

structure St where
  c : AtCfg := { typ := 2, cap := 0, channel := 255, hasRelay := false, isRs := false, cfgHold := false, cfgToggle := false,
                 holdUs := 700000, multiUs := 300000, cfgPressUs := 5000000 }
  s : AtSt := {}
  nextTick : Nat := 0       -- due time of the next callback of the input timer (meaningful while armed)
  dead : Bool := false      -- configuration mode was started: the advanced handling is over

def showOut : AtOut → String
  | .trig a => s!"AT trig {a}"
  | .localAct => "AT local"
  | .localInact => "AT localinact"
  | .cfgMode => "AT cfgmode"

def period : Nat := 20000

/-- timer callbacks due before `t` (or at `t` when `incl`) -/
partial def ticksUntil (st : St) (t : Nat) (incl : Bool) (acc : List AtOut) : St × List AtOut :=
  if st.dead || !st.s.armed then (st, acc)
  else if st.nextTick < t || (incl && st.nextTick == t) then
    let r := tick st.c st.s st.nextTick
    let dead := r.2.contains .cfgMode
    ticksUntil { st with s := r.1, nextTick := st.nextTick + period, dead := dead } t incl (acc ++ r.2)
  else (st, acc)

def applyChange (st : St) (ns : Bool) (t : Nat) : St × List AtOut :=
  let (st1, o1) := ticksUntil st t false []
  if st1.dead then (st1, o1)
  else
    let r := change st1.c st1.s ns t
    ({ st1 with s := r.1, nextTick := t + period, dead := r.2.contains .cfgMode }, o1 ++ r.2)

def parseEv (tok : String) : Option (Bool × Nat) :=
  match tok.splitOn "@" with
  | [a, b] => match b.toNat? with
    | some t => some (a == "1", t)
    | none => none
  | _ => none

def step (st : St) (toks : List String) : St × List String :=
  match toks with
  | ["atcfg", typ, cap, ch, hr, rs, ch1, ct, hold, multi, cfgp] =>
    match typ.toNat?, cap.toNat?, ch.toNat?, hold.toNat?, multi.toNat?, cfgp.toNat? with
    | some t, some cp, some cn, some h, some m, some p =>
      ({ c := { typ := t, cap := cp, channel := cn, hasRelay := hr == "1", isRs := rs == "1", cfgHold := ch1 == "1",
                cfgToggle := ct == "1", holdUs := h * 1000, multiUs := m * 1000, cfgPressUs := p * 1000 },
         s := { relayConn := hr == "1" } }, [])
    | _, _, _, _, _, _ => (st, ["BADOP"])
  | ["attrig", mask] =>
    match mask.toNat? with
    | some m =>
      let s' := setActive st.c st.s m
      ({ st with s := s' }, [s!"ATCFG active={s'.active} max={s'.maxClicks} relay={if s'.relayConn then 1 else 0}"])
    | none => (st, ["BADOP"])
  | "span" :: tend :: evs =>
    match tend.toNat? with
    | none => (st, ["BADOP"])
    | some te =>
      let (st1, outs) := evs.foldl (fun (acc : St × List AtOut) tok =>
        match parseEv tok with
        | some (ns, t) => let r := applyChange acc.1 ns t; (r.1, acc.2 ++ r.2)
        | none => acc) (st, [])
      let (st2, o2) := ticksUntil st1 te true []
      (st2, (outs ++ o2).map showOut)
  | _ => (st, [])

end Driver.InputAtDrv
