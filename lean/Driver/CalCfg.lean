/- Driver/CalCfg — C12 model driver: `calcfg chan cmd auth dtype dsize rs...` with rs items ch:flag -/
import SuplaVerif.Model.CalCfg
import SuplaVerif.Model.CfgButton
import SuplaVerif.Gen.Consts
import Driver.Common
namespace Driver.CalCfgDrv
open SuplaVerif Driver

def parseRs (s : String) : Option RsChan :=
  match s.splitOn ":" with
  | [c, f] => c.toNat?.map (fun n => { channel := n, recalFlag := f == "1" })
  | _ => none

/-- the configuration button: `cbcfg typ onHold onToggle`, then `cbspan <t_end> [<ns>@<t> ...]` with the recognised state
    changes of an interval; the 20 ms callbacks are generated here -/
structure Cb where
  c : CbCfg := { typ := 2, onHold := true, onToggle := false, pressUs := Gen.cfgBtnPressTimeMs * 1000, count := Gen.cfgBtnPressCount,
                 windowUs := 2000000 }
  s : CbSt := {}
  nextTick : Nat := 0
  started : Bool := false

partial def cbTicks (b : Cb) (t : Nat) (incl : Bool) : Cb :=
  if b.started || !b.s.armed then b
  else if b.nextTick < t || (incl && b.nextTick == t) then
    let r := cbTick b.c b.s b.nextTick
    cbTicks { b with s := r.1, nextTick := b.nextTick + 20000, started := r.2 } t incl
  else b

def cbApply (b : Cb) (tok : String) : Cb :=
  match tok.splitOn "@" with
  | [a, ts] =>
    match ts.toNat? with
    | some t =>
      let b1 := cbTicks b t false
      if b1.started then b1
      else
        let r := cbChange b1.c b1.s (a == "1") t
        { b1 with s := r.1, nextTick := t + 20000, started := r.2 }
    | none => b
  | _ => b

def step (b : Cb) (toks : List String) : Cb × List String :=
  match toks with
  | ["cbcfg", typ, oh, ot] =>
    ({ c := { typ := typ.toNat?.getD 2, onHold := oh == "1", onToggle := ot == "1", pressUs := Gen.cfgBtnPressTimeMs * 1000,
              count := Gen.cfgBtnPressCount, windowUs := 2000000 } }, [])
  | ["bootcfg", variant, bits] =>
    -- bits: locId0 locPwd0 email0 server0 wifiPwd0 ssid0 mqttEnabled mqttNoAuth locked as 0/1 characters
    let v := bits.toList.map (· == '1')
    let c : BootCfg := { locId0 := v.getD 0 false, locPwd0 := v.getD 1 false, email0 := v.getD 2 false, server0 := v.getD 3 false,
                         wifiPwd0 := v.getD 4 false, ssid0 := v.getD 5 false, mqttEnabled := v.getD 6 false,
                         mqttNoAuth := v.getD 7 false, locked := v.getD 8 false }
    (b, [s!"BOOT cfgmode={if (if variant == "mqtt" then bootCfgModeMqtt c else bootCfgModeBase c) then 1 else 0}"])
  | "cbspan" :: tend :: evs =>
    match tend.toNat? with
    | none => (b, ["BADOP"])
    | some te =>
      let was := b.started
      let b1 := cbTicks (evs.foldl cbApply b) te true
      (b1, if b1.started && !was then ["CB cfgmode"] else [])
  | "calcfg" :: ch :: cmd :: auth :: dt :: ds :: rs =>
    match ch.toInt?, cmd.toInt?, auth.toNat?, dt.toInt?, ds.toNat?, rs.mapM parseRs with
    | some c, some cm, some a, some d, some n, some l =>
      let o := calcfg Gen.calConsts { channel := c, command := cm, auth := a, dataType := d, dataSize := n } l
      (b, [s!"RESULT {o.result} CFGMODE {if o.enterCfg then 1 else 0} RECAL {o.recalibrated}"])
    | _, _, _, _, _, _ => (b, ["BADOP"])
  | _ => (b, [])

def main : IO Unit := do loop (← IO.getStdin) {} step
end Driver.CalCfgDrv
