/- Driver/CalCfg — C12 model driver: `calcfg chan cmd auth dtype dsize rs...` with rs items ch:flag -/
import SuplaVerif.Model.CalCfg
import SuplaVerif.Gen.Consts
import Driver.Common
namespace Driver.CalCfgDrv
open SuplaVerif Driver

def parseRs (s : String) : Option RsChan :=
  match s.splitOn ":" with
  | [c, f] => c.toNat?.map (fun n => { channel := n, recalFlag := f == "1" })
  | _ => none

def step (_ : Unit) (toks : List String) : Unit × List String :=
  match toks with
  | "calcfg" :: ch :: cmd :: auth :: dt :: ds :: rs =>
    match ch.toInt?, cmd.toInt?, auth.toNat?, dt.toInt?, ds.toNat?, rs.mapM parseRs with
    | some c, some cm, some a, some d, some n, some l =>
      let o := calcfg Gen.calConsts { channel := c, command := cm, auth := a, dataType := d, dataSize := n } l
      ((), [s!"RESULT {o.result} CFGMODE {if o.enterCfg then 1 else 0} RECAL {o.recalibrated}"])
    | _, _, _, _, _, _ => ((), ["BADOP"])
  | _ => ((), [])

def main : IO Unit := do loop (← IO.getStdin) () step
end Driver.CalCfgDrv
