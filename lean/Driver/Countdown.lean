/- Driver/Countdown — C07 model driver: items set explicitly, callback at a given uptime -/
import SuplaVerif.Model.Countdown
import SuplaVerif.Gen.Consts
import Driver.Common
namespace Driver.CountdownDrv
open SuplaVerif Driver

abbrev St := List CdItem

def init : St := List.replicate 8 { channel := 255, left := 0, last := 0 }

def step (s : St) (toks : List String) : St × List String :=
  match toks with
  | ["init"] => (init, [])
  | ["cdset", i, ch, l, la] =>
    match i.toNat?, ch.toNat?, l.toNat?, la.toNat? with
    | some i, some c, some l, some la => (s.set i { channel := c, left := l, last := la }, [])
    | _, _, _, _ => (s, ["BADOP"])
  | ["cdcb", now] =>
    match now.toNat? with
    | some n =>
      let rs := s.map (fun it => it.tick n)
      let fin := (s.zip rs).filterMap (fun (o, r) => if r.2 then some s!"FINISH {o.channel}" else none)
      let s' := rs.map (·.1)
      let items := (List.range s'.length).filterMap (fun k =>
        match s'[k]? with
        | some it => if it.channel ≠ 255 then some s!"ITEM {k} {it.channel} {it.left}" else none
        | none => none)
      (s', fin ++ items ++ [s!"DELAY {cdDelay Gen.cdParams s'}"])
    | none => (s, ["BADOP"])
  | _ => (s, [])

def main : IO Unit := do loop (← IO.getStdin) init step
end Driver.CountdownDrv
