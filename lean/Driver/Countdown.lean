/- Driver/Countdown — C07 model driver: items set explicitly, callback at a given uptime -/
import SuplaVerif.Model.Countdown
import SuplaVerif.Model.Relay
import SuplaVerif.Gen.Consts
import Driver.Common
namespace Driver.CountdownDrv
open SuplaVerif Driver

structure St where
  items : List CdItem
  pub : List Nat

def init : St := { items := List.replicate 8 { channel := 255, left := 0, last := 0 }, pub := List.replicate Gen.cdT2Count 0 }

def step (s : St) (toks : List String) : St × List String :=
  match toks with
  | ["init"] => (init, [])
  | ["cdset", i, ch, l, la] =>
    match i.toNat?, ch.toNat?, l.toNat?, la.toNat? with
    | some i, some c, some l, some la => ({ s with items := s.items.set i { channel := c, left := l, last := la } }, [])
    | _, _, _, _ => (s, ["BADOP"])
  | ["setdur", t2, v, d, l, f] =>
    match t2.toNat?, v.toNat?, d.toNat?, l.toNat? with
    | some t2, some v, some d, some l =>
      let i : DurIn := { time2 := t2, newValue := v, dur := d, left := l, cdFlag := f == "1" }
      (s, [if i.arms then s!"DUR {i.eff} 1 {i.target}" else "DUR 0 0 -"])
    | _, _, _, _ => (s, ["BADOP"])
  | ["relboot", lo, force, plain, reason, want] =>
    -- a relay that was last switched to `want` and then restarted: what was remembered, the logical state after the boot
    match reason.toNat? with
    | some r =>
      let c : RelayCfg := { loLevel := lo == "1" }
      let sv := relaySaved (force == "1" || plain == "1") (want == "1")
      let svs := match sv with
        | some b => if b then "1" else "0"
        | none => "-"
      (s, [s!"RELBOOT saved={svs} logical={if logicalAfterBoot c (force == "1") (plain == "1") r (want == "1") then 1 else 0}"])
    | none => (s, ["BADOP"])
  | ["cdcb", now] =>
    match now.toNat? with
    | some n =>
      let rs := s.items.map (fun it => it.tick n)
      let fin := (s.items.zip rs).filterMap (fun (o, r) => if r.2 then some s!"FINISH {o.channel}" else none)
      let all := cdTickAll n s.items s.pub
      let s' := all.1
      let items := (List.range s'.length).filterMap (fun k =>
        match s'[k]? with
        | some it => if it.channel ≠ 255 then some s!"ITEM {k} {it.channel} {it.left}" else none
        | none => none)
      ({ items := s', pub := all.2 }, fin ++ items ++ [s!"DELAY {cdDelay Gen.cdParams s'}", "T2L " ++ " ".intercalate (all.2.map toString)])
    | none => (s, ["BADOP"])
  | _ => (s, [])

def main : IO Unit := do loop (← IO.getStdin) init step
end Driver.CountdownDrv
