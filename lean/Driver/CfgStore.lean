/- Driver/CfgStore — C13 model driver: `save <sector> <rec> <erase outcome> <write outcome>`, `accept <sector>` -/
import SuplaVerif.Model.CfgStore
import SuplaVerif.Gen.Consts
import Driver.Common
namespace Driver.CfgStoreDrv
open SuplaVerif Driver

def outcome : String → FlashOutcome
  | "0" => .failNoEffect | "1" => .failWithEffect | _ => .ok

def step (_ : Unit) (toks : List String) : Unit × List String :=
  match toks with
  | ["save", sh, rh, e, w] =>
    match Bytes.ofHex sh, Bytes.ofHex rh with
    | some s, some r =>
      let o := cfgSave Gen.cfgLayout s r (outcome e) (outcome w)
      ((), [s!"SAVERET {if o.1 then 1 else 0}", s!"SECTOR {Bytes.toHex o.2}"])
    | _, _ => ((), ["BADOP"])
  | ["accept", sh] =>
    match Bytes.ofHex sh with
    | some s => ((), [s!"ACCEPT {if cfgAccept Gen.cfgLayout s then 1 else 0}"])
    | none => ((), ["BADOP"])
  | _ => ((), [])

def main : IO Unit := do loop (← IO.getStdin) () step
end Driver.CfgStoreDrv
