/- Driver/MqttAck — C16 model driver for the acknowledgement / QoS flow bookkeeping (harness: drv_mqtt, `seg` ops carrying one packet) -/
import SuplaVerif.Model.MqttAck
import Driver.Common
namespace Driver.MqttAckDrv
open SuplaVerif SuplaVerif.MqttAck

def showOut (o : Out) : String :=
  let st := match o.staged with
    | none => "-"
    | some (t, p) => s!"{t}:{p}"
  s!"AQ err={if o.err then 1 else 0} deliv={if o.delivered then 1 else 0} staged={st}"

def pktOf (name : String) (a b : Nat) : Option Pkt :=
  match name with
  | "publish" => some (.publish a b)
  | "puback" => some (.puback a)
  | "pubrec" => some (.pubrec a)
  | "pubrel" => some (.pubrel a)
  | "pubcomp" => some (.pubcomp a)
  | "suback" => some (.suback a)
  | "unsuback" => some (.unsuback a)
  | _ => none

def step (q : MQ) (toks : List String) : MQ × List String :=
  match toks with
  | ["reset"] => ([], [])
  | ["own", ty, pid] =>
    match ty.toNat?, pid.toNat? with
    | some t, some p => ((MqttAck.step q (.own t p)).1, [])
    | _, _ => (q, ["BADOP"])
  | ["flush"] => ((MqttAck.step q .flush).1, [])
  | ["clean"] => ((MqttAck.step q .clean).1, [])
  | ["pkt", name, a, b] =>
    match a.toNat?, b.toNat? with
    | some x, some y =>
      match pktOf name x y with
      | some p => let r := MqttAck.step q (.pkt p); (r.1, [showOut r.2])
      | none => (q, ["BADOP"])
    | _, _ => (q, ["BADOP"])
  | _ => (q, [])

def main : IO Unit := do loop (← IO.getStdin) ([] : MQ) step
end Driver.MqttAckDrv
