/- Driver/KeepAlive — C05 model driver: the decision of one timer1 / watchdog tick -/
import SuplaVerif.Model.KeepAlive
import SuplaVerif.Gen.Consts
import Driver.Common
namespace Driver.KeepAliveDrv
open SuplaVerif Driver

def showD : KaDecision → String
  | .none => "DECISION none" | .ping => "DECISION ping"
  | .reconnect => "DECISION reconnect" | .restart => "DECISION restart"

def step (_ : Unit) (toks : List String) : Unit × List String :=
  match toks with
  | ["t1", t, now, ls, lr] =>
    match t.toInt?, now.toNat?, ls.toNat?, lr.toNat? with
    | some T, some n, some a, some b => ((), [showD (timer1 Gen.kaConsts T (n % W32) (a % W32) (b % W32))])
    | _, _, _, _ => ((), ["BADOP"])
  | ["wd", t, now, lr, nc] =>
    match t.toInt?, now.toNat?, lr.toNat?, nc.toNat? with
    | some T, some n, some b, some c => ((), [showD (watchdog Gen.kaConsts T (n % W32) (b % W32) (c % W32))])
    | _, _, _, _ => ((), ["BADOP"])
  | _ => ((), [])

def main : IO Unit := do loop (← IO.getStdin) () step
end Driver.KeepAliveDrv
