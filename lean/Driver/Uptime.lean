/- Driver/Uptime — C19 model driver (mirror of harness/drv_uptime.c) -/
import SuplaVerif.Model.Uptime
import Driver.Common
namespace Driver.UptimeDrv
open SuplaVerif Driver

structure St where
  boot : Nat := 0
  now : Nat := 0
  inited : Bool := false
  nextRefresh : Nat := 0      -- due time of the 10 s refresh timer
  u : Uptime := {}

/-- run the periodic refresh polls due in (now, now+d] -/
partial def advance (s : St) (d : Nat) : St :=
  let target := s.now + d
  if s.inited && s.nextRefresh ≤ target then
    let u' := (s.u.poll (cnt s.boot s.nextRefresh)).1
    advance { s with now := s.nextRefresh, nextRefresh := s.nextRefresh + 10000000, u := u' } (target - s.nextRefresh)
  else { s with now := target }

def step (s : St) (toks : List String) : St × List String :=
  match toks with
  | ["boot", b] => match b.toNat? with
    | some n => ({ s with boot := n % W32 }, [])
    | none => (s, ["BADOP"])
  | ["init"] => ({ s with inited := true, u := {}, nextRefresh := s.now + 10000000 }, [])
  | ["advus", d] => match d.toNat? with
    | some n => (advance s n, [])
    | none => (s, ["BADOP"])
  | ["poll"] =>
    let t := cnt s.boot s.now
    let (u1, us) := s.u.poll t
    let (u2, us2) := u1.poll t
    let (u3, us3) := u2.poll t
    ({ s with u := u3 }, [s!"UPTIME {us} {us2 / 1000} {(us3 / 1000 / 1000) % W32}"])
  | _ => (s, ["BADOP"])

def main : IO Unit := do loop (← IO.getStdin) ({} : St) step
end Driver.UptimeDrv
