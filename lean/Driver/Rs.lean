/- Driver/Rs — C08 model driver: replays the set_relay calls observed on the implementation
   (hook lines) through Model/RsRelay and prints the GPIO writes the model predicts. -/
import SuplaVerif.Model.RsRelay
import SuplaVerif.Gen.Consts
import Driver.Common
namespace Driver.RsDrv
open SuplaVerif Driver

def P := Gen.rsParams

structure St where
  boot : Nat := 0
  rs : List Rs := List.replicate 8 {}

def showObs : RsObs → String
  | .gpio pin lvl t _ => s!"GPIO {pin} {if lvl then 1 else 0} {t}"
  | .mismatch w => s!"MISMATCH {w}"

def nat! (s : String) : Nat := s.toNat?.getD 0

def step (st : St) (toks : List String) : St × List String :=
  match toks with
  | ["boot", b] => ({ st with boot := nat! b % W32 }, [])
  | ["stamp", i, a, b, u, d] =>
    let r : Rs := { startT := nat! a, stopT := nat! b, up := u == "1", down := d == "1", boot := st.boot }
    ({ st with rs := st.rs.set (nat! i) r }, [])
  | ["setrelay", i, v, sd, bu, bd, gu, gd, t] =>
    let r := { (st.rs.getD (nat! i) {}) with now := nat! t, boot := st.boot }
    let (r', o) := Rs.setRelay P r (nat! v) (sd == "1") (bu == "1") (bd == "1") (nat! gu) (nat! gd)
    ({ st with rs := st.rs.set (nat! i) r' }, o.map showObs)
  | ["trigfire", i, bu, bd, gu, gd, t] =>
    let r0 := st.rs.getD (nat! i) {}
    -- the SDK runs an overdue timer late (callbacks run to completion): due ≤ t ≤ due + 50 ms
    let due := match r0.trig with
      | some (_, d) => if d ≤ nat! t ∧ nat! t ≤ d + 50000 then "TRIGDUE ok" else s!"TRIGDUE {d} fired {t}"
      | none => "TRIGDUE none"
    let r := { r0 with now := nat! t, boot := st.boot }
    let (r', o) := Rs.fireTrigger P r (bu == "1") (bd == "1") (nat! gu) (nat! gd)
    ({ st with rs := st.rs.set (nat! i) r' }, due :: o.map showObs)
  | ["swap", i] =>
    ({ st with rs := st.rs.set (nat! i) (st.rs.getD (nat! i) {}).swap }, [])
  | _ => (st, ["BADOP"])

def main : IO Unit := do loop (← IO.getStdin) ({} : St) step
end Driver.RsDrv
