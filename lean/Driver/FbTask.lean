/- Driver/FbTask — C10 model driver for facade blinds: fbcfg / fbstate / fbtask / fbmove / fbfire / fbtick -/
import SuplaVerif.Model.FbTask
import Driver.Common
namespace Driver.FbTaskDrv
open SuplaVerif Driver

abbrev St := FbP × FbT

def show' (s : FbT) : String :=
  s!"FT pos={s.pos} tilt={s.tilt} rel={s.rel} ts={s.tstate} dir={s.dir} upT={s.upT} downT={s.downT}"

def step (st : St) (toks : List String) : St × List String :=
  match toks with
  | ["fbcfg", fo, fc, m, im, tt, tms] =>
    match fo.toNat?, fc.toNat?, m.toNat?, tt.toNat?, tms.toNat? with
    | some fo, some fc, some m, some tt, some tms =>
      (({ fo := fo, fc := fc, margin := m, inMove := im == "1", ttype := tt, tiltMs := tms }, st.2), [])
    | _, _, _, _, _ => (st, ["BADOP"])
  | ["fbstate", pos, tilt, upT, downT, rel, ts, dir] =>
    match pos.toNat?, tilt.toNat?, upT.toNat?, downT.toNat?, rel.toNat?, ts.toNat?, dir.toNat? with
    | some p, some tl, some u, some d, some r, some t, some di =>
      ((st.1, { pos := p, tilt := tl, upT := u, downT := d, rel := r, tstate := t, dir := di }), [])
    | _, _, _, _, _, _, _ => (st, ["BADOP"])
  | ["fbtask", g, gt] =>
    match g.toInt?, gt.toInt? with
    | some g, some gt => ((st.1, fbAddTask st.1 st.2 g gt), [])
    | _, _ => (st, ["BADOP"])
  | ["fbmove", r] =>
    match r.toNat? with
    | some r => ((st.1, fbMoveCmd st.1 st.2 r), [])
    | none => (st, ["BADOP"])
  | ["fbfire"] => ((st.1, fbFireTrig st.1 st.2), [])
  | ["fbtick", dt] =>
    match dt.toNat? with
    | some dt => let s' := fbTick st.1 st.2 dt; ((st.1, s'), [show' s'])
    | none => (st, ["BADOP"])
  | _ => (st, [])

end Driver.FbTaskDrv
