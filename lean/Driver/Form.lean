/- Driver/Form — C14 model driver: field value decoding and numeric acceptance -/
import SuplaVerif.Model.Form
import SuplaVerif.Model.Cred
import SuplaVerif.Model.FormScan
import SuplaVerif.Model.FormFlags
import SuplaVerif.Gen.FormTable
import Driver.Common
namespace Driver.FormDrv
open SuplaVerif Driver

def hx (b : List UInt8) : String := if b.isEmpty then "-" else Bytes.toHex b

def step (_ : Unit) (toks : List String) : Unit × List String :=
  match toks with
  | ["field", sz, rest] =>
    match sz.toNat?, Bytes.ofHex rest with
    | some sz, some r => ((), [s!"VAL {hx (fieldValue sz r)}"])
    | _, _ => ((), ["BADOP"])
  | ["port", old, rest] =>
    match old.toInt?, Bytes.ofHex rest with
    | some o, some r => ((), [s!"NUM {applyPort o (fieldValue 12 r)}"])
    | _, _ => ((), ["BADOP"])
  | ["qos", old, rest] =>
    match old.toInt?, Bytes.ofHex rest with
    | some o, some r => ((), [s!"NUM {applyQos o (fieldValue 12 r)}"])
    | _, _ => ((), ["BADOP"])
  | ["flags", w, pro, ret, tls, mau] =>
    -- a field is "-" (absent), "1" (first character '1') or anything else (present, not '1')
    let f := fun (x : String) => if x == "-" then (none : Option Bool) else some (x == "1")
    match w.toNat? with
    | some n => ((), [s!"FLAGS {flagsAfter n (f pro) (f ret) (f tls) (f mau)}"])
    | none => ((), ["BADOP"])
  | ["keeppwd", l, e, op, om, nm] =>
    match l.toNat?, e.toNat?, Bytes.ofHex op, Bytes.ofHex om, Bytes.ofHex nm with
    | some L, some E, some oldPwd, some oldMail, some newMail =>
      let r := keepLongPassword L E oldPwd oldMail newMail
      ((), [s!"KEEP {hx r.1} {hx r.2}"])
    | _, _, _, _, _ => ((), ["BADOP"])
  | ["scan", mq, seg] =>
    match Bytes.ofHex seg with
    | some sg =>
      match postScan Gen.formTable Gen.formPro (mq == "1") sg with
      | some (m, evs, _) =>
        let first := m - evs.length
        let lines := (evs.zip (List.range evs.length)).map (fun p => s!"FVAR {p.1.1} {hx (SuplaVerif.cstr p.1.2)} 1 {first + p.2}")
        ((), lines ++ [s!"COUNT {m} {if m ≥ Gen.formMinFields then 1 else 0}"])
      | none => ((), ["COUNT 0 0"])
    | none => ((), ["BADOP"])
  | ["margin", rest] =>
    match Bytes.ofHex rest with
    | some r => ((), [s!"NUM {applyMargin (fieldValue 12 r)}"])
    | none => ((), ["BADOP"])
  | _ => ((), [])

def main : IO Unit := do loop (← IO.getStdin) () step
end Driver.FormDrv
