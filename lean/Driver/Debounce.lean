/- Driver/Debounce — C11 model driver: `debprobe <initial level> <step> <value> <bits>` -/
import SuplaVerif.Model.Debounce
import SuplaVerif.Gen.Consts
import Driver.Common
import Driver.InputAt
namespace Driver.DebounceDrv
open SuplaVerif Driver

def b2n (b : Bool) : Nat := if b then 1 else 0

def go (m : Nat) : Deb → Bool → List Char → List String
  | _, _, [] => []
  | d, cur, c :: cs =>
    let v := c == '1'
    let r := d.sample m v
    let stepLine := s!"STEP {r.1.step} {if r.1.step = 0 then 0 else b2n r.1.value}"
    match r.2 with
    | some n => if n ≠ cur then stepLine :: s!"NOTIFY {b2n n}" :: go m r.1 n cs else stepLine :: go m r.1 cur cs
    | none => stepLine :: go m r.1 cur cs

def step (a : InputAtDrv.St) (toks : List String) : InputAtDrv.St × List String :=
  match toks with
  | ["debprobe", inst, st, val, bits] =>
    let d : Deb := { step := st.toNat?.getD 0, value := val == "1" }
    (a, s!"INSTATE {inst}" :: go Gen.inputMinCycle d.edge (inst == "1") bits.toList)
  | _ => InputAtDrv.step a toks

def main : IO Unit := do loop (← IO.getStdin) {} step
end Driver.DebounceDrv
