/- Driver/Dns — C20 model driver (mirror of harness/drv_dns.c) -/
import SuplaVerif.Model.Dns
import SuplaVerif.Gen.Consts
import Driver.Common
namespace Driver.DnsDrv
open SuplaVerif Driver

def P := Gen.dnsParams

def showIp (b : Bytes) : String := ".".intercalate (b.map (fun x => toString x.toNat))

def showObs : DnsObs → String
  | .callback none => "CALLBACK null"
  | .callback (some ip) => s!"CALLBACK {showIp ip}"
  | .connect k => s!"CONNECT {k}"
  | .connectRefused => "CONNECTREFUSED"
  | .sent h l => s!"SENT {if h then 1 else 0} {l}"
  | .disconnect => "DISCONNECT"
  | .notArmed => "NOTARMED"
  | .noConn => "NOCONN"

def b2n (b : Bool) : Nat := if b then 1 else 0

def step (s : Dns) (toks : List String) : Dns × List String :=
  let ev : Option DnsEv :=
    match toks with
    | ["resolve", "NULL"] => some (.resolve none true)
    | ["resolve", "EMPTY"] => some (.resolve (some []) true)
    | ["resolve", n] => some (.resolve (some (n.toUTF8.toList)) true)
    | ["connected", c] => some (.connected (c == "0"))
    | ["reply", h] => (Bytes.ofHex h).map DnsEv.reply
    | ["disc"] => some .disconnected
    | ["fire", "timeout"] => some .fireTimeout
    | ["fire", "retry"] => some .fireRetry
    | _ => none
  match toks with
  | "connres" :: codes =>
    -- results of the next espconn_connect calls: 0 = the request is accepted
    let s' := { s with connScript := codes.map (· == "0") }
    (s', [s!"STATE {b2n s'.success} {s'.tries} {b2n s'.timeoutArmed} {b2n s'.retryArmed}"])
  | _ =>
  match ev with
  | none => (s, ["BADOP", s!"STATE {b2n s.success} {s.tries} {b2n s.timeoutArmed} {b2n s.retryArmed}"])
  | some e =>
    let (s', o) := Dns.step P s e
    (s', o.map showObs ++ [s!"STATE {b2n s'.success} {s'.tries} {b2n s'.timeoutArmed} {b2n s'.retryArmed}"])

def main : IO Unit := do loop (← IO.getStdin) ({} : Dns) step
end Driver.DnsDrv
