/- Driver/Common — line protocol helpers shared by the model drivers -/
import SuplaVerif.Base.Bytes
namespace Driver
open SuplaVerif

def tokens (line : String) : List String :=
  (line.trimAscii.toString.splitOn " ").filter (· ≠ "")

def hexOrDash (b : Bytes) : String := if b.isEmpty then "-" else Bytes.toHex b

/-- read all ops, call `step` per op line, print observations followed by "." -/
partial def loop {σ : Type} (h : IO.FS.Stream) (st : σ) (step : σ → List String → σ × List String) :
    IO Unit := do
  let line ← h.getLine
  if line.isEmpty then return ()
  let toks := tokens line
  match toks with
  | [] => loop h st step
  | t :: _ =>
    if t.startsWith "#" then loop h st step
    else
      let (st', outs) := step st toks
      for o in outs do IO.println o
      IO.println "."
      loop h st' step

end Driver
