/-
  Lemmas/Proto — `sproto_pop_in_sdp` (model `popInSdp`) implements the grammar `parseHead`
  on the buffered bytes, under the buffer invariant; buffer invariants are preserved.
-/
import SuplaVerif.Lemmas.Frame

namespace SuplaVerif
open Bytes

/-- invariant of the proto in-buffer -/
structure AccBuf.Inv (P : ProtoParams) (b : AccBuf) : Prop where
  tagOk : b.beginTag = true → 5 ≤ b.data.length ∧ b.data.take 5 = TAG
  fits  : b.data.length ≤ b.size
  below : b.size < P.bufMax

theorem AccBuf.Inv.init (P : ProtoParams) (h : 0 < P.bufMax) : ({} : AccBuf).Inv P :=
  ⟨by simp, by simp, by simpa using h⟩

theorem AccBuf.shrink_all (P : ProtoParams) (b : AccBuf) :
    (b.shrink P b.data.length).data = [] ∧ (b.shrink P b.data.length).beginTag = false := by
  simp [AccBuf.shrink]

theorem AccBuf.shrink_data (P : ProtoParams) (b : AccBuf) (n : Nat) :
    (b.shrink P n).data = b.data.drop n ∧ (b.shrink P n).beginTag = false := by
  simp [AccBuf.shrink]

theorem AccBuf.shrink_inv (P : ProtoParams) (b : AccBuf) (n : Nat) (hb : b.Inv P)
    (hm : P.bufMin < P.bufMax) : (b.shrink P n).Inv P := by
  obtain ⟨_, hf, hbel⟩ := hb
  refine ⟨by simp [AccBuf.shrink], ?_, ?_⟩
  · simp only [AccBuf.shrink, AccBuf.shrinkSize, List.length_drop]
    split <;> (try split) <;> omega
  · simp only [AccBuf.shrink, AccBuf.shrinkSize]
    split <;> (try split) <;> omega

theorem AccBuf.appendSize_ge (P : ProtoParams) (b : AccBuf) (n : Nat) (hf : b.data.length ≤ b.size) :
    b.data.length + n ≤ b.appendSize P n := by
  unfold AccBuf.appendSize
  split <;> split <;> omega

theorem AccBuf.append_ok (P : ProtoParams) (b : AccBuf) (d : Bytes) (hb : b.Inv P)
    (h : (b.append P d).1 = .ok) :
    (b.append P d).2.Inv P ∧ (b.append P d).2.data = b.data ++ d ∧
      (b.append P d).2.beginTag = b.beginTag := by
  obtain ⟨ht, hf, hbel⟩ := hb
  unfold AccBuf.append at h ⊢
  by_cases hlt : b.appendSize P d.length ≥ P.bufMax
  · rw [if_pos hlt] at h; cases h
  · rw [if_neg hlt]
    refine ⟨⟨?_, ?_, by simpa using hlt⟩, rfl, rfl⟩
    · intro hbt
      have := ht hbt
      simp only [List.length_append]
      refine ⟨by omega, ?_⟩
      rw [List.take_append_of_le_length (by omega)]; exact this.2
    · simpa using AccBuf.appendSize_ge P b d.length hf

theorem AccBuf.append_fail (P : ProtoParams) (b : AccBuf) (d : Bytes)
    (h : (b.append P d).1 ≠ .ok) : (b.append P d).2 = b := by
  unfold AccBuf.append at h ⊢
  by_cases hlt : b.appendSize P d.length ≥ P.bufMax
  · rw [if_pos hlt]
  · rw [if_neg hlt] at h; exact absurd rfl h

theorem beginTag_false_of_short (P : ProtoParams) (b : AccBuf) (hb : b.Inv P) (h : b.data.length < 5) :
    b.beginTag = false := by
  cases hbt : b.beginTag with
  | false => rfl
  | true => have := (hb.tagOk hbt).1; omega

theorem beginTag_false_of_badtag (P : ProtoParams) (b : AccBuf) (hb : b.Inv P)
    (h : b.data.take 5 ≠ TAG) : b.beginTag = false := by
  cases hbt : b.beginTag with
  | false => rfl
  | true => exact absurd (hb.tagOk hbt).2 h

/-- facts established by a `needMore` verdict -/
theorem parseHead_needMore_inv (P : ProtoParams) (d : Bytes) (h : parseHead P d = .needMore) :
    d.length < 5 ∨ (5 ≤ d.length ∧ d.take 5 = TAG ∧ d.length - 5 < P.hdr) ∨
    (5 ≤ d.length ∧ d.take 5 = TAG ∧ P.hdr ≤ d.length - 5 ∧
      ¬((d.getD 5 0).toNat > P.ver ∨ (d.getD 5 0).toNat < P.verMin) ∧
      le32 (d.drop 14) ≤ P.maxData ∧ P.hdr + le32 (d.drop 14) + 5 > d.length) := by
  unfold parseHead at h
  split at h; · left; assumption
  split at h; · cases h
  rename_i h5 ht
  split at h; · right; left; exact ⟨by omega, by simpa using ht, by assumption⟩
  split at h; · cases h
  split at h; · cases h
  split at h
  · right; right; rename_i a b c d; exact ⟨by omega, by simpa using ht, by omega, b, by omega, d⟩
  split at h <;> cases h

theorem parseHead_bad_inv (P : ProtoParams) (d : Bytes) (h : parseHead P d = .bad) :
    (5 ≤ d.length ∧ d.take 5 ≠ TAG) ∨
    (5 ≤ d.length ∧ d.take 5 = TAG ∧ P.hdr ≤ d.length - 5 ∧
      ¬((d.getD 5 0).toNat > P.ver ∨ (d.getD 5 0).toNat < P.verMin) ∧
      (le32 (d.drop 14) > P.maxData ∨
       (le32 (d.drop 14) ≤ P.maxData ∧ P.hdr + le32 (d.drop 14) + 5 ≤ d.length ∧
        (d.drop (P.hdr + le32 (d.drop 14))).take 5 ≠ TAG))) := by
  unfold parseHead at h
  split at h; · cases h
  split at h; · left; rename_i a b; exact ⟨by omega, b⟩
  rename_i h5 ht
  split at h; · cases h
  split at h; · cases h
  rename_i hh hv
  split at h
  · right; rename_i hb; exact ⟨by omega, by simpa using ht, by omega, hv, Or.inl hb⟩
  split at h; · cases h
  split at h
  · right; rename_i a b c; exact ⟨by omega, by simpa using ht, by omega, hv, Or.inr ⟨by omega, by omega, c⟩⟩
  · cases h

theorem parseHead_badVersion_inv (P : ProtoParams) (d : Bytes) (h : parseHead P d = .badVersion) :
    5 ≤ d.length ∧ d.take 5 = TAG ∧ P.hdr ≤ d.length - 5 ∧
      ((d.getD 5 0).toNat > P.ver ∨ (d.getD 5 0).toNat < P.verMin) := by
  unfold parseHead at h
  split at h; · cases h
  split at h; · cases h
  rename_i h5 ht
  split at h; · cases h
  split at h
  · rename_i a b; exact ⟨by omega, by simpa using ht, by omega, b⟩
  split at h; · cases h
  split at h; · cases h
  split at h <;> cases h

theorem popInSdp_needMore (P : ProtoParams) (hP : P.WF) (b : AccBuf) (scratch : Bytes) (hb : b.Inv P)
    (h : parseHead P b.data = .needMore) :
    ∃ b', popInSdp P b scratch = (.false_, b', scratch) ∧ b'.data = b.data ∧ b'.Inv P := by
  have hmax := hP.maxLt
  unfold U32 at hmax
  have hinvT : 5 ≤ b.data.length → b.data.take 5 = TAG → ({ b with beginTag := true } : AccBuf).Inv P :=
    fun h5 ht => ⟨fun _ => ⟨h5, ht⟩, hb.fits, hb.below⟩
  rcases parseHead_needMore_inv P b.data h with h1 | ⟨h5, ht, hh⟩ | ⟨h5, ht, hh, hv, hds, hnm⟩
  · have hbt := beginTag_false_of_short P b hb h1
    refine ⟨b, ?_, rfl, hb⟩
    unfold popInSdp
    rw [if_neg (by omega), if_pos ⟨hbt, h1⟩]
  · refine ⟨{ b with beginTag := true }, ?_, rfl, hinvT h5 ht⟩
    unfold popInSdp
    rw [if_neg (by simp [ht]), if_neg (by omega), if_pos hh]
  · refine ⟨{ b with beginTag := true }, ?_, rfl, hinvT h5 ht⟩
    have hsum : (P.hdr + le32 (b.data.drop 14)) % U32 = P.hdr + le32 (b.data.drop 14) := by
      unfold U32; apply Nat.mod_eq_of_lt; omega
    have hsum5 : (P.hdr + le32 (b.data.drop 14) + 5) % U32 = P.hdr + le32 (b.data.drop 14) + 5 := by
      unfold U32; apply Nat.mod_eq_of_lt; omega
    unfold popInSdp
    rw [if_neg (by simp [ht]), if_neg (by omega), if_neg (by omega), if_neg hv, hsum, hsum5,
      if_neg (by omega), if_pos hnm]

theorem popInSdp_bad (P : ProtoParams) (hP : P.WF) (hm : P.bufMin < P.bufMax) (b : AccBuf)
    (scratch : Bytes) (hb : b.Inv P) (h : parseHead P b.data = .bad) :
    ∃ b' sdp, popInSdp P b scratch = (.dataError, b', sdp) ∧ b'.data = [] ∧ b'.Inv P := by
  have hmax := hP.maxLt
  unfold U32 at hmax
  have hinvall : (b.shrink P b.data.length).Inv P := AccBuf.shrink_inv P b _ hb hm
  have hdall := (AccBuf.shrink_all P b).1
  refine ⟨_, scratch, ?_, hdall, hinvall⟩
  rcases parseHead_bad_inv P b.data h with ⟨h5, ht⟩ | ⟨h5, ht, hh, hv, hbig | ⟨hds, hlen, hend⟩⟩
  · have hbt := beginTag_false_of_badtag P b hb ht
    unfold popInSdp
    rw [if_pos ⟨hbt, h5, ht⟩]
  · unfold popInSdp
    rw [if_neg (by simp [ht]), if_neg (by omega), if_neg (by omega), if_neg hv, if_pos (Or.inl hbig)]
  · have hsum : (P.hdr + le32 (b.data.drop 14)) % U32 = P.hdr + le32 (b.data.drop 14) := by
      unfold U32; apply Nat.mod_eq_of_lt; omega
    have hsum5 : (P.hdr + le32 (b.data.drop 14) + 5) % U32 = P.hdr + le32 (b.data.drop 14) + 5 := by
      unfold U32; apply Nat.mod_eq_of_lt; omega
    unfold popInSdp
    rw [if_neg (by simp [ht]), if_neg (by omega), if_neg (by omega), if_neg hv, hsum, hsum5,
      if_neg (by omega), if_neg (by omega), if_pos (Or.inr hend)]

theorem popInSdp_badVersion (P : ProtoParams) (hm : P.bufMin < P.bufMax) (b : AccBuf)
    (scratch : Bytes) (hb : b.Inv P) (h : parseHead P b.data = .badVersion) :
    ∃ b' sdp, popInSdp P b scratch = (.versionError, b', sdp) ∧ b'.data = [] ∧ b'.Inv P := by
  have hinvall : (b.shrink P b.data.length).Inv P := AccBuf.shrink_inv P b _ hb hm
  have hdall := (AccBuf.shrink_all P b).1
  obtain ⟨h5, ht, hh, hv⟩ := parseHead_badVersion_inv P b.data h
  refine ⟨_, scratch.take 5 ++ [b.data.getD 5 0] ++ scratch.drop 6, ?_, hdall, hinvall⟩
  unfold popInSdp
  rw [if_neg (by simp [ht]), if_neg (by omega), if_neg (by omega), if_pos hv]

theorem popInSdp_frame (P : ProtoParams) (hP : P.WF) (hm : P.bufMin < P.bufMax) (b : AccBuf)
    (scratch : Bytes) (hb : b.Inv P) (f : Frame) (rest : Bytes)
    (h : parseHead P b.data = .frame f rest) :
    ∃ b' sdp, popInSdp P b scratch = (.ok, b', sdp) ∧ b'.data = rest ∧ decodeSdp P sdp = f ∧
      b'.Inv P := by
  have hmax := hP.maxLt
  have h18 := hP.hdr18
  unfold U32 at hmax
  obtain ⟨h5, ht, hh, hv, hds, hlen, hend, hf, hr⟩ := parseHead_frame_inv P b.data f rest h
  have hsum : (P.hdr + le32 (b.data.drop 14)) % U32 = P.hdr + le32 (b.data.drop 14) := by
    unfold U32; apply Nat.mod_eq_of_lt; omega
  have hsum5 : (P.hdr + le32 (b.data.drop 14) + 5) % U32 = P.hdr + le32 (b.data.drop 14) + 5 := by
    unfold U32; apply Nat.mod_eq_of_lt; omega
  have hfit := hb.fits
  refine ⟨b.shrink P (P.hdr + le32 (b.data.drop 14) + 5),
    overlay scratch b.data (P.hdr + le32 (b.data.drop 14)), ?_, ?_, ?_,
    AccBuf.shrink_inv P b (P.hdr + le32 (b.data.drop 14) + 5) hb hm⟩
  · unfold popInSdp
    rw [if_neg (by simp [ht]), if_neg (by omega), if_neg (by omega), if_neg hv, hsum, hsum5,
      if_neg (by omega), if_neg (by omega), if_neg (by simp [hend]; omega)]
  · rw [(AccBuf.shrink_data P b _).1, hr]
  · -- the delivered packet image decodes to the frame of the grammar
    rw [hf]
    generalize hdsg : le32 (b.data.drop 14) = ds at *
    unfold decodeSdp overlay
    have hn : P.hdr + ds ≤ b.data.length := by omega
    rw [getD_take_append _ _ 5 _ (by omega) hn,
      le32_drop_take_append _ _ 6 _ (by omega) hn,
      le32_drop_take_append _ _ 10 _ (by omega) hn,
      le32_drop_take_append _ _ 14 _ (by omega) hn, hdsg]
    congr 1
    rw [List.drop_append_of_le_length (by simp [List.length_take]; omega)]
    rw [List.take_append_of_le_length (by simp [List.length_take, List.length_drop]; omega)]
    rw [List.drop_take, List.take_take]
    congr 1
    omega

end SuplaVerif
