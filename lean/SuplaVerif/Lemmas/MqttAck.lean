/-
  Lemmas/MqttAck — proofs about Model/MqttAck: counting the PUBRECs that wait for their PUBREL, the refinement of the flow
  specification by every event, acknowledgements need their request. The property statements are in Props/C16.
-/
import SuplaVerif.Model.MqttAck
namespace SuplaVerif.MqttAck

/-! ## proofs -/

theorem pending_iff (q : MQ) (ty pid : Nat) : pending q ty pid = true ↔ 0 < cnt q ty pid := by
  unfold pending cnt
  rw [List.countP_pos_iff, List.any_eq_true]

theorem isPending_done (ty pid : Nat) (m : QMsg) : isPending ty pid { m with done := true } = false := by
  simp [isPending]

theorem cnt_append (q : MQ) (m : QMsg) (ty pid : Nat) :
    cnt (q ++ [m]) ty pid = cnt q ty pid + (if isPending ty pid m then 1 else 0) := by
  unfold cnt; rw [List.countP_append]; simp [List.countP_cons]

theorem cnt_markFirst_same (q : MQ) (ty pid : Nat) :
    cnt (markFirst (isPending ty pid) q) ty pid = cnt q ty pid - 1 := by
  unfold cnt
  induction q with
  | nil => simp [markFirst]
  | cons m q ih =>
    unfold markFirst
    by_cases h : isPending ty pid m = true
    · rw [if_pos h, List.countP_cons, List.countP_cons, isPending_done, if_pos h]; simp
    · rw [if_neg h, List.countP_cons, List.countP_cons, ih]
      simp only [h]; simp

theorem cnt_markFirst_other (q : MQ) (ty pid ty' pid' : Nat) (hne : ¬ (ty' = ty ∧ pid' = pid)) :
    cnt (markFirst (isPending ty pid) q) ty' pid' = cnt q ty' pid' := by
  unfold cnt
  induction q with
  | nil => simp [markFirst]
  | cons m q ih =>
    unfold markFirst
    by_cases h : isPending ty pid m = true
    · rw [if_pos h, List.countP_cons, List.countP_cons]
      have h1 : isPending ty' pid' m = false := by
        simp [isPending] at h ⊢
        intro a b; exact absurd ⟨by omega, by omega⟩ hne
      have h2 : isPending ty' pid' { m with done := true } = false := isPending_done _ _ _
      rw [h1, h2]
    · rw [if_neg h, List.countP_cons, List.countP_cons, ih]

theorem cnt_ackOf_other (q : MQ) (ty pid : Nat) (stage : Option Nat) (ty' pid' : Nat) (h1 : ty ≠ ty')
    (h2 : ∀ t, stage = some t → t ≠ ty') : cnt (ackOf q ty pid stage).1 ty' pid' = cnt q ty' pid' := by
  unfold ackOf complete
  by_cases hp : pending q ty pid = true
  · rw [if_pos hp]
    cases stage with
    | none => simp only; exact cnt_markFirst_other q ty pid ty' pid' (fun h => h1 h.1.symm)
    | some t =>
      simp only
      rw [cnt_append, cnt_markFirst_other q ty pid ty' pid' (fun h => h1 h.1.symm)]
      have : isPending ty' pid' ⟨t, pid, false⟩ = false := by
        simp [isPending]; intro a; exact absurd a (h2 t rfl)
      rw [this]; simp
  · rw [if_neg hp]
    by_cases hf : found q ty pid = true
    · rw [if_pos hf]
      cases stage with
      | none => rfl
      | some t =>
        simp only
        rw [cnt_append]
        have : isPending ty' pid' ⟨t, pid, false⟩ = false := by
          simp [isPending]; intro a; exact absurd a (h2 t rfl)
        rw [this]; simp
    · rw [if_neg hf]

theorem cnt_pubrel (q : MQ) (pid pid' : Nat) (hI : Inv q) :
    cnt (ackOf q 5 pid (some 7)).1 5 pid' = if pid' = pid then 0 else cnt q 5 pid' := by
  unfold ackOf complete
  have hnew : ∀ p, isPending 5 p ⟨7, pid, false⟩ = false := by intro p; simp [isPending]
  by_cases hp : pending q 5 pid = true
  · rw [if_pos hp]; simp only
    rw [cnt_append, hnew]
    by_cases he : pid' = pid
    · subst he; rw [if_pos rfl, cnt_markFirst_same]; have := hI pid'; simp; omega
    · rw [if_neg he, cnt_markFirst_other q 5 pid 5 pid' (fun h => he h.2)]; simp
  · rw [if_neg hp]
    have h0 : cnt q 5 pid = 0 := by
      have : ¬ 0 < cnt q 5 pid := fun h => hp ((pending_iff q 5 pid).mpr h)
      omega
    by_cases hf : found q 5 pid = true
    · rw [if_pos hf]; simp only
      rw [cnt_append, hnew]
      by_cases he : pid' = pid
      · subst he; rw [if_pos rfl]; simp; exact h0
      · rw [if_neg he]; simp
    · rw [if_neg hf]; simp only
      by_cases he : pid' = pid
      · subst he; rw [if_pos rfl]; exact h0
      · rw [if_neg he]

theorem cnt_flush (q : MQ) (pid : Nat) :
    cnt (q.map (fun m => if m.ty = 4 ∨ m.ty = 7 then { m with done := true } else m)) 5 pid = cnt q 5 pid := by
  unfold cnt
  induction q with
  | nil => rfl
  | cons m q ih =>
    rw [List.map_cons, List.countP_cons, List.countP_cons, ih]
    congr 1
    by_cases h : m.ty = 4 ∨ m.ty = 7
    · rw [if_pos h]
      have : isPending 5 pid m = false := by simp [isPending]; intro a; omega
      rw [this, isPending_done]
    · rw [if_neg h]

theorem cnt_clean (q : MQ) (ty pid : Nat) : cnt (q.dropWhile (·.done)) ty pid = cnt q ty pid := by
  unfold cnt
  induction q with
  | nil => rfl
  | cons m q ih =>
    rw [List.dropWhile_cons]
    by_cases h : m.done = true
    · rw [if_pos h, ih, List.countP_cons]
      have : isPending ty pid m = false := by simp [isPending, h]
      rw [this]; simp
    · rw [if_neg h]

/-- the waiting PUBRECs after one event -/
def cntAfter (q : MQ) (e : Ev) (pid' : Nat) : Nat :=
  match e with
  | .pkt (.publish qos pid) => if qos = 2 ∧ pid' = pid ∧ cnt q 5 pid = 0 then 1 else cnt q 5 pid'
  | .pkt (.pubrel pid) => if pid' = pid then 0 else cnt q 5 pid'
  | _ => cnt q 5 pid'

theorem cnt_step (q : MQ) (e : Ev) (hI : Inv q) (hw : e.wf) (pid' : Nat) :
    cnt (step q e).1 5 pid' = cntAfter q e pid' := by
  cases e with
  | flush => exact cnt_flush q pid'
  | clean => exact cnt_clean q 5 pid'
  | own ty pid =>
    simp only [step, cntAfter]
    rw [cnt_append]
    have hw' : ty ≠ 5 := hw
    have : isPending 5 pid' ⟨ty, pid, false⟩ = false := by
      simp [isPending]; intro a; first | exact absurd a hw' | exact absurd a.symm hw'
    rw [this]; simp
  | pkt p =>
    cases p with
    | puback pid => exact cnt_ackOf_other q 3 pid none 5 pid' (by decide) (by intro t h; cases h)
    | pubcomp pid => exact cnt_ackOf_other q 6 pid none 5 pid' (by decide) (by intro t h; cases h)
    | suback pid => exact cnt_ackOf_other q 8 pid none 5 pid' (by decide) (by intro t h; cases h)
    | unsuback pid => exact cnt_ackOf_other q 10 pid none 5 pid' (by decide) (by intro t h; cases h)
    | pubrel pid => exact cnt_pubrel q pid pid' hI
    | pubrec pid =>
      simp only [step, handle, cntAfter]
      by_cases hf : found q 6 pid = true
      · rw [if_pos hf]
      · rw [if_neg hf]; exact cnt_ackOf_other q 3 pid (some 6) 5 pid' (by decide) (by intro t h; cases h; decide)
    | publish qos pid =>
      simp only [step, handle, cntAfter]
      by_cases h1 : qos = 1
      · have e1 : ¬ (qos = 2 ∧ pid' = pid ∧ cnt q 5 pid = 0) := by omega
        rw [if_pos h1, if_neg e1, cnt_append]
        simp [isPending]
      · rw [if_neg h1]
        by_cases h2 : qos = 2
        · rw [if_pos h2]
          by_cases hp : pending q 5 pid = true
          · have hpos := (pending_iff q 5 pid).mp hp
            have e1 : ¬ (qos = 2 ∧ pid' = pid ∧ cnt q 5 pid = 0) := by omega
            rw [if_pos hp, if_neg e1]
          · have h0 : cnt q 5 pid = 0 := by
              have : ¬ 0 < cnt q 5 pid := fun h => hp ((pending_iff q 5 pid).mpr h)
              omega
            rw [if_neg hp]
            simp only
            rw [cnt_append]
            by_cases he : pid' = pid
            · have e1 : qos = 2 ∧ pid' = pid ∧ cnt q 5 pid = 0 := ⟨h2, he, h0⟩
              rw [if_pos e1]; subst he; rw [h0]; simp [isPending]
            · have e1 : ¬ (qos = 2 ∧ pid' = pid ∧ cnt q 5 pid = 0) := fun h => he h.2.1
              rw [if_neg e1]
              have : isPending 5 pid' ⟨5, pid, false⟩ = false := by simp [isPending]; omega
              rw [this]; simp
        · have e1 : ¬ (qos = 2 ∧ pid' = pid ∧ cnt q 5 pid = 0) := fun h => h2 h.1
          rw [if_neg h2, if_neg e1]

/-! ## property theorems -/

theorem complete_found (q q' : MQ) (ty pid : Nat) (h : complete q ty pid = some q') : found q ty pid = true := by
  unfold complete at h
  by_cases hp : pending q ty pid = true
  · unfold pending at hp; unfold found
    rw [List.any_eq_true] at hp ⊢
    obtain ⟨m, hm, hpm⟩ := hp
    refine ⟨m, hm, ?_⟩
    simp [isPending] at hpm; simp [isAny, hpm.1]
  · rw [if_neg hp] at h
    by_cases hf : found q ty pid = true
    · exact hf
    · rw [if_neg hf] at h; cases h

theorem ackOf_ok (q : MQ) (ty pid : Nat) (stage : Option Nat) (h : (ackOf q ty pid stage).2.err = false) :
    found q ty pid = true := by
  unfold ackOf at h
  cases hc : complete q ty pid with
  | none => rw [hc] at h; simp at h
  | some q' => exact complete_found q q' ty pid hc

/-- (C16.10) for every queue and every acknowledgement: if it is accepted, the queue
    holds the message it answers - same control type, same packet id (for a PUBREC also: the PUBREL already packed in answer
    to an earlier copy of it). A type-blind or id-blind search would not have this property. -/
theorem ack_needs_request (q : MQ) (p : Pkt) (ty pid : Nat) (ha : p.answers = some (ty, pid))
    (hok : (handle q p).2.err = false) :
    found q ty pid = true ∨ (p = .pubrec pid ∧ found q 6 pid = true) := by
  cases p with
  | publish a b => cases ha
  | puback x => cases ha; exact Or.inl (ackOf_ok q 3 _ none hok)
  | pubrel x => cases ha; exact Or.inl (ackOf_ok q 5 _ (some 7) hok)
  | pubcomp x => cases ha; exact Or.inl (ackOf_ok q 6 _ none hok)
  | suback x => cases ha; exact Or.inl (ackOf_ok q 8 _ none hok)
  | unsuback x => cases ha; exact Or.inl (ackOf_ok q 10 _ none hok)
  | pubrec x =>
    cases ha
    simp only [handle] at hok
    by_cases hf : found q 6 pid = true
    · exact Or.inr ⟨rfl, hf⟩
    · rw [if_neg hf] at hok; exact Or.inl (ackOf_ok q 3 _ (some 6) hok)

theorem cntAfter_le (q : MQ) (e : Ev) (hI : Inv q) (pid' : Nat) : cntAfter q e pid' ≤ 1 := by
  have := hI pid'
  unfold cntAfter
  split
  · split <;> omega
  · split <;> omega
  · omega

/-- (C16.11) -/
theorem step_refines (q : MQ) (o : List Nat) (e : Ev) (hI : Inv q) (hA : Abs q o) (hw : e.wf) :
    Inv (step q e).1 ∧ Abs (step q e).1 (specStep o e).1 ∧
    (∀ qos pid, e = .pkt (.publish qos pid) → (step q e).2.delivered = (specStep o e).2) := by
  refine ⟨fun p => by rw [cnt_step q e hI hw p]; exact cntAfter_le q e hI p, fun p => ?_, ?_⟩
  · rw [cnt_step q e hI hw p]
    cases e with
    | flush => exact hA p
    | clean => exact hA p
    | own a b => exact hA p
    | pkt pk =>
      cases pk with
      | puback x => exact hA p
      | pubrec x => exact hA p
      | pubcomp x => exact hA p
      | suback x => exact hA p
      | unsuback x => exact hA p
      | pubrel x =>
        simp only [cntAfter, specStep, List.mem_filter]
        by_cases he : p = x
        · rw [if_pos he]; simp [he]
        · rw [if_neg he]; simp [he]; exact hA p
      | publish qos x =>
        simp only [cntAfter, specStep]
        by_cases h2 : qos = 2
        · rw [if_pos h2]
          by_cases hx : x ∈ o
          · rw [if_pos hx]
            have := (hA x).mpr hx
            rw [if_neg (by omega)]; exact hA p
          · rw [if_neg hx]
            have h0 : cnt q 5 x = 0 := by
              have : ¬ 0 < cnt q 5 x := fun h => hx ((hA x).mp h)
              omega
            by_cases he : p = x
            · rw [if_pos ⟨h2, he, h0⟩]; simp [he]
            · rw [if_neg (fun h => he h.2.1)]; simp [he]; exact hA p
        · rw [if_neg (fun h => h2 h.1), if_neg h2]; exact hA p
  · intro qos pid he
    subst he
    simp only [step, handle, specStep]
    by_cases h1 : qos = 1
    · rw [if_pos h1, if_neg (by omega)]
    · rw [if_neg h1]
      by_cases h2 : qos = 2
      · rw [if_pos h2, if_pos h2]
        by_cases hx : pid ∈ o
        · have hp : pending q 5 pid = true := (pending_iff q 5 pid).mpr ((hA pid).mpr hx)
          rw [if_pos hp, if_pos hx]
        · have hp : ¬ pending q 5 pid = true := fun h => hx ((hA pid).mp ((pending_iff q 5 pid).mp h))
          rw [if_neg hp, if_neg hx]
      · rw [if_neg h2, if_neg h2]

/-- (C16.12) whatever the broker sends and however sending and cleaning of the queue
    interleave: the callbacks are exactly those of the flow specification - every QoS 0/1 PUBLISH, and of the QoS 2 PUBLISH
    packets with one packet id the first one and every first one after a PUBREL. In particular a packet id that is used again
    after its flow was released is a new message and is handed over. -/
theorem qos2_exactly_once (es : List Ev) : ∀ (q : MQ) (o : List Nat), Inv q → Abs q o → (∀ e ∈ es, e.wf) →
    deliveries q es = specDeliveries o es := by
  induction es with
  | nil => intros; rfl
  | cons e es ih =>
    intro q o hI hA hw
    obtain ⟨h1, h2, h3⟩ := step_refines q o e hI hA (hw e List.mem_cons_self)
    unfold deliveries specDeliveries
    rw [ih (step q e).1 (specStep o e).1 h1 h2 (fun e' he' => hw e' (List.mem_cons_of_mem _ he'))]
    congr 1
    cases e with
    | pkt p =>
      cases p with
      | publish qos pid => simp only; rw [h3 qos pid rfl]
      | _ => rfl
    | _ => rfl

theorem inv_nil : Inv [] ∧ Abs [] [] := ⟨fun _ => by simp [cnt], fun _ => by simp [cnt]⟩

end SuplaVerif.MqttAck
