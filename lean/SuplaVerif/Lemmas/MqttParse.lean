/-
  Lemmas/MqttParse — the byte-level parser `MqttRecv.parse` (mqtt_unpack_response) satisfies `ParserOK`:
  a result other than "need more" never changes when more bytes arrive, and a packet lies inside the bytes.
-/
import SuplaVerif.Model.MqttRecv
namespace SuplaVerif.MqttRecv
open Bytes

theorem getD_append_lt (b x : Bytes) (i : Nat) (h : i < b.length) : (b ++ x).getD i 0 = b.getD i 0 := by
  simp [List.getD_eq_getElem?_getD, List.getElem?_append_left h]

/-- a decoded remaining length was decoded from bytes that are there: later bytes do not change it -/
theorem remLen_append (b x : Bytes) : ∀ (fuel i shift acc : Nat) (r : Option (Nat × Nat)),
    remLen b fuel i shift acc = some r → remLen (b ++ x) fuel i shift acc = some r := by
  intro fuel
  induction fuel with
  | zero => intro i shift acc r h; simpa [remLen] using h
  | succ f ih =>
    intro i shift acc r h
    unfold remLen at h ⊢
    by_cases h1 : shift = 28
    · rw [if_pos h1] at h ⊢; exact h
    · rw [if_neg h1] at h ⊢
      by_cases h2 : i ≥ b.length
      · rw [if_pos h2] at h; cases h
      · rw [if_neg h2] at h
        have hi : i < b.length := by omega
        have h2' : ¬ i ≥ (b ++ x).length := by simp; omega
        rw [if_neg h2', getD_append_lt b x i hi]
        simp only at h ⊢
        by_cases h3 : (b.getD i 0).toNat ≥ 128
        · rw [if_pos h3] at h ⊢; exact ih _ _ _ _ h
        · rw [if_neg h3] at h ⊢; exact h

/-- the header ends inside the bytes, after position `i` -/
theorem remLen_bounds (b : Bytes) : ∀ (fuel i shift acc rem hdr : Nat),
    remLen b fuel i shift acc = some (some (rem, hdr)) → i < hdr ∧ hdr ≤ b.length := by
  intro fuel
  induction fuel with
  | zero => intro i shift acc rem hdr h; simp [remLen] at h
  | succ f ih =>
    intro i shift acc rem hdr h
    unfold remLen at h
    by_cases h1 : shift = 28
    · rw [if_pos h1] at h; cases h
    · rw [if_neg h1] at h
      by_cases h2 : i ≥ b.length
      · rw [if_pos h2] at h; cases h
      · rw [if_neg h2] at h
        simp only at h
        by_cases h3 : (b.getD i 0).toNat ≥ 128
        · rw [if_pos h3] at h
          have := ih _ _ _ _ _ h
          omega
        · rw [if_neg h3] at h
          injection h with h; injection h with h; injection h with ha hb
          omega

theorem be16_append (l x : Bytes) (h : 2 ≤ l.length) : be16 (l ++ x) = be16 l := by
  unfold be16
  rw [getD_append_lt l x 0 (by omega), getD_append_lt l x 1 (by omega)]

/-- the type-specific part: a packet is inside the bytes -/
theorem parseBody_size (b : Bytes) (ty flags rem hdr n : Nat) (hh : 0 < hdr ∧ hdr ≤ b.length)
    (h : parseBody b ty flags rem hdr = .pkt n) : 0 < n ∧ n ≤ b.length := by
  unfold parseBody at h
  split at h
  · cases h
  · split at h
    · cases h
    · split at h
      · cases h
      · rename_i hlen
        split at h
        · split at h
          · cases h
          · split at h
            · cases h
            · split at h
              · cases h
              · injection h with h; omega
        · split at h
          · split at h
            · cases h
            · split at h
              · cases h
              · injection h with h; omega
          · split at h
            · split at h
              · cases h
              · injection h with h; omega
            · split at h
              · split at h
                · cases h
                · injection h with h; omega
              · split at h
                · injection h with h; omega
                · cases h

/-- the type-specific part does not look behind the packet once it is complete -/
theorem parseBody_append (b x : Bytes) (ty flags rem hdr : Nat) (hh : hdr ≤ b.length)
    (hne : parseBody b ty flags rem hdr ≠ .need) :
    parseBody (b ++ x) ty flags rem hdr = parseBody b ty flags rem hdr := by
  unfold parseBody at hne ⊢
  by_cases h1 : ty = 0 ∨ ty = 15
  · rw [if_pos h1, if_pos h1]
  · rw [if_neg h1] at hne ⊢; rw [if_neg h1]
    by_cases h2 : ty ≠ 3 ∧ flags ≠ reqFlags ty
    · rw [if_pos h2, if_pos h2]
    · rw [if_neg h2] at hne ⊢; rw [if_neg h2]
      by_cases h3 : b.length - hdr < rem
      · rw [if_pos h3] at hne; exact absurd rfl hne
      · have h3' : ¬ (b ++ x).length - hdr < rem := by simp; omega
        rw [if_neg h3', if_neg h3]
        by_cases h4 : ty = 2
        · rw [if_pos h4, if_pos h4]
          by_cases h5 : rem ≠ 2
          · rw [if_pos h5, if_pos h5]
          · rw [if_neg h5, if_neg h5]
            have hr : rem = 2 := by omega
            rw [getD_append_lt b x hdr (by omega), getD_append_lt b x (hdr + 1) (by omega)]
        · rw [if_neg h4, if_neg h4]
          by_cases h6 : ty = 3
          · rw [if_pos h6, if_pos h6]
            by_cases h7 : rem < 4
            · rw [if_pos h7, if_pos h7]
            · rw [if_neg h7, if_neg h7]
              have : (b ++ x).drop hdr = b.drop hdr ++ x := by
                rw [List.drop_append_of_le_length hh]
              rw [this, be16_append _ _ (by simp [List.length_drop]; omega)]
          · rw [if_neg h6, if_neg h6]

theorem parse_size (b : Bytes) (n : Nat) (h : parse b = .pkt n) : 0 < n ∧ n ≤ b.length := by
  unfold parse at h
  split at h
  · cases h
  · split at h
    · cases h
    · cases h
    · rename_i rem hdr hr
      have hb := remLen_bounds b 5 1 0 0 rem hdr hr
      exact parseBody_size b _ _ rem hdr n ⟨by omega, hb.2⟩ h

theorem parse_append (b x : Bytes) (hne : parse b ≠ .need) : parse (b ++ x) = parse b := by
  unfold parse at hne ⊢
  by_cases h1 : b.length < 2
  · rw [if_pos h1] at hne; exact absurd rfl hne
  · have h1' : ¬ (b ++ x).length < 2 := by simp; omega
    rw [if_neg h1'] ; rw [if_neg h1] at hne ⊢
    cases hr : remLen b 5 1 0 0 with
    | none => rw [hr] at hne; exact absurd rfl hne
    | some o =>
      rw [remLen_append b x 5 1 0 0 o hr]
      cases o with
      | none => rfl
      | some rh =>
        obtain ⟨rem, hdr⟩ := rh
        rw [hr] at hne
        simp only at hne ⊢
        have hb := remLen_bounds b 5 1 0 0 rem hdr hr
        rw [getD_append_lt b x 0 (by omega)]
        exact parseBody_append b x _ _ rem hdr hb.2 hne

theorem parse_ok : ParserOK parse where
  empty := by decide
  size := parse_size
  pktStable := by
    intro b x n h
    rw [parse_append b x (by rw [h]; intro c; cases c), h]
  badStable := by
    intro b x h
    rw [parse_append b x (by rw [h]; intro c; cases c), h]

end SuplaVerif.MqttRecv
