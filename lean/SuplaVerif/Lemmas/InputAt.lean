/-
  Lemmas/InputAt — step lemmas about the action-trigger handling of a monostable button (Model/InputAt):
  what a press, a release and a 20 ms timer callback do in each phase of a multi-click burst.
-/
import SuplaVerif.Model.InputAt
namespace SuplaVerif

/-- a plain monostable button in action-trigger mode: no configuration-button gestures on it, TURN_OFF not active -/
structure PlainMono (c : AtCfg) (s : AtSt) : Prop where
  typ : c.typ = 2
  noHold : c.cfgHold = false
  noToggle : c.cfgToggle = false
  noTurnOff : Nat.land capTurnOff s.active = 0

/-- fields of the state that presses, releases and timer callbacks never touch -/
def SameCfg (s s' : AtSt) : Prop :=
  s'.active = s.active ∧ s'.relayConn = s.relayConn ∧ s'.maxClicks = s.maxClicks

theorem SameCfg.refl (s : AtSt) : SameCfg s s := ⟨rfl, rfl, rfl⟩
theorem SameCfg.trans {a b c : AtSt} (h1 : SameCfg a b) (h2 : SameCfg b c) : SameCfg a c :=
  ⟨h2.1.trans h1.1, h2.2.1.trans h1.2.1, h2.2.2.trans h1.2.2⟩

theorem PlainMono.of_same {c : AtCfg} {s s' : AtSt} (h : PlainMono c s) (hs : SameCfg s s') : PlainMono c s' :=
  ⟨h.typ, h.noHold, h.noToggle, by rw [hs.1]; exact h.noTurnOff⟩

/-- the resolution only looks at the click count, the relay connection, the level and the active set -/
theorem sendAt_congr (c : AtCfg) (s s' : AtSt) (a : Nat) (h1 : s'.click = s.click) (h2 : s'.relayConn = s.relayConn)
    (h3 : s'.last = s.last) (h4 : s'.active = s.active) : sendAt c s' a = sendAt c s a := by
  unfold sendAt emit
  rw [h1, h2, h3, h4]

theorem emit_turnOff_none (c : AtCfg) (s : AtSt) (h : Nat.land capTurnOff s.active = 0) : emit c s capTurnOff = [] := by
  unfold emit
  rw [if_pos (Or.inr (Or.inl h))]

/-- press: one more click (unless the burst is already resolved), nothing is sent -/
theorem press_step (c : AtCfg) (s : AtSt) (h : PlainMono c s) (now : Nat) :
    (change c s true now).2 = [] ∧ (change c s true now).1.last = true ∧ (change c s true now).1.armed = true ∧
    (change c s true now).1.click = (if s.click = -1 then -1 else s.click + 1) ∧ SameCfg s (change c s true now).1 := by
  unfold change
  simp only [h.typ, h.noToggle]
  by_cases hc : s.click = -1
  · simp [hc, SameCfg]
  · simp [hc, SameCfg]

/-- release: nothing is counted, nothing is sent -/
theorem release_step (c : AtCfg) (s : AtSt) (h : PlainMono c s) (now : Nat) :
    (change c s false now).2 = [] ∧ (change c s false now).1.last = false ∧ (change c s false now).1.armed = true ∧
    (change c s false now).1.click = s.click ∧ SameCfg s (change c s false now).1 := by
  unfold change
  simp only [h.typ]
  have he : ∀ s' : AtSt, s'.active = s.active → sendAt c s' capTurnOff = [] := by
    intro s' hs'
    unfold sendAt
    rw [if_neg (by decide : ¬ capTurnOff = 0)]
    exact emit_turnOff_none c s' (by rw [hs']; exact h.noTurnOff)
  simp [SameCfg, he]

/-- a timer callback while the button is pressed, before the hold time: nothing happens -/
theorem wait_pressed (c : AtCfg) (s : AtSt) (h : PlainMono c s) (hl : s.last = true) (δ : Nat) (hδ : δ < c.holdUs) :
    tickD c s δ = (s, []) := by
  unfold tickD
  by_cases ha : s.armed = true
  · simp only [ha, Bool.not_true, Bool.false_eq_true, if_false, h.typ, hl, h.noHold]
    have hnh : ¬ δ ≥ c.holdUs := by omega
    by_cases hc : s.click = -1
    · simp [hc, hl]
    · simp [hc, hnh, hl]
  · simp [ha]

/-- a timer callback while released, inside the multi-click time, below the highest detectable count: nothing happens -/
theorem wait_released_below (c : AtCfg) (s : AtSt) (h : PlainMono c s) (hl : s.last = false) (δ : Nat)
    (hδ : δ < c.multiUs) (hk : s.click < (s.maxClicks : Int)) : tickD c s δ = (s, []) := by
  unfold tickD
  by_cases ha : s.armed = true
  · simp only [ha, Bool.not_true, Bool.false_eq_true, if_false, h.typ, hl]
    have h1 : ¬ δ ≥ c.multiUs := by omega
    have h2 : ¬ s.click ≥ (s.maxClicks : Int) := by omega
    simp [h1, h2]
  · simp [ha]

/-- the first timer callback after the release of the click that reaches the highest detectable count (two or more):
    the burst is resolved with that count at once and closed -/
theorem wait_released_cap (c : AtCfg) (s : AtSt) (h : PlainMono c s) (hl : s.last = false) (ha : s.armed = true) (δ : Nat)
    (hδ : δ < c.multiUs) (hk : s.click ≥ (s.maxClicks : Int)) (hm : 2 ≤ s.maxClicks) :
    (tickD c s δ).2 = sendAt c s 0 ∧ (tickD c s δ).1 = { s with click := -1 } := by
  unfold tickD
  simp only [ha, Bool.not_true, Bool.false_eq_true, if_false, h.typ, hl]
  have h1 : ¬ δ ≥ c.multiUs := by omega
  have h2 : ¬ s.maxClicks ≤ 1 := by omega
  simp [h1, hk, h2, hl, ha]

/-- the quiet period ends the burst: it is resolved with the count reached (nothing if it was resolved before) -/
theorem wait_released_quiet (c : AtCfg) (s : AtSt) (h : PlainMono c s) (hl : s.last = false) (ha : s.armed = true) (δ : Nat)
    (hδ : c.multiUs ≤ δ) :
    (tickD c s δ).2 = sendAt c s 0 ∧ (tickD c s δ).1 = { s with armed := false, click := 0 } := by
  unfold tickD
  simp only [ha, Bool.not_true, Bool.false_eq_true, if_false, h.typ, hl]
  simp [hδ, hl, ha]

/-- a list of timer callbacks each of which does nothing -/
theorem run_noop_waits (c : AtCfg) (s : AtSt) (ws : List Nat) (hno : ∀ δ ∈ ws, tickD c s δ = (s, [])) :
    runAt c s (ws.map .wait) = (s, []) := by
  induction ws with
  | nil => rfl
  | cons w ws ih =>
    have hw := hno w (by simp)
    simp only [List.map_cons, runAt, stepAt, hw, List.nil_append]
    exact ih (fun δ hδ => hno δ (by simp [hδ]))

theorem runAt_append (c : AtCfg) (s : AtSt) (xs ys : List AtStep) :
    runAt c s (xs ++ ys) = ((runAt c (runAt c s xs).1 ys).1, (runAt c s xs).2 ++ (runAt c (runAt c s xs).1 ys).2) := by
  induction xs generalizing s with
  | nil => simp [runAt]
  | cons x xs ih =>
    simp only [List.cons_append, runAt]
    rw [ih]
    simp [List.append_assoc]

/-! ### one quick click, a burst of quick clicks -/

/-- one quick click as the handler sees it: press, callbacks while pressed, release, callbacks while released -/
def quickClick (wp wr : List Nat) : List AtStep := .press :: (wp.map .wait ++ .release :: wr.map .wait)

/-- "quick": released again before the hold time, pressed again (or left alone) inside the multi-click time; at least
    one timer callback falls between a release and the next press (the debounce alone takes five periods) -/
structure Quick (c : AtCfg) (wp wr : List Nat) : Prop where
  pressed : ∀ δ ∈ wp, δ < c.holdUs
  released : ∀ δ ∈ wr, δ < c.multiUs
  ticked : wr ≠ []

/-- the click counter after one more quick click (-1: the burst has been resolved) -/
def nextCount (M : Nat) (k : Int) : Int := if k = -1 then -1 else if k + 1 ≥ (M : Int) then -1 else k + 1

theorem one_click (c : AtCfg) (s : AtSt) (wp wr : List Nat) (h : PlainMono c s) (hq : Quick c wp wr)
    (hl : s.last = false) (hm : 2 ≤ s.maxClicks) (hk : s.click = -1 ∨ (0 ≤ s.click ∧ s.click < (s.maxClicks : Int))) :
    (runAt c s (quickClick wp wr)).1.last = false ∧
    (runAt c s (quickClick wp wr)).1.click = nextCount s.maxClicks s.click ∧
    (runAt c s (quickClick wp wr)).1.armed = true ∧
    SameCfg s (runAt c s (quickClick wp wr)).1 ∧
    (runAt c s (quickClick wp wr)).2 =
      (if s.click ≠ -1 ∧ s.click + 1 ≥ (s.maxClicks : Int) then sendAt c { s with click := s.click + 1, last := false } 0 else []) := by
  obtain ⟨p1, p2, p3, p4, p5⟩ := press_step c s h 0
  -- state after the press
  generalize hsp : (change c s true 0).1 = sp at p2 p3 p4 p5
  have hpm : PlainMono c sp := h.of_same p5
  have hwp : runAt c sp (wp.map .wait) = (sp, []) :=
    run_noop_waits c sp wp (fun δ hδ => wait_pressed c sp hpm p2 δ (hq.pressed δ hδ))
  obtain ⟨r1, r2, r3, r4, r5⟩ := release_step c sp hpm 0
  generalize hsr : (change c sp false 0).1 = sr at r2 r3 r4 r5
  have hrm : PlainMono c sr := hpm.of_same r5
  have hsame : SameCfg s sr := p5.trans r5
  have hmax : sr.maxClicks = s.maxClicks := hsame.2.2
  -- unfold the run up to the release
  have hrun : runAt c s (quickClick wp wr) =
      ((runAt c sr (wr.map .wait)).1, (runAt c sr (wr.map .wait)).2) := by
    unfold quickClick
    simp only [runAt, stepAt, hsp, p1, List.nil_append]
    rw [runAt_append, hwp]
    simp only [runAt, stepAt, hsr, r1, List.nil_append]
  rw [hrun]
  have hclick : sr.click = (if s.click = -1 then -1 else s.click + 1) := by rw [r4, p4]
  by_cases hres : s.click = -1
  · -- already resolved: everything is swallowed
    have hc : sr.click = -1 := by rw [hclick, if_pos hres]
    have hnoop : runAt c sr (wr.map .wait) = (sr, []) :=
      run_noop_waits c sr wr (fun δ hδ => wait_released_below c sr hrm r2 δ (hq.released δ hδ) (by rw [hc]; omega))
    rw [hnoop]
    refine ⟨r2, ?_, r3, hsame, ?_⟩
    · simp [nextCount, hres, hc]
    · simp [hres]
  · have hc : sr.click = s.click + 1 := by rw [hclick, if_neg hres]
    have hk' : 0 ≤ s.click ∧ s.click < (s.maxClicks : Int) := by
      rcases hk with h1 | h1
      · exact absurd h1 hres
      · exact h1
    by_cases hreach : s.click + 1 ≥ (s.maxClicks : Int)
    · -- this click reaches the highest detectable count: resolved at the first callback after the release
      cases hwr : wr with
      | nil => exact absurd hwr hq.ticked
      | cons w ws =>
        have hw : w < c.multiUs := hq.released w (by rw [hwr]; simp)
        obtain ⟨c1, c2⟩ := wait_released_cap c sr hrm r2 r3 w hw (by rw [hc, hmax]; exact hreach) (by rw [hmax]; exact hm)
        have hrm2 : PlainMono c { sr with click := -1 } := ⟨hrm.typ, hrm.noHold, hrm.noToggle, hrm.noTurnOff⟩
        have hnoop : runAt c { sr with click := -1 } (ws.map .wait) = ({ sr with click := -1 }, []) :=
          run_noop_waits c _ ws (fun δ hδ => wait_released_below c _ hrm2 r2 δ
            (hq.released δ (by rw [hwr]; simp [hδ])) (by simp; omega))
        simp only [List.map_cons, runAt, stepAt, c1, c2, hnoop, List.append_nil]
        refine ⟨r2, ?_, r3, ⟨hsame.1, hsame.2.1, hsame.2.2⟩, ?_⟩
        · simp only [nextCount, if_neg hres]
          rw [if_pos hreach]
        · rw [if_pos ⟨hres, hreach⟩]
          exact sendAt_congr c _ _ 0 (by simp [hc]) (by simp [hsame.2.1]) (by simp [r2]) (by simp [hsame.1])
    · -- below the highest count: the callbacks wait for more
      have hnoop : runAt c sr (wr.map .wait) = (sr, []) :=
        run_noop_waits c sr wr (fun δ hδ => wait_released_below c sr hrm r2 δ (hq.released δ hδ) (by rw [hc, hmax]; omega))
      rw [hnoop]
      refine ⟨r2, ?_, r3, hsame, ?_⟩
      · simp only [nextCount, if_neg hres, if_neg hreach]; exact hc
      · rw [if_neg (fun hh => hreach hh.2)]

/-- a burst: quick clicks one after the other -/
def burst : List (List Nat × List Nat) → List AtStep
  | [] => []
  | p :: ps => quickClick p.1 p.2 ++ burst ps

/-- the counter after `n` more quick clicks -/
def countAfter (M : Nat) (k : Int) (n : Nat) : Int :=
  if k = -1 then -1 else if k + n ≥ (M : Int) then -1 else k + n

theorem burst_run (c : AtCfg) (cs : List (List Nat × List Nat)) : ∀ (s : AtSt), PlainMono c s →
    (∀ p ∈ cs, Quick c p.1 p.2) → s.last = false → 2 ≤ s.maxClicks →
    (s.click = -1 ∨ (0 ≤ s.click ∧ s.click < (s.maxClicks : Int))) →
    (runAt c s (burst cs)).1.last = false ∧
    (runAt c s (burst cs)).1.click = countAfter s.maxClicks s.click cs.length ∧
    (cs ≠ [] → (runAt c s (burst cs)).1.armed = true) ∧
    SameCfg s (runAt c s (burst cs)).1 ∧
    (runAt c s (burst cs)).2 =
      (if s.click ≠ -1 ∧ s.click + cs.length ≥ (s.maxClicks : Int) then
        sendAt c { s with click := s.maxClicks, last := false } 0 else []) := by
  induction cs with
  | nil =>
    intro s _ _ hl hm hk
    refine ⟨hl, ?_, fun h => absurd rfl h, SameCfg.refl s, ?_⟩
    · simp only [burst, runAt, countAfter, List.length_nil]
      rcases hk with h1 | h1
      · simp [h1]
      · have : ¬ s.click = -1 := by omega
        have h2 : ¬ s.click + ((0 : Nat) : Int) ≥ (s.maxClicks : Int) := by omega
        simp [this]; omega
    · simp only [burst, runAt, List.length_nil]
      rcases hk with h1 | h1
      · simp [h1]
      · have h2 : ¬ (s.click ≠ -1 ∧ s.click + ((0 : Nat) : Int) ≥ (s.maxClicks : Int)) := by omega
        rw [if_neg h2]
  | cons p ps ih =>
    intro s h hq hl hm hk
    obtain ⟨a1, a2, a3, a4, a5⟩ := one_click c s p.1 p.2 h (hq p (by simp)) hl hm hk
    generalize hs1 : (runAt c s (quickClick p.1 p.2)).1 = s1 at a1 a2 a3 a4
    have hmax : s1.maxClicks = s.maxClicks := a4.2.2
    have hk1 : s1.click = -1 ∨ (0 ≤ s1.click ∧ s1.click < (s1.maxClicks : Int)) := by
      rw [a2, hmax]
      unfold nextCount
      rcases hk with h1 | h1
      · left; simp [h1]
      · by_cases hr : s.click + 1 ≥ (s.maxClicks : Int)
        · left; rw [if_neg (by omega), if_pos hr]
        · right; rw [if_neg (by omega), if_neg hr]; omega
    obtain ⟨b1, b2, _, b4, b5⟩ := ih s1 (h.of_same a4) (fun q hq' => hq q (by simp [hq'])) a1 (by rw [hmax]; exact hm) hk1
    have hrun : runAt c s (burst (p :: ps)) =
        ((runAt c s1 (burst ps)).1, (runAt c s (quickClick p.1 p.2)).2 ++ (runAt c s1 (burst ps)).2) := by
      simp only [burst]
      rw [runAt_append, hs1]
    rw [hrun]
    have hs1c : s1.click = nextCount s.maxClicks s.click := a2
    refine ⟨b1, ?_, fun _ => ?_, a4.trans b4, ?_⟩
    · rw [b2, hmax, hs1c]
      simp only [countAfter, nextCount, List.length_cons]
      rcases hk with h1 | h1
      · simp [h1]
      · have hn : ¬ s.click = -1 := by omega
        simp only [if_neg hn]
        by_cases hr : s.click + 1 ≥ (s.maxClicks : Int)
        · have : s.click + ((ps.length + 1 : Nat) : Int) ≥ (s.maxClicks : Int) := by omega
          simp [hr]
          omega
        · have hn2 : ¬ s.click + 1 = -1 := by omega
          have e : s.click + 1 + (ps.length : Int) = s.click + ((ps.length + 1 : Nat) : Int) := by omega
          simp only [if_neg hr, if_neg hn2, e]
    · cases ps with
      | nil => simpa [burst, runAt] using a3
      | cons q qs =>
        have := (ih s1 (h.of_same a4) (fun q' hq' => hq q' (by simp [hq'])) a1 (by rw [hmax]; exact hm) hk1).2.2.1
        exact this (by simp)
    · rw [a5, b5]
      simp only [List.length_cons]
      rcases hk with h1 | h1
      · have n1 : ¬ (s.click ≠ -1 ∧ s.click + 1 ≥ (s.maxClicks : Int)) := fun hh => hh.1 h1
        have n2 : ¬ (s1.click ≠ -1 ∧ s1.click + (ps.length : Int) ≥ (s1.maxClicks : Int)) := by
          intro hh; apply hh.1; rw [hs1c]; simp [nextCount, h1]
        have n3 : ¬ (s.click ≠ -1 ∧ s.click + ((ps.length + 1 : Nat) : Int) ≥ (s.maxClicks : Int)) := fun hh => hh.1 h1
        rw [if_neg n1, if_neg n2, if_neg n3]; rfl
      · have hn : s.click ≠ -1 := by omega
        by_cases hr : s.click + 1 ≥ (s.maxClicks : Int)
        · -- resolved by this click; the rest is swallowed
          have e1 : s.click + 1 = (s.maxClicks : Int) := by omega
          have hnc : s1.click = -1 := by rw [hs1c]; unfold nextCount; rw [if_neg hn, if_pos hr]
          have n2 : ¬ (s1.click ≠ -1 ∧ s1.click + (ps.length : Int) ≥ (s1.maxClicks : Int)) := fun hh => hh.1 hnc
          have p3 : s.click ≠ -1 ∧ s.click + ((ps.length + 1 : Nat) : Int) ≥ (s.maxClicks : Int) := ⟨hn, by omega⟩
          rw [if_pos ⟨hn, hr⟩, if_neg n2, if_pos p3, List.append_nil]
          exact sendAt_congr c _ _ 0 (by simp [e1]) rfl rfl rfl
        · have n1 : ¬ (s.click ≠ -1 ∧ s.click + 1 ≥ (s.maxClicks : Int)) := fun hh => hr hh.2
          have hnc : s1.click = s.click + 1 := by rw [hs1c]; unfold nextCount; rw [if_neg hn, if_neg hr]
          rw [if_neg n1, List.nil_append]
          by_cases hr2 : s.click + ((ps.length + 1 : Nat) : Int) ≥ (s.maxClicks : Int)
          · have p2 : s1.click ≠ -1 ∧ s1.click + (ps.length : Int) ≥ (s1.maxClicks : Int) := by
              rw [hnc, hmax]; constructor <;> omega
            rw [if_pos p2, if_pos ⟨hn, hr2⟩]
            exact sendAt_congr c _ _ 0 (by simp [hmax]) (by simp [a4.2.1]) (by simp) (by simp [a4.1])
          · have n2 : ¬ (s1.click ≠ -1 ∧ s1.click + (ps.length : Int) ≥ (s1.maxClicks : Int)) := by
              rw [hnc, hmax]; intro hh; omega
            rw [if_neg n2, if_neg (fun hh => hr2 hh.2)]

end SuplaVerif
