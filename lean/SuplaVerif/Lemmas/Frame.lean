/-
  Lemmas/Frame — the wire grammar: `parseHead` recognises exactly the encodings of valid
  frames (soundness + completeness), and its verdict on a prefix is final.
-/
import SuplaVerif.Model.FrameSpec

namespace SuplaVerif
open Bytes

theorem getD_drop (l : Bytes) (k i : Nat) : (l.drop k).getD i 0 = l.getD (k + i) 0 := by
  simp [List.getD_eq_getElem?_getD, List.getElem?_drop]

theorem getD_take_append (d x : Bytes) (i n : Nat) (hi : i < n) (hn : n ≤ d.length) :
    (d.take n ++ x).getD i 0 = d.getD i 0 := by
  have h1 : i < (d.take n).length := by simp [List.length_take]; omega
  simp [List.getD_eq_getElem?_getD, List.getElem?_append_left h1, List.getElem?_take, hi]

theorem le32_drop (l : Bytes) (k : Nat) :
    le32 (l.drop k) = (l.getD k 0).toNat + 256 * (l.getD (k + 1) 0).toNat
      + 65536 * (l.getD (k + 2) 0).toNat + 16777216 * (l.getD (k + 3) 0).toNat := by
  unfold le32
  simp [getD_drop]

theorem le32_drop_take_append (d x : Bytes) (k n : Nat) (h : k + 4 ≤ n) (hn : n ≤ d.length) :
    le32 ((d.take n ++ x).drop k) = le32 (d.drop k) := by
  rw [le32_drop, le32_drop]
  rw [getD_take_append d x k n (by omega) hn, getD_take_append d x (k + 1) n (by omega) hn,
    getD_take_append d x (k + 2) n (by omega) hn, getD_take_append d x (k + 3) n (by omega) hn]

theorem u8_ofNat_toNat' (a : UInt8) : UInt8.ofNat a.toNat = a := by
  simp

theorem toLe32_le32_four (a b c d : UInt8) (rest : Bytes) :
    toLe32 (le32 (a :: b :: c :: d :: rest)) = [a, b, c, d] := by
  unfold toLe32 le32
  simp only [List.getD_cons_zero, List.getD_cons_succ]
  have ha := a.toNat_lt; have hb := b.toNat_lt; have hc := c.toNat_lt; have hd := d.toNat_lt
  have e0 : (a.toNat + 256 * b.toNat + 65536 * c.toNat + 16777216 * d.toNat) % 256 = a.toNat := by omega
  have e1 : (a.toNat + 256 * b.toNat + 65536 * c.toNat + 16777216 * d.toNat) / 256 % 256 = b.toNat := by omega
  have e2 : (a.toNat + 256 * b.toNat + 65536 * c.toNat + 16777216 * d.toNat) / 65536 % 256 = c.toNat := by omega
  have e3 : (a.toNat + 256 * b.toNat + 65536 * c.toNat + 16777216 * d.toNat) / 16777216 % 256 = d.toNat := by omega
  rw [e0, e1, e2, e3]
  simp

theorem toLe32_le32 (b : Bytes) (h : 4 ≤ b.length) : toLe32 (le32 b) = b.take 4 := by
  match b, h with
  | a :: b :: c :: d :: rest, _ => simp [toLe32_le32_four]

/-- a list is its first n elements followed by the rest -/
theorem split_at (l : Bytes) (n : Nat) : l = l.take n ++ l.drop n := (List.take_append_drop n l).symm

theorem Frame.header_length (f : Frame) : f.header.length = 18 := by
  simp [Frame.header, TAG_length, toLe32_length]

theorem Frame.bytes_length (f : Frame) : f.bytes.length = 23 + f.payload.length := by
  simp [Frame.bytes, Frame.header_length, TAG_length]; omega

end SuplaVerif

namespace SuplaVerif
open Bytes

theorem take_take_drop (tl : Bytes) (n m : Nat) :
    tl = tl.take n ++ ((tl.drop n).take m ++ tl.drop (n + m)) := by
  have h1 : tl = tl.take n ++ tl.drop n := split_at tl n
  have h2 : tl.drop n = (tl.drop n).take m ++ (tl.drop n).drop m := split_at _ m
  rw [List.drop_drop] at h2
  rw [← h2]; exact h1

theorem exists_cons (n : Nat) (l : Bytes) (h : n + 1 ≤ l.length) :
    ∃ a tl, l = a :: tl ∧ n ≤ tl.length := by
  cases l with
  | nil => simp at h
  | cons a tl => exact ⟨a, tl, rfl, by simpa using h⟩

/-- a list of at least 18 bytes, destructured (the SRPC header) -/
theorem exists18 (d : Bytes) (h : 18 ≤ d.length) :
    ∃ a0 a1 a2 a3 a4 a5 a6 a7 a8 a9 a10 a11 a12 a13 a14 a15 a16 a17 tl,
      d = a0 :: a1 :: a2 :: a3 :: a4 :: a5 :: a6 :: a7 :: a8 :: a9 :: a10 :: a11 :: a12 :: a13 ::
        a14 :: a15 :: a16 :: a17 :: tl := by
  obtain ⟨a0, t0, rfl, h0⟩ := exists_cons 17 d h
  obtain ⟨a1, t1, rfl, h1⟩ := exists_cons 16 t0 h0
  obtain ⟨a2, t2, rfl, h2⟩ := exists_cons 15 t1 h1
  obtain ⟨a3, t3, rfl, h3⟩ := exists_cons 14 t2 h2
  obtain ⟨a4, t4, rfl, h4⟩ := exists_cons 13 t3 h3
  obtain ⟨a5, t5, rfl, h5⟩ := exists_cons 12 t4 h4
  obtain ⟨a6, t6, rfl, h6⟩ := exists_cons 11 t5 h5
  obtain ⟨a7, t7, rfl, h7⟩ := exists_cons 10 t6 h6
  obtain ⟨a8, t8, rfl, h8⟩ := exists_cons 9 t7 h7
  obtain ⟨a9, t9, rfl, h9⟩ := exists_cons 8 t8 h8
  obtain ⟨a10, t10, rfl, h10⟩ := exists_cons 7 t9 h9
  obtain ⟨a11, t11, rfl, h11⟩ := exists_cons 6 t10 h10
  obtain ⟨a12, t12, rfl, h12⟩ := exists_cons 5 t11 h11
  obtain ⟨a13, t13, rfl, h13⟩ := exists_cons 4 t12 h12
  obtain ⟨a14, t14, rfl, h14⟩ := exists_cons 3 t13 h13
  obtain ⟨a15, t15, rfl, h15⟩ := exists_cons 2 t14 h14
  obtain ⟨a16, t16, rfl, h16⟩ := exists_cons 1 t15 h15
  obtain ⟨a17, t17, rfl, _⟩ := exists_cons 0 t16 h16
  exact ⟨a0, a1, a2, a3, a4, a5, a6, a7, a8, a9, a10, a11, a12, a13, a14, a15, a16, a17, t17, rfl⟩

theorem drop_add18 (k : Nat) (a0 a1 a2 a3 a4 a5 a6 a7 a8 a9 a10 a11 a12 a13 a14 a15 a16 a17 : UInt8)
    (tl : Bytes) :
    List.drop (18 + k) (a0 :: a1 :: a2 :: a3 :: a4 :: a5 :: a6 :: a7 :: a8 :: a9 :: a10 :: a11 :: a12 ::
      a13 :: a14 :: a15 :: a16 :: a17 :: tl) = List.drop k tl := by
  rw [show 18 + k = k + 18 by omega]; rfl

/-- the facts `parseHead` establishes when it answers `frame` -/
theorem parseHead_frame_inv (P : ProtoParams) (d : Bytes) (f : Frame) (rest : Bytes)
    (h : parseHead P d = .frame f rest) :
    5 ≤ d.length ∧ d.take 5 = TAG ∧ P.hdr ≤ d.length - 5 ∧
    ¬((d.getD 5 0).toNat > P.ver ∨ (d.getD 5 0).toNat < P.verMin) ∧
    le32 (d.drop 14) ≤ P.maxData ∧ P.hdr + le32 (d.drop 14) + 5 ≤ d.length ∧
    (d.drop (P.hdr + le32 (d.drop 14))).take 5 = TAG ∧
    f = { ver := (d.getD 5 0).toNat, rrId := le32 (d.drop 6), callId := le32 (d.drop 10),
          payload := (d.drop P.hdr).take (le32 (d.drop 14)) } ∧
    rest = d.drop (P.hdr + le32 (d.drop 14) + 5) := by
  unfold parseHead at h
  split at h; · cases h
  split at h; · cases h
  split at h; · cases h
  rename_i hl5 htag hl23
  split at h; · cases h
  split at h; · cases h
  split at h; · cases h
  split at h; · cases h
  rename_i hver hds hlen hend
  injection h with hf hr
  refine ⟨by omega, by simpa using htag, by omega, hver, by omega, by omega, by simpa using hend,
    hf.symm, hr.symm⟩

/-- soundness: a head classified as a frame *is* the wire image of a valid frame, followed by
    the rest of the stream -/
theorem parseHead_sound (P : ProtoParams) (hP : P.WF) (d : Bytes) (f : Frame) (rest : Bytes)
    (h : parseHead P d = .frame f rest) : d = f.bytes ++ rest ∧ f.Valid P := by
  have h18 := hP.hdr18
  obtain ⟨hl5, htag, hl23, hver, hds, hlen, hend, hf, hr⟩ := parseHead_frame_inv P d f rest h
  rw [h18] at hl23 hlen hend hf hr
  obtain ⟨a0, a1, a2, a3, a4, a5, a6, a7, a8, a9, a10, a11, a12, a13, a14, a15, a16, a17, tl, rfl⟩ :=
    exists18 d (by omega)
  have e14 : List.drop 14 (a0 :: a1 :: a2 :: a3 :: a4 :: a5 :: a6 :: a7 :: a8 :: a9 :: a10 :: a11 ::
      a12 :: a13 :: a14 :: a15 :: a16 :: a17 :: tl) = a14 :: a15 :: a16 :: a17 :: tl := rfl
  rw [e14] at hds hlen hend hf hr
  generalize hdsdef : le32 (a14 :: a15 :: a16 :: a17 :: tl) = ds at *
  have hds' : ds ≤ tl.length := by simp only [List.length_cons] at hlen; omega
  have hpl : (tl.take ds).length = ds := by simp [List.length_take]; omega
  rw [drop_add18] at hend
  rw [show 18 + ds + 5 = 18 + (ds + 5) by omega, drop_add18] at hr
  have hf' : f = Frame.mk a5.toNat
      (le32 (a6 :: a7 :: a8 :: a9 :: a10 :: a11 :: a12 :: a13 :: a14 :: a15 :: a16 :: a17 :: tl))
      (le32 (a10 :: a11 :: a12 :: a13 :: a14 :: a15 :: a16 :: a17 :: tl)) (tl.take ds) := hf
  have htag' : [a0, a1, a2, a3, a4] = TAG := htag
  have hver' : ¬(a5.toNat > P.ver ∨ a5.toNat < P.verMin) := hver
  subst hf' hr
  constructor
  · simp only [Frame.bytes, Frame.header, hpl]
    rw [← hdsdef, toLe32_le32_four, toLe32_le32_four, toLe32_le32_four, ← htag', hdsdef]
    simp only [u8_ofNat_toNat', List.cons_append, List.nil_append, List.append_assoc]
    have := take_take_drop tl ds 5
    rw [hend, htag'.symm] at this
    simp only [List.cons_append, List.nil_append] at this
    rw [← this]
  · unfold Frame.Valid
    simp only [hpl]
    have := a5.toNat_lt
    have := le32_lt (a6 :: a7 :: a8 :: a9 :: a10 :: a11 :: a12 :: a13 :: a14 :: a15 :: a16 :: a17 :: tl)
    have := le32_lt (a10 :: a11 :: a12 :: a13 :: a14 :: a15 :: a16 :: a17 :: tl)
    unfold U32
    omega

end SuplaVerif

namespace SuplaVerif
open Bytes

/-- explicit cons form of a frame image followed by `rest` -/
theorem Frame.bytes_append (f : Frame) (rest : Bytes) :
    f.bytes ++ rest = 83 :: 85 :: 80 :: 76 :: 65 :: UInt8.ofNat f.ver ::
      (toLe32 f.rrId ++ (toLe32 f.callId ++ (toLe32 f.payload.length ++ (f.payload ++ (TAG ++ rest))))) := by
  simp [Frame.bytes, Frame.header, TAG]

/-- completeness: the wire image of a valid frame is recognised as exactly that frame -/
theorem parseHead_complete (P : ProtoParams) (hP : P.WF) (f : Frame) (hf : f.Valid P) (rest : Bytes) :
    parseHead P (f.bytes ++ rest) = .frame f rest := by
  have h18 := hP.hdr18
  obtain ⟨hv1, hv2, hv3, hrr, hcall, hlen⟩ := hf
  have hlen32 : f.payload.length < 4294967296 := by have := hP.maxLt; unfold U32 at this; omega
  have hl : (f.bytes ++ rest).length = 23 + f.payload.length + rest.length := by
    simp [Frame.bytes_length]
  have e5 : (f.bytes ++ rest).getD 5 0 = UInt8.ofNat f.ver := by rw [Frame.bytes_append]; rfl
  have e6 : (f.bytes ++ rest).drop 6 =
      toLe32 f.rrId ++ (toLe32 f.callId ++ (toLe32 f.payload.length ++ (f.payload ++ (TAG ++ rest)))) := by
    rw [Frame.bytes_append]; rfl
  have e10 : (f.bytes ++ rest).drop 10 =
      toLe32 f.callId ++ (toLe32 f.payload.length ++ (f.payload ++ (TAG ++ rest))) := by
    rw [Frame.bytes_append]; rfl
  have e14 : (f.bytes ++ rest).drop 14 = toLe32 f.payload.length ++ (f.payload ++ (TAG ++ rest)) := by
    rw [Frame.bytes_append]; rfl
  have e18 : (f.bytes ++ rest).drop 18 = f.payload ++ (TAG ++ rest) := by
    rw [Frame.bytes_append]; rfl
  have etag : (f.bytes ++ rest).take 5 = TAG := by rw [Frame.bytes_append]; rfl
  have hds : le32 ((f.bytes ++ rest).drop 14) = f.payload.length := by
    rw [e14]; exact le32_toLe32 _ hlen32 _
  have hver : (UInt8.ofNat f.ver).toNat = f.ver := u8_ofNat_toNat _ hv3
  unfold parseHead
  rw [hds, e5, hver, e6, e10, le32_toLe32 _ (by unfold U32 at hrr; exact hrr),
    le32_toLe32 _ (by unfold U32 at hcall; exact hcall), etag, h18, hl]
  have hd1 : (f.bytes ++ rest).drop (18 + f.payload.length) = TAG ++ rest := by
    rw [← List.drop_drop, e18]; simp
  have hd2 : (f.bytes ++ rest).drop (18 + f.payload.length + 5) = rest := by
    rw [← List.drop_drop, hd1]; simp [TAG]
  rw [hd1, hd2, e18]
  have htk : List.take 5 (TAG ++ rest) = TAG := by simp [TAG]
  rw [htk]
  repeat' split
  all_goals first | omega | contradiction | (simp)

end SuplaVerif

namespace SuplaVerif
open Bytes

theorem enc_append (a b : List Frame) : Frame.enc (a ++ b) = Frame.enc a ++ Frame.enc b := by
  simp [Frame.enc]

theorem enc_single (f : Frame) : Frame.enc [f] = f.bytes := by simp [Frame.enc]

/-- the greedy frame list of `enc fs ++ tail` starts with `fs` -/
theorem goodFramesFuel_enc (P : ProtoParams) (hP : P.WF) (fs : List Frame) (hv : ∀ f ∈ fs, f.Valid P)
    (tail : Bytes) (n : Nat) (hn : fs.length ≤ n) :
    goodFramesFuel P n (Frame.enc fs ++ tail) = fs ++ goodFramesFuel P (n - fs.length) tail := by
  induction fs generalizing n with
  | nil => simp [Frame.enc]
  | cons f fs ih =>
    cases n with
    | zero => simp at hn
    | succ n =>
      have henc : Frame.enc (f :: fs) ++ tail = f.bytes ++ (Frame.enc fs ++ tail) := by
        simp [Frame.enc]
      rw [henc]
      simp only [goodFramesFuel]
      rw [parseHead_complete P hP f (hv f (by simp)) _]
      simp only
      rw [ih (fun g hg => hv g (by simp [hg])) n (by simpa using hn)]
      simp

theorem enc_length_ge (fs : List Frame) : fs.length ≤ (Frame.enc fs).length := by
  induction fs with
  | nil => simp [Frame.enc]
  | cons f fs ih =>
    have : Frame.enc (f :: fs) = f.bytes ++ Frame.enc fs := by simp [Frame.enc]
    rw [this, List.length_append, Frame.bytes_length]
    simp only [List.length_cons]; omega

end SuplaVerif
