/-
  Lemmas/MqttLive — a stream made of complete packets that fit the receive buffer is taken apart into exactly
  those packets, without an error, however it is cut into segments (handler never failing, no outside error).
-/
import SuplaVerif.Lemmas.MqttStream
namespace SuplaVerif.MqttRecv
open Bytes

variable {p : Bytes → Parsed} (hp : ParserOK p) (hok : List Bytes → Bytes → Bool) (cap : Nat)
include hp

/-- a complete packet on its own that fits the receive buffer -/
def Valid (p : Bytes → Parsed) (cap : Nat) (q : Bytes) : Prop := p q = .pkt q.length ∧ q.length ≤ cap

omit hp in
theorem split_head (buf fut q rest : Bytes) (h : buf ++ fut = q ++ rest) (hl : q.length ≤ buf.length) :
    buf = q ++ buf.drop q.length ∧ buf.drop q.length ++ fut = rest := by
  have h1 : buf.take q.length = q := by
    have := congrArg (List.take q.length) h
    rw [List.take_append_of_le_length hl, List.take_left] at this
    exact this
  have h2 : buf = q ++ buf.drop q.length := by
    conv => lhs; rw [← List.take_append_drop q.length buf, h1]
  refine ⟨h2, ?_⟩
  have h3 : q ++ (buf.drop q.length ++ fut) = q ++ rest := by
    rw [← List.append_assoc, ← h2]; exact h
  exact List.append_cancel_left h3

/-- the head of a stream that starts with a valid packet never parses as an error or as another packet -/
theorem head_parse (cap : Nat) (buf fut q rest : Bytes) (hv : Valid p cap q) (h : buf ++ fut = q ++ rest) :
    p buf ≠ .bad ∧ ∀ n, p buf = .pkt n → n = q.length := by
  have hq : p (q ++ rest) = .pkt q.length := hp.pktStable q rest _ hv.1
  constructor
  · intro hb
    have := hp.badStable buf fut hb
    rw [h, hq] at this; cases this
  · intro n hn
    have := hp.pktStable buf fut n hn
    rw [h, hq] at this; injection this with this; exact this.symm

theorem drain_valid (hall : ∀ hs q, hok hs q = true) (hcap : 0 < cap) (qs : List Bytes) :
    (∀ q ∈ qs, Valid p cap q) → ∀ (hs : List Bytes) (buf fut : Bytes), buf ++ fut = qs.flatten →
    ∃ k, drain p hok cap hs buf = (hs ++ qs.take k, buf.drop (qs.take k).flatten.length, false) ∧
      buf.drop (qs.take k).flatten.length ++ fut = (qs.drop k).flatten := by
  induction qs with
  | nil =>
    intro _ hs buf fut h
    simp only [List.flatten_nil, List.append_eq_nil_iff] at h
    refine ⟨0, ?_, by simp [h.1, h.2]⟩
    rw [h.1, drain, hp.empty]
    simp; omega
  | cons q qs ih =>
    intro hv hs buf fut h
    have hvq := hv q (by simp)
    rw [List.flatten_cons] at h
    have hhead := head_parse hp cap buf fut q qs.flatten hvq h
    by_cases hl : q.length ≤ buf.length
    · obtain ⟨e1, e2⟩ := split_head buf fut q qs.flatten h hl
      have hpk : p buf = .pkt q.length := by
        rw [e1]; exact hp.pktStable q _ _ hvq.1
      have hpos := (hp.size q _ hvq.1).1
      have htake : buf.take q.length = q := by
        conv => lhs; rw [e1]
        exact List.take_left
      obtain ⟨k, k1, k2⟩ := ih (fun q' h' => hv q' (by simp [h'])) (hs ++ [q]) (buf.drop q.length) fut e2
      refine ⟨k + 1, ?_, ?_⟩
      · rw [drain, hpk]
        simp only [hpos, hl, and_self, ↓reduceDIte, hall, ↓reduceIte, htake]
        rw [k1]
        simp [List.take_succ_cons, List.flatten_cons, List.append_assoc, List.drop_drop, Nat.add_comm]
      · simpa [List.take_succ_cons, List.flatten_cons, List.drop_drop, Nat.add_comm] using k2
    · refine ⟨0, ?_, by simpa using h⟩
      have hlt : buf.length < q.length := by omega
      cases hb : p buf with
      | need =>
        rw [drain, hb]
        have := hvq.2
        simp; omega
      | bad => exact absurd hb hhead.1
      | pkt n =>
        have := hhead.2 n hb
        have := (hp.size buf n hb).2
        omega

omit hp in
theorem valid_drop (qs : List Bytes) (k : Nat) (hv : ∀ q ∈ qs, Valid p cap q) : ∀ q ∈ qs.drop k, Valid p cap q :=
  fun q hq => hv q (List.mem_of_mem_drop hq)

theorem syncStep_valid (hall : ∀ hs q, hok hs q = true) (hcap : 0 < cap) (s : RState) (fut : Bytes)
    (qs : List Bytes) (hv : ∀ q ∈ qs, Valid p cap q) (he : s.err = false) (h : s.buf ++ fut = qs.flatten) :
    (syncStep p hok cap s).err = false ∧ (syncStep p hok cap s).gap = s.gap ∧
      ∃ qs' : List Bytes, (∀ q ∈ qs', Valid p cap q) ∧ (syncStep p hok cap s).buf ++ fut = qs'.flatten := by
  obtain ⟨k, k1, k2⟩ := drain_valid hp hok cap hall hcap qs hv s.hs s.buf fut h
  unfold syncStep
  rw [k1]
  exact ⟨by simp [he], rfl, qs.drop k, valid_drop cap qs k hv, k2⟩

theorem feedLoop_valid (hall : ∀ hs q, hok hs q = true) (hcap : 0 < cap) (s : RState) (seg : Bytes) :
    ∀ (A fut : Bytes) (qs : List Bytes), Inv p cap s A → s.err = false → s.gap = false →
      (∀ q ∈ qs, Valid p cap q) → s.buf ++ (seg ++ fut) = qs.flatten →
      (feedLoop p hok cap s seg).err = false ∧ (feedLoop p hok cap s seg).gap = false ∧
        ∃ qs' : List Bytes, (∀ q ∈ qs', Valid p cap q) ∧ (feedLoop p hok cap s seg).buf ++ fut = qs'.flatten := by
  fun_induction feedLoop p hok cap s seg with
  | case1 s =>
    intro A fut qs _ he hg hv h
    exact ⟨he, hg, qs, hv, by simpa using h⟩
  | case2 s seg hnil hz =>
    intro A fut qs hinv he hg hv h
    exfalso
    have hseg : 0 < seg.length := List.length_pos_iff.mpr hnil
    have hfull : cap ≤ s.buf.length := by
      by_cases hc : seg.length ≤ cap - s.buf.length
      · rw [Nat.min_eq_left hc] at hz; omega
      · rw [Nat.min_eq_right (by omega)] at hz; omega
    have hneed := hinv.idle he
    cases qs with
    | nil =>
      simp only [List.flatten_nil, List.append_eq_nil_iff] at h
      exact hnil h.2.1
    | cons q qs =>
      have hvq := hv q (by simp)
      rw [List.flatten_cons] at h
      have hl : q.length ≤ s.buf.length := Nat.le_trans hvq.2 hfull
      obtain ⟨e1, _⟩ := split_head s.buf (seg ++ fut) q qs.flatten h hl
      have : p s.buf = .pkt q.length := by rw [e1]; exact hp.pktStable q _ _ hvq.1
      rw [hneed] at this; cases this
  | case3 s seg hnil hz part s' herr =>
    intro A fut qs hinv he hg hv h
    exfalso
    have h' : (s.buf ++ seg.take part) ++ (seg.drop part ++ fut) = qs.flatten := by
      rw [List.append_assoc, ← List.append_assoc (seg.take part), List.take_append_drop]; exact h
    have := syncStep_valid hp hok cap hall hcap { s with buf := s.buf ++ seg.take part } _ qs hv he h'
    rw [show (syncStep p hok cap { s with buf := s.buf ++ seg.take part }) = s' from rfl] at this
    rw [this.1] at herr; cases herr
  | case4 s seg hnil hz part s' herr ih =>
    intro A fut qs hinv he hg hv h
    have hpart : part ≤ cap - s.buf.length := Nat.min_le_right _ _
    have h' : (s.buf ++ seg.take part) ++ (seg.drop part ++ fut) = qs.flatten := by
      rw [List.append_assoc, ← List.append_assoc (seg.take part), List.take_append_drop]; exact h
    have hv' := syncStep_valid hp hok cap hall hcap { s with buf := s.buf ++ seg.take part } _ qs hv he h'
    rw [show (syncStep p hok cap { s with buf := s.buf ++ seg.take part }) = s' from rfl] at hv'
    obtain ⟨v1, v2, qs', v3, v4⟩ := hv'
    have h0 : Core p cap { s with buf := s.buf ++ seg.take part } (A ++ seg.take part) := by
      refine ⟨?_, chain_append_stream hp _ _ _ hinv.chain, ?_, hinv.gapErr⟩
      · simp only; rw [hinv.stream, List.append_assoc]
      · simp only [List.length_append, List.length_take]
        have := hinv.bound
        omega
    obtain ⟨i1, _, _⟩ := syncStep_inv hp hok cap _ _ h0
    exact ih (A ++ seg.take part) fut qs' i1 v1 (by rw [v2]; exact hg) v3 v4

/-- no event is an error raised from outside the receive path -/
def NoExt (es : List REv) : Prop := ∀ e ∈ es, e ≠ .extErr

theorem run_valid (hall : ∀ hs q, hok hs q = true) (hcap : 0 < cap) (es : List REv) :
    NoExt es → ∀ (s : RState) (A : Bytes) (qs : List Bytes), Inv p cap s A → s.err = false → s.gap = false →
      (∀ q ∈ qs, Valid p cap q) → s.buf ++ offered es = qs.flatten →
      (run p hok cap s es).err = false ∧ (run p hok cap s es).gap = false ∧
        ∃ qs' : List Bytes, (∀ q ∈ qs', Valid p cap q) ∧ (run p hok cap s es).buf = qs'.flatten := by
  induction es with
  | nil =>
    intro _ s A qs _ he hg hv h
    exact ⟨he, hg, qs, hv, by simpa [offered, run] using h⟩
  | cons e es ih =>
    intro hne s A qs hinv he hg hv h
    have hne' : NoExt es := fun e' h' => hne e' (by simp [h'])
    obtain ⟨a, _, a2, _, _, _⟩ := step_inv hp hok cap s e A hinv
    cases e with
    | seg d =>
      have h' : s.buf ++ (d ++ offered es) = qs.flatten := by simpa [offered] using h
      obtain ⟨f1, f2, qs', f3, f4⟩ := feedLoop_valid hp hok cap hall hcap s d A (offered es) qs hinv he hg hv h'
      have hstep : step p hok cap s (.seg d) = feedLoop p hok cap s d := by simp [step, hg]
      rw [hstep] at a2
      simp only [run, hstep]
      exact ih hne' _ _ qs' a2 f1 f2 f3 f4
    | sync =>
      have h' : s.buf ++ offered es = qs.flatten := by simpa [offered] using h
      obtain ⟨f1, f2, qs', f3, f4⟩ := syncStep_valid hp hok cap hall hcap s (offered es) qs hv he h'
      have hstep : step p hok cap s .sync = syncStep p hok cap s := rfl
      rw [hstep] at a2
      simp only [run, hstep]
      exact ih hne' _ _ qs' a2 f1 (by rw [f2]; exact hg) f3 f4
    | extErr => exact absurd rfl (hne .extErr (by simp))

end SuplaVerif.MqttRecv
