/-
  Lemmas/Out — conservation of bytes through the OUT half: out queue → proto out buffer →
  send shim → espconn_sent.
-/
import SuplaVerif.Lemmas.Io

namespace SuplaVerif
open Bytes

/-- bytes the TCP layer took (espconn_sent returned 0) -/
def wireOf : List OObs → Bytes
  | [] => []
  | .sent c b :: os => if c = 0 then b ++ wireOf os else wireOf os
  | _ :: os => wireOf os

/-- no loss event: no overflow report and every espconn_sent result is OK or transient -/
def NoLoss : List OObs → Prop
  | [] => True
  | .sent c _ :: os => (c = 0 ∨ c = Io_INPROGRESS ∨ c = Io_MAXNUM) ∧ NoLoss os
  | .log _ :: _ => False
  | .callret _ :: os => NoLoss os

instance NoLoss.dec : (l : List OObs) → Decidable (NoLoss l)
  | [] => isTrue trivial
  | .sent _ _ :: os => by unfold NoLoss; exact @instDecidableAnd _ _ _ (NoLoss.dec os)
  | .log _ :: _ => isFalse (by simp [NoLoss])
  | .callret _ :: os => by unfold NoLoss; exact NoLoss.dec os

@[simp] theorem wireOf_nil : wireOf [] = [] := rfl
@[simp] theorem wireOf_append (a b : List OObs) : wireOf (a ++ b) = wireOf a ++ wireOf b := by
  induction a with
  | nil => rfl
  | cons x xs ih =>
    cases x with
    | sent c d => simp only [List.cons_append, wireOf]; split <;> simp [ih]
    | log c => simp [wireOf, ih]
    | callret r => simp [wireOf, ih]

theorem NoLoss_append (a b : List OObs) : NoLoss (a ++ b) ↔ NoLoss a ∧ NoLoss b := by
  induction a with
  | nil => simp [NoLoss]
  | cons x xs ih =>
    cases x with
    | sent c d => simp [NoLoss, ih, and_assoc]
    | log c => simp [NoLoss]
    | callret r => simp [NoLoss, ih]

/-- what is buffered between the queue and the wire, in transmission order -/
def IoOut.pending (s : IoOut) : Bytes := s.shim ++ s.outb.data ++ Frame.enc s.outQ

theorem espSent_spec (s : IoOut) (b : Bytes) :
    (s.espSent b).2.2 = [.sent (s.espSent b).1 b] ∧ (s.espSent b).2.1.shim = s.shim ∧
    (s.espSent b).2.1.outb = s.outb ∧ (s.espSent b).2.1.outQ = s.outQ ∧
    (s.espSent b).2.1.nextRr = s.nextRr ∧ (s.espSent b).2.1.ver = s.ver := by
  unfold IoOut.espSent; split <;> simp

theorem shimAppend_spec (P : ProtoParams) (s : IoOut) (d : Bytes) (h : NoLoss (s.shimAppend P d).2) :
    (s.shimAppend P d).1.shim = s.shim ++ d ∧ wireOf (s.shimAppend P d).2 = [] ∧
    (s.shimAppend P d).1.outb = s.outb ∧ (s.shimAppend P d).1.outQ = s.outQ ∧
    (s.shimAppend P d).1.nextRr = s.nextRr ∧ (s.shimAppend P d).1.ver = s.ver ∧
    (s.shimAppend P d).1.shim.length ≤ (if d.length > 0 then P.sendBuf else s.shim.length) := by
  unfold IoOut.shimAppend at h ⊢
  by_cases h0 : d.length > 0
  · rw [if_pos h0] at h ⊢
    by_cases h1 : s.shim.length + d.length > P.sendBuf
    · rw [if_pos h1] at h; simp [NoLoss] at h
    · rw [if_neg h1]; simp [wireOf, h0]; omega
  · rw [if_neg h0]
    have : d = [] := by cases d <;> simp_all
    simp [this, wireOf]

theorem retry_spec (s : IoOut) :
    wireOf s.retry.2 ++ s.retry.1.shim = s.shim ∧ s.retry.1.outb = s.outb ∧
    s.retry.1.outQ = s.outQ ∧ s.retry.1.nextRr = s.nextRr ∧ s.retry.1.ver = s.ver := by
  unfold IoOut.retry
  by_cases h0 : s.shim.length > 0
  · rw [if_pos h0]
    have he := espSent_spec s s.shim
    generalize s.espSent s.shim = r at he
    obtain ⟨c, s', o⟩ := r
    simp only at he ⊢
    obtain ⟨ho, hsh, hob, hq, hn, hv⟩ := he
    by_cases hc : c = 0
    · simp [hc, ho, wireOf, hob, hq, hn, hv]
    · simp [hc, ho, wireOf, hsh, hob, hq, hn, hv]
  · rw [if_neg h0]
    have : s.shim = [] := by cases h : s.shim <;> simp_all
    simp [this]

theorem sendOrBuffer_spec (P : ProtoParams) (s : IoOut) (d : Bytes)
    (h : NoLoss (s.sendOrBuffer P d).2) :
    wireOf (s.sendOrBuffer P d).2 ++ (s.sendOrBuffer P d).1.shim = s.shim ++ d ∧
    (s.sendOrBuffer P d).1.outb = s.outb ∧ (s.sendOrBuffer P d).1.outQ = s.outQ ∧
    (s.sendOrBuffer P d).1.nextRr = s.nextRr ∧ (s.sendOrBuffer P d).1.ver = s.ver := by
  unfold IoOut.sendOrBuffer at h ⊢
  by_cases h0 : s.shim.length > 0
  · rw [if_pos h0] at h ⊢
    have := shimAppend_spec P s d h
    simp [this.1, this.2.1, this.2.2.1, this.2.2.2.1, this.2.2.2.2.1, this.2.2.2.2.2.1]
  · rw [if_neg h0] at h ⊢
    have hsh : s.shim = [] := by cases h : s.shim <;> simp_all
    by_cases hd : d.length > 0
    · rw [if_pos hd] at h ⊢
      have he := espSent_spec s d
      generalize s.espSent d = r at he h
      obtain ⟨c, s', o⟩ := r
      simp only at he h ⊢
      obtain ⟨ho, hsh', hob, hq, hn, hv⟩ := he
      by_cases hc : c = Io_INPROGRESS ∨ c = Io_MAXNUM
      · rw [if_pos hc] at h ⊢
        simp only at h ⊢
        rw [NoLoss_append] at h
        have := shimAppend_spec P s' d h.2
        have hc0 : c ≠ 0 := by rcases hc with h | h <;> rw [h] <;> decide
        simp [ho, wireOf, hc0, this.1, this.2.1, this.2.2.1, this.2.2.2.1, this.2.2.2.2.1,
          this.2.2.2.2.2.1, hsh', hob, hq, hn, hv, hsh]
      · rw [if_neg hc] at h ⊢
        rw [ho] at h
        simp only [NoLoss] at h
        have hc0 : c = 0 := by
          rcases h.1 with h | h | h
          · exact h
          · exact absurd (Or.inl h) hc
          · exact absurd (Or.inr h) hc
        simp [ho, wireOf, hc0, hsh', hob, hq, hn, hv, hsh]
    · rw [if_neg hd]
      have : d = [] := by cases d <;> simp_all
      simp [this]

theorem dataWrite_spec (P : ProtoParams) (s : IoOut) (d : Bytes) (h : NoLoss (s.dataWrite P d).2) :
    wireOf (s.dataWrite P d).2 ++ (s.dataWrite P d).1.shim = s.shim ++ d ∧
    (s.dataWrite P d).1.outb = s.outb ∧ (s.dataWrite P d).1.outQ = s.outQ ∧
    (s.dataWrite P d).1.nextRr = s.nextRr ∧ (s.dataWrite P d).1.ver = s.ver := by
  unfold IoOut.dataWrite at h ⊢
  have hr := retry_spec s
  generalize s.retry = r1 at hr h
  obtain ⟨s1, o1⟩ := r1
  simp only at hr h ⊢
  have hsb := sendOrBuffer_spec P s1 d
  generalize s1.sendOrBuffer P d = r2 at hsb h
  obtain ⟨s2, o2⟩ := r2
  simp only at hsb h ⊢
  rw [NoLoss_append] at h
  have := hsb h.2
  refine ⟨?_, by rw [this.2.1, hr.2.1], by rw [this.2.2.1, hr.2.2.1], by rw [this.2.2.2.1, hr.2.2.2.1],
    by rw [this.2.2.2.2, hr.2.2.2.2]⟩
  rw [wireOf_append, List.append_assoc, this.1, ← List.append_assoc, hr.1]

theorem popOut_spec (P : ProtoParams) (b : AccBuf) (n : Nat) :
    (IoOut.popOut P b n).1 ++ (IoOut.popOut P b n).2.data = b.data := by
  unfold IoOut.popOut
  split
  · simp
  · simp

theorem append_res (P : ProtoParams) (b : AccBuf) (d : Bytes) :
    ((b.append P d).1 = .ok ∧ (b.append P d).2.data = b.data ++ d) ∨
    ((b.append P d).1 = .bufferOverflow ∧ (b.append P d).2 = b) := by
  unfold AccBuf.append
  split
  · right; simp
  · left; simp

theorem outAppend_spec (P : ProtoParams) (b : AccBuf) (f : Frame) :
    ((IoOut.outAppend P b f).1 = .ok ∧ (IoOut.outAppend P b f).2.data = b.data ++ f.bytes) ∨
    ((IoOut.outAppend P b f).1 ≠ .ok ∧ (IoOut.outAppend P b f).1 ≠ .false_) := by
  unfold IoOut.outAppend
  split
  · right; simp
  · rcases append_res P b (f.header ++ f.payload) with ⟨h1, h2⟩ | ⟨h1, h2⟩
    · generalize b.append P (f.header ++ f.payload) = r at h1 h2
      obtain ⟨r1, b1⟩ := r
      simp only at h1 h2
      subst h1
      simp only
      rcases append_res P b1 TAG with ⟨h3, h4⟩ | ⟨h3, h4⟩
      · left; refine ⟨h3, ?_⟩; rw [h4, h2]; simp [Frame.bytes]
      · right; rw [h3]; simp
    · generalize b.append P (f.header ++ f.payload) = r at h1 h2
      obtain ⟨r1, b1⟩ := r
      simp only at h1 h2
      subst h1
      right; simp

theorem enc_cons (f : Frame) (q : List Frame) : Frame.enc (f :: q) = f.bytes ++ Frame.enc q := by
  simp [Frame.enc]

theorem queueToBuf_spec (P : ProtoParams) (s : IoOut) (h : NoLoss (s.queueToBuf P).2.2) :
    (s.queueToBuf P).2.2 = [] ∧
    (s.queueToBuf P).2.1.shim = s.shim ∧
    (s.queueToBuf P).2.1.outb.data ++ Frame.enc (s.queueToBuf P).2.1.outQ =
      s.outb.data ++ Frame.enc s.outQ ∧
    (s.queueToBuf P).2.1.nextRr = s.nextRr ∧ (s.queueToBuf P).2.1.ver = s.ver ∧
    (s.queueToBuf P).2.1.outQ.length ≤ s.outQ.length := by
  unfold IoOut.queueToBuf at h ⊢
  cases hq : s.outQ with
  | nil => simp [hq]
  | cons f q =>
    simp only [hq] at h ⊢
    have ha := outAppend_spec P s.outb f
    generalize IoOut.outAppend P s.outb f = r at ha h
    obtain ⟨ar, ob⟩ := r
    simp only at ha h ⊢
    rcases ha with ⟨h1, h2⟩ | ⟨h1, h2⟩
    · subst h1
      simp [h2, enc_cons]
    · rw [if_pos ⟨h1, h2⟩] at h
      simp [NoLoss] at h

theorem bufToWire_spec (P : ProtoParams) (s : IoOut) (h : NoLoss (s.bufToWire P).2) :
    wireOf (s.bufToWire P).2 ++ (s.bufToWire P).1.shim ++ (s.bufToWire P).1.outb.data =
      s.shim ++ s.outb.data ∧
    (s.bufToWire P).1.outQ = s.outQ ∧ (s.bufToWire P).1.nextRr = s.nextRr ∧
    (s.bufToWire P).1.ver = s.ver := by
  unfold IoOut.bufToWire at h ⊢
  have hp := popOut_spec P s.outb P.chunk
  generalize IoOut.popOut P s.outb P.chunk = r at hp h
  obtain ⟨d, ob⟩ := r
  simp only at hp h ⊢
  by_cases hd : d.length ≠ 0
  · rw [if_pos hd] at h ⊢
    have := dataWrite_spec P { s with outb := ob } d h
    refine ⟨?_, this.2.2.1, this.2.2.2.1, this.2.2.2.2⟩
    rw [this.1, this.2.1, ← hp]; simp
  · rw [if_neg hd]
    have : d = [] := by cases d <;> simp_all
    subst this
    simp at hp
    simp [hp]

theorem outHalf_spec (P : ProtoParams) (s : IoOut) (h : NoLoss (s.outHalf P).2.2) :
    wireOf (s.outHalf P).2.2 ++ (s.outHalf P).2.1.pending = s.pending ∧
    (s.outHalf P).2.1.nextRr = s.nextRr ∧ (s.outHalf P).2.1.ver = s.ver ∧
    (s.outHalf P).2.1.outQ.length ≤ s.outQ.length := by
  unfold IoOut.outHalf at h ⊢
  have hq := queueToBuf_spec P s
  generalize s.queueToBuf P = r at hq h
  obtain ⟨ok, s1, o1⟩ := r
  cases ok with
  | false =>
    simp only at hq h ⊢
    have := hq h
    simp only [IoOut.pending]
    rw [this.1, this.2.1, List.append_assoc, this.2.2.1]
    simp [this.2.2.2.1, this.2.2.2.2.1, this.2.2.2.2.2]
  | true =>
    simp only at hq h ⊢
    have hb := bufToWire_spec P s1
    generalize s1.bufToWire P = r2 at hb h
    obtain ⟨s2, o2⟩ := r2
    simp only at hb h ⊢
    rw [NoLoss_append] at h
    have h1 := hq h.1
    have h2 := hb h.2
    simp only [IoOut.pending]
    refine ⟨?_, by rw [h2.2.2.1, h1.2.2.2.1], by rw [h2.2.2.2, h1.2.2.2.2.1], by rw [h2.2.1]; exact h1.2.2.2.2.2⟩
    rw [h1.1, List.nil_append, h2.2.1]
    have e := h2.1
    calc wireOf o2 ++ (s2.shim ++ s2.outb.data ++ Frame.enc s1.outQ)
        = (wireOf o2 ++ s2.shim ++ s2.outb.data) ++ Frame.enc s1.outQ := by simp
      _ = (s1.shim ++ s1.outb.data) ++ Frame.enc s1.outQ := by rw [e]
      _ = s.shim ++ (s1.outb.data ++ Frame.enc s1.outQ) := by rw [h1.2.1]; simp
      _ = s.shim ++ s.outb.data ++ Frame.enc s.outQ := by rw [h1.2.2.1]; simp

end SuplaVerif
