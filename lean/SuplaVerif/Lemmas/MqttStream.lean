/-
  Lemmas/MqttStream — the receive loop over any parser satisfying `ParserOK`: the packets taken out of the
  buffer are always the successive packets of the accepted byte stream, whatever the segmentation.
-/
import SuplaVerif.Model.MqttRecv
namespace SuplaVerif.MqttRecv
open Bytes

variable {p : Bytes → Parsed} (hp : ParserOK p) (hok : List Bytes → Bytes → Bool) (cap : Nat)
include hp

/-! ### chains -/

theorem chain_append_stream (hs : List Bytes) : ∀ (A x : Bytes), Chain p hs A → Chain p hs (A ++ x) := by
  induction hs with
  | nil => intro A x _; trivial
  | cons q qs ih =>
    intro A x h
    obtain ⟨h1, h2, h3⟩ := h
    have hsz := (hp.size A q.length h1).2
    refine ⟨hp.pktStable A x _ h1, ?_, ?_⟩
    · rw [List.take_append_of_le_length hsz]; exact h2
    · rw [List.drop_append_of_le_length hsz]; exact ih _ _ h3

theorem chain_snoc (hs : List Bytes) : ∀ (A buf : Bytes) (n : Nat), A = hs.flatten ++ buf → Chain p hs A →
    p buf = .pkt n → n ≤ buf.length → Chain p (hs ++ [buf.take n]) A := by
  induction hs with
  | nil =>
    intro A buf n hA _ hpk hn
    simp only [List.flatten_nil, List.nil_append] at hA
    subst hA
    have hl : (List.take n A).length = n := by simp [List.length_take]; omega
    refine ⟨by rw [hl]; exact hpk, by rw [hl], trivial⟩
  | cons q qs ih =>
    intro A buf n hA hc hpk hn
    obtain ⟨h1, h2, h3⟩ := hc
    refine ⟨h1, h2, ?_⟩
    apply ih _ buf n _ h3 hpk hn
    rw [hA]
    simp [List.flatten_cons, List.append_assoc]

theorem chain_unique (hs1 : List Bytes) : ∀ (hs2 : List Bytes) (A r1 r2 : Bytes),
    A = hs1.flatten ++ r1 → A = hs2.flatten ++ r2 → Chain p hs1 A → Chain p hs2 A →
    p r1 = .need → p r2 = .need → hs1 = hs2 ∧ r1 = r2 := by
  induction hs1 with
  | nil =>
    intro hs2 A r1 r2 e1 e2 _ c2 n1 n2
    simp only [List.flatten_nil, List.nil_append] at e1
    cases hs2 with
    | nil => simp only [List.flatten_nil, List.nil_append] at e2; exact ⟨rfl, by rw [← e1, e2]⟩
    | cons q qs =>
      obtain ⟨h1, _, _⟩ := c2
      rw [e1, n1] at h1; cases h1
  | cons q qs ih =>
    intro hs2 A r1 r2 e1 e2 c1 c2 n1 n2
    obtain ⟨a1, a2, a3⟩ := c1
    cases hs2 with
    | nil =>
      simp only [List.flatten_nil, List.nil_append] at e2
      rw [e2, n2] at a1; cases a1
    | cons q2 qs2 =>
      obtain ⟨b1, b2, b3⟩ := c2
      have hl : q.length = q2.length := by rw [a1] at b1; injection b1
      have hq : q = q2 := by rw [a2, b2, hl]
      subst hq
      have d1 : A.drop q.length = qs.flatten ++ r1 := by
        rw [e1]; simp [List.flatten_cons, List.append_assoc]
      have d2 : A.drop q.length = qs2.flatten ++ r2 := by
        rw [e2]; simp [List.flatten_cons, List.append_assoc]
      have := ih qs2 _ r1 r2 d1 d2 a3 b3 n1 n2
      exact ⟨by rw [this.1], this.2⟩

/-- a list of self-delimiting packets is the chain of its concatenation -/
theorem chain_of_valid (qs : List Bytes) (hv : ∀ q ∈ qs, p q = .pkt q.length) (x : Bytes) :
    Chain p qs (qs.flatten ++ x) := by
  induction qs with
  | nil => trivial
  | cons q qs ih =>
    have hq := hv q (by simp)
    refine ⟨?_, ?_, ?_⟩
    · simp only [List.flatten_cons, List.append_assoc]; exact hp.pktStable q _ _ hq
    · simp [List.flatten_cons, List.append_assoc]
    · simp only [List.flatten_cons, List.append_assoc, List.drop_left]
      exact ih (fun q' h' => hv q' (by simp [h']))

/-! ### the drain loop -/

/-- what one run of the __mqtt_recv loop guarantees -/
theorem drain_spec (hs : List Bytes) (buf : Bytes) : ∀ (A : Bytes), A = hs.flatten ++ buf → Chain p hs A →
    let r := drain p hok cap hs buf
    A = r.1.flatten ++ r.2.1 ∧ Chain p r.1 A ∧ hs <+: r.1 ∧ r.2.1.length ≤ buf.length ∧
      (r.2.2 = false → p r.2.1 = .need ∧ r.2.1.length < cap) := by
  fun_induction drain p hok cap hs buf with
  | case1 hs buf hn =>
    intro A hA hc
    refine ⟨hA, hc, List.prefix_refl _, Nat.le_refl _, ?_⟩
    intro he
    simp at he
    exact ⟨hn, he⟩
  | case2 hs buf hb =>
    intro A hA hc
    exact ⟨hA, hc, List.prefix_refl _, Nat.le_refl _, fun he => by cases he⟩
  | case3 hs buf n hpk hsz hh ih =>
    intro A hA hc
    have hc' := chain_snoc hp hs A buf n hA hc hpk hsz.2
    have hA' : A = (hs ++ [buf.take n]).flatten ++ buf.drop n := by
      rw [hA]; simp [List.flatten_append, List.append_assoc]
    have := ih A hA' hc'
    obtain ⟨g1, g2, g3, g4, g5⟩ := this
    refine ⟨g1, g2, ?_, ?_, g5⟩
    · exact List.IsPrefix.trans (List.prefix_append hs _) g3
    · simp [List.length_drop] at g4; omega
  | case4 hs buf n hpk hsz hh =>
    intro A hA hc
    have hc' := chain_snoc hp hs A buf n hA hc hpk hsz.2
    have hA' : A = (hs ++ [buf.take n]).flatten ++ buf.drop n := by
      rw [hA]; simp [List.flatten_append, List.append_assoc]
    refine ⟨hA', hc', List.prefix_append hs _, by simp [List.length_drop], fun he => by cases he⟩
  | case5 hs buf n hpk hsz =>
    intro A hA hc
    exact ⟨hA, hc, List.prefix_refl _, Nat.le_refl _, fun he => by cases he⟩

/-! ### the state invariant -/

/-- holds at every point, also between storing a part and the sync that follows -/
structure Core (p : Bytes → Parsed) (cap : Nat) (s : RState) (A : Bytes) : Prop where
  stream : A = s.hs.flatten ++ s.buf
  chain : Chain p s.hs A
  bound : s.buf.length ≤ cap
  gapErr : s.gap = true → s.err = true

/-- holds between events: additionally an error-free client has drained its buffer -/
structure Inv (p : Bytes → Parsed) (cap : Nat) (s : RState) (A : Bytes) : Prop extends Core p cap s A where
  idle : s.err = false → p s.buf = .need

theorem inv_init : Inv p cap {} [] :=
  ⟨⟨rfl, trivial, Nat.zero_le _, fun h => by cases h⟩, fun _ => hp.empty⟩

theorem syncStep_inv (s : RState) (A : Bytes) (h : Core p cap s A) :
    Inv p cap (syncStep p hok cap s) A ∧ s.hs <+: (syncStep p hok cap s).hs ∧
      (syncStep p hok cap s).gap = s.gap := by
  have := drain_spec hp hok cap s.hs s.buf A h.stream h.chain
  obtain ⟨g1, g2, g3, g4, g5⟩ := this
  unfold syncStep
  refine ⟨⟨⟨g1, g2, by simp only; exact Nat.le_trans g4 h.bound, ?_⟩, ?_⟩, g3, rfl⟩
  · intro hg
    simp only at hg ⊢
    rw [h.gapErr hg]; rfl
  · intro he
    simp only [Bool.or_eq_false_iff] at he
    exact (g5 he.2).1

/-- a segment: the accepted part is a prefix of it, all of it unless the gap flag is raised -/
theorem feedLoop_inv (s : RState) (seg : Bytes) : ∀ (A : Bytes), Inv p cap s A → s.gap = false →
    ∃ acc, acc <+: seg ∧ Inv p cap (feedLoop p hok cap s seg) (A ++ acc) ∧
      ((feedLoop p hok cap s seg).gap = false → acc = seg) ∧ s.hs <+: (feedLoop p hok cap s seg).hs := by
  fun_induction feedLoop p hok cap s seg with
  | case1 s =>
    intro A h hg
    exact ⟨[], List.prefix_refl _, by simpa using h, fun _ => rfl, List.prefix_refl _⟩
  | case2 s seg hnil hz =>
    intro A h hg
    refine ⟨[], List.nil_prefix, ?_, (fun hgap => by cases hgap), List.prefix_refl _⟩
    simp only [List.append_nil]
    exact ⟨⟨h.stream, h.chain, h.bound, fun _ => rfl⟩, fun he => by cases he⟩
  | case3 s seg hnil hz part s' herr =>
    intro A h hg
    have hpart : part ≤ cap - s.buf.length := Nat.min_le_right _ _
    have hpart2 : part ≤ seg.length := Nat.min_le_left _ _
    have h0 : Core p cap { s with buf := s.buf ++ seg.take part } (A ++ seg.take part) := by
      refine ⟨?_, chain_append_stream hp _ _ _ h.chain, ?_, h.gapErr⟩
      · simp only; rw [h.stream, List.append_assoc]
      · simp only [List.length_append, List.length_take]
        have := h.bound
        omega
    obtain ⟨i1, i2, i3⟩ := syncStep_inv hp hok cap _ _ h0
    refine ⟨seg.take part, List.take_prefix _ _, ?_, ?_, i2⟩
    · exact ⟨⟨i1.stream, i1.chain, i1.bound, fun _ => herr⟩, fun he => by rw [herr] at he; cases he⟩
    · intro hgap
      simp only [decide_eq_false_iff_not] at hgap
      have : part = seg.length := by omega
      rw [this, List.take_length]
  | case4 s seg hnil hz part s' herr ih =>
    intro A h hg
    have hpart : part ≤ cap - s.buf.length := Nat.min_le_right _ _
    have h0 : Core p cap { s with buf := s.buf ++ seg.take part } (A ++ seg.take part) := by
      refine ⟨?_, chain_append_stream hp _ _ _ h.chain, ?_, h.gapErr⟩
      · simp only; rw [h.stream, List.append_assoc]
      · simp only [List.length_append, List.length_take]
        have := h.bound
        omega
    obtain ⟨i1, i2, i3⟩ := syncStep_inv hp hok cap _ _ h0
    have hg' : s'.gap = false := by rw [show s'.gap = s.gap from i3]; exact hg
    obtain ⟨acc, a1, a2, a3, a4⟩ := ih (A ++ seg.take part) i1 hg'
    refine ⟨seg.take part ++ acc, ?_, ?_, ?_, List.IsPrefix.trans i2 a4⟩
    · obtain ⟨t, ht⟩ := a1
      exact ⟨t, by rw [List.append_assoc, ht, List.take_append_drop]⟩
    · rw [← List.append_assoc]; exact a2
    · intro hgap
      rw [a3 hgap, List.take_append_drop]

theorem gap_stays (s : RState) (e : REv) (h : s.gap = true) : (step p hok cap s e).gap = true := by
  cases e with
  | seg d => simp [step, h]
  | sync => simp [step, syncStep, h]
  | extErr => simp [step, h]

theorem run_gap_stays (es : List REv) : ∀ (s : RState), s.gap = true → (run p hok cap s es).gap = true := by
  induction es with
  | nil => intro s h; exact h
  | cons e es ih => intro s h; exact ih _ (gap_stays hp hok cap s e h)

/-- every event keeps the invariant; the accepted stream grows by a prefix of what the event offers,
    by all of it unless the gap flag is (or was) raised -/
theorem step_inv (s : RState) (e : REv) (A : Bytes) (h : Inv p cap s A) :
    ∃ acc, acc <+: offered [e] ∧ Inv p cap (step p hok cap s e) (A ++ acc) ∧
      ((step p hok cap s e).gap = false → acc = offered [e]) ∧ s.hs <+: (step p hok cap s e).hs ∧
      (s.gap = true → acc = []) := by
  cases e with
  | seg d =>
    by_cases hg : s.gap = true
    · refine ⟨[], List.nil_prefix, ?_, ?_, ?_, fun _ => rfl⟩
      · simpa [step, hg] using h
      · intro hgap; simp [step, hg] at hgap
      · simp [step, hg]
    · have hg' : s.gap = false := by simpa using hg
      obtain ⟨acc, a1, a2, a3, a4⟩ := feedLoop_inv hp hok cap s d A h hg'
      refine ⟨acc, by simpa [offered] using a1, ?_, ?_, ?_, fun hgt => absurd hgt hg⟩
      · simpa [step, hg'] using a2
      · intro hgap; simp only [step, hg'] at hgap; simpa [offered] using a3 hgap
      · simpa [step, hg'] using a4
  | sync =>
    obtain ⟨i1, i2, _⟩ := syncStep_inv hp hok cap s A h.toCore
    exact ⟨[], List.nil_prefix, by simpa [step] using i1, fun _ => rfl, by simpa [step] using i2, fun _ => rfl⟩
  | extErr =>
    refine ⟨[], List.nil_prefix, ?_, fun _ => rfl, List.prefix_refl _, fun _ => rfl⟩
    simp only [List.append_nil, step]
    exact ⟨⟨h.stream, h.chain, h.bound, fun _ => rfl⟩, fun he => by cases he⟩

omit hp in
theorem offered_cons (e : REv) (es : List REv) : offered (e :: es) = offered [e] ++ offered es := by
  cases e <;> simp [offered]

theorem run_inv (es : List REv) : ∀ (s : RState) (A : Bytes), Inv p cap s A →
    ∃ acc, acc <+: offered es ∧ Inv p cap (run p hok cap s es) (A ++ acc) ∧
      ((run p hok cap s es).gap = false → acc = offered es) ∧ s.hs <+: (run p hok cap s es).hs ∧
      (s.gap = true → acc = []) := by
  induction es with
  | nil =>
    intro s A h
    exact ⟨[], List.prefix_refl _, by simpa [run] using h, fun _ => rfl, List.prefix_refl _, fun _ => rfl⟩
  | cons e es ih =>
    intro s A h
    obtain ⟨a, a1, a2, a3, a4, a5⟩ := step_inv hp hok cap s e A h
    obtain ⟨b, b1, b2, b3, b4, b5⟩ := ih _ _ a2
    have hstart : s.gap = true → a ++ b = [] := by
      intro hg
      rw [a5 hg, b5 (gap_stays hp hok cap s e hg)]; rfl
    by_cases hg : (step p hok cap s e).gap = true
    · -- nothing more is accepted
      have hfin := run_gap_stays hp hok cap es _ hg
      refine ⟨a ++ b, ?_, by simpa [run, List.append_assoc] using b2, ?_, List.IsPrefix.trans a4 b4, hstart⟩
      · rw [b5 hg, List.append_nil, offered_cons]
        exact List.IsPrefix.trans a1 (List.prefix_append _ _)
      · intro hgap; simp only [run] at hgap; rw [hfin] at hgap; cases hgap
    · have hg' : (step p hok cap s e).gap = false := by simpa using hg
      have ha := a3 hg'
      refine ⟨a ++ b, ?_, by simpa [run, List.append_assoc] using b2, ?_, List.IsPrefix.trans a4 b4, hstart⟩
      · rw [offered_cons, ha]
        obtain ⟨t, ht⟩ := b1
        exact ⟨t, by rw [List.append_assoc, ht]⟩
      · intro hgap
        simp only [run] at hgap
        rw [offered_cons, ha, b3 hgap]

end SuplaVerif.MqttRecv
