/-
  Lemmas/Io — the IN half of `srpc_iterate` over the grammar; the OUT half delivers nothing.
-/
import SuplaVerif.Lemmas.Proto
import SuplaVerif.Model.Srpc

namespace SuplaVerif
open Bytes

/-- frames handed to the remote-call handler -/
def delivers : List Obs → List Frame
  | [] => []
  | .deliver f :: os => f :: delivers os
  | _ :: os => delivers os

@[simp] theorem delivers_nil : delivers [] = [] := rfl
@[simp] theorem delivers_append (a b : List Obs) : delivers (a ++ b) = delivers a ++ delivers b := by
  induction a with
  | nil => rfl
  | cons x xs ih => cases x <;> simp [delivers, ih]

@[simp] theorem delivers_deliver (f : Frame) (os : List Obs) :
    delivers (.deliver f :: os) = f :: delivers os := rfl
@[simp] theorem delivers_out (o : OObs) (os : List Obs) : delivers (.out o :: os) = delivers os := rfl
@[simp] theorem delivers_log (c : String) (os : List Obs) : delivers (.log c :: os) = delivers os := rfl
@[simp] theorem delivers_restart (os : List Obs) : delivers (.restart :: os) = delivers os := rfl

/-- the OUT half never delivers anything -/
@[simp] theorem delivers_map_out (l : List OObs) : delivers (l.map Obs.out) = [] := by
  induction l with
  | nil => rfl
  | cons x xs ih => simp [ih]

/-- the IN half of one iterate, in terms of the grammar: it either delivers exactly the next
    frame of the pending bytes, or delivers nothing and (unless it fails) keeps them -/
theorem inHalf_spec (P : ProtoParams) (hP : P.WF) (hm : P.bufMin < P.bufMax) (scratch : Bytes)
    (i : IoIn) (hb : i.inb.Inv P) :
    (i.inHalf P scratch).2.1.inb.Inv P ∧
    (i.inHalf P scratch).2.1.staging.length ≤ i.staging.length ∧
    ((∃ f, delivers (i.inHalf P scratch).2.2 = [f] ∧ f.Valid P ∧ (i.inHalf P scratch).1 = true ∧
        i.inb.data ++ i.staging =
          f.bytes ++ ((i.inHalf P scratch).2.1.inb.data ++ (i.inHalf P scratch).2.1.staging)) ∨
     (delivers (i.inHalf P scratch).2.2 = [] ∧
        ((i.inHalf P scratch).1 = true →
          (i.inHalf P scratch).2.1.inb.data ++ (i.inHalf P scratch).2.1.staging =
            i.inb.data ++ i.staging))) := by
  unfold IoIn.inHalf
  simp only
  -- the append step
  have hstg : (i.staging.drop P.chunk).length ≤ i.staging.length := by simp
  have hsplit : i.staging = i.staging.take P.chunk ++ i.staging.drop P.chunk :=
    (List.take_append_drop _ _).symm
  generalize hra : (if (i.staging.take P.chunk).length > 0 then i.inb.append P (i.staging.take P.chunk)
    else (PRes.ok, i.inb)) = ra
  by_cases hok : ra.1 = .ok
  · -- appended (or nothing to append)
    have hra2 : ra.2.Inv P ∧ ra.2.data = i.inb.data ++ i.staging.take P.chunk := by
      by_cases hc : (i.staging.take P.chunk).length > 0
      · rw [if_pos hc] at hra
        subst hra
        have := AccBuf.append_ok P i.inb _ hb hok
        exact ⟨this.1, this.2.1⟩
      · rw [if_neg hc] at hra
        subst hra
        have : i.staging.take P.chunk = [] := by
          cases h : i.staging.take P.chunk with
          | nil => rfl
          | cons a l => rw [h] at hc; simp at hc
        simp [this, hb]
    have hne : ¬ (ra.1 ≠ .ok) := by simp [hok]
    rw [if_neg hne]
    have hpend : i.inb.data ++ i.staging = ra.2.data ++ i.staging.drop P.chunk := by
      rw [hra2.2, List.append_assoc, ← hsplit]
    cases hph : parseHead P ra.2.data with
    | needMore =>
      obtain ⟨b', hpop, hd, hinv⟩ := popInSdp_needMore P hP ra.2 scratch hra2.1 hph
      rw [hpop]
      refine ⟨hinv, hstg, Or.inr ⟨rfl, fun _ => ?_⟩⟩
      simp only [hd, hpend]
    | frame f rest =>
      obtain ⟨b', sdp, hpop, hd, hdec, hinv⟩ := popInSdp_frame P hP hm ra.2 scratch hra2.1 f rest hph
      rw [hpop]
      have hs := parseHead_sound P hP _ f rest hph
      refine ⟨hinv, hstg, Or.inl ⟨f, by simp [hdec], hs.2, rfl, ?_⟩⟩
      simp only [hd, hpend]
      rw [hs.1]; simp
    | bad =>
      obtain ⟨b', sdp, hpop, hd, hinv⟩ := popInSdp_bad P hP hm ra.2 scratch hra2.1 hph
      rw [hpop]
      exact ⟨hinv, hstg, Or.inr ⟨rfl, fun h => by cases h⟩⟩
    | badVersion =>
      obtain ⟨b', sdp, hpop, hd, hinv⟩ := popInSdp_badVersion P hm ra.2 scratch hra2.1 hph
      rw [hpop]
      exact ⟨hinv, hstg, Or.inr ⟨rfl, fun h => by cases h⟩⟩
  · rw [if_pos hok]
    have : ra.2 = i.inb := by
      by_cases hc : (i.staging.take P.chunk).length > 0
      · rw [if_pos hc] at hra; subst hra; exact AccBuf.append_fail P _ _ hok
      · rw [if_neg hc] at hra; subst hra; rfl
    refine ⟨by rw [this]; exact hb, hstg, Or.inr ⟨rfl, fun h => by cases h⟩⟩

end SuplaVerif
