/-
  Base/Bytes — byte strings as `List UInt8`, little-endian words, C strings.
  Core Lean only.
-/
namespace SuplaVerif

abbrev Bytes := List UInt8

namespace Bytes

/-- little-endian 32-bit read of the first four bytes (missing bytes read as 0) -/
def le32 (b : Bytes) : Nat :=
  (b.getD 0 0).toNat + 256 * (b.getD 1 0).toNat + 65536 * (b.getD 2 0).toNat
    + 16777216 * (b.getD 3 0).toNat

def le16 (b : Bytes) : Nat :=
  (b.getD 0 0).toNat + 256 * (b.getD 1 0).toNat

/-- big-endian 16-bit read (network order) -/
def be16 (b : Bytes) : Nat :=
  256 * (b.getD 0 0).toNat + (b.getD 1 0).toNat

def toLe32 (n : Nat) : Bytes :=
  [UInt8.ofNat (n % 256), UInt8.ofNat (n / 256 % 256), UInt8.ofNat (n / 65536 % 256),
   UInt8.ofNat (n / 16777216 % 256)]

def toBe16 (n : Nat) : Bytes :=
  [UInt8.ofNat (n / 256 % 256), UInt8.ofNat (n % 256)]

theorem toLe32_length (n : Nat) : (toLe32 n).length = 4 := rfl
theorem toBe16_length (n : Nat) : (toBe16 n).length = 2 := rfl

theorem u8_ofNat_toNat (k : Nat) (h : k < 256) : (UInt8.ofNat k).toNat = k := by
  simp [Nat.mod_eq_of_lt h]

theorem le32_lt (b : Bytes) : le32 b < 4294967296 := by
  unfold le32
  have h0 := (b.getD 0 0).toNat_lt
  have h1 := (b.getD 1 0).toNat_lt
  have h2 := (b.getD 2 0).toNat_lt
  have h3 := (b.getD 3 0).toNat_lt
  omega

theorem le32_toLe32 (n : Nat) (h : n < 4294967296) (rest : Bytes) :
    le32 (toLe32 n ++ rest) = n := by
  unfold le32 toLe32
  simp only [List.cons_append, List.nil_append, List.getD_cons_zero, List.getD_cons_succ]
  rw [u8_ofNat_toNat _ (Nat.mod_lt _ (by decide)), u8_ofNat_toNat _ (Nat.mod_lt _ (by decide)),
    u8_ofNat_toNat _ (Nat.mod_lt _ (by decide)), u8_ofNat_toNat _ (Nat.mod_lt _ (by decide))]
  omega

theorem be16_toBe16 (n : Nat) (h : n < 65536) (rest : Bytes) :
    be16 (toBe16 n ++ rest) = n := by
  unfold be16 toBe16
  simp only [List.cons_append, List.nil_append, List.getD_cons_zero, List.getD_cons_succ]
  rw [u8_ofNat_toNat _ (Nat.mod_lt _ (by decide)), u8_ofNat_toNat _ (Nat.mod_lt _ (by decide))]
  omega

/-- reading the first `k ≤ 4` bytes only depends on those bytes -/
theorem le32_append_of_length (a b : Bytes) (h : 4 ≤ a.length) : le32 (a ++ b) = le32 a := by
  unfold le32
  simp [List.getD_eq_getElem?_getD, List.getElem?_append_left,
    show 0 < a.length by omega, show 1 < a.length by omega, show 2 < a.length by omega,
    show 3 < a.length by omega]

/-- the C-string view: bytes before the first NUL -/
def cstr : Bytes → Bytes
  | [] => []
  | b :: bs => if b = 0 then [] else b :: cstr bs

theorem cstr_length_le (b : Bytes) : (cstr b).length ≤ b.length := by
  induction b with
  | nil => simp [cstr]
  | cons x xs ih => unfold cstr; split <;> simp <;> omega

/-- a NUL occurs within the first `n` bytes -/
def Terminated (n : Nat) (b : Bytes) : Prop := (cstr (b.take n)).length < n

def hexDigit (n : Nat) : Char :=
  if n < 10 then Char.ofNat (48 + n) else Char.ofNat (87 + n)

def toHex (b : Bytes) : String :=
  String.ofList (b.foldr (fun x acc => hexDigit (x.toNat / 16) :: hexDigit (x.toNat % 16) :: acc) [])

def hexVal (c : Char) : Option Nat :=
  if '0' ≤ c ∧ c ≤ '9' then some (c.toNat - 48)
  else if 'a' ≤ c ∧ c ≤ 'f' then some (c.toNat - 87)
  else if 'A' ≤ c ∧ c ≤ 'F' then some (c.toNat - 55)
  else none

def ofHexChars : List Char → Option Bytes
  | [] => some []
  | [_] => none
  | a :: b :: rest => do
    let x ← hexVal a
    let y ← hexVal b
    let r ← ofHexChars rest
    pure (UInt8.ofNat (16 * x + y) :: r)

/-- "-" stands for the empty string in ops files -/
def ofHex (s : String) : Option Bytes :=
  if s = "-" then some [] else ofHexChars s.toList

end Bytes
end SuplaVerif
