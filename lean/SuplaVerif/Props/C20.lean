/-
  Props/C20 — fallback DNS resolver: safe on any reply, exactly one completion callback.

  Quantifiers: every reply byte string (any length), every request length `R ≥ 14` (a request
  exists), every event sequence over {resolve, connected ok/refused, reply, disconnected,
  timeout fires, retry fires}.
-/
import SuplaVerif.Model.Dns
import SuplaVerif.Gen.Consts

namespace SuplaVerif.C20
open Bytes

theorem skipReads_lt (p : Bytes) (base len fuel a : Nat) :
    ∀ i ∈ skipReads p base len fuel a, i < base + len := by
  induction fuel generalizing a with
  | zero => simp [skipReads]
  | succ n ih =>
    intro i hi
    unfold skipReads at hi
    split at hi
    · rename_i hlt
      simp only [List.mem_cons] at hi
      rcases hi with h | h
      · omega
      · split at h
        · simp at h
        · split at h
          · simp at h
          · exact ih _ i h
    · simp at hi

/-- **C20.1 (in bounds)** every index of the received buffer that the parser reads or writes is
    below its length — for every reply, whenever a request exists (`R ≥ 14`). -/
theorem c20_in_bounds (P : DnsParams) (R : Nat) (hR : 14 ≤ R) (p : Bytes) :
    ∀ i ∈ (dnsRecv P R p).2, i < p.length := by
  intro i hi
  unfold dnsRecv at hi
  split at hi
  · rename_i h
    split at hi
    · simp at hi
    · simp only [List.mem_cons, List.not_mem_nil, or_false] at hi; omega
  · rename_i h
    have hlen : R ≤ p.length := by omega
    simp only at hi
    split at hi
    · simp only [List.mem_cons, List.not_mem_nil, or_false] at hi; omega
    · have hbase : ∀ j, j ∈ [0, 1, 5, 8, 9] → j < p.length := by
        intro j hj; simp only [List.mem_cons, List.not_mem_nil, or_false] at hj; omega
      have hskip := skipReads_lt p R (p.length - R) (p.length - R) 0
      split at hi
      · rcases List.mem_append.mp hi with h1 | h1
        · exact hbase i h1
        · have := hskip i h1; omega
      · rename_i hsz
        split at hi
        · rcases List.mem_append.mp hi with h1 | h1
          · rcases List.mem_append.mp h1 with h2 | h2
            · exact hbase i h2
            · have := hskip i h2; omega
          · simp only [List.mem_map, List.mem_range] at h1
            obtain ⟨k, hk, rfl⟩ := h1; omega
        · rename_i hchk
          rcases List.mem_append.mp hi with h1 | h1
          · rcases List.mem_append.mp h1 with h2 | h2
            · rcases List.mem_append.mp h2 with h3 | h3
              · exact hbase i h3
              · have := hskip i h3; omega
            · simp only [List.mem_map, List.mem_range] at h2
              obtain ⟨k, hk, rfl⟩ := h2; omega
          · simp only [List.mem_map, List.mem_range] at h1
            obtain ⟨k, hk, rfl⟩ := h1
            simp only [not_or, Nat.not_lt, ne_eq, Decidable.not_not] at hchk
            omega

/-- **C20.2 (report iff)** an address is reported exactly when the reply has a consistent length
    prefix, RCODE 0, ANCOUNT ≥ 1, and the record after the echoed question (name skipped up to a
    compression pointer or the root label) is TYPE A / CLASS IN / RDLENGTH 4 inside the buffer;
    the address is those four bytes. -/
theorem c20_report_iff (P : DnsParams) (R : Nat) (p : Bytes) (ip : Bytes) :
    (dnsRecv P R p).1 = .ok ip ↔
    (R ≤ p.length ∧ be16 p = p.length - 2 ∧ (p.getD 5 0).toNat % 16 = 0 ∧ 1 ≤ be16 (p.drop 8) ∧
     skipName p R (p.length - R) (p.length - R) 0 + P.aSuffix < p.length - R ∧
     be16 (p.drop (R + skipName p R (p.length - R) (p.length - R) 0)) = 1 ∧
     be16 ((p.drop (R + skipName p R (p.length - R) (p.length - R) 0)).drop 2) = 1 ∧
     be16 ((p.drop (R + skipName p R (p.length - R) (p.length - R) 0)).drop 8) = 4 ∧
     skipName p R (p.length - R) (p.length - R) 0 + P.aSuffix + 4 ≤ p.length - R ∧
     ip = ((p.drop (R + skipName p R (p.length - R) (p.length - R) 0)).drop P.aSuffix).take 4) := by
  unfold dnsRecv
  constructor
  · intro h
    split at h
    · cases h
    · rename_i h1
      simp only at h
      split at h
      · cases h
      · rename_i h2
        split at h
        · cases h
        · rename_i h3
          split at h
          · cases h
          · rename_i h4
            simp only [not_or, Nat.not_lt, ne_eq, Decidable.not_not, DnsVerdict.ok.injEq] at *
            refine ⟨by omega, by omega, by omega, by omega, by omega, h4.1, h4.2.1, h4.2.2.1, ?_, h.symm⟩
            have := h4.2.2.2; rw [h4.2.2.1] at this; exact this
  · rintro ⟨h1, h2, h3, h4, h5, h6, h7, h8, h9, h10⟩
    rw [if_neg (by omega)]
    simp only
    rw [if_neg (by omega), if_neg (by omega), if_neg (by rw [h6, h7, h8]; omega)]
    rw [h10]

/-- the name-skipping loop never runs past the end by more than the two bytes of a pointer -/
theorem skipName_le (p : Bytes) (base len fuel a : Nat) (ha : a ≤ len) :
    skipName p base len fuel a ≤ len + 1 := by
  induction fuel generalizing a with
  | zero => simp [skipName]; omega
  | succ n ih =>
    unfold skipName
    split
    · split
      · omega
      · split
        · omega
        · exact ih _ (by omega)
    · omega

/-! ### request state machine -/

def callbacks : List DnsObs → Nat
  | [] => 0
  | .callback _ :: os => 1 + callbacks os
  | _ :: os => callbacks os

theorem callbacks_append (a b : List DnsObs) : callbacks (a ++ b) = callbacks a + callbacks b := by
  induction a with
  | nil => simp [callbacks]
  | cons x xs ih => cases x <;> simp [callbacks, ih] <;> omega

def isResolve : DnsEv → Bool
  | .resolve _ _ => true
  | _ => false

theorem result_cb (P : DnsParams) (s : Dns) :
    (callbacks (Dns.result P s).2 = 0 ∧ (Dns.result P s).1.pending = s.pending) ∨
    (callbacks (Dns.result P s).2 = 1 ∧ s.pending = true ∧ (Dns.result P s).1.pending = false) := by
  unfold Dns.result
  split
  · left; simp [callbacks]
  · simp only
    cases hp : s.pending
    · left; simp [callbacks, hp]
    · right; simp [callbacks, hp]

theorem step_cb (P : DnsParams) (s : Dns) (e : DnsEv) (he : isResolve e = false) :
    (callbacks (Dns.step P s e).2 = 0 ∧ (Dns.step P s e).1.pending = s.pending) ∨
    (callbacks (Dns.step P s e).2 = 1 ∧ s.pending = true ∧ (Dns.step P s e).1.pending = false) := by
  cases e with
  | resolve n m => simp [isResolve] at he
  | connected ok =>
    unfold Dns.step
    simp only
    split
    · left; simp [callbacks]
    · split
      · left; simp [callbacks]
      · have := result_cb P { s with connOpen := false, closing := true }
        simp only [callbacks] at this ⊢
        simpa [callbacks] using this
  | reply p =>
    unfold Dns.step
    simp only
    split
    · left; simp [callbacks]
    · split
      · exact result_cb P s
      · left; simp [callbacks]
      · left; simp [callbacks]
  | disconnected =>
    unfold Dns.step
    simp only
    split
    · left; simp [callbacks]
    · exact result_cb P { s with connOpen := false, closing := false }
  | fireTimeout =>
    unfold Dns.step
    simp only
    split
    · have := result_cb P { s with timeoutArmed := false, connOpen := false, closing := s.connOpen || s.closing }
      simpa [callbacks] using this
    · left; simp [callbacks]
  | fireRetry =>
    unfold Dns.step
    simp only
    split
    · left; unfold Dns.doResolve; split <;> simp [callbacks]
    · left; simp [callbacks]

/-- **C20.3 (at most once)** between two resolve requests at most one completion callback is
    made, and none at all when no request is pending — for every event sequence. -/
theorem c20_at_most_once (P : DnsParams) (es : List DnsEv) (hno : ∀ e ∈ es, isResolve e = false)
    (s : Dns) : callbacks (Dns.run P s es).2 ≤ (if s.pending then 1 else 0) := by
  induction es generalizing s with
  | nil => simp [Dns.run, callbacks]
  | cons e es ih =>
    unfold Dns.run
    simp only
    rw [callbacks_append]
    have h1 := step_cb P s e (hno e (by simp))
    have h2 := ih (fun x hx => hno x (by simp [hx])) (Dns.step P s e).1
    rcases h1 with ⟨ha, hb⟩ | ⟨ha, hb, hc⟩
    · rw [ha]; rw [hb] at h2; simpa using h2
    · rw [ha]; rw [hc] at h2; simp [hb] at *; omega

/-- **C20.3b (unsendable requests fail at once)** a resolve with no name, a name shorter than
    the minimum, or a failed allocation completes immediately with exactly one failure callback,
    arms no timer and never reuses the previous request's outcome. -/
theorem c20_unsendable_fails_now (P : DnsParams) (s : Dns) (name : Option Bytes) (mallocOk : Bool)
    (h : name = none ∨ (∃ n, name = some n ∧ (cstr n).length < P.minLen ∧ P.minLen ≤ P.maxLen) ∨
         mallocOk = false) :
    (Dns.step P s (.resolve name mallocOk)).2 = [.callback none] ∧
    (Dns.step P s (.resolve name mallocOk)).1.pending = false ∧
    (Dns.step P s (.resolve name mallocOk)).1.timeoutArmed = false ∧
    (Dns.step P s (.resolve name mallocOk)).1.retryArmed = false := by
  have hres : ∀ (t : Dns), t.success = false → t.tries = P.servers → t.pending = true →
      t.timeoutArmed = false → t.retryArmed = false →
      (Dns.result P t).2 = [.callback none] ∧ (Dns.result P t).1.pending = false ∧
      (Dns.result P t).1.timeoutArmed = false ∧ (Dns.result P t).1.retryArmed = false := by
    intro t h1 h2 h3 h4 h5
    unfold Dns.result
    rw [if_neg (by omega)]
    simp [h1, h3, h4, h5]
  unfold Dns.step
  cases name with
  | none => apply hres <;> rfl
  | some n =>
    simp only
    rcases h with h | ⟨n', hn, hlt, hmm⟩ | h
    · cases h
    · cases hn
      rw [if_pos (Nat.lt_of_le_of_lt (Nat.min_le_left _ _) hlt)]
      apply hres <;> rfl
    · subst h
      by_cases hc : Nat.min (cstr n).length P.maxLen < P.minLen
      · rw [if_pos hc]; apply hres <;> rfl
      · rw [if_neg hc]
        simp only [Bool.not_false, if_true]
        apply hres <;> rfl

/-- state invariant: a pending request always has a timer armed (so it cannot hang), the retry
    timer is armed only while servers remain, and the try counter never exceeds their number -/
def Inv (P : DnsParams) (s : Dns) : Prop :=
  (s.pending = true → s.timeoutArmed = true ∨ s.retryArmed = true) ∧
  (s.retryArmed = true → s.tries < P.servers) ∧ s.tries ≤ P.servers

theorem result_inv (P : DnsParams) (s : Dns) (h2 : s.retryArmed = true → s.tries < P.servers)
    (h3 : s.tries ≤ P.servers) : Inv P (Dns.result P s).1 := by
  unfold Dns.result Inv
  split
  · rename_i h; simp; omega
  · simp only
    split <;> simp_all

/-- **C20.3c (never stuck, bounded retries)** the invariant holds in every reachable state -/
theorem c20_inv_step (P : DnsParams) (hp : 1 ≤ P.servers) (s : Dns) (e : DnsEv) (hi : Inv P s) :
    Inv P (Dns.step P s e).1 := by
  obtain ⟨h1, h2, h3⟩ := hi
  cases e with
  | resolve name m =>
    unfold Dns.step
    simp only
    have hr : ∀ (t : Dns), t.retryArmed = false → t.tries = P.servers → Inv P (Dns.result P t).1 :=
      fun t ha hb => result_inv P t (by simp [ha]) (by omega)
    cases name with
    | none => apply hr <;> rfl
    | some n =>
      simp only
      by_cases hc : Nat.min (cstr n).length P.maxLen < P.minLen
      · rw [if_pos hc]; apply hr <;> rfl
      · rw [if_neg hc]
        by_cases hm : (!m) = true
        · rw [if_pos hm]; apply hr <;> rfl
        · rw [if_neg hm]
          refine ⟨fun _ => Or.inl (by unfold Dns.doResolve; split <;> rfl), fun h => ?_, ?_⟩
          · unfold Dns.doResolve at h; split at h <;> simp at h
          · unfold Dns.doResolve; split <;> (show 0 + 1 ≤ P.servers; omega)
  | connected ok =>
    unfold Dns.step; simp only
    split
    · exact ⟨h1, h2, h3⟩
    · split
      · exact ⟨h1, h2, h3⟩
      · exact result_inv P _ h2 h3
  | reply p =>
    unfold Dns.step; simp only
    split
    · exact ⟨h1, h2, h3⟩
    · split
      · exact result_inv P _ h2 h3
      · exact ⟨h1, h2, h3⟩
      · exact ⟨h1, h2, h3⟩
  | disconnected =>
    unfold Dns.step; simp only
    split
    · exact ⟨h1, h2, h3⟩
    · exact result_inv P _ h2 h3
  | fireTimeout =>
    unfold Dns.step; simp only
    split
    · exact result_inv P _ h2 h3
    · exact ⟨h1, h2, h3⟩
  | fireRetry =>
    unfold Dns.step; simp only
    split
    · rename_i hr
      have := h2 hr
      unfold Dns.doResolve; split <;> (simp [Inv]; omega)
    · exact ⟨h1, h2, h3⟩

theorem c20_inv_run (P : DnsParams) (hp : 1 ≤ P.servers) (es : List DnsEv) (s : Dns) (hi : Inv P s) :
    Inv P (Dns.run P s es).1 := by
  induction es generalizing s with
  | nil => exact hi
  | cons e es ih => unfold Dns.run; exact ih _ (c20_inv_step P hp s e hi)

/-- **C20.3d (completion)** once all servers were tried, the next failure of the attempt (timeout
    timer, disconnect, refused send or bad reply) completes the request with the failure callback;
    and a success is reported at the next disconnect or timeout. -/
theorem c20_completes_after_last_try (P : DnsParams) (s : Dns) (hp : s.pending = true)
    (ht : s.tries = P.servers) (ha : s.timeoutArmed = true) :
    callbacks (Dns.step P s .fireTimeout).2 = 1 ∧ (Dns.step P s .fireTimeout).1.pending = false := by
  unfold Dns.step
  simp only [ha, if_true]
  unfold Dns.result
  rw [if_neg (by simp; omega)]
  simp [hp, callbacks]


/-! ### nothing goes on after the completion -/

/-- while no request is pending the retry timer is off and the attempt state is final (a success, all servers
    used) or nothing is going on at all - so whatever comes late stays in the completion branch -/
def Quiet (P : DnsParams) (s : Dns) : Prop :=
  s.pending = false → s.retryArmed = false ∧
    (s.success = true ∨ P.servers ≤ s.tries ∨ (s.connOpen = false ∧ s.closing = false ∧ s.timeoutArmed = false))

theorem result_quiet (P : DnsParams) (s : Dns)
    (h : s.pending = false → s.retryArmed = false ∧ (s.success = true ∨ P.servers ≤ s.tries)) :
    Quiet P (Dns.result P s).1 := by
  unfold Dns.result Quiet
  by_cases hb : s.success = false ∧ s.tries < P.servers
  · rw [if_pos hb]
    intro hp
    have := (h hp).2
    rcases this with h1 | h1
    · rw [hb.1] at h1; cases h1
    · omega
  · rw [if_neg hb]
    have hfin : s.success = true ∨ P.servers ≤ s.tries := by
      cases hs : s.success
      · right; simp [hs] at hb; omega
      · left; rfl
    simp only
    split <;> (intro _; exact ⟨rfl, Or.imp_right Or.inl hfin⟩)

/-- **C20.3e (the request ends at its completion)** `Quiet` holds in every reachable state -/
theorem c20_quiet_step (P : DnsParams) (s : Dns) (e : DnsEv) (hq : Quiet P s) : Quiet P (Dns.step P s e).1 := by
  have busy : (s.connOpen = true ∨ s.closing = true ∨ s.timeoutArmed = true) →
      s.pending = false → s.retryArmed = false ∧ (s.success = true ∨ P.servers ≤ s.tries) := by
    intro hb hp
    obtain ⟨h1, h2⟩ := hq hp
    refine ⟨h1, ?_⟩
    rcases h2 with h2 | h2 | ⟨a, b, c⟩
    · exact Or.inl h2
    · exact Or.inr h2
    · rcases hb with hb | hb | hb <;> simp_all
  cases e with
  | resolve name m =>
    unfold Dns.step
    simp only
    have hr : ∀ (t : Dns), t.pending = true → Quiet P (Dns.result P t).1 :=
      fun t ht => result_quiet P t (fun h => by rw [ht] at h; cases h)
    cases name with
    | none => apply hr; rfl
    | some n =>
      simp only
      by_cases hc : Nat.min (cstr n).length P.maxLen < P.minLen
      · rw [if_pos hc]; apply hr; rfl
      · rw [if_neg hc]
        by_cases hm : (!m) = true
        · rw [if_pos hm]; apply hr; rfl
        · rw [if_neg hm]
          intro h; unfold Dns.doResolve at h; split at h <;> simp at h
  | connected ok =>
    unfold Dns.step; simp only
    by_cases hc : (!s.connOpen) = true
    · rw [if_pos hc]; exact hq
    · rw [if_neg hc]
      by_cases ho : ok = true
      · rw [if_pos ho]; exact hq
      · rw [if_neg ho]
        exact result_quiet P _ (busy (Or.inl (by simpa using hc)))
  | reply p =>
    unfold Dns.step; simp only
    by_cases hc : (!s.connOpen) = true
    · rw [if_pos hc]; exact hq
    · rw [if_neg hc]
      have hb := busy (Or.inl (by simpa using hc))
      split
      · exact result_quiet P _ hb
      · exact hq
      · intro hp; exact ⟨(hb hp).1, Or.inl rfl⟩
  | disconnected =>
    unfold Dns.step; simp only
    by_cases hc : (!s.connOpen && !s.closing) = true
    · rw [if_pos hc]; exact hq
    · rw [if_neg hc]
      refine result_quiet P _ (busy ?_)
      cases h1 : s.connOpen <;> cases h2 : s.closing <;> simp_all
  | fireTimeout =>
    unfold Dns.step; simp only
    by_cases hc : s.timeoutArmed = true
    · rw [if_pos hc]
      exact result_quiet P _ (busy (Or.inr (Or.inr hc)))
    · rw [if_neg hc]; exact hq
  | fireRetry =>
    unfold Dns.step; simp only
    by_cases hc : s.retryArmed = true
    · rw [if_pos hc]
      intro hp
      have : s.pending = true := by
        cases h : s.pending
        · have := (hq h).1; rw [hc] at this; cases this
        · rfl
      unfold Dns.doResolve at hp; split at hp <;> simp [this] at hp
    · rw [if_neg hc]; exact hq

theorem c20_quiet_run (P : DnsParams) (es : List DnsEv) (s : Dns) (hq : Quiet P s) :
    Quiet P (Dns.run P s es).1 := by
  induction es generalizing s with
  | nil => exact hq
  | cons e es ih => unfold Dns.run; exact ih _ (c20_quiet_step P s e hq)

/-- the power-on state is quiet -/
theorem quiet_init (P : DnsParams) : Quiet P {} := fun _ => ⟨rfl, Or.inr (Or.inr ⟨rfl, rfl, rfl⟩)⟩

theorem result_no_connect (P : DnsParams) (s : Dns) (k : Nat) : DnsObs.connect k ∉ (Dns.result P s).2 := by
  unfold Dns.result
  split
  · simp
  · simp only; split <;> simp

/-- **C20.3f** in every reachable state, a step that opens a connection to a DNS server (the only way a request is
    sent) belongs to a request that is still pending: after the completion callback the resolver never
    connects again, whatever arrives late (disconnect callbacks, replies, timers). -/
theorem c20_connect_only_when_pending (P : DnsParams) (es : List DnsEv) (e : DnsEv) (k : Nat)
    (h : DnsObs.connect k ∈ (Dns.step P (Dns.run P {} es).1 e).2) :
    (Dns.step P (Dns.run P {} es).1 e).1.pending = true := by
  have hq := c20_quiet_run P es {} (quiet_init P)
  generalize (Dns.run P {} es).1 = s at h hq ⊢
  cases e with
  | resolve name m =>
    revert h
    unfold Dns.step
    simp only
    cases name with
    | none => intro h; exact absurd h (result_no_connect P _ k)
    | some n =>
      simp only
      by_cases hc : Nat.min (cstr n).length P.maxLen < P.minLen
      · rw [if_pos hc]; intro h; exact absurd h (result_no_connect P _ k)
      · rw [if_neg hc]
        by_cases hm : (!m) = true
        · rw [if_pos hm]; intro h; exact absurd h (result_no_connect P _ k)
        · rw [if_neg hm]; intro _; unfold Dns.doResolve; split <;> rfl
  | connected ok =>
    revert h
    unfold Dns.step; simp only
    by_cases hc : (!s.connOpen) = true
    · rw [if_pos hc]; simp
    · rw [if_neg hc]
      by_cases ho : ok = true
      · rw [if_pos ho]; simp
      · rw [if_neg ho]
        intro h
        simp only [List.mem_append, List.mem_cons, List.not_mem_nil, or_false, reduceCtorEq, false_or] at h
        exact absurd h (result_no_connect P _ k)
  | reply p =>
    revert h
    unfold Dns.step; simp only
    by_cases hc : (!s.connOpen) = true
    · rw [if_pos hc]; simp
    · rw [if_neg hc]
      split
      · intro h; exact absurd h (result_no_connect P _ k)
      · simp
      · simp
  | disconnected =>
    revert h
    unfold Dns.step; simp only
    by_cases hc : (!s.connOpen && !s.closing) = true
    · rw [if_pos hc]; simp
    · rw [if_neg hc]; intro h; exact absurd h (result_no_connect P _ k)
  | fireTimeout =>
    revert h
    unfold Dns.step; simp only
    by_cases hc : s.timeoutArmed = true
    · rw [if_pos hc]
      intro h
      simp only [List.mem_append, List.mem_cons, List.not_mem_nil, or_false, reduceCtorEq, false_or] at h
      exact absurd h (result_no_connect P _ k)
    · rw [if_neg hc]; simp
  | fireRetry =>
    revert h
    unfold Dns.step; simp only
    by_cases hc : s.retryArmed = true
    · rw [if_pos hc]
      intro _
      cases hp : s.pending
      · have := (hq hp).1; rw [hc] at this; cases this
      · unfold Dns.doResolve; split <;> simp
    · rw [if_neg hc]; simp

/-- **C20.3g (a refused connection request does not strand the request)** whether the SDK accepts the connection request or
    refuses it at once (no callback will ever come for it), the try is counted and the per-try timeout is armed: the request
    goes on to the next server or to its completion callback (C20.2) -/
theorem c20_refused_connect_keeps_timeout (P : DnsParams) (s : Dns) :
    (Dns.doResolve P s).1.timeoutArmed = true ∧ (Dns.doResolve P s).1.tries = s.tries + 1 ∧
    (Dns.doResolve P s).1.pending = s.pending := by
  unfold Dns.doResolve; split <;> simp

/-! ### instantiation and non-vacuity -/

theorem c20_in_bounds_repo (R : Nat) (hR : 14 ≤ R) (p : Bytes) :
    ∀ i ∈ (dnsRecv Gen.dnsParams R p).2, i < p.length := c20_in_bounds Gen.dnsParams R hR p

/-- a well-formed A reply for "supla.org" (request length 29) is accepted with its address -/
example : (dnsRecv Gen.dnsParams 29
    ([0,43, 0,1, 0x81,0x80, 0,1, 0,1, 0,0, 0,0, 5,115,117,112,108,97, 3,111,114,103, 0, 0,1, 0,1,
      0xc0,0x0c, 0,1, 0,1, 0,0,0,60, 0,4, 1,2,3,4])).1 = .ok [1, 2, 3, 4] := by decide

/-- the same reply with RDLENGTH 16 is not accepted -/
example : (dnsRecv Gen.dnsParams 29
    ([0,43, 0,1, 0x81,0x80, 0,1, 0,1, 0,0, 0,0, 5,115,117,112,108,97, 3,111,114,103, 0, 0,1, 0,1,
      0xc0,0x0c, 0,1, 0,1, 0,0,0,60, 0,16, 1,2,3,4])).1 = .ignore := by decide

/-- the history that used to go on after its completion: a reply with an inconsistent length prefix (retry
    timer armed), then an acceptable reply on the same connection, the disconnect callback with the completion
    callback - and now the retry timer is off -/
example :
    let good : Bytes := [0,43, 0,1, 0x81,0x80, 0,1, 0,1, 0,0, 0,0, 5,115,117,112,108,97, 3,111,114,103, 0, 0,1, 0,1,
      0xc0,0x0c, 0,1, 0,1, 0,0,0,60, 0,4, 1,2,3,4]
    let r := Dns.run Gen.dnsParams {} [.resolve (some [115,117,112,108,97,46,111,114,103]) true, .reply (0 :: 44 :: good.drop 2),
      .connected true, .reply good, .disconnected, .fireRetry]
    r.2 = [.disconnect, .connect 0, .sent true 29, .disconnect, .callback (some [1, 2, 3, 4]), .notArmed] ∧
      r.1.retryArmed = false := by decide

end SuplaVerif.C20
