/-
  Props/C19 — behaviour is independent of the absolute value of the microsecond counter.

  Part 1 (theorems): the uptime derivation is monotone across wrap-arounds for every boot value,
  and the modular difference used by every module that keeps raw stamps (`t - t0` in unsigned
  arithmetic) equals the true elapsed time for every boot value and every wrap position.
  Part 2 (checked on the implementation, tools/props/c19.py): the scenarios of C05-C11 are
  replayed with the boot value placing the wrap before/inside/after each timed interval and the
  observable traces compared.
-/
import SuplaVerif.Model.Uptime

namespace SuplaVerif.C19

/-- **C19.1a** the counter advances by the elapsed time modulo 2^32 -/
theorem cnt_add (boot t d : Nat) : cnt boot (t + d) = (cnt boot t + d) % W32 := by
  unfold cnt W32; omega

/-- **C19.1b (modular difference is exact)** for every boot value and every pair of instants less
    than 2^32 µs apart, the unsigned difference of the two counter readings is the true elapsed
    time — wherever the wrap falls. -/
theorem c19_subw_exact (boot t d : Nat) (hd : d < W32) :
    subw (cnt boot (t + d)) (cnt boot t) = d := by
  unfold subw cnt W32 at *; omega

/-- **C19.1c (boot independence of differences)** hence any quantity computed from differences
    of stamps is the same for every boot value -/
theorem c19_subw_boot_independent (boot boot' t d : Nat) (hd : d < W32) :
    subw (cnt boot (t + d)) (cnt boot t) = subw (cnt boot' (t + d)) (cnt boot' t) := by
  rw [c19_subw_exact boot t d hd, c19_subw_exact boot' t d hd]

/-- the state uptime.c is in after a poll at true time t -/
def Tracks (boot t : Nat) (u : Uptime) : Prop := u.last = cnt boot t

/-- **C19.2 (uptime is monotone)** polled at true times t ≤ t' less than 2^32 µs apart, the
    microsecond uptime does not decrease; it advances by the elapsed time, minus exactly one
    microsecond when the counter wrapped in between (the multiplier is 2^32-1). -/
theorem c19_uptime_step (boot t d : Nat) (u : Uptime) (hu : Tracks boot t u) (hd : d < W32)
    (hc : u.cycles + 1 < W32) :
    let v := u.cycles * 4294967295 + u.last
    let r := u.poll (cnt boot (t + d))
    Tracks boot (t + d) r.1 ∧ (r.2 = v + d ∨ (r.2 + 1 = v + d ∧ 1 ≤ d)) := by
  unfold Tracks at hu
  simp only [Uptime.poll]
  refine ⟨rfl, ?_⟩
  rw [hu]
  by_cases hw : cnt boot (t + d) < cnt boot t
  · rw [if_pos hw]
    right
    have := cnt_add boot t d
    unfold cnt W32 at *
    rw [Nat.mod_eq_of_lt hc]
    omega
  · rw [if_neg hw]
    left
    have := cnt_add boot t d
    unfold cnt W32 at *
    omega

theorem c19_uptime_monotone (boot t d : Nat) (u : Uptime) (hu : Tracks boot t u) (hd : d < W32)
    (hc : u.cycles + 1 < W32) :
    u.cycles * 4294967295 + u.last ≤ (u.poll (cnt boot (t + d))).2 := by
  have := (c19_uptime_step boot t d u hu hd hc).2
  rcases this with h | h <;> omega

/-- milliseconds and seconds (before the uint32 truncation of `uptime_sec`) are monotone too -/
theorem c19_uptime_msec_monotone (boot t d : Nat) (u : Uptime) (hu : Tracks boot t u) (hd : d < W32)
    (hc : u.cycles + 1 < W32) :
    (u.cycles * 4294967295 + u.last) / 1000 ≤ (u.poll (cnt boot (t + d))).2 / 1000 ∧
    (u.cycles * 4294967295 + u.last) / 1000 / 1000 ≤ (u.poll (cnt boot (t + d))).2 / 1000 / 1000 := by
  have h := c19_uptime_monotone boot t d u hu hd hc
  exact ⟨Nat.div_le_div_right h, Nat.div_le_div_right (Nat.div_le_div_right h)⟩

/-- the initial state (memset 0) tracks the counter after the first poll, whatever boot is -/
theorem c19_first_poll (boot t : Nat) : Tracks boot t (({} : Uptime).poll (cnt boot t)).1 := rfl

/-- non-vacuity: a poll 1000 µs before the wrap and one 500 µs after it -/
example : let u := (({} : Uptime).poll 4294966296).1
    (u.poll 500).2 = 4294966296 + 1500 - 1 := by decide

/-! ### the two ways to write "d microseconds have passed" -/

/-- `t - last >= d` in unsigned arithmetic -/
def dueSub (last t d : Nat) : Bool := decide (subw t last ≥ d)
/-- `t >= last + d` with the sum taken in 32 bits -/
def dueCmp (last t d : Nat) : Bool := decide (t ≥ (last + d) % W32)

/-- **C19.3a (the subtracting form means elapsed time)** for every boot value and every pair of instants less than 2^32 us
    apart, `t - last >= d` holds exactly when d microseconds have really passed -/
theorem c19_due_by_subtraction (boot t0 e d : Nat) (he : e < W32) :
    dueSub (cnt boot t0) (cnt boot (t0 + e)) d = decide (e ≥ d) := by
  unfold dueSub; rw [c19_subw_exact boot t0 e he]

/-- **C19.3b (the comparing form does not)** `t >= last + d` depends on where the wrap falls: with a stamp 100 ms before the
    wrap and 10 ms elapsed it already reports that 200 ms have passed, while with the stamp elsewhere it does not -/
theorem c19_due_by_comparison_is_boot_dependent :
    dueCmp (cnt (W32 - 100000) 0) (cnt (W32 - 100000) 10000) 200000 = true ∧
    dueCmp (cnt 777 0) (cnt 777 10000) 200000 = false ∧
    dueSub (cnt (W32 - 100000) 0) (cnt (W32 - 100000) 10000) 200000 = false := by decide

end SuplaVerif.C19
