/-
  Props/C15 — the configuration page never reveals stored secrets.

  Secrecy is stated as non-interference: two configurations that agree on what the non-secret
  fields show (text fields up to their terminator) render to the same page, for every page variant
  of the source tree, every formatting function, device name, MAC and state text.  (A substring
  formulation is not a property: a one-letter password is a substring of any page.)
-/
import SuplaVerif.Model.Page
import SuplaVerif.Gen.Html
import SuplaVerif.Props.C14

namespace SuplaVerif.C15
open Bytes

/-- two configurations look the same outside the secrets: equal views of every non-secret field.
    For Email/Username this ignores the bytes behind the first NUL (the long-password tail). -/
def SameOutsideSecrets (c c' : Cfg) : Prop := ∀ f : CfgField, f.secret = false → view c f = view c' f

/-- **C15.1 (generic)** a page whose argument list names no secret field does not depend on them -/
theorem c15_noninterference_generic (fmt : List Bytes → Bytes) (args : List CfgField)
    (hargs : ∀ f ∈ args, f.secret = false) (c c' : Cfg) (h : SameOutsideSecrets c c') :
    renderPage fmt args c = renderPage fmt args c' := by
  unfold renderPage
  congr 1
  apply List.map_congr_left
  intro f hf
  exact h f (hargs f hf)

/-- **C15.1 (the source tree)** no page variant names a secret field in an argument list
    (decided by the kernel over the regenerated table) -/
theorem c15_no_secret_argument : ∀ v ∈ Gen.pageArgs, ∀ f ∈ v.2, f.secret = false := by decide

/-- **C15.1** every page variant of the source tree is independent of the stored Wi-Fi password,
    location/MQTT password (incl. its tail behind the e-mail terminator) and AuthKey. -/
theorem c15_noninterference (v : String × List CfgField) (hv : v ∈ Gen.pageArgs)
    (fmt : List Bytes → Bytes) (c c' : Cfg) (h : SameOutsideSecrets c c') :
    renderPage fmt v.2 c = renderPage fmt v.2 c' :=
  c15_noninterference_generic fmt v.2 (c15_no_secret_argument v hv) c c' h

/-- the page-builder files read no secret field anywhere, not even for the buffer-length sum -/
theorem c15_no_secret_read_anywhere : ∀ v ∈ Gen.pageAllRefs, ∀ f ∈ v.2, f.secret = false := by decide

/-- the long-password tail is invisible: changing the bytes of the e-mail/user-name field behind
    its first NUL does not change its view -/
theorem c15_tail_hidden (c : Cfg) (name tail tail' : Bytes) (hn : ∀ x ∈ name, x ≠ 0)
    (h : c .Email = name ++ 0 :: tail) (c' : Cfg) (h' : c' .Email = name ++ 0 :: tail') :
    view c .Email = view c' .Email := by
  have key : ∀ (p r : Bytes), (∀ x ∈ p, x ≠ 0) → Bytes.cstr (p ++ 0 :: r) = p := by
    intro p r hp
    induction p with
    | nil => simp [Bytes.cstr]
    | cons x xs ih =>
      have hx : x ≠ 0 := hp x (by simp)
      simp only [List.cons_append, Bytes.cstr, hx, if_false]
      rw [ih (fun y hy => hp y (by simp [hy]))]
  simp only [view, CfgField.isText, if_true]
  rw [h, h', key name tail hn, key name tail' hn]

/-- the form model's and the page model's "read up to the first NUL" are the same function -/
theorem cstr_eq : ∀ (b : Bytes), SuplaVerif.cstr b = Bytes.cstr b := by
  intro b
  induction b with
  | nil => simp [SuplaVerif.cstr, Bytes.cstr]
  | cons x xs ih => simp only [SuplaVerif.cstr, Bytes.cstr, ih]

/-- a string with a terminator inside splits at it: the bytes `cstr` returns, the terminator, a rest -/
theorem cstr_split : ∀ (b : Bytes), (Bytes.cstr b).length < b.length → ∃ r, b = Bytes.cstr b ++ 0 :: r := by
  intro b
  induction b with
  | nil => intro h; simp [Bytes.cstr] at h
  | cons x xs ih =>
    intro h
    unfold Bytes.cstr at h ⊢
    by_cases hx : x = 0
    · rw [if_pos hx]; exact ⟨xs, by simp [hx]⟩
    · rw [if_neg hx] at h ⊢
      obtain ⟨r, hr⟩ := ih (by simpa using h)
      exact ⟨r, by simp only [List.cons_append]; rw [← hr]⟩

/-- **C15 ↔ C14 (the `%s` read stays inside the field)** the `view` of C15 reads a text field up to its first NUL; C14 proves
    that whatever the form handler leaves in a text field is `stored size w` with a terminator inside the field.  Joined:
    for every text field written by the form handler the page's `%s` argument reads fewer than `size` bytes, none of them
    NUL, and the field really is that string followed by a terminator - the read cannot run on into the neighbouring
    member (e.g. from the SSID into the Wi-Fi password behind it) -/
theorem c15_view_inside_stored_field (c : Cfg) (f : CfgField) (ht : f.isText = true) (size : Nat) (hs : 0 < size)
    (w : Bytes) (hw : w.length ≤ size) (h : c f = stored size w) :
    (view c f).length < size ∧ (0 : UInt8) ∉ view c f ∧ (c f).length ≤ size ∧ ∃ r, c f = view c f ++ 0 :: r := by
  have st := C14.stored_terminated size hs w hw
  have hlt := C14.cstr_lt_of_last _ st.2
  have hnn := (C14.cstr_no_nul (stored size w)).1
  rw [cstr_eq] at hlt hnn
  simp only [view, ht, if_true, h]
  exact ⟨by omega, hnn, st.1, cstr_split _ hlt⟩

/-- non-vacuity: a 4-byte field holding "ab" -/
example : stored 4 [97, 98] = [97, 98, 0] ∧ Bytes.cstr (stored 4 [97, 98]) = [97, 98] := by decide

/-- every page variant exists and shows the SSID (non-vacuity of the table) -/
theorem c15_variants_present : Gen.pageArgs.length = 7 ∧ ∀ v ∈ Gen.pageArgs, CfgField.WIFI_SSID ∈ v.2 := by
  decide

/-! ### the page fits the buffer allocated for it -/

theorem weighted_mono (a b : List Nat) : ∀ (ls : List Nat), leAll a b = true → weighted a ls ≤ weighted b ls := by
  induction a generalizing b with
  | nil => intro ls _; cases b <;> simp [weighted]
  | cons x xs ih =>
    intro ls h
    cases b with
    | nil => simp [leAll] at h
    | cons y ys =>
      simp only [leAll, Bool.and_eq_true, decide_eq_true_eq] at h
      cases ls with
      | nil => simp [weighted]
      | cons l ls =>
        simp only [weighted]
        have := ih ys ls h.2
        have := Nat.mul_le_mul_right l h.1
        omega

/-- **C15 (fits, general)** whenever the regenerated numbers of a page satisfy the decidable condition `ok`, the page with
    its terminator fits `bufflen` - for every length of every string that is printed and every choice of the constant
    alternatives -/
theorem c15_fit_sound (p : PageFit) (h : p.ok = true) (ls : List Nat) (k : Nat) (hk : k ≤ p.constMax) :
    p.pageLen ls k + 1 ≤ p.buffLen ls := by
  unfold PageFit.ok at h
  simp only [Bool.and_eq_true, decide_eq_true_eq] at h
  have := weighted_mono p.printed p.summed ls h.1
  unfold PageFit.pageLen PageFit.buffLen
  omega

/-- **C15 (fits, this source tree)** every SUPLA page variant of /repo satisfies the condition: each string printed with %s
    has its strlen in the sum, every %02X prints an unsigned char, and the constant arguments are covered by the constant
    added to bufflen -/
theorem c15_pages_fit : ∀ p ∈ Gen.pageFit, p.ok = true := by decide

theorem c15_fit_variants : Gen.pageFit.length = 6 := by decide

end SuplaVerif.C15
