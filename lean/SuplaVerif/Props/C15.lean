/-
  Props/C15 — the configuration page never reveals stored secrets.

  Secrecy is stated as non-interference: two configurations that agree on what the non-secret
  fields show (text fields up to their terminator) render to the same page, for every page variant
  of the source tree, every formatting function, device name, MAC and state text.  (A substring
  formulation is not a property: a one-letter password is a substring of any page.)
-/
import SuplaVerif.Model.Page
import SuplaVerif.Gen.Html

namespace SuplaVerif.C15
open Bytes

/-- two configurations look the same outside the secrets: equal views of every non-secret field.
    For Email/Username this ignores the bytes behind the first NUL (the long-password tail). -/
def SameOutsideSecrets (c c' : Cfg) : Prop := ∀ f : CfgField, f.secret = false → view c f = view c' f

/-- **C15.1 (generic)** a page whose argument list names no secret field does not depend on them -/
theorem c15_noninterference_generic (fmt : List Bytes → Bytes) (args : List CfgField)
    (hargs : ∀ f ∈ args, f.secret = false) (c c' : Cfg) (h : SameOutsideSecrets c c') :
    renderPage fmt args c = renderPage fmt args c' := by
  unfold renderPage
  congr 1
  apply List.map_congr_left
  intro f hf
  exact h f (hargs f hf)

/-- **C15.1 (the source tree)** no page variant names a secret field in an argument list
    (decided by the kernel over the regenerated table) -/
theorem c15_no_secret_argument : ∀ v ∈ Gen.pageArgs, ∀ f ∈ v.2, f.secret = false := by decide

/-- **C15.1** every page variant of the source tree is independent of the stored Wi-Fi password,
    location/MQTT password (incl. its tail behind the e-mail terminator) and AuthKey. -/
theorem c15_noninterference (v : String × List CfgField) (hv : v ∈ Gen.pageArgs)
    (fmt : List Bytes → Bytes) (c c' : Cfg) (h : SameOutsideSecrets c c') :
    renderPage fmt v.2 c = renderPage fmt v.2 c' :=
  c15_noninterference_generic fmt v.2 (c15_no_secret_argument v hv) c c' h

/-- the page-builder files read no secret field anywhere, not even for the buffer-length sum -/
theorem c15_no_secret_read_anywhere : ∀ v ∈ Gen.pageAllRefs, ∀ f ∈ v.2, f.secret = false := by decide

/-- the long-password tail is invisible: changing the bytes of the e-mail/user-name field behind
    its first NUL does not change its view -/
theorem c15_tail_hidden (c : Cfg) (name tail tail' : Bytes) (hn : ∀ x ∈ name, x ≠ 0)
    (h : c .Email = name ++ 0 :: tail) (c' : Cfg) (h' : c' .Email = name ++ 0 :: tail') :
    view c .Email = view c' .Email := by
  have key : ∀ (p r : Bytes), (∀ x ∈ p, x ≠ 0) → cstr (p ++ 0 :: r) = p := by
    intro p r hp
    induction p with
    | nil => simp [cstr]
    | cons x xs ih =>
      have hx : x ≠ 0 := hp x (by simp)
      simp only [List.cons_append, cstr, hx, if_false]
      rw [ih (fun y hy => hp y (by simp [hy]))]
  simp only [view, CfgField.isText, if_true]
  rw [h, h', key name tail hn, key name tail' hn]

/-- every page variant exists and shows the SSID (non-vacuity of the table) -/
theorem c15_variants_present : Gen.pageArgs.length = 7 ∧ ∀ v ∈ Gen.pageArgs, CfgField.WIFI_SSID ∈ v.2 := by
  decide

/-! ### the page fits the buffer allocated for it -/

theorem weighted_mono (a b : List Nat) : ∀ (ls : List Nat), leAll a b = true → weighted a ls ≤ weighted b ls := by
  induction a generalizing b with
  | nil => intro ls _; cases b <;> simp [weighted]
  | cons x xs ih =>
    intro ls h
    cases b with
    | nil => simp [leAll] at h
    | cons y ys =>
      simp only [leAll, Bool.and_eq_true, decide_eq_true_eq] at h
      cases ls with
      | nil => simp [weighted]
      | cons l ls =>
        simp only [weighted]
        have := ih ys ls h.2
        have := Nat.mul_le_mul_right l h.1
        omega

/-- **C15 (fits, general)** whenever the regenerated numbers of a page satisfy the decidable condition `ok`, the page with
    its terminator fits `bufflen` - for every length of every string that is printed and every choice of the constant
    alternatives -/
theorem c15_fit_sound (p : PageFit) (h : p.ok = true) (ls : List Nat) (k : Nat) (hk : k ≤ p.constMax) :
    p.pageLen ls k + 1 ≤ p.buffLen ls := by
  unfold PageFit.ok at h
  simp only [Bool.and_eq_true, decide_eq_true_eq] at h
  have := weighted_mono p.printed p.summed ls h.1
  unfold PageFit.pageLen PageFit.buffLen
  omega

/-- **C15 (fits, this source tree)** every SUPLA page variant of /repo satisfies the condition: each string printed with %s
    has its strlen in the sum, every %02X prints an unsigned char, and the constant arguments are covered by the constant
    added to bufflen -/
theorem c15_pages_fit : ∀ p ∈ Gen.pageFit, p.ok = true := by decide

theorem c15_fit_variants : Gen.pageFit.length = 6 := by decide

end SuplaVerif.C15
