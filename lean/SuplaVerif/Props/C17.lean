/-
  Props/C17 — MQTT CONNECT and command topics mean exactly what was configured and addressed.

  Theorem part: the complete password survives the split storage (C14's spill) and the assembly
  for CONNECT, for every password and every user-name length.  The CONNECT packet itself, the
  topic grammar and the number rendering are checked on the implementation against independent
  references (tools/props/c17.py); `prepareVal` is additionally run against its Lean model.
-/
import SuplaVerif.Model.Cred
import SuplaVerif.Model.Mqtt
import SuplaVerif.Model.MqttTopic

namespace SuplaVerif.C17
open Bytes

theorem cstr_noNul_append_zero (p rest : Bytes) (h : NoNul p) : cstr (p ++ 0 :: rest) = p := by
  induction p with
  | nil => simp [cstr]
  | cons x xs ih =>
    have hx : x ≠ 0 := h x (by simp)
    simp only [List.cons_append, cstr, hx, if_false]
    rw [ih (fun y hy => h y (by simp [hy]))]

theorem cstr_noNul (p : Bytes) (h : NoNul p) : cstr p = p := by
  induction p with
  | nil => rfl
  | cons x xs ih =>
    have hx : x ≠ 0 := h x (by simp)
    simp only [cstr, hx, if_false]
    rw [ih (fun y hy => h y (by simp [hy]))]

theorem noNul_take (p : Bytes) (n : Nat) (h : NoNul p) : NoNul (p.take n) :=
  fun x hx => h x (List.mem_of_mem_take hx)
theorem noNul_drop (p : Bytes) (n : Nat) (h : NoNul p) : NoNul (p.drop n) :=
  fun x hx => h x (List.mem_of_mem_drop hx)

theorem cstr_take_prefix (p r : Bytes) (n : Nat) (h : NoNul p) (hl : p.length < n) :
    cstr ((p ++ 0 :: r).take n) = p := by
  induction p generalizing n with
  | nil =>
    cases n with
    | zero => simp at hl
    | succ k => simp [cstr]
  | cons x xs ih =>
    cases n with
    | zero => simp at hl
    | succ k =>
      have hx : x ≠ 0 := h x (by simp)
      simp only [List.cons_append, List.take_succ_cons, cstr, hx, if_false]
      rw [ih k (fun y hy => h y (by simp [hy])) (by simpa using hl)]

/-- **C17.2 (complete password)** for every NUL-free password that fits the two fields
    (`|pw| ≤ L + T - 1`), whatever the fields held before: assembling what was stored gives back
    exactly the password — short ones from the Password field alone, long ones from both parts,
    including the case where the tail fills its area exactly. -/
theorem c17_password_roundtrip (L T : Nat) (pw oldPass oldTail : Bytes) (hn : NoNul pw)
    (hfit : pw.length ≤ L + (T - 1)) (hT : 0 < T) :
    assemblePassword L T (storePassword L T pw oldPass oldTail).1 (storePassword L T pw oldPass oldTail).2 = pw := by
  unfold storePassword assemblePassword
  by_cases hs : pw.length < L
  · rw [if_pos hs]
    simp only
    rw [cstr_take_prefix pw _ L hn hs, if_pos hs]
  · rw [if_neg hs]
    simp only
    have hL : L ≤ pw.length := by omega
    have h1 : cstr ((pw.take L).take L) = pw.take L := by
      rw [List.take_take, Nat.min_self]; exact cstr_noNul _ (noNul_take pw L hn)
    have hlen : (pw.take L).length = L := by simp [List.length_take]; omega
    rw [h1, if_neg (by omega)]
    have hd : (pw.drop L).take (T - 1) = pw.drop L := by
      apply List.take_of_length_le; simp [List.length_drop]; omega
    rw [hd]
    have hdl : (pw.drop L).length < T := by simp [List.length_drop]; omega
    rw [cstr_take_prefix (pw.drop L) _ T (noNul_drop pw L hn) hdl]
    rw [if_pos ⟨hT, by omega⟩]
    exact List.take_append_drop L pw

/-- with authentication disabled nothing is assembled (modelled by the caller passing no
    credentials); with a short password the tail area is never read -/
theorem c17_short_password_ignores_tail (L T : Nat) (pass tail tail' : Bytes)
    (h : (cstr (pass.take L)).length < L) :
    assemblePassword L T pass tail = assemblePassword L T pass tail' := by
  unfold assemblePassword; simp only; rw [if_pos h, if_pos h]

/-- non-vacuity: L = 4, T = 3, password "abcdef" (tail fills its area exactly) -/
example : assemblePassword 4 3 (storePassword 4 3 [97, 98, 99, 100, 101, 102] [9, 9, 9, 9] [7, 7, 7]).1
    (storePassword 4 3 [97, 98, 99, 100, 101, 102] [9, 9, 9, 9] [7, 7, 7]).2 = [97, 98, 99, 100, 101, 102] := by
  decide

/-! ### fixed header: what the device packs, every MQTT 3.1.1 reader unpacks -/

theorem u8_small (k : Nat) (h : k < 256) : (UInt8.ofNat k).toNat = k := by
  simp [Nat.mod_eq_of_lt h]

/-- decoding the length bytes written by `encRem` gives back the length (general position, shift and accumulator) -/
theorem remLen_encRem (fe : Nat) : ∀ (pre rest : Bytes) (n shift acc fr : Nat), n < 128 ^ fe → 1 ≤ fe →
    shift + 7 * fe ≤ 28 → fe ≤ fr →
    remLen (pre ++ encRem fe n ++ rest) fr pre.length shift acc =
      some (some (acc + n * 2 ^ shift, pre.length + (encRem fe n).length)) := by
  induction fe with
  | zero => intro pre rest n shift acc fr _ h1; omega
  | succ fe ih =>
    intro pre rest n shift acc fr hn _ hs hfr
    obtain ⟨fr', rfl⟩ : ∃ k, fr = k + 1 := ⟨fr - 1, by omega⟩
    unfold encRem remLen
    have hs28 : ¬ shift = 28 := by omega
    rw [if_neg hs28]
    by_cases hbig : n > 127
    · rw [if_pos hbig]
      have hlen : ¬ pre.length ≥ (pre ++ UInt8.ofNat (n % 128 + 128) :: encRem fe (n / 128) ++ rest).length := by
        simp
      rw [if_neg hlen]
      have hget : (pre ++ UInt8.ofNat (n % 128 + 128) :: encRem fe (n / 128) ++ rest).getD pre.length 0 =
          UInt8.ofNat (n % 128 + 128) := by
        simp [List.getD_eq_getElem?_getD, List.getElem?_append_right]
      simp only [hget]
      rw [u8_small _ (by omega)]
      rw [if_pos (by omega)]
      have hfe : 1 ≤ fe := by
        cases fe with
        | zero => simp at hn; omega
        | succ k => omega
      have hn' : n / 128 < 128 ^ fe := by
        rw [Nat.pow_succ] at hn
        exact Nat.div_lt_of_lt_mul (by rw [Nat.mul_comm]; exact hn)
      have hl : pre ++ UInt8.ofNat (n % 128 + 128) :: encRem fe (n / 128) ++ rest =
          (pre ++ [UInt8.ofNat (n % 128 + 128)]) ++ encRem fe (n / 128) ++ rest := by simp
      have hi : pre.length + 1 = (pre ++ [UInt8.ofNat (n % 128 + 128)]).length := by simp
      rw [hl, hi, ih (pre ++ [UInt8.ofNat (n % 128 + 128)]) rest (n / 128) (shift + 7) _ fr' hn' hfe (by omega) (by omega)]
      have hp : 2 ^ (shift + 7) = 128 * 2 ^ shift := by rw [Nat.pow_add]; omega
      have hm : (n % 128 + 128) % 128 = n % 128 := by omega
      have hsplit : n * 2 ^ shift = n % 128 * 2 ^ shift + n / 128 * (128 * 2 ^ shift) := by
        conv => lhs; rw [← Nat.div_add_mod n 128]
        rw [Nat.add_mul, Nat.mul_comm 128 (n / 128), Nat.mul_assoc, Nat.add_comm]
      rw [hp, hm, hsplit]
      simp only [List.length_append, List.length_cons, List.length_nil]
      generalize n % 128 * 2 ^ shift = A
      generalize n / 128 * (128 * 2 ^ shift) = B
      generalize (encRem fe (n / 128)).length = Ln
      have e1 : acc + A + B = acc + (A + B) := by omega
      have e2 : pre.length + (0 + 1) + Ln = pre.length + (Ln + 1) := by omega
      rw [e1, e2]
    · rw [if_neg hbig]
      have hlen : ¬ pre.length ≥ (pre ++ [UInt8.ofNat (n % 128)] ++ rest).length := by
        simp
      rw [if_neg hlen]
      have hget : (pre ++ [UInt8.ofNat (n % 128)] ++ rest).getD pre.length 0 = UInt8.ofNat (n % 128) := by
        simp [List.getD_eq_getElem?_getD, List.getElem?_append_right]
      simp only [hget]
      rw [u8_small _ (by omega)]
      rw [if_neg (by omega)]
      have : n % 128 % 128 = n := by omega
      simp [this]

/-- **C17 (valid fixed header)** for every control type, flags and every remaining length the encoder accepts
    (below 2^28): the header the device packs is decoded by the MQTT 3.1.1 length rule (`remLen`, the same
    rule the receive side uses) to exactly that remaining length, and the packet body starts right behind it -
    in particular at the boundary 127/128 between one and two length bytes. -/
theorem c17_header_roundtrip (ty flags rem : Nat) (hdr body : Bytes) (h : packHeader ty flags rem = some hdr) :
    remLen (hdr ++ body) 5 1 0 0 = some (some (rem, hdr.length)) := by
  unfold packHeader at h
  by_cases hbig : rem ≥ 268435456
  · rw [if_pos hbig] at h; cases h
  · rw [if_neg hbig] at h
    injection h with h
    subst h
    have := remLen_encRem 4 [UInt8.ofNat (ty % 16 * 16 + flags % 16)] body rem 0 0 5 (by omega) (by omega) (by omega) (by omega)
    simpa [Nat.add_comm] using this

/-- lengths of 2^28 and more are refused -/
theorem c17_header_too_long (ty flags rem : Nat) (h : rem ≥ 268435456) : packHeader ty flags rem = none := by
  unfold packHeader; rw [if_pos h]

example : packHeader 1 0 128 = some [0x10, 0x80, 0x01] := by decide
example : packHeader 1 0 127 = some [0x10, 0x7f] := by decide


/-! ### command topics (Model/MqttTopic) -/

open SuplaVerif in
theorem splitSlash_spec : ∀ (t a r : Bytes), splitSlash t = some (a, r) ↔ (t = a ++ 47 :: r ∧ (47 : UInt8) ∉ a) := by
  intro t
  induction t with
  | nil => intro a r; simp [splitSlash]
  | cons c cs ih =>
    intro a r
    unfold splitSlash
    by_cases hc : c = 47
    · rw [if_pos hc]
      constructor
      · intro h; simp only [Option.some.injEq, Prod.mk.injEq] at h; obtain ⟨h1, h2⟩ := h; subst h1; subst h2; simp [hc]
      · intro ⟨h1, h2⟩
        cases a with
        | nil => simp at h1; simp [h1.2]
        | cons x xs =>
          simp only [List.cons_append, List.cons.injEq] at h1
          exact absurd (by rw [← h1.1, hc]; simp) h2
    · rw [if_neg hc]
      constructor
      · intro h
        cases hs : splitSlash cs with
        | none => rw [hs] at h; cases h
        | some p =>
          rw [hs] at h
          simp only [Option.map_some, Option.some.injEq, Prod.mk.injEq] at h
          obtain ⟨h1, h2⟩ := h
          have := (ih p.1 p.2).mp (by rw [hs])
          subst h1; subst h2
          refine ⟨by rw [this.1]; simp, ?_⟩
          simp only [List.mem_cons, not_or]
          exact ⟨fun e => hc e.symm, this.2⟩
      · intro ⟨h1, h2⟩
        cases a with
        | nil => simp at h1; exact absurd h1.1 hc
        | cons x xs =>
          simp only [List.cons_append, List.cons.injEq] at h1
          have hx : (47 : UInt8) ∉ xs := fun hm => h2 (by simp [hm])
          have := (ih xs r).mpr ⟨h1.2, hx⟩
          rw [this, h1.1]; rfl

open SuplaVerif in
/-- **C17.T1 (the channel number of a topic)** the number parser accepts exactly: the prefix, a non-empty run of at most nine
    decimal digits whose value is at most 255, a '/', and hands on what follows - for every prefix and every topic -/
theorem c17_channel_grammar (pre t rest : Bytes) (n : Nat) :
    parseIntWithPrefix pre t = some (n, rest) ↔
      ∃ ds, t = pre ++ ds ++ 47 :: rest ∧ ds ≠ [] ∧ (∀ c ∈ ds, isDigB c = true) ∧ ds.length ≤ 9 ∧ decNat ds 0 = n ∧ n ≤ 255 := by
  unfold parseIntWithPrefix
  constructor
  · intro h
    by_cases hp : pre.isPrefixOf t = true
    · rw [if_pos hp] at h
      have ht : pre ++ t.drop pre.length = t := List.prefix_iff_eq_append.mp (List.isPrefixOf_iff_prefix.mp hp)
      cases hs : splitSlash (t.drop pre.length) with
      | none => rw [hs] at h; cases h
      | some p =>
        obtain ⟨ds, r⟩ := p
        rw [hs] at h
        simp only at h
        have sp := (splitSlash_spec _ ds r).mp hs
        by_cases h1 : ds = []
        · rw [if_pos h1] at h; cases h
        · rw [if_neg h1] at h
          by_cases h2 : (!ds.all isDigB) = true
          · rw [if_pos h2] at h; cases h
          · rw [if_neg h2] at h
            by_cases h3 : ds.length > 9
            · rw [if_pos h3] at h; cases h
            · rw [if_neg h3] at h
              by_cases h4 : decNat ds 0 > 255
              · rw [if_pos h4] at h; cases h
              · rw [if_neg h4] at h
                simp only [Option.some.injEq, Prod.mk.injEq] at h
                refine ⟨ds, ?_, h1, ?_, by omega, h.1, by omega⟩
                · rw [← ht, sp.1, ← h.2]; simp
                · have : ds.all isDigB = true := by simpa using h2
                  exact fun c hc => List.all_eq_true.mp this c hc
    · rw [if_neg hp] at h; cases h
  · intro ⟨ds, ht, h1, h2, h3, h4, h5⟩
    have hp : pre.isPrefixOf t = true := by
      rw [List.isPrefixOf_iff_prefix, ht, List.append_assoc]; exact List.prefix_append _ _
    rw [if_pos hp]
    have hd : t.drop pre.length = ds ++ 47 :: rest := by rw [ht, List.append_assoc]; simp
    have hno : (47 : UInt8) ∉ ds := fun hm => by have := h2 47 hm; simp [isDigB] at this
    have hs := (splitSlash_spec (t.drop pre.length) ds rest).mpr ⟨hd, hno⟩
    rw [hs]
    simp only
    rw [if_neg h1, if_neg (by simp; exact fun c hc => h2 c hc), if_neg (by omega), if_neg (by omega), h4]

open SuplaVerif in
/-- **C17.T2 (a relay command is addressed exactly)** the relay command parser acts only on a topic that is the device prefix,
    '/', "channels/", the channel number as above, '/', and one of the two command names, with a payload that command knows -/
theorem c17_set_on_grammar (dev topic msg : Bytes) (ch v : Nat) (h : parserSetOn dev topic msg = some (ch, v)) :
    ∃ ds cmd, topic = dev ++ 47 :: (sChannels ++ ds ++ 47 :: cmd) ∧ ds ≠ [] ∧ (∀ c ∈ ds, isDigB c = true) ∧ ds.length ≤ 9 ∧
      decNat ds 0 = ch ∧ ch ≤ 255 ∧
      ((cmd = sSetOn ∧ setOnValue msg = some v) ∨ (cmd = sExec ∧ execValue msg = some v)) := by
  unfold parserSetOn at h
  by_cases h0 : topic = [] ∨ msg = [] ∨ dev = [] ∨ dev.length + 1 ≥ topic.length
  · rw [if_pos h0] at h; cases h
  · rw [if_neg h0] at h
    by_cases hp : (dev.isPrefixOf topic && (topic.drop dev.length).head? == some 47) = true
    · rw [if_pos hp] at h
      have hp' := Bool.and_eq_true_iff.mp hp
      have ht : dev ++ topic.drop dev.length = topic := List.prefix_iff_eq_append.mp (List.isPrefixOf_iff_prefix.mp hp'.1)
      have hh : (topic.drop dev.length).head? = some 47 := by simpa using hp'.2
      have hd : topic.drop dev.length = 47 :: topic.drop (dev.length + 1) := by
        cases hx : topic.drop dev.length with
        | nil => rw [hx] at hh; cases hh
        | cons x xs =>
          rw [hx] at hh
          simp only [List.head?_cons, Option.some.injEq] at hh
          have : topic.drop (dev.length + 1) = xs := by
            rw [← List.drop_drop, hx]; rfl
          rw [hh, this]
      cases hpi : parseIntWithPrefix sChannels (topic.drop (dev.length + 1)) with
      | none => rw [hpi] at h; cases h
      | some p =>
        obtain ⟨c, rest⟩ := p
        rw [hpi] at h
        simp only at h
        obtain ⟨ds, e1, e2, e3, e4, e5, e6⟩ := (c17_channel_grammar sChannels _ rest c).mp hpi
        by_cases hr : rest = sSetOn
        · rw [if_pos hr] at h
          cases hv : setOnValue msg with
          | none => rw [hv] at h; cases h
          | some w =>
            rw [hv] at h
            simp only [Option.map_some, Option.some.injEq, Prod.mk.injEq] at h
            refine ⟨ds, rest, ?_, e2, e3, e4, by rw [e5, h.1], by omega, Or.inl ⟨hr, by rw [h.2]⟩⟩
            rw [← ht, hd, e1]
        · rw [if_neg hr] at h
          by_cases hr2 : rest = sExec
          · rw [if_pos hr2] at h
            cases hv : execValue msg with
            | none => rw [hv] at h; cases h
            | some w =>
              rw [hv] at h
              simp only [Option.map_some, Option.some.injEq, Prod.mk.injEq] at h
              refine ⟨ds, rest, ?_, e2, e3, e4, by rw [e5, h.1], by omega, Or.inr ⟨hr2, by rw [h.2]⟩⟩
              rw [← ht, hd, e1]
          · rw [if_neg hr2] at h; cases h
    · rw [if_neg hp] at h; cases h

open SuplaVerif in
/- non-vacuity: "dev/channels/12/set/on" with payload "TRUE" switches channel 12 on; 256, "1.9", "-1" and an empty number
   address nothing -/
example : parserSetOn [100, 101, 118] ([100, 101, 118, 47] ++ sChannels ++ [49, 50, 47] ++ sSetOn) [84, 82, 85, 69] = some (12, 1) := by decide
open SuplaVerif in
example : parserSetOn [100, 101, 118] ([100, 101, 118, 47] ++ sChannels ++ [50, 53, 54, 47] ++ sSetOn) [49] = none := by decide
open SuplaVerif in
example : parserSetOn [100, 101, 118] ([100, 101, 118, 47] ++ sChannels ++ [49, 46, 57, 47] ++ sSetOn) [49] = none := by decide
open SuplaVerif in
example : parserSetOn [100, 101, 118] ([100, 101, 118, 47] ++ sChannels ++ [45, 49, 47] ++ sSetOn) [49] = none := by decide
open SuplaVerif in
example : parserSetOn [100, 101, 118] ([100, 101, 118, 47] ++ sChannels ++ [47] ++ sSetOn) [49] = none := by decide

open SuplaVerif in
/-- a percentage payload is accepted only with a value of 0..100 -/
theorem percentOf_le (m : Bytes) (v : Nat) (h : percentOf m = some v) : v ≤ 100 := by
  unfold percentOf at h
  cases hs : str2intParts m with
  | none => rw [hs] at h; cases h
  | some p =>
    obtain ⟨mi, w⟩ := p
    rw [hs] at h
    simp only at h
    split at h
    · rename_i hc
      simp only [Option.some.injEq] at h
      subst h
      rcases hc with hc | hc <;> omega
    · cases h

open SuplaVerif in
/-- **C17.T3 (a shutter command is addressed exactly)** the shutter command parser acts only on a topic that is the device
    prefix, '/', "channels/", the channel number, '/', and one of the three command names; percentages are 0..100 -/
theorem c17_rs_grammar (dev topic msg : Bytes) (ch a pc tl : Nat) (h : parserRs dev topic msg = some (ch, a, pc, tl)) :
    ∃ ds cmd, topic = dev ++ 47 :: (sChannels ++ ds ++ 47 :: cmd) ∧ ds ≠ [] ∧ (∀ c ∈ ds, isDigB c = true) ∧ ds.length ≤ 9 ∧
      decNat ds 0 = ch ∧ ch ≤ 255 ∧ pc ≤ 100 ∧ tl ≤ 100 ∧
      ((cmd = sClosing ∧ a = 5 ∧ percentOf msg = some pc) ∨ (cmd = sTilt ∧ a = 9 ∧ percentOf msg = some tl) ∨
       (cmd = sExec ∧ rsAction msg = some a)) := by
  unfold parserRs at h
  by_cases h0 : topic = [] ∨ msg = [] ∨ dev = [] ∨ dev.length + 1 ≥ topic.length
  · rw [if_pos h0] at h; cases h
  · rw [if_neg h0] at h
    by_cases hp : (dev.isPrefixOf topic && (topic.drop dev.length).head? == some 47) = true
    · rw [if_pos hp] at h
      have hp' := Bool.and_eq_true_iff.mp hp
      have ht : dev ++ topic.drop dev.length = topic := List.prefix_iff_eq_append.mp (List.isPrefixOf_iff_prefix.mp hp'.1)
      have hh : (topic.drop dev.length).head? = some 47 := by simpa using hp'.2
      have hd : topic.drop dev.length = 47 :: topic.drop (dev.length + 1) := by
        cases hx : topic.drop dev.length with
        | nil => rw [hx] at hh; cases hh
        | cons x xs =>
          rw [hx] at hh
          simp only [List.head?_cons, Option.some.injEq] at hh
          have : topic.drop (dev.length + 1) = xs := by
            rw [← List.drop_drop, hx]; rfl
          rw [hh, this]
      cases hpi : parseIntWithPrefix sChannels (topic.drop (dev.length + 1)) with
      | none => rw [hpi] at h; cases h
      | some p =>
        obtain ⟨c, rest⟩ := p
        rw [hpi] at h
        simp only at h
        obtain ⟨ds, e1, e2, e3, e4, e5, e6⟩ := (c17_channel_grammar sChannels _ rest c).mp hpi
        have htop : topic = dev ++ 47 :: (sChannels ++ ds ++ 47 :: rest) := by rw [← ht, hd, e1]
        by_cases hr : rest = sClosing
        · rw [if_pos hr] at h
          cases hv : percentOf msg with
          | none => rw [hv] at h; cases h
          | some w =>
            rw [hv] at h
            simp only [Option.map_some, Option.some.injEq, Prod.mk.injEq] at h
            obtain ⟨k1, k2, k3, k4⟩ := h
            have := percentOf_le msg w hv
            exact ⟨ds, rest, htop, e2, e3, e4, by rw [e5, k1], by omega, by omega, by omega,
              Or.inl ⟨hr, k2.symm, by rw [k3]⟩⟩
        · rw [if_neg hr] at h
          by_cases hr2 : rest = sTilt
          · rw [if_pos hr2] at h
            cases hv : percentOf msg with
            | none => rw [hv] at h; cases h
            | some w =>
              rw [hv] at h
              simp only [Option.map_some, Option.some.injEq, Prod.mk.injEq] at h
              obtain ⟨k1, k2, k3, k4⟩ := h
              have := percentOf_le msg w hv
              exact ⟨ds, rest, htop, e2, e3, e4, by rw [e5, k1], by omega, by omega, by omega,
                Or.inr (Or.inl ⟨hr2, k2.symm, by rw [k4]⟩)⟩
          · rw [if_neg hr2] at h
            by_cases hr3 : rest = sExec
            · rw [if_pos hr3] at h
              cases hv : rsAction msg with
              | none => rw [hv] at h; cases h
              | some w =>
                rw [hv] at h
                simp only [Option.map_some, Option.some.injEq, Prod.mk.injEq] at h
                obtain ⟨k1, k2, k3, k4⟩ := h
                exact ⟨ds, rest, htop, e2, e3, e4, by rw [e5, k1], by omega, by omega, by omega,
                  Or.inr (Or.inr ⟨hr3, by rw [k2]⟩)⟩
            · rw [if_neg hr3] at h; cases h
    · rw [if_neg hp] at h; cases h

open SuplaVerif in
example : parserRs [100] ([100, 47] ++ sChannels ++ [55, 47] ++ sClosing) [52, 50, 46, 53] = some (7, 5, 42, 0) := by decide
open SuplaVerif in
example : parserRs [100] ([100, 47] ++ sChannels ++ [55, 47] ++ sTilt) [49, 48, 49] = none := by decide
open SuplaVerif in
example : parserRs [100] ([100, 47] ++ sChannels ++ [55, 47] ++ sExec) [83, 116, 79, 112] = some (7, 7, 0, 0) := by decide

end SuplaVerif.C17
