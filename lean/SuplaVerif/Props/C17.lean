/-
  Props/C17 — MQTT CONNECT and command topics mean exactly what was configured and addressed.

  Theorem part: the complete password survives the split storage (C14's spill) and the assembly
  for CONNECT, for every password and every user-name length.  The CONNECT packet itself, the
  topic grammar and the number rendering are checked on the implementation against independent
  references (tools/props/c17.py); `prepareVal` is additionally run against its Lean model.
-/
import SuplaVerif.Model.Cred
import SuplaVerif.Model.Mqtt

namespace SuplaVerif.C17
open Bytes

theorem cstr_noNul_append_zero (p rest : Bytes) (h : NoNul p) : cstr (p ++ 0 :: rest) = p := by
  induction p with
  | nil => simp [cstr]
  | cons x xs ih =>
    have hx : x ≠ 0 := h x (by simp)
    simp only [List.cons_append, cstr, hx, if_false]
    rw [ih (fun y hy => h y (by simp [hy]))]

theorem cstr_noNul (p : Bytes) (h : NoNul p) : cstr p = p := by
  induction p with
  | nil => rfl
  | cons x xs ih =>
    have hx : x ≠ 0 := h x (by simp)
    simp only [cstr, hx, if_false]
    rw [ih (fun y hy => h y (by simp [hy]))]

theorem noNul_take (p : Bytes) (n : Nat) (h : NoNul p) : NoNul (p.take n) :=
  fun x hx => h x (List.mem_of_mem_take hx)
theorem noNul_drop (p : Bytes) (n : Nat) (h : NoNul p) : NoNul (p.drop n) :=
  fun x hx => h x (List.mem_of_mem_drop hx)

theorem cstr_take_prefix (p r : Bytes) (n : Nat) (h : NoNul p) (hl : p.length < n) :
    cstr ((p ++ 0 :: r).take n) = p := by
  induction p generalizing n with
  | nil =>
    cases n with
    | zero => simp at hl
    | succ k => simp [cstr]
  | cons x xs ih =>
    cases n with
    | zero => simp at hl
    | succ k =>
      have hx : x ≠ 0 := h x (by simp)
      simp only [List.cons_append, List.take_succ_cons, cstr, hx, if_false]
      rw [ih k (fun y hy => h y (by simp [hy])) (by simpa using hl)]

/-- **C17.2 (complete password)** for every NUL-free password that fits the two fields
    (`|pw| ≤ L + T - 1`), whatever the fields held before: assembling what was stored gives back
    exactly the password — short ones from the Password field alone, long ones from both parts,
    including the case where the tail fills its area exactly. -/
theorem c17_password_roundtrip (L T : Nat) (pw oldPass oldTail : Bytes) (hn : NoNul pw)
    (hfit : pw.length ≤ L + (T - 1)) (hT : 0 < T) :
    assemblePassword L T (storePassword L T pw oldPass oldTail).1 (storePassword L T pw oldPass oldTail).2 = pw := by
  unfold storePassword assemblePassword
  by_cases hs : pw.length < L
  · rw [if_pos hs]
    simp only
    rw [cstr_take_prefix pw _ L hn hs, if_pos hs]
  · rw [if_neg hs]
    simp only
    have hL : L ≤ pw.length := by omega
    have h1 : cstr ((pw.take L).take L) = pw.take L := by
      rw [List.take_take, Nat.min_self]; exact cstr_noNul _ (noNul_take pw L hn)
    have hlen : (pw.take L).length = L := by simp [List.length_take]; omega
    rw [h1, if_neg (by omega)]
    have hd : (pw.drop L).take (T - 1) = pw.drop L := by
      apply List.take_of_length_le; simp [List.length_drop]; omega
    rw [hd]
    have hdl : (pw.drop L).length < T := by simp [List.length_drop]; omega
    rw [cstr_take_prefix (pw.drop L) _ T (noNul_drop pw L hn) hdl]
    rw [if_pos ⟨hT, by omega⟩]
    exact List.take_append_drop L pw

/-- with authentication disabled nothing is assembled (modelled by the caller passing no
    credentials); with a short password the tail area is never read -/
theorem c17_short_password_ignores_tail (L T : Nat) (pass tail tail' : Bytes)
    (h : (cstr (pass.take L)).length < L) :
    assemblePassword L T pass tail = assemblePassword L T pass tail' := by
  unfold assemblePassword; simp only; rw [if_pos h, if_pos h]

/-- non-vacuity: L = 4, T = 3, password "abcdef" (tail fills its area exactly) -/
example : assemblePassword 4 3 (storePassword 4 3 [97, 98, 99, 100, 101, 102] [9, 9, 9, 9] [7, 7, 7]).1
    (storePassword 4 3 [97, 98, 99, 100, 101, 102] [9, 9, 9, 9] [7, 7, 7]).2 = [97, 98, 99, 100, 101, 102] := by
  decide

/-! ### fixed header: what the device packs, every MQTT 3.1.1 reader unpacks -/

theorem u8_small (k : Nat) (h : k < 256) : (UInt8.ofNat k).toNat = k := by
  simp [Nat.mod_eq_of_lt h]

/-- decoding the length bytes written by `encRem` gives back the length (general position, shift and accumulator) -/
theorem remLen_encRem (fe : Nat) : ∀ (pre rest : Bytes) (n shift acc fr : Nat), n < 128 ^ fe → 1 ≤ fe →
    shift + 7 * fe ≤ 28 → fe ≤ fr →
    remLen (pre ++ encRem fe n ++ rest) fr pre.length shift acc =
      some (some (acc + n * 2 ^ shift, pre.length + (encRem fe n).length)) := by
  induction fe with
  | zero => intro pre rest n shift acc fr _ h1; omega
  | succ fe ih =>
    intro pre rest n shift acc fr hn _ hs hfr
    obtain ⟨fr', rfl⟩ : ∃ k, fr = k + 1 := ⟨fr - 1, by omega⟩
    unfold encRem remLen
    have hs28 : ¬ shift = 28 := by omega
    rw [if_neg hs28]
    by_cases hbig : n > 127
    · rw [if_pos hbig]
      have hlen : ¬ pre.length ≥ (pre ++ UInt8.ofNat (n % 128 + 128) :: encRem fe (n / 128) ++ rest).length := by
        simp
      rw [if_neg hlen]
      have hget : (pre ++ UInt8.ofNat (n % 128 + 128) :: encRem fe (n / 128) ++ rest).getD pre.length 0 =
          UInt8.ofNat (n % 128 + 128) := by
        simp [List.getD_eq_getElem?_getD, List.getElem?_append_right]
      simp only [hget]
      rw [u8_small _ (by omega)]
      rw [if_pos (by omega)]
      have hfe : 1 ≤ fe := by
        cases fe with
        | zero => simp at hn; omega
        | succ k => omega
      have hn' : n / 128 < 128 ^ fe := by
        rw [Nat.pow_succ] at hn
        exact Nat.div_lt_of_lt_mul (by rw [Nat.mul_comm]; exact hn)
      have hl : pre ++ UInt8.ofNat (n % 128 + 128) :: encRem fe (n / 128) ++ rest =
          (pre ++ [UInt8.ofNat (n % 128 + 128)]) ++ encRem fe (n / 128) ++ rest := by simp
      have hi : pre.length + 1 = (pre ++ [UInt8.ofNat (n % 128 + 128)]).length := by simp
      rw [hl, hi, ih (pre ++ [UInt8.ofNat (n % 128 + 128)]) rest (n / 128) (shift + 7) _ fr' hn' hfe (by omega) (by omega)]
      have hp : 2 ^ (shift + 7) = 128 * 2 ^ shift := by rw [Nat.pow_add]; omega
      have hm : (n % 128 + 128) % 128 = n % 128 := by omega
      have hsplit : n * 2 ^ shift = n % 128 * 2 ^ shift + n / 128 * (128 * 2 ^ shift) := by
        conv => lhs; rw [← Nat.div_add_mod n 128]
        rw [Nat.add_mul, Nat.mul_comm 128 (n / 128), Nat.mul_assoc, Nat.add_comm]
      rw [hp, hm, hsplit]
      simp only [List.length_append, List.length_cons, List.length_nil]
      generalize n % 128 * 2 ^ shift = A
      generalize n / 128 * (128 * 2 ^ shift) = B
      generalize (encRem fe (n / 128)).length = Ln
      have e1 : acc + A + B = acc + (A + B) := by omega
      have e2 : pre.length + (0 + 1) + Ln = pre.length + (Ln + 1) := by omega
      rw [e1, e2]
    · rw [if_neg hbig]
      have hlen : ¬ pre.length ≥ (pre ++ [UInt8.ofNat (n % 128)] ++ rest).length := by
        simp
      rw [if_neg hlen]
      have hget : (pre ++ [UInt8.ofNat (n % 128)] ++ rest).getD pre.length 0 = UInt8.ofNat (n % 128) := by
        simp [List.getD_eq_getElem?_getD, List.getElem?_append_right]
      simp only [hget]
      rw [u8_small _ (by omega)]
      rw [if_neg (by omega)]
      have : n % 128 % 128 = n := by omega
      simp [this]

/-- **C17 (valid fixed header)** for every control type, flags and every remaining length the encoder accepts
    (below 2^28): the header the device packs is decoded by the MQTT 3.1.1 length rule (`remLen`, the same
    rule the receive side uses) to exactly that remaining length, and the packet body starts right behind it -
    in particular at the boundary 127/128 between one and two length bytes. -/
theorem c17_header_roundtrip (ty flags rem : Nat) (hdr body : Bytes) (h : packHeader ty flags rem = some hdr) :
    remLen (hdr ++ body) 5 1 0 0 = some (some (rem, hdr.length)) := by
  unfold packHeader at h
  by_cases hbig : rem ≥ 268435456
  · rw [if_pos hbig] at h; cases h
  · rw [if_neg hbig] at h
    injection h with h
    subst h
    have := remLen_encRem 4 [UInt8.ofNat (ty % 16 * 16 + flags % 16)] body rem 0 0 5 (by omega) (by omega) (by omega) (by omega)
    simpa [Nat.add_comm] using this

/-- lengths of 2^28 and more are refused -/
theorem c17_header_too_long (ty flags rem : Nat) (h : rem ≥ 268435456) : packHeader ty flags rem = none := by
  unfold packHeader; rw [if_pos h]

example : packHeader 1 0 128 = some [0x10, 0x80, 0x01] := by decide
example : packHeader 1 0 127 = some [0x10, 0x7f] := by decide

end SuplaVerif.C17
