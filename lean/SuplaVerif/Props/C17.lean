/-
  Props/C17 — MQTT CONNECT and command topics mean exactly what was configured and addressed.

  Theorem part: the complete password survives the split storage (C14's spill) and the assembly
  for CONNECT, for every password and every user-name length.  The CONNECT packet itself, the
  topic grammar and the number rendering are checked on the implementation against independent
  references (tools/props/c17.py); `prepareVal` is additionally run against its Lean model.
-/
import SuplaVerif.Model.Cred
import SuplaVerif.Model.Mqtt

namespace SuplaVerif.C17
open Bytes

theorem cstr_noNul_append_zero (p rest : Bytes) (h : NoNul p) : cstr (p ++ 0 :: rest) = p := by
  induction p with
  | nil => simp [cstr]
  | cons x xs ih =>
    have hx : x ≠ 0 := h x (by simp)
    simp only [List.cons_append, cstr, hx, if_false]
    rw [ih (fun y hy => h y (by simp [hy]))]

theorem cstr_noNul (p : Bytes) (h : NoNul p) : cstr p = p := by
  induction p with
  | nil => rfl
  | cons x xs ih =>
    have hx : x ≠ 0 := h x (by simp)
    simp only [cstr, hx, if_false]
    rw [ih (fun y hy => h y (by simp [hy]))]

theorem noNul_take (p : Bytes) (n : Nat) (h : NoNul p) : NoNul (p.take n) :=
  fun x hx => h x (List.mem_of_mem_take hx)
theorem noNul_drop (p : Bytes) (n : Nat) (h : NoNul p) : NoNul (p.drop n) :=
  fun x hx => h x (List.mem_of_mem_drop hx)

theorem cstr_take_prefix (p r : Bytes) (n : Nat) (h : NoNul p) (hl : p.length < n) :
    cstr ((p ++ 0 :: r).take n) = p := by
  induction p generalizing n with
  | nil =>
    cases n with
    | zero => simp at hl
    | succ k => simp [cstr]
  | cons x xs ih =>
    cases n with
    | zero => simp at hl
    | succ k =>
      have hx : x ≠ 0 := h x (by simp)
      simp only [List.cons_append, List.take_succ_cons, cstr, hx, if_false]
      rw [ih k (fun y hy => h y (by simp [hy])) (by simpa using hl)]

/-- **C17.2 (complete password)** for every NUL-free password that fits the two fields
    (`|pw| ≤ L + T - 1`), whatever the fields held before: assembling what was stored gives back
    exactly the password — short ones from the Password field alone, long ones from both parts,
    including the case where the tail fills its area exactly. -/
theorem c17_password_roundtrip (L T : Nat) (pw oldPass oldTail : Bytes) (hn : NoNul pw)
    (hfit : pw.length ≤ L + (T - 1)) (hT : 0 < T) :
    assemblePassword L T (storePassword L T pw oldPass oldTail).1 (storePassword L T pw oldPass oldTail).2 = pw := by
  unfold storePassword assemblePassword
  by_cases hs : pw.length < L
  · rw [if_pos hs]
    simp only
    rw [cstr_take_prefix pw _ L hn hs, if_pos hs]
  · rw [if_neg hs]
    simp only
    have hL : L ≤ pw.length := by omega
    have h1 : cstr ((pw.take L).take L) = pw.take L := by
      rw [List.take_take, Nat.min_self]; exact cstr_noNul _ (noNul_take pw L hn)
    have hlen : (pw.take L).length = L := by simp [List.length_take]; omega
    rw [h1, if_neg (by omega)]
    have hd : (pw.drop L).take (T - 1) = pw.drop L := by
      apply List.take_of_length_le; simp [List.length_drop]; omega
    rw [hd]
    have hdl : (pw.drop L).length < T := by simp [List.length_drop]; omega
    rw [cstr_take_prefix (pw.drop L) _ T (noNul_drop pw L hn) hdl]
    rw [if_pos ⟨hT, by omega⟩]
    exact List.take_append_drop L pw

/-- with authentication disabled nothing is assembled (modelled by the caller passing no
    credentials); with a short password the tail area is never read -/
theorem c17_short_password_ignores_tail (L T : Nat) (pass tail tail' : Bytes)
    (h : (cstr (pass.take L)).length < L) :
    assemblePassword L T pass tail = assemblePassword L T pass tail' := by
  unfold assemblePassword; simp only; rw [if_pos h, if_pos h]

/-- non-vacuity: L = 4, T = 3, password "abcdef" (tail fills its area exactly) -/
example : assemblePassword 4 3 (storePassword 4 3 [97, 98, 99, 100, 101, 102] [9, 9, 9, 9] [7, 7, 7]).1
    (storePassword 4 3 [97, 98, 99, 100, 101, 102] [9, 9, 9, 9] [7, 7, 7]).2 = [97, 98, 99, 100, 101, 102] := by
  decide

end SuplaVerif.C17
