/-
  Props/C06 — relay output follows the last command; the reports tell the real state; one result per
  set-value request.  The last theorems state what the 2-slot out-queue does to a burst.
-/
import SuplaVerif.Model.Relay
import SuplaVerif.Gen.Consts
namespace SuplaVerif.C06
open SuplaVerif

theorem logical_relayHiReq (c : RelayCfg) (s : RelaySt) (hi : Nat) :
    (relayHiReq c s hi).logical c = wantOf c s hi := by
  unfold relayHiReq RelaySt.logical
  cases c.loLevel <;> simp

/-- after every command the logical output is the requested one (active-low wiring honoured) -/
theorem c06_step_follows (c : RelayCfg) (s : RelaySt) (cmd : RelayCmd) :
    (relayStep c s cmd).1.logical c = requested (s.logical c) cmd := by
  cases cmd with
  | server sender v =>
    simp only [relayStep, requested, logical_relayHiReq, wantOf]
    by_cases h : v = 1 <;> simp [h]
  | «local» hi =>
    simp only [relayStep, requested, logical_relayHiReq, wantOf]

/-- the pin carries the logical level, inverted exactly for active-low relays -/
theorem c06_polarity (c : RelayCfg) (s : RelaySt) (cmd : RelayCmd) :
    (relayStep c s cmd).1.out = (if c.loLevel then !(requested (s.logical c) cmd) else requested (s.logical c) cmd) := by
  have h := c06_step_follows c s cmd
  generalize requested (s.logical c) cmd = r at h ⊢
  generalize (relayStep c s cmd).1 = t at h ⊢
  unfold RelaySt.logical at h
  cases hc : c.loLevel <;> simp [hc] at h ⊢
  · exact h
  · cases ho : t.out <;> simp [ho] at h ⊢ <;> simp [← h]

/-- the level after a whole history: fold of the requests -/
def follow (before : Bool) : List RelayCmd → Bool
  | [] => before
  | cmd :: cmds => follow (requested before cmd) cmds

/-- C06 (output): after any sequence of server commands, local switch requests and timer expiries the
    output is the one requested by the most recent command -/
theorem c06_output_follows_last (c : RelayCfg) : ∀ (cmds : List RelayCmd) (s : RelaySt),
    (relayRun c s cmds).1.logical c = follow (s.logical c) cmds := by
  intro cmds
  induction cmds with
  | nil => intro s; rfl
  | cons cmd cmds ih =>
    intro s
    unfold relayRun follow
    rw [ih, c06_step_follows]

theorem follow_last_explicit (before : Bool) (cmds : List RelayCmd) (sender v : Int) :
    follow before (cmds ++ [.server sender v]) = decide (v = 1) := by
  induction cmds generalizing before with
  | nil => simp [follow, requested]
  | cons c cs ih => simp only [List.cons_append, follow]; exact ih _

/-- every command reports exactly one value, and it is the real state after the command -/
theorem c06_step_reports_truth (c : RelayCfg) (s : RelaySt) (cmd : RelayCmd) :
    lastValue (relayStep c s cmd).2 = some ((relayStep c s cmd).1.logical c) := by
  cases cmd <;> simp [relayStep, lastValue, Option.orElse]

theorem lastValue_append (a b : List RelayEv) :
    lastValue (a ++ b) = (lastValue b).orElse (fun _ => lastValue a) := by
  induction a with
  | nil => cases h : lastValue b <;> simp [lastValue, Option.orElse, h]
  | cons e es ih =>
    cases e with
    | value v =>
      simp only [List.cons_append, lastValue, ih]
      cases h : lastValue b <;> simp [Option.orElse]
    | result sd ok => simp only [List.cons_append, lastValue, ih]

/-- C06 (reports): after any non-empty history the last reported value equals the real state -/
theorem c06_last_report_is_state (c : RelayCfg) : ∀ (cmds : List RelayCmd) (s : RelaySt), cmds ≠ [] →
    lastValue (relayRun c s cmds).2 = some ((relayRun c s cmds).1.logical c) := by
  intro cmds
  induction cmds with
  | nil => intro s h; exact absurd rfl h
  | cons cmd cmds ih =>
    intro s _
    unfold relayRun
    rw [lastValue_append]
    cases cmds with
    | nil => simp [relayRun, lastValue, Option.orElse, c06_step_reports_truth]
    | cons c2 cs =>
      have := ih (relayStep c s cmd).1 (by simp)
      rw [this]; simp [Option.orElse]

def results : List RelayEv → List (Int × Bool)
  | [] => []
  | .value _ :: es => results es
  | .result s ok :: es => (s, ok) :: results es

/-- C06 (answer): a set-value request is answered by exactly one result carrying its sender id, and the
    success flag says that the output matches the request (it always does on this path); local
    switching produces no result -/
theorem c06_one_result (c : RelayCfg) (s : RelaySt) (sender v : Int) :
    results (relayStep c s (.server sender v)).2 = [(sender, true)] := by
  have h := c06_step_follows c s (.server sender v)
  simp only [relayStep, requested] at h
  simp [relayStep, results, h]

theorem c06_local_no_result (c : RelayCfg) (s : RelaySt) (hi : Nat) :
    results (relayStep c s (.local hi)).2 = [] := by
  simp [relayStep, results]

/-- the out-queue of /repo holds `protoParams.queue` packets: a burst that fits is accepted whole … -/
theorem c06_burst_fits (cap queued k : Nat) (h : queued + k ≤ cap) : burstAccepted cap queued k = k := by
  unfold burstAccepted; omega

/-- … and of a burst that does not fit exactly the last calls are refused: with the extracted capacity a
    timed command on a countdown-capable channel (extended value, value, result = 3 calls into an empty
    queue) loses one call — the set-value result, which is issued last (known finding) -/
theorem c06_burst_overflow_repo : Gen.protoParams.queue = 2 ∧ burstAccepted Gen.protoParams.queue 0 3 = 2 := by
  decide

/-- non-vacuity: on, toggle, off on an active-low relay -/
example : (relayRun { loLevel := true } { out := true } [.server 7 1, .local 255, .server 9 0]).1 = { out := true } ∧
    results (relayRun { loLevel := true } { out := true } [.server 7 1, .local 255, .server 9 0]).2 = [(7, true), (9, true)] := by
  decide

/-! ### the local switch request (supla_esp_gpio_relay_switch) -/

/-- **C06.S1** a toggle request on a plain channel, or on a staircase channel with button type 'toggle', inverts the relay -/
theorem c06_switch_toggles (stair : Bool) (stype : Nat) (isOn : Bool) (h : stair = false ∨ stype ≠ 0) :
    switchHi stair stype 255 isOn = (if isOn then 0 else 1) := by
  unfold switchHi
  rcases h with h | h
  · simp [h]
  · simp [h]

/-- **C06.S2** on a staircase channel with button type 'reset' every non-zero request switches on (and so re-arms the time),
    a request for 0 switches off -/
theorem c06_switch_staircase_reset (hi : Nat) (isOn : Bool) :
    switchHi true 0 hi isOn = (if hi = 0 then 0 else 1) := by
  unfold switchHi
  by_cases h : hi = 0
  · simp [h]
  · simp [h]

/-- **C06.S3** an explicit request (0 or 1) is what relay_hi gets, staircase or not -/
theorem c06_switch_explicit (stair : Bool) (stype : Nat) (hi : Nat) (isOn : Bool) (h : hi = 0 ∨ hi = 1) :
    switchHi stair stype hi isOn = hi := by
  unfold switchHi
  rcases h with h | h <;> simp [h]

end SuplaVerif.C06
