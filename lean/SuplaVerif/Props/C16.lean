/-
  Props/C16 — MQTT receive: exact delivery under any segmentation, no OOB on bad packets.

  Theorems about the byte-level model of mqtt_unpack_fixed_header / mqtt_unpack_publish_response:
  every PUBLISH that is unpacked has its topic and payload inside the bytes that were received,
  for every byte string.  Second half (C16.3 ..): the receive loop of one connection
  (supla_esp_mqtt_conn_recv_cb handing segments over in parts, __mqtt_recv taking complete packets out of the
  buffer; Model/MqttRecv): for every list of segments, timer syncs and outside errors the packets handed to
  the handler are exactly the successive packets of the accepted byte stream, in order, at most once; the
  result does not depend on the segmentation; a stream of complete packets that fit the buffer is delivered
  completely; a malformed packet is an error and nothing behind it is handed over.
-/
import SuplaVerif.Model.Mqtt
import SuplaVerif.Lemmas.MqttParse
import SuplaVerif.Lemmas.MqttLive
import SuplaVerif.Lemmas.MqttAck

namespace SuplaVerif.C16
open Bytes

/-- **C16.1 (publish in bounds)** whatever the flags, the declared remaining length and the
    bytes: a successfully unpacked PUBLISH has topic and payload inside the packet, the payload
    ends exactly at the end of the packet, and the packet id (QoS > 0) is read inside it. -/
theorem c16_publish_in_bounds (flags rem hdr : Nat) (body : Bytes) (p : Publish)
    (h : unpackPublish flags rem hdr body = .publish p) :
    p.topicOff = hdr + 2 ∧ p.topicOff + p.topicLen ≤ p.payloadOff ∧
    p.payloadOff + p.payloadLen = hdr + rem ∧ p.consumed = hdr + rem ∧
    (p.qos > 0 → p.topicOff + p.topicLen + 2 = p.payloadOff) := by
  unfold unpackPublish at h
  by_cases h1 : rem < 4
  · rw [if_pos h1] at h; cases h
  · rw [if_neg h1] at h
    by_cases h2 : be16 body + 2 + pidLen (flags / 2 % 4) > rem
    · rw [if_pos h2] at h; cases h
    · rw [if_neg h2] at h
      injection h with h
      subst h
      simp only
      refine ⟨trivial, by omega, by omega, trivial, ?_⟩
      intro hq
      have : pidLen (flags / 2 % 4) = 2 := by unfold pidLen; rw [if_pos hq]
      omega

theorem otherPacket_not_publish (ty flags rem hdr len : Nat) (p : Publish) :
    otherPacket ty flags rem hdr len ≠ .publish p := by
  unfold otherPacket
  by_cases h1 : flags ≠ (if ty = 6 ∨ ty = 8 ∨ ty = 10 then 2 else 0)
  · rw [if_pos h1]; intro h; cases h
  · rw [if_neg h1]
    by_cases h2 : len - hdr < rem
    · rw [if_pos h2]; intro h; cases h
    · rw [if_neg h2]; intro h; cases h

/-- **C16.1b** the whole-packet unpacker only hands out a PUBLISH when all of its bytes have been
    received: `consumed ≤ length`, hence topic and payload are sub-ranges of the received data;
    and only for control type 3. -/
theorem c16_response_in_buffer (b : Bytes) (p : Publish) (h : unpackResponse b = .publish p) :
    p.consumed ≤ b.length ∧ p.topicOff + p.topicLen ≤ b.length ∧
    p.payloadOff + p.payloadLen ≤ b.length ∧ (b.getD 0 0).toNat / 16 = 3 := by
  unfold unpackResponse at h
  by_cases h0 : b.length = 0
  · rw [if_pos h0] at h; cases h
  · rw [if_neg h0] at h
    simp only at h
    by_cases h1 : b.length = 1
    · rw [if_pos h1] at h; cases h
    · rw [if_neg h1] at h
      cases hr : remLen b 5 1 0 0 with
      | none => rw [hr] at h; cases h
      | some o =>
        cases o with
        | none => rw [hr] at h; cases h
        | some rh =>
          obtain ⟨rem, hdr⟩ := rh
          rw [hr] at h
          simp only at h
          by_cases h2 : (b.getD 0 0).toNat / 16 = 0 ∨ (b.getD 0 0).toNat / 16 = 15
          · rw [if_pos h2] at h; cases h
          · rw [if_neg h2] at h
            by_cases h3 : (b.getD 0 0).toNat / 16 ≠ 3
            · rw [if_pos h3] at h; exact absurd h (otherPacket_not_publish _ _ _ _ _ _)
            · rw [if_neg h3] at h
              by_cases h4 : b.length - hdr < rem
              · rw [if_pos h4] at h; cases h
              · rw [if_neg h4] at h
                have := c16_publish_in_bounds _ _ _ _ _ h
                refine ⟨by omega, by omega, by omega, by omega⟩

/-- **C16.2 (malformed lengths are errors)** a PUBLISH whose topic length (plus packet id) does
    not fit in the remaining length is a protocol error, never a callback. -/
theorem c16_topic_overrun_is_error (flags rem hdr : Nat) (body : Bytes)
    (h : be16 body + 2 + pidLen (flags / 2 % 4) > rem) :
    unpackPublish flags rem hdr body = .err .malformed := by
  unfold unpackPublish
  by_cases h1 : rem < 4
  · rw [if_pos h1]
  · rw [if_neg h1, if_pos h]

/-- non-vacuity: "a/b" <- "hello" at QoS 0; and the historic F13 witness (topic length 255 in a
    5-byte packet) is an error -/
example : unpackResponse [0x30, 0x0a, 0, 3, 0x61, 0x2f, 0x62, 0x68, 0x65, 0x6c, 0x6c, 0x6f] =
    .publish { qos := 0, dup := 0, retain := 0, pid := 0, topicOff := 4, topicLen := 3,
               payloadOff := 7, payloadLen := 5, consumed := 12 } := by decide
example : unpackResponse [0x30, 0x05, 0, 0xff, 0x61, 0x2f, 0x62] = .err .malformed := by decide

/-! ### the receive loop: any segmentation -/

open MqttRecv

/-- **C16.3 (genuine, in order, at most once)** after any history of segments (of any size, also larger than
    the free space of the receive buffer), timer syncs and errors raised elsewhere, with any handler: the
    packets taken out of the buffer are the successive packets at the start of the accepted byte stream `A`,
    `A` is a prefix of the bytes the broker sent, and what is not yet handled is still in the buffer
    (nothing lost, nothing duplicated, nothing invented). -/
theorem c16_genuine (hok : List Bytes → Bytes → Bool) (cap : Nat) (es : List REv) :
    ∃ A, A <+: offered es ∧ A = (run parse hok cap {} es).hs.flatten ++ (run parse hok cap {} es).buf ∧
      Chain parse (run parse hok cap {} es).hs A ∧ (run parse hok cap {} es).buf.length ≤ cap := by
  obtain ⟨acc, a1, a2, _, _, _⟩ := run_inv parse_ok hok cap es {} [] (inv_init parse_ok cap)
  exact ⟨acc, a1, by simpa using a2.stream, by simpa using a2.chain, a2.bound⟩

/-- **C16.4 (the segmentation does not matter)** two histories that offer the same byte stream and both end
    without an error have handed exactly the same packets to the handler and keep the same incomplete tail:
    cutting the stream differently, coalescing packets or interleaving timer syncs changes nothing. -/
theorem c16_segmentation_independent (hok : List Bytes → Bytes → Bool) (cap : Nat) (es1 es2 : List REv)
    (hsame : offered es1 = offered es2)
    (h1 : (run parse hok cap {} es1).err = false) (h2 : (run parse hok cap {} es2).err = false) :
    (run parse hok cap {} es1).hs = (run parse hok cap {} es2).hs ∧
    (run parse hok cap {} es1).buf = (run parse hok cap {} es2).buf := by
  obtain ⟨a, _, a2, a3, _, _⟩ := run_inv parse_ok hok cap es1 {} [] (inv_init parse_ok cap)
  obtain ⟨b, _, b2, b3, _, _⟩ := run_inv parse_ok hok cap es2 {} [] (inv_init parse_ok cap)
  have g1 : (run parse hok cap {} es1).gap = false := by
    cases hg : (run parse hok cap {} es1).gap
    · rfl
    · have := a2.gapErr hg; rw [h1] at this; cases this
  have g2 : (run parse hok cap {} es2).gap = false := by
    cases hg : (run parse hok cap {} es2).gap
    · rfl
    · have := b2.gapErr hg; rw [h2] at this; cases this
  have ea := a3 g1
  have eb := b3 g2
  have sa := a2.stream
  have sb := b2.stream
  have ca := a2.chain
  have cb := b2.chain
  rw [ea] at sa ca
  rw [eb, ← hsame] at sb cb
  simp only [List.nil_append] at sa sb ca cb
  exact chain_unique parse_ok _ _ _ _ _ sa sb ca cb (a2.idle h1) (b2.idle h2)

/-- **C16.5 (every well-formed packet is delivered exactly once)** if the broker's stream is a sequence of
    complete packets each of which fits the receive buffer, the handler accepts them and nothing else raises
    an error, then — however the stream is cut into TCP segments and wherever timer syncs fall — exactly these
    packets are handed over, in order, each once, and the buffer ends empty without an error. -/
theorem c16_delivery (hok : List Bytes → Bytes → Bool) (cap : Nat) (hcap : 0 < cap)
    (hall : ∀ hs q, hok hs q = true) (ps : List Bytes) (hv : ∀ q ∈ ps, Valid parse cap q)
    (es : List REv) (hne : NoExt es) (hstream : offered es = ps.flatten) :
    (run parse hok cap {} es).hs = ps ∧ (run parse hok cap {} es).err = false ∧
    (run parse hok cap {} es).buf = [] := by
  obtain ⟨v1, v2, qs', v3, v4⟩ := run_valid parse_ok hok cap hall hcap es hne {} [] ps (inv_init parse_ok cap)
    rfl rfl hv (by simpa using hstream)
  obtain ⟨a, _, a2, a3, _, _⟩ := run_inv parse_ok hok cap es {} [] (inv_init parse_ok cap)
  have ea := a3 v2
  have hneed := a2.idle v1
  have hbuf : (run parse hok cap {} es).buf = [] := by
    cases qs' with
    | nil => simpa using v4
    | cons q qs =>
      exfalso
      have hq := (v3 q (by simp)).1
      rw [v4, List.flatten_cons, parse_ok.pktStable q _ _ hq] at hneed
      cases hneed
  refine ⟨?_, v1, hbuf⟩
  have sa := a2.stream
  have ca := a2.chain
  rw [ea] at sa ca
  simp only [List.nil_append] at sa ca
  have cp : Chain parse ps (ps.flatten ++ []) := chain_of_valid parse_ok ps (fun q h => (hv q h).1) []
  rw [← hstream] at cp
  simp only [List.append_nil] at cp
  have := chain_unique parse_ok _ ps (offered es) _ [] sa (by rw [hstream]; simp) ca cp hneed (by decide)
  exact this.1

/-- **C16.6 (a malformed packet is an error and blocks what follows)** when the bytes at the start of the
    buffer are a protocol violation the sync reports an error, hands nothing over and keeps the buffer: no
    later segment or sync can get a packet past it (by stability, `parse (buf ++ more) = bad`). -/
theorem c16_malformed_blocks (hok : List Bytes → Bytes → Bool) (cap : Nat) (hs : List Bytes) (buf more : Bytes)
    (hbad : parse buf = .bad) :
    drain parse hok cap hs (buf ++ more) = (hs, buf ++ more, true) := by
  rw [drain, parse_ok.badStable buf more hbad]

/-- **C16.7 (what a handled PUBLISH hands to the callback)** a handled packet of control type 3 is unpacked by
    `unpackResponse` (C16.1) to a PUBLISH whose topic and payload are sub-ranges of exactly that packet and
    whose payload ends with it: the callback never sees bytes of a neighbouring packet. -/
theorem c16_handled_publish_in_packet (q : Bytes) (n : Nat) (hq : parse q = .pkt n)
    (hty : (q.getD 0 0).toNat / 16 = 3) :
    ∃ p, unpackResponse q = .publish p ∧ p.consumed = n ∧ p.topicOff + p.topicLen ≤ n ∧
      p.payloadOff + p.payloadLen = n := by
  unfold parse at hq
  unfold unpackResponse
  by_cases h2 : q.length < 2
  · rw [if_pos h2] at hq; cases hq
  · rw [if_neg h2] at hq
    rw [if_neg (by omega : ¬ q.length = 0)]
    simp only
    rw [if_neg (by omega : ¬ q.length = 1)]
    cases hr : remLen q 5 1 0 0 with
    | none => rw [hr] at hq; cases hq
    | some o =>
      cases o with
      | none => rw [hr] at hq; cases hq
      | some rh =>
        obtain ⟨rem, hdr⟩ := rh
        rw [hr] at hq
        simp only at hq ⊢
        unfold parseBody at hq
        rw [hty] at hq ⊢
        simp only [show ¬ ((3 : Nat) = 0 ∨ (3 : Nat) = 15) by decide, if_false, show ¬ ((3 : Nat) ≠ 3 ∧ _) from fun h => h.1 rfl,
          show ¬ (3 : Nat) = 2 by decide, if_true] at hq
        rw [if_neg (by decide : ¬ ((3 : Nat) = 0 ∨ (3 : Nat) = 15)), if_neg (by decide : ¬ (3 : Nat) ≠ 3)]
        by_cases h4 : q.length - hdr < rem
        · rw [if_pos h4] at hq; cases hq
        · rw [if_neg h4] at hq ⊢
          by_cases h5 : rem < 4
          · rw [if_pos h5] at hq; cases hq
          · rw [if_neg h5] at hq
            by_cases h6 : be16 (q.drop hdr) + 2 + pidLen ((q.getD 0 0).toNat % 16 / 2 % 4) > rem
            · rw [if_pos h6] at hq; cases hq
            · rw [if_neg h6] at hq
              injection hq with hq
              unfold unpackPublish
              rw [if_neg h5, if_neg h6]
              refine ⟨_, rfl, hq, ?_, ?_⟩ <;> simp only <;> omega

/-- non-vacuity of C16.5: CONNACK, a QoS-1 PUBLISH and a PINGRESP in a 16-byte buffer, cut into segments of
    1, 9, 2 and 8 bytes (the second is larger than the free space and is handed over in parts), with a timer
    sync in between: the premises of `c16_delivery` hold, so exactly the three packets are handed over -/
example :
    let connack : Bytes := [0x20, 2, 0, 0]
    let pub : Bytes := [0x32, 0x0c, 0, 3, 0x61, 0x2f, 0x62, 0, 7, 0x68, 0x65, 0x6c, 0x6c, 0x6f]
    let ping : Bytes := [0xd0, 0]
    let stream := connack ++ pub ++ ping
    (run parse (fun _ _ => true) 16 {} [.seg (stream.take 1), .seg ((stream.drop 1).take 9), .sync,
        .seg ((stream.drop 10).take 2), .seg (stream.drop 12)]).hs = [connack, pub, ping] := by
  intro connack pub ping stream
  refine (c16_delivery (fun _ _ => true) 16 (by decide) (fun _ _ => rfl) [connack, pub, ping] ?_ _ ?_ ?_).1
  · intro q hq
    simp only [List.mem_cons, List.not_mem_nil, or_false] at hq
    rcases hq with h | h | h <;> subst h <;> exact ⟨by decide, by decide⟩
  · intro e he
    simp only [List.mem_cons, List.not_mem_nil, or_false] at he
    rcases he with h | h | h | h | h <;> subst h <;> intro c <;> cases c
  · decide

/-- non-vacuity of C16.6: the historic witness (topic length 255 in a 5-byte PUBLISH) blocks the stream -/
example : parse [0x30, 0x05, 0, 0xff, 0x61, 0x2f, 0x62] = .bad := by decide

/-- the fifth length byte is never read: four continuation bytes are already an invalid length -/
theorem remLen_five (b : Bytes) (hl : 5 ≤ b.length)
    (h1 : (b.getD 1 0).toNat ≥ 128) (h2 : (b.getD 2 0).toNat ≥ 128) (h3 : (b.getD 3 0).toNat ≥ 128)
    (h4 : (b.getD 4 0).toNat ≥ 128) : remLen b 5 1 0 0 = some none := by
  have e1 : ¬ (1 ≥ b.length) := by omega
  have e2 : ¬ (2 ≥ b.length) := by omega
  have e3 : ¬ (3 ≥ b.length) := by omega
  have e4 : ¬ (4 ≥ b.length) := by omega
  simp only [List.getD_eq_getElem?_getD] at h1 h2 h3 h4
  simp [remLen, e1, e2, e3, e4]
  rw [if_pos h1, if_pos h2, if_pos h3, if_pos h4]

/-- **C16.8 (impossible length)** a fixed header whose remaining-length field continues beyond four bytes is a protocol
    error for every byte string, whatever follows: it is never waited for and never handed over (with C16.6 nothing
    behind it is handed over either). -/
theorem c16_five_byte_length_is_error (b : Bytes) (hl : 5 ≤ b.length)
    (h1 : (b.getD 1 0).toNat ≥ 128) (h2 : (b.getD 2 0).toNat ≥ 128) (h3 : (b.getD 3 0).toNat ≥ 128)
    (h4 : (b.getD 4 0).toNat ≥ 128) :
    parse b = .bad ∧ unpackResponse b = .err .invalidRemLen := by
  have h := remLen_five b hl h1 h2 h3 h4
  constructor
  · unfold parse; rw [if_neg (by omega), h]
  · unfold unpackResponse; rw [if_neg (by omega)]; simp only; rw [if_neg (by omega), h]

/-- **C16.9 (length field range)** an accepted remaining length is below 2^28 and was read from one to four bytes -/
theorem c16_remaining_length_bounded (b : Bytes) (rem hdr : Nat)
    (h : remLen b 5 1 0 0 = some (some (rem, hdr))) : rem < 268435456 ∧ 2 ≤ hdr ∧ hdr ≤ 5 := by
  simp [remLen] at h
  obtain ⟨_, h⟩ := h
  repeat' split at h
  all_goals (cases h; try omega)

/-- non-vacuity of C16.8: the packet of the seeded change (PUBLISH with a five-byte length, topic "t", payload "abcd") -/
example : parse [0x30, 0x87, 0x80, 0x80, 0x80, 0x00, 0x00, 0x01, 0x74, 0x61, 0x62, 0x63, 0x64] = .bad := by decide
/-- non-vacuity of C16.9: the largest four-byte length -/
example : remLen [0x30, 0xff, 0xff, 0xff, 0x7f] 5 1 0 0 = some (some (268435455, 5)) := by decide

/-! # acknowledgements and the inbound QoS 1/2 flows (Model/MqttAck, proofs in Lemmas/MqttAck) -/

/-- **C16.10 (acknowledgement of something never sent)** for every queue and every acknowledgement: if it is accepted, the
    queue holds the message it answers - same control type, same packet id (for a PUBREC also: the PUBREL already packed in
    answer to an earlier copy of it). A search that ignores the type or the id would not have this property. -/
theorem c16_ack_needs_request (q : MqttAck.MQ) (p : MqttAck.Pkt) (ty pid : Nat) (ha : p.answers = some (ty, pid))
    (hok : (MqttAck.handle q p).2.err = false) :
    MqttAck.found q ty pid = true ∨ (p = .pubrec pid ∧ MqttAck.found q 6 pid = true) :=
  MqttAck.ack_needs_request q p ty pid ha hok

/-- **C16.11 (one event refines the flow specification)** `Inv`: at most one PUBREC per packet id waits for its PUBREL; `Abs`: the
    open flows of the specification are the ids with a waiting PUBREC. Both are kept by every event - a packet from the broker,
    a request of the client's own, sending, cleaning - and a PUBLISH is handed over exactly when the specification says so. -/
theorem c16_flow_step_refines (q : MqttAck.MQ) (o : List Nat) (e : MqttAck.Ev) (hI : MqttAck.Inv q) (hA : MqttAck.Abs q o)
    (hw : e.wf) :
    MqttAck.Inv (MqttAck.step q e).1 ∧ MqttAck.Abs (MqttAck.step q e).1 (MqttAck.specStep o e).1 ∧
    (∀ qos pid, e = .pkt (.publish qos pid) → (MqttAck.step q e).2.delivered = (MqttAck.specStep o e).2) :=
  MqttAck.step_refines q o e hI hA hw

/-- **C16.12 (QoS 2 exactly once, for every history)** whatever the broker sends and however sending and cleaning of the queue
    interleave: the callbacks are exactly those of the flow specification - every QoS 0/1 PUBLISH, and of the QoS 2 PUBLISH
    packets with one packet id the first one and every first one after a PUBREL. In particular a packet id that is used again
    after its flow was released is a new message and is handed over. -/
theorem c16_qos2_exactly_once (es : List MqttAck.Ev) (q : MqttAck.MQ) (o : List Nat) (hI : MqttAck.Inv q)
    (hA : MqttAck.Abs q o) (hw : ∀ e ∈ es, e.wf) : MqttAck.deliveries q es = MqttAck.specDeliveries o es :=
  MqttAck.qos2_exactly_once es q o hI hA hw

/-- the empty queue (a new connection) satisfies the hypotheses of C16.11/12 with no open flow -/
theorem c16_flow_init : MqttAck.Inv [] ∧ MqttAck.Abs [] [] := MqttAck.inv_nil

/-- **C16.13 (QoS 1)** a QoS 1 PUBLISH is always handed over and its PUBACK carries the same packet id -/
theorem c16_qos1_delivered_and_acked (q : MqttAck.MQ) (pid : Nat) :
    (MqttAck.handle q (.publish 1 pid)).2 = { delivered := true, staged := some (4, pid) } := by
  simp [MqttAck.handle]

/-- non-vacuity, the history of the defect this model was written after: PUBLISH(7) - PUBREL(7) - PUBLISH(7) again, with the
    acknowledgements sent in between and other traffic; both messages are handed over, the retransmission is not -/
example : MqttAck.deliveries [⟨8, 46161, false⟩]
    [.pkt (.publish 2 7), .flush, .pkt (.publish 2 7), .pkt (.pubrel 7), .flush, .own 3 60968, .pkt (.publish 2 7), .pkt (.pubrel 7),
     .pkt (.suback 46161), .pkt (.publish 1 7)] = [(2, 7), (2, 7), (1, 7)] := by decide

end SuplaVerif.C16
