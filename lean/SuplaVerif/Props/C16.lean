/-
  Props/C16 — MQTT receive: exact delivery under any segmentation, no OOB on bad packets.

  Theorems about the byte-level model of mqtt_unpack_fixed_header / mqtt_unpack_publish_response:
  every PUBLISH that is unpacked has its topic and payload inside the bytes that were received,
  for every byte string.  Delivery under segmentation/coalescing is checked on the real client
  (supla_esp_mqtt_conn_recv_cb + MQTT-C) by tools/props/c16.py.
-/
import SuplaVerif.Model.Mqtt

namespace SuplaVerif.C16
open Bytes

/-- **C16.1 (publish in bounds)** whatever the flags, the declared remaining length and the
    bytes: a successfully unpacked PUBLISH has topic and payload inside the packet, the payload
    ends exactly at the end of the packet, and the packet id (QoS > 0) is read inside it. -/
theorem c16_publish_in_bounds (flags rem hdr : Nat) (body : Bytes) (p : Publish)
    (h : unpackPublish flags rem hdr body = .publish p) :
    p.topicOff = hdr + 2 ∧ p.topicOff + p.topicLen ≤ p.payloadOff ∧
    p.payloadOff + p.payloadLen = hdr + rem ∧ p.consumed = hdr + rem ∧
    (p.qos > 0 → p.topicOff + p.topicLen + 2 = p.payloadOff) := by
  unfold unpackPublish at h
  by_cases h1 : rem < 4
  · rw [if_pos h1] at h; cases h
  · rw [if_neg h1] at h
    by_cases h2 : be16 body + 2 + pidLen (flags / 2 % 4) > rem
    · rw [if_pos h2] at h; cases h
    · rw [if_neg h2] at h
      injection h with h
      subst h
      simp only
      refine ⟨trivial, by omega, by omega, trivial, ?_⟩
      intro hq
      have : pidLen (flags / 2 % 4) = 2 := by unfold pidLen; rw [if_pos hq]
      omega

theorem otherPacket_not_publish (ty flags rem hdr len : Nat) (p : Publish) :
    otherPacket ty flags rem hdr len ≠ .publish p := by
  unfold otherPacket
  by_cases h1 : flags ≠ (if ty = 6 ∨ ty = 8 ∨ ty = 10 then 2 else 0)
  · rw [if_pos h1]; intro h; cases h
  · rw [if_neg h1]
    by_cases h2 : len - hdr < rem
    · rw [if_pos h2]; intro h; cases h
    · rw [if_neg h2]; intro h; cases h

/-- **C16.1b** the whole-packet unpacker only hands out a PUBLISH when all of its bytes have been
    received: `consumed ≤ length`, hence topic and payload are sub-ranges of the received data;
    and only for control type 3. -/
theorem c16_response_in_buffer (b : Bytes) (p : Publish) (h : unpackResponse b = .publish p) :
    p.consumed ≤ b.length ∧ p.topicOff + p.topicLen ≤ b.length ∧
    p.payloadOff + p.payloadLen ≤ b.length ∧ (b.getD 0 0).toNat / 16 = 3 := by
  unfold unpackResponse at h
  by_cases h0 : b.length = 0
  · rw [if_pos h0] at h; cases h
  · rw [if_neg h0] at h
    simp only at h
    by_cases h1 : b.length = 1
    · rw [if_pos h1] at h; cases h
    · rw [if_neg h1] at h
      cases hr : remLen b 5 1 0 0 with
      | none => rw [hr] at h; cases h
      | some o =>
        cases o with
        | none => rw [hr] at h; cases h
        | some rh =>
          obtain ⟨rem, hdr⟩ := rh
          rw [hr] at h
          simp only at h
          by_cases h2 : (b.getD 0 0).toNat / 16 = 0 ∨ (b.getD 0 0).toNat / 16 = 15
          · rw [if_pos h2] at h; cases h
          · rw [if_neg h2] at h
            by_cases h3 : (b.getD 0 0).toNat / 16 ≠ 3
            · rw [if_pos h3] at h; exact absurd h (otherPacket_not_publish _ _ _ _ _ _)
            · rw [if_neg h3] at h
              by_cases h4 : b.length - hdr < rem
              · rw [if_pos h4] at h; cases h
              · rw [if_neg h4] at h
                have := c16_publish_in_bounds _ _ _ _ _ h
                refine ⟨by omega, by omega, by omega, by omega⟩

/-- **C16.2 (malformed lengths are errors)** a PUBLISH whose topic length (plus packet id) does
    not fit in the remaining length is a protocol error, never a callback. -/
theorem c16_topic_overrun_is_error (flags rem hdr : Nat) (body : Bytes)
    (h : be16 body + 2 + pidLen (flags / 2 % 4) > rem) :
    unpackPublish flags rem hdr body = .err .malformed := by
  unfold unpackPublish
  by_cases h1 : rem < 4
  · rw [if_pos h1]
  · rw [if_neg h1, if_pos h]

/-- non-vacuity: "a/b" <- "hello" at QoS 0; and the historic F13 witness (topic length 255 in a
    5-byte packet) is an error -/
example : unpackResponse [0x30, 0x0a, 0, 3, 0x61, 0x2f, 0x62, 0x68, 0x65, 0x6c, 0x6c, 0x6f] =
    .publish { qos := 0, dup := 0, retain := 0, pid := 0, topicOff := 4, topicLen := 3,
               payloadOff := 7, payloadLen := 5, consumed := 12 } := by decide
example : unpackResponse [0x30, 0x05, 0, 0xff, 0x61, 0x2f, 0x62] = .err .malformed := by decide

end SuplaVerif.C16
