/-
  Props/C05 — keep-alive, silent-server reconnect and watchdog restart happen within bounds.

  The decisions are taken once per second on `uptime_sec()` samples.  By C19 the samples are
  non-decreasing; with the 1 s timers each whole second is sampled (consecutive samples differ by
  at most 1 when the callback jitter is below the period).  The theorems are therefore stated for
  the tick whose sample is exactly `k` seconds after the reference stamp, for every granted
  timeout T, every stamp value and every phase.
-/
import SuplaVerif.Model.KeepAlive
import SuplaVerif.Gen.Consts

namespace SuplaVerif.C05

theorem subw_add (s k : Nat) (hs : s < W32) (hk : k < W32) : subw ((s + k) % W32) s = k := by
  unfold subw W32 at *; omega

theorem toU32_nonneg (i : Int) (h0 : 0 ≤ i) (h1 : i < (W32 : Int)) : toU32 i = i.toNat := by
  unfold toU32; rw [Int.emod_eq_of_lt h0 h1]

/-- **C05.1 (keep-alive)** `T - 5` seconds after the last transmission (nothing sent since, the
    server not yet overdue) the tick issues a ping: a frame is transmitted in every
    activity-timeout window.  For every granted timeout 5 ≤ T ≤ 240 and every stamp value
    (the second counter may wrap). -/
theorem c05_ping_at_window_start (K : KaConsts) (hK : K.pingWindow = 5) (T : Nat) (hT : 5 ≤ T) (hT2 : T < 100000)
    (s r : Nat) (hs : s < W32) (hr : r < W32)
    (hresp : subw ((s + (T - 5)) % W32) r < toU32 ((T : Int) + K.reconnectAdd)) :
    timer1 K T ((s + (T - 5)) % W32) s r = .ping := by
  unfold timer1
  have h1 : subw ((s + (T - 5)) % W32) s = T - 5 := subw_add s (T - 5) hs (by unfold W32; omega)
  rw [if_neg (by omega)]
  simp only [h1]
  rw [if_neg (by omega)]
  have hw : toU32 ((T : Int) - K.pingWindow) = T - 5 := by
    rw [hK, toU32_nonneg _ (by omega) (by unfold W32; omega)]; omega
  have hw2 : toU32 (T : Int) = T := by
    rw [toU32_nonneg _ (by omega) (by unfold W32; omega)]; omega
  rw [if_pos (Or.inl ⟨by rw [hw]; exact Nat.le_refl _, by rw [hw2]; omega⟩)]

/-- **C05.1b** the same from the receive side: `T - 5` s after the last received message a ping
    is issued (so a prompt server is asked before the timeout expires) -/
theorem c05_ping_on_silence (K : KaConsts) (hK : K.pingWindow = 5) (hK2 : 0 < K.reconnectAdd) (hK3 : K.reconnectAdd < 1000)
    (T : Nat) (hT : 5 ≤ T) (hT2 : T < 100000) (s r : Nat) (hr : r < W32) :
    timer1 K T ((r + (T - 5)) % W32) s r = .ping ∨ timer1 K T ((r + (T - 5)) % W32) s r = .reconnect := by
  unfold timer1
  have h2 : subw ((r + (T - 5)) % W32) r = T - 5 := subw_add r (T - 5) hr (by unfold W32; omega)
  rw [if_neg (by omega)]
  simp only [h2]
  have hw : toU32 ((T : Int) - K.pingWindow) = T - 5 := by
    rw [hK, toU32_nonneg _ (by omega) (by unfold W32; omega)]; omega
  have hw2 : toU32 (T : Int) = T := by
    rw [toU32_nonneg _ (by omega) (by unfold W32; omega)]; omega
  have hw3 : toU32 ((T : Int) + K.reconnectAdd) = T + K.reconnectAdd := by
    rw [toU32_nonneg _ (by omega) (by unfold W32; omega)]; omega
  rw [if_neg (by rw [hw3]; omega)]
  left
  rw [if_pos (Or.inr ⟨by rw [hw]; exact Nat.le_refl _, by rw [hw2]; omega⟩)]

/-- **C05.2 (recovery: reconnect)** with nothing received, the tick `T + 10` seconds after the
    last received message reconnects — no later than `T + 11` s in true time (one tick of phase). -/
theorem c05_reconnect_at (K : KaConsts) (T : Nat) (hT : 1 ≤ T) (hT2 : T < 100000) (hK3 : K.reconnectAdd < 1000)
    (s r : Nat) (hr : r < W32) :
    timer1 K T ((r + (T + K.reconnectAdd)) % W32) s r = .reconnect := by
  unfold timer1
  have h2 : subw ((r + (T + K.reconnectAdd)) % W32) r = T + K.reconnectAdd :=
    subw_add r _ hr (by unfold W32; omega)
  rw [if_neg (by omega)]
  simp only [h2]
  have hw3 : toU32 ((T : Int) + K.reconnectAdd) = T + K.reconnectAdd := by
    rw [toU32_nonneg _ (by omega) (by unfold W32; omega)]; omega
  rw [if_pos (by rw [hw3]; exact Nat.le_refl _)]

/-- **C05.2b (no early reconnect)** while less than `T + 10` s have passed since the last received
    message, timer1 never reconnects -/
theorem c05_no_early_reconnect (K : KaConsts) (T : Nat) (hT : 1 ≤ T) (hT2 : T < 100000) (hK3 : K.reconnectAdd < 1000)
    (s r k : Nat) (hr : r < W32) (hk : k < T + K.reconnectAdd) :
    timer1 K T ((r + k) % W32) s r ≠ .reconnect := by
  unfold timer1
  have h2 : subw ((r + k) % W32) r = k := subw_add r k hr (by unfold W32; omega)
  rw [if_neg (by omega)]
  simp only [h2]
  have hw3 : toU32 ((T : Int) + K.reconnectAdd) = T + K.reconnectAdd := by
    rw [toU32_nonneg _ (by omega) (by unfold W32; omega)]; omega
  rw [if_neg (by rw [hw3]; omega)]
  split <;> simp

/-- **C05.3 (recovery: watchdog)** `wdTimeout + 1` seconds after the last received message the
    watchdog tick restarts the device (≤ 62 s in true time for the 60 s constant), and never
    before more than `wdTimeout` seconds have passed -/
theorem c05_watchdog_restart (K : KaConsts) (T : Int) (r nc : Nat) :
    watchdog K T (r + K.wdTimeout + 1) r nc = .restart := by
  unfold watchdog
  rw [if_pos (by omega), if_pos (by omega)]

theorem c05_watchdog_not_early (K : KaConsts) (T : Int) (r nc k : Nat) (hk : k ≤ K.wdTimeout) :
    watchdog K T (r + k) r nc ≠ .restart := by
  unfold watchdog
  split
  · rw [if_neg (by omega)]; split <;> simp
  · simp

/-- **C05.4 (no spurious reconnect/restart)** for T ≤ 50 and a server that is heard from at most
    `T` seconds ago, neither timer decides to reconnect or restart -/
theorem c05_no_spurious (K : KaConsts) (hK1 : K.reconnectAdd = 10) (hK2 : K.wdTimeout = 60) (hK3 : K.wdSoft ≥ 60)
    (T : Nat) (hT : 10 ≤ T) (hT50 : T ≤ 50) (s r k nc : Nat) (hr : r < W32) (hk : k ≤ T)
    (hnow : r + k < W32) :
    timer1 K T ((r + k) % W32) s r ≠ .reconnect ∧ watchdog K T (r + k) r nc = .none := by
  constructor
  · exact c05_no_early_reconnect K T (by omega) (by omega) (by omega) s r k hr (by omega)
  · unfold watchdog
    split
    · rw [if_neg (by omega), if_neg (by omega)]
    · rfl

/-! ### a silent server that still accepts connections -/

theorem kaRun_silent (es : List KaEv) : ∀ (s : KaClock), KaEv.recv ∉ es →
    (kaRun s es).lastResp = s.lastResp ∧ (kaRun s es).now = s.now + es.count .tick := by
  induction es with
  | nil => intro s _; simp [kaRun]
  | cons e es ih =>
    intro s hno
    have hno' : KaEv.recv ∉ es := fun h => hno (List.mem_cons_of_mem _ h)
    have he : e ≠ .recv := fun h => hno (by rw [h]; exact List.mem_cons_self)
    have := ih (kaStep s e) hno'
    unfold kaRun at this ⊢
    rw [List.foldl_cons]
    cases e with
    | recv => exact absurd rfl he
    | tick => simp only [kaStep] at this ⊢; rw [this.1, this.2]; simp [List.count_cons]; omega
    | connect => simp only [kaStep] at this ⊢; rw [this.1, this.2]; simp
    | disconnect => simp only [kaStep] at this ⊢; rw [this.1, this.2]; simp
    | sent => simp only [kaStep] at this ⊢; rw [this.1, this.2]; simp

/-- **C05.3b (nothing received means restart, whatever else happens)** from the moment of the last received message, any
    history of seconds passing, new connections, disconnects and own transmissions in which nothing is received leaves
    the watchdog deciding "restart" once `wdTimeout + 1` seconds have passed - a server that keeps accepting connections
    without ever answering does not postpone it. -/
theorem c05_silent_history_restarts (K : KaConsts) (T : Int) (r nc : Nat) (es : List KaEv) (hno : KaEv.recv ∉ es)
    (hsec : es.count .tick = K.wdTimeout + 1) :
    watchdog K T (kaRun ⟨r, r⟩ es).now (kaRun ⟨r, r⟩ es).lastResp nc = .restart := by
  obtain ⟨h1, h2⟩ := kaRun_silent es ⟨r, r⟩ hno
  rw [h1, h2, hsec]
  exact c05_watchdog_restart K T r nc

/-- non-vacuity: 61 s with a reconnect every 20 s -/
example : watchdog Gen.kaConsts 10
    (kaRun ⟨100, 100⟩ ((List.replicate 20 KaEv.tick ++ [.disconnect, .connect, .sent]) ++ (List.replicate 20 KaEv.tick ++ [.disconnect, .connect, .sent]) ++ List.replicate 21 KaEv.tick)).now
    (kaRun ⟨100, 100⟩ ((List.replicate 20 KaEv.tick ++ [.disconnect, .connect, .sent]) ++ (List.replicate 20 KaEv.tick ++ [.disconnect, .connect, .sent]) ++ List.replicate 21 KaEv.tick)).lastResp 0 = .restart := by decide

/-! ### constants of the source tree -/

theorem c05_consts : Gen.kaConsts.pingWindow = 5 ∧ Gen.kaConsts.reconnectAdd = 10 ∧
    Gen.kaConsts.wdTimeout = 60 ∧ Gen.kaConsts.wdSoft ≥ 60 := by decide

/-- non-vacuity: T = 10, 5 s after the last send a ping is due; 20 s after the last response a
    reconnect; 61 s a restart -/
example : timer1 Gen.kaConsts 10 105 100 103 = .ping := by decide
example : timer1 Gen.kaConsts 10 120 119 100 = .reconnect := by decide
example : watchdog Gen.kaConsts 10 161 100 0 = .restart := by decide

end SuplaVerif.C05
