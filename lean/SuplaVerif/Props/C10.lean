/-
  Props/C10 — positioning tasks of a roller shutter stop at the first accounting callback at or after the
  target and then finish; a motor that makes no progress is switched off by the 10-minute limit.
-/
import SuplaVerif.Model.RsTask
import SuplaVerif.Model.FbTask
import SuplaVerif.Model.AutoCal
import SuplaVerif.Props.C09
import SuplaVerif.Gen.Consts
namespace SuplaVerif.C10
open SuplaVerif

/-! ### the 10-minute limit -/

/-- regime of a plain move down with no closing time configured (nothing converts run time into position):
    no task, no pending trigger, and — while the output is on — the reporting block has not run since the
    run time passed 600 s -/
def Plain (s : RsT) : Prop :=
  s.tstate = 0 ∧ s.pend = 0 ∧ (s.rel = 0 ∨ s.rel = 1) ∧ s.comm < 200000 ∧
  (s.rel = 1 → s.downT > 600000000 → s.downT ≤ 600000000 + s.comm)

theorem movePos_nofull (up : Bool) (m : Mv) :
    movePos { fullMs := 0, tiltMs := 0, ttype := 0, up := up } m = m := by
  unfold movePos; simp

theorem plain_tick (P : RsP) (hfc : P.fc = 0) (s : RsT) (dt : Nat) (h : Plain s) :
    Plain (rsTick P s dt) ∧
    ((rsTick P s dt).rel = 1 → s.rel = 1 ∧ (rsTick P s dt).downT = s.downT + dt) := by
  obtain ⟨hts, hpend, hne2, hc, hJ⟩ := h
  by_cases hrel : s.rel = 1
  · -- output on: run time accumulates, the reporting block may switch it off
    have hacc : account P s dt = { s with downT := s.downT + dt, upT := 0 } := by
      unfold account
      rw [if_neg (by omega), if_pos hrel]
      simp only [hfc, calibrateStep, movePos_nofull]
      simp [hrel]
    have htask : taskStep P (account P s dt) = account P s dt := by
      unfold taskStep; rw [hacc]; simp [hts]
    unfold rsTick; rw [htask, hacc]
    unfold commStep
    simp only
    by_cases hfire : s.comm + dt ≥ 200000
    · rw [if_pos hfire]
      by_cases hex : (0 > 600000000 ∨ s.downT + dt > 600000000)
      · rw [if_pos hex]
        refine ⟨⟨by simp [relOff, hts], by simp [relOff], by simp [relOff], by simp [relOff], by simp [relOff]⟩, ?_⟩
        intro h1; simp [relOff] at h1
      · rw [if_neg hex]
        refine ⟨⟨by simpa using hts, by simpa using hpend, by simp [hrel], by simp, ?_⟩, by intro _; exact ⟨hrel, rfl⟩⟩
        intro _ h2; simp only at h2; omega
    · rw [if_neg hfire]
      refine ⟨⟨by simpa using hts, by simpa using hpend, by simp [hrel], by simp; omega, ?_⟩, by intro _; exact ⟨hrel, rfl⟩⟩
      intro _ h2
      simp only at h2 ⊢
      have := hJ hrel
      by_cases hprev : s.downT > 600000000
      · have := this hprev; omega
      · omega
  · -- output off: nothing switches it on
    have hrel0 : s.rel = 0 := by rcases hne2 with h | h; exact h; exact absurd h hrel
    have hacc : account P s dt = { s with upT := 0, downT := 0, sinceStop := s.sinceStop + dt } := by
      unfold account; rw [if_neg (by omega), if_neg (by omega)]
    have htask : taskStep P (account P s dt) = account P s dt := by
      unfold taskStep; rw [hacc]; simp [hts]
    unfold rsTick; rw [htask, hacc]
    unfold commStep
    simp only
    by_cases hfire : s.comm + dt ≥ 200000
    · rw [if_pos hfire, if_neg (by omega)]
      exact ⟨⟨by simpa using hts, by simpa using hpend, by simp [hrel0], by simp, by simp [hrel0]⟩, by simp [hrel0]⟩
    · rw [if_neg hfire]
      exact ⟨⟨by simpa using hts, by simpa using hpend, by simp [hrel0], by simp; omega, by simp [hrel0]⟩, by simp [hrel0]⟩

theorem plain_run (P : RsP) (hfc : P.fc = 0) : ∀ (dts : List Nat) (s : RsT), Plain s →
    Plain (rsRun P s dts) ∧
    ((rsRun P s dts).rel = 1 → s.rel = 1 ∧ (rsRun P s dts).downT = s.downT + C09.sum dts) := by
  intro dts
  induction dts with
  | nil => intro s h; exact ⟨h, by intro h1; exact ⟨h1, by simp [rsRun, C09.sum]⟩⟩
  | cons dt dts ih =>
    intro s h
    unfold rsRun
    have t := plain_tick P hfc s dt h
    have r := ih (rsTick P s dt) t.1
    refine ⟨r.1, ?_⟩
    intro h1
    have r2 := r.2 h1
    have t2 := t.2 r2.1
    exact ⟨t2.1, by rw [r2.2, t2.2]; simp [C09.sum]; omega⟩

/-- C10 (power limit): a shutter driven down by a plain command while no closing time is configured (nothing
    turns run time into position: not calibrated, times discarded) — for every sequence of accounting
    callbacks, if the output is still on then the run time so far is below 600.2 s; so the output is off at
    the first callback at which 600 s + one reporting period have passed -/
theorem c10_power_limit (P : RsP) (hfc : P.fc = 0) (s : RsT) (dts : List Nat)
    (h0 : s.rel = 1 ∧ s.downT = 0 ∧ s.tstate = 0 ∧ s.pend = 0 ∧ s.comm < 200000) :
    (rsRun P s dts).rel = 1 → C09.sum dts < 600200000 := by
  intro h1
  have hp : Plain s := ⟨h0.2.2.1, h0.2.2.2.1, Or.inr h0.1, h0.2.2.2.2, by intro _ h; omega⟩
  have r := plain_run P hfc dts s hp
  have e := (r.2 h1).2
  obtain ⟨_, _, _, hc, hJ⟩ := r.1
  have := hJ h1
  by_cases hx : (rsRun P s dts).downT > 600000000
  · have := this hx; omega
  · omega

theorem c10_power_limit_off (P : RsP) (hfc : P.fc = 0) (s : RsT) (dts : List Nat)
    (h0 : s.rel = 1 ∧ s.downT = 0 ∧ s.tstate = 0 ∧ s.pend = 0 ∧ s.comm < 200000)
    (hT : 600200000 ≤ C09.sum dts) : (rsRun P s dts).rel = 0 := by
  have hp : Plain s := ⟨h0.2.2.1, h0.2.2.2.1, Or.inr h0.1, h0.2.2.2.2, by intro _ h; omega⟩
  have r := plain_run P hfc dts s hp
  rcases r.1.2.2.1 with h | h
  · exact h
  · have := c10_power_limit P hfc s dts h0 h; omega

/-! ### a positioning task: moving down towards the target -/

/-- the shutter is executing a task downwards -/
def Mov (s : RsT) : Prop :=
  s.tstate = 2 ∧ s.dir = 1 ∧ s.rel = 1 ∧ s.pend = 0 ∧ 100 ≤ s.pos ∧ s.pos ≤ 10100

/-- the task has switched the motor off (it finishes at the next callback) or has finished -/
def Stopped (s : RsT) : Prop :=
  s.rel = 0 ∧ s.pend = 0 ∧ 100 ≤ s.pos ∧ s.pos ≤ 10100 ∧ (s.tstate = 0 ∨ (s.tstate = 2 ∧ s.dir = 0))

theorem known_of (p : Nat) (h : 100 ≤ p ∧ p ≤ 10100) : known p = true := by
  unfold known; simp; omega

theorem account_mov (P : RsP) (s : RsT) (dt : Nat) (h : Mov s) :
    account P s dt =
      { s with pos := (mvTick (C09.rsCfg P.fc false) { pos := s.pos, tilt := 0, time := s.downT } dt).pos,
               downT := (mvTick (C09.rsCfg P.fc false) { pos := s.pos, tilt := 0, time := s.downT } dt).time,
               upT := 0 } := by
  obtain ⟨hts, _, hrel, _, hlo, hhi⟩ := h
  unfold account
  rw [if_neg (by omega), if_pos hrel]
  have hk : known s.pos = true := known_of s.pos ⟨hlo, hhi⟩
  simp only [calibrateStep, hk, Bool.not_true, Bool.false_and, Bool.false_eq_true, if_false]
  simp [hts, hrel, mvTick, C09.rsCfg]

/-- stop at the target: the first callback at which the estimated position is at or beyond the target (and
    not inside the end-stop margin) switches the motor off -/
theorem task_reached_stops (P : RsP) (s : RsT) (h : Mov s) (htp : 0 < s.target)
    (hreach : s.pos - 100 ≥ s.target * 100)
    (hnm : ¬ (s.pos - 100 = 10000 ∧ inMargin P.fc s.downT (taskMargin P) = true)) :
    (taskStep P s).rel = 0 ∧ (taskStep P s).tstate = 2 ∧ (taskStep P s).dir = 0 ∧ (taskStep P s).pos = s.pos ∧
    (taskStep P s).pend = 0 := by
  obtain ⟨hts, hdir, hrel, hpend, hlo, hhi⟩ := h
  have hk : known s.pos = true := known_of s.pos ⟨hlo, hhi⟩
  unfold taskStep
  rw [if_neg (by omega)]
  simp only [hk, Bool.not_true, Bool.false_eq_true, if_false]
  have e1 : ¬ (s.tstate = 1) := by omega
  simp only [e1, if_false]
  have e2 : ¬ (s.tstate = 2 ∧ s.dir = 0) := by omega
  simp only [e2, if_false]
  have e3 : s.tstate = 2 ∧ ((s.dir = 2 ∧ s.pos - 100 ≤ s.target * 100) ∨ (s.dir = 1 ∧ s.pos - 100 ≥ s.target * 100)) :=
    ⟨hts, Or.inr ⟨hdir, hreach⟩⟩
  rw [if_pos e3]
  have e4 : ¬ (s.pos - 100 = 0 ∧ inMargin P.fo s.upT (taskMargin P) = true) := by
    intro hh; omega
  rw [if_neg e4, if_neg hnm]
  simp [relOff, hts]

/-- before the target nothing changes: the motor keeps running -/
theorem task_not_reached_runs (P : RsP) (s : RsT) (h : Mov s) (hb : s.pos - 100 < s.target * 100) :
    taskStep P s = s := by
  obtain ⟨hts, hdir, hrel, hpend, hlo, hhi⟩ := h
  have hk : known s.pos = true := known_of s.pos ⟨hlo, hhi⟩
  unfold taskStep
  rw [if_neg (by omega)]
  simp only [hk, Bool.not_true, Bool.false_eq_true, if_false]
  have e1 : ¬ (s.tstate = 1) := by omega
  simp only [e1, if_false]
  have e2 : ¬ (s.tstate = 2 ∧ s.dir = 0) := by omega
  simp only [e2, if_false]
  have e3 : ¬ (s.tstate = 2 ∧ ((s.dir = 2 ∧ s.pos - 100 ≤ s.target * 100) ∨ (s.dir = 1 ∧ s.pos - 100 ≥ s.target * 100))) := by
    intro hh; rcases hh.2 with h2 | h1
    · omega
    · omega
  rw [if_neg e3]

/-- after the stop the task finishes at the next callback and nothing moves any more -/
theorem task_finishes (P : RsP) (s : RsT) (dt : Nat) (h : Stopped s) :
    Stopped (rsTick P s dt) ∧ (rsTick P s dt).tstate = 0 ∧ (rsTick P s dt).pos = s.pos := by
  obtain ⟨hrel, hpend, hlo, hhi, hst⟩ := h
  have hk : known s.pos = true := known_of s.pos ⟨hlo, hhi⟩
  have hacc : account P s dt = { s with upT := 0, downT := 0, sinceStop := s.sinceStop + dt } := by
    unfold account; rw [if_neg (by omega), if_neg (by omega)]
  unfold rsTick; rw [hacc]
  rcases hst with h0 | ⟨h2, hd⟩
  · have htask : taskStep P { s with upT := 0, downT := 0, sinceStop := s.sinceStop + dt } =
        { s with upT := 0, downT := 0, sinceStop := s.sinceStop + dt } := by
      unfold taskStep; simp [h0]
    rw [htask]; unfold commStep; simp only
    by_cases hf : s.comm + dt ≥ 200000
    · rw [if_pos hf, if_neg (by omega)]
      exact ⟨⟨hrel, hpend, hlo, hhi, Or.inl h0⟩, h0, rfl⟩
    · rw [if_neg hf]
      exact ⟨⟨hrel, hpend, hlo, hhi, Or.inl h0⟩, h0, rfl⟩
  · have htask : taskStep P { s with upT := 0, downT := 0, sinceStop := s.sinceStop + dt } =
        relOff { s with upT := 0, downT := 0, sinceStop := s.sinceStop + dt, tstate := 0, dir := 0 } := by
      unfold taskStep
      simp only [h2, hk, hd]
      simp [relOff]
    rw [htask]; unfold commStep; simp only [relOff]
    by_cases hf : s.comm + dt ≥ 200000
    · rw [if_pos hf, if_neg (by simp)]
      exact ⟨⟨by simp, by simp, hlo, hhi, Or.inl (by simp)⟩, by simp, by simp⟩
    · rw [if_neg hf]
      exact ⟨⟨by simp, by simp, hlo, hhi, Or.inl (by simp)⟩, by simp, by simp⟩

/-- Ψ of the task model: estimated position × full time + 10⁴ × carried run time -/
def psi (P : RsP) (s : RsT) : Nat := s.pos * (P.fc * 1000) + 10000 * s.downT

/-- loose bound on the carried time while a downward task is running: below the end stop less than one
    position unit, at the end stop less than the task's margin -/
def CarryOk (P : RsP) (s : RsT) : Prop :=
  10000 * s.downT < P.fc * 1000 + 10000 + 100000 * P.fc * (taskMargin P + 1)

theorem inMargin_bound (fc t m : Nat) (h : inMargin fc t m = true) : t < 10 * fc * m + 10 := by
  unfold inMargin at h
  simp only [Bool.and_eq_true, decide_eq_true_eq] at h
  obtain ⟨hf, hlt⟩ := h
  have h1 : t / 10 < m * fc := (Nat.div_lt_iff_lt_mul hf).mp hlt
  have h2 : t < (m * fc) * 10 := (Nat.div_lt_iff_lt_mul (by decide : 0 < 10)).mp h1
  have e : (m * fc) * 10 = 10 * fc * m := by
    rw [Nat.mul_comm (m * fc) 10, Nat.mul_comm m fc, Nat.mul_assoc]
  omega

theorem commStep_keep (s : RsT) (dt : Nat) (hu : s.upT ≤ 600000000) (hd : s.downT ≤ 600000000) :
    (commStep s dt).rel = s.rel ∧ (commStep s dt).tstate = s.tstate ∧ (commStep s dt).dir = s.dir ∧
    (commStep s dt).pend = s.pend ∧ (commStep s dt).pos = s.pos ∧ (commStep s dt).downT = s.downT ∧
    (commStep s dt).target = s.target ∧ (commStep s dt).upT = s.upT := by
  unfold commStep
  by_cases hf : s.comm + dt ≥ 200000
  · rw [if_pos hf, if_neg (by omega)]; simp
  · rw [if_neg hf]; simp

theorem commStep_off (s : RsT) (dt : Nat) (hr : s.rel = 0) (hp : s.pend = 0) :
    (commStep s dt).rel = 0 ∧ (commStep s dt).tstate = s.tstate ∧ (commStep s dt).dir = s.dir ∧
    (commStep s dt).pend = 0 ∧ (commStep s dt).pos = s.pos ∧ (commStep s dt).target = s.target := by
  unfold commStep
  by_cases hf : s.comm + dt ≥ 200000
  · rw [if_pos hf]
    by_cases hx : s.upT > 600000000 ∨ s.downT > 600000000
    · rw [if_pos hx]; simp [relOff, hr]
    · rw [if_neg hx]; simp [hr, hp]
  · rw [if_neg hf]; simp [hr, hp]

/-- one accounting callback of a running downward task: either the motor has been switched off at or beyond
    the target, or the task keeps running and Ψ has grown by at least 10⁴·dt -/
theorem mov_tick (P : RsP) (hfc : 10 ≤ P.fc)
    (hcap : P.fc / 10 + 1 + 10 * P.fc * (taskMargin P + 1) ≤ 600000000)
    (s : RsT) (dt : Nat) (h : Mov s) (htp : 0 < s.target) (htg100 : s.target ≤ 100) :
    let s' := rsTick P s dt
    s'.target = s.target ∧
    ((Stopped s' ∧ s'.pos - 100 ≥ s.target * 100 ∧
        (s'.pos - s.pos) * (P.fc * 1000) ≤ 10000 * s.downT + 10000 * dt + 10000 ∧ s.pos ≤ s'.pos) ∨
     (Mov s' ∧ CarryOk P s' ∧ psi P s + 10000 * dt ≤ psi P s' ∧ s.pos ≤ s'.pos)) := by
  intro s'
  have hacc := account_mov P s dt h
  obtain ⟨hts, hdir, hrel, hpend, hlo, hhi⟩ := h
  have td := C09.tick_down P.fc hfc { pos := s.pos, tilt := 0, time := s.downT } dt ⟨hlo, hhi⟩
  have hr := C09.c09_pos_range_mono (C09.rsCfg P.fc false) { pos := s.pos, tilt := 0, time := s.downT + dt } ⟨hlo, hhi⟩
  simp only at td
  generalize hm : mvTick (C09.rsCfg P.fc false) { pos := s.pos, tilt := 0, time := s.downT } dt = m at td hacc
  have hmr : 100 ≤ m.pos ∧ m.pos ≤ 10100 ∧ s.pos ≤ m.pos := by
    have : m = movePos (C09.rsCfg P.fc false) { pos := s.pos, tilt := 0, time := s.downT + dt } := by rw [← hm]; rfl
    rw [this]; exact ⟨hr.1, hr.2.1, hr.2.2.2 rfl⟩
  unfold C09.psiDown at td
  simp only at td
  -- the state after the accounting
  have hMa : Mov (account P s dt) := by
    rw [hacc]; exact ⟨hts, hdir, hrel, hpend, hmr.1, hmr.2.1⟩
  have hs' : s' = commStep (taskStep P (account P s dt)) dt := rfl
  by_cases hreach : m.pos - 100 ≥ s.target * 100
  · by_cases hmg : (m.pos - 100 = 10000 ∧ inMargin P.fc m.time (taskMargin P) = true)
    · -- inside the end-stop margin: keeps running
      have htask : taskStep P (account P s dt) = account P s dt := by
        have hk : known m.pos = true := known_of m.pos ⟨hmr.1, hmr.2.1⟩
        rw [hacc]
        unfold taskStep
        rw [if_neg (by simp only; omega)]
        simp only [hk, Bool.not_true, Bool.false_eq_true, if_false]
        have e1 : ¬ (s.tstate = 1) := by omega
        simp only [e1, if_false]
        have e2 : ¬ (s.tstate = 2 ∧ s.dir = 0) := by omega
        simp only [e2, if_false]
        rw [if_pos ⟨hts, Or.inr ⟨hdir, hreach⟩⟩]
        have e4 : ¬ (m.pos - 100 = 0 ∧ inMargin P.fo 0 (taskMargin P) = true) := by intro hh; omega
        rw [if_neg e4, if_pos hmg]
      have hb := inMargin_bound P.fc m.time (taskMargin P) hmg.2
      have hk := commStep_keep (account P s dt) dt (by rw [hacc]; simp) (by
        rw [hacc]; simp only
        have : 10 * P.fc * taskMargin P + 10 * P.fc = 10 * P.fc * (taskMargin P + 1) := by rw [Nat.mul_add]; simp
        omega)
      rw [hs', htask]
      refine ⟨by rw [hk.2.2.2.2.2.2.1, hacc], Or.inr ⟨?_, ?_, ?_, ?_⟩⟩
      · obtain ⟨a1, a2, a3, a4, a5, a6, a7, a8⟩ := hk
        unfold Mov; rw [a1, a2, a3, a4, a5]; exact hMa
      · unfold CarryOk; rw [hk.2.2.2.2.2.1, hacc]; simp only
        have e : 100000 * P.fc * (taskMargin P + 1) = 10000 * (10 * P.fc * (taskMargin P + 1)) := by
          rw [← Nat.mul_assoc, ← Nat.mul_assoc]
        have : 10 * P.fc * taskMargin P + 10 ≤ 10 * P.fc * (taskMargin P + 1) := by
          rw [Nat.mul_add]; omega
        omega
      · unfold psi; rw [hk.2.2.2.2.1, hk.2.2.2.2.2.1, hacc]; simp only; omega
      · rw [hk.2.2.2.2.1, hacc]; exact hmr.2.2
    · -- reached: the motor is switched off
      have hst := task_reached_stops P (account P s dt) hMa (by rw [hacc]; exact htp)
        (by rw [hacc]; exact hreach) (by rw [hacc]; exact hmg)
      obtain ⟨r1, r2, r3, r4, r5⟩ := hst
      have hk := commStep_off (taskStep P (account P s dt)) dt r1 r5
      obtain ⟨k1, k2, k3, k4, k5, k6⟩ := hk
      have htg : (taskStep P (account P s dt)).target = s.target := by
        have hk' : known m.pos = true := known_of m.pos ⟨hmr.1, hmr.2.1⟩
        rw [hacc]; unfold taskStep
        rw [if_neg (by simp only; omega)]
        simp only [hk', Bool.not_true, Bool.false_eq_true, if_false]
        have e1 : ¬ (s.tstate = 1) := by omega
        simp only [e1, if_false]
        have e2 : ¬ (s.tstate = 2 ∧ s.dir = 0) := by omega
        simp only [e2, if_false]
        split <;> (try split) <;> (try split) <;> simp [relOff]
      have hpos : s'.pos = m.pos := by rw [hs', k5, r4, hacc]
      rw [hs']
      refine ⟨by rw [k6, htg], Or.inl ⟨⟨k1, k4, by rw [k5, r4, hacc]; exact hmr.1, by rw [k5, r4, hacc]; exact hmr.2.1,
        Or.inr ⟨by rw [k2, r2], by rw [k3, r3]⟩⟩, ?_, ?_, ?_⟩⟩
      · rw [k5, r4, hacc]; exact hreach
      · rw [k5, r4, hacc]; simp only
        have e : m.pos * (P.fc * 1000) = s.pos * (P.fc * 1000) + (m.pos - s.pos) * (P.fc * 1000) := by
          rw [← Nat.add_mul]; congr 1; omega
        have := td.2.1
        omega
      · rw [k5, r4, hacc]; exact hmr.2.2
  · -- before the target: nothing but the bookkeeping happens
    have hb : (account P s dt).pos - 100 < (account P s dt).target * 100 := by rw [hacc]; simp only; omega
    have htask := task_not_reached_runs P (account P s dt) hMa hb
    have hlt : m.pos < 10100 := by omega
    have hcar := td.2.2 hlt
    have hmt : m.time ≤ P.fc / 10 + 1 := by omega
    have hk := commStep_keep (account P s dt) dt (by rw [hacc]; simp) (by
      rw [hacc]; simp only
      generalize 10 * P.fc * (taskMargin P + 1) = X at hcap
      omega)
    rw [hs', htask]
    obtain ⟨a1, a2, a3, a4, a5, a6, a7, a8⟩ := hk
    refine ⟨by rw [a7, hacc], Or.inr ⟨?_, ?_, ?_, ?_⟩⟩
    · unfold Mov; rw [a1, a2, a3, a4, a5]; exact hMa
    · unfold CarryOk; rw [a6, hacc]; simp only
      exact Nat.lt_add_right _ hcar
    · unfold psi; rw [a5, a6, hacc]; simp only; omega
    · rw [a5, hacc]; exact hmr.2.2

theorem stopped_run (P : RsP) : ∀ (dts : List Nat) (s : RsT), Stopped s →
    Stopped (rsRun P s dts) ∧ (rsRun P s dts).pos = s.pos ∧ (dts ≠ [] → (rsRun P s dts).tstate = 0) := by
  intro dts
  induction dts with
  | nil => intro s h; exact ⟨h, rfl, by intro hh; exact absurd rfl hh⟩
  | cons dt dts ih =>
    intro s h
    unfold rsRun
    have t := task_finishes P s dt h
    have r := ih (rsTick P s dt) t.1
    refine ⟨r.1, by rw [r.2.1, t.2.2], ?_⟩
    intro _
    cases dts with
    | nil => simp only [rsRun]; exact t.2.1
    | cons d2 ds => exact r.2.2 (by simp)

/-- a running downward task over any sequence of accounting callbacks: it is either stopped at or beyond the
    target (never moved back), or still running with Ψ grown by at least 10⁴ × the elapsed time -/
theorem mov_run (P : RsP) (hfc : 10 ≤ P.fc)
    (hcap : P.fc / 10 + 1 + 10 * P.fc * (taskMargin P + 1) ≤ 600000000) (tg : Nat) (htp : 0 < tg) (htg100 : tg ≤ 100) :
    ∀ (dts : List Nat) (s : RsT), Mov s → s.target = tg →
      (Stopped (rsRun P s dts) ∧ (rsRun P s dts).pos - 100 ≥ tg * 100 ∧ s.pos ≤ (rsRun P s dts).pos) ∨
      (Mov (rsRun P s dts) ∧ CarryOk P (rsRun P s dts) ∧ (rsRun P s dts).target = tg ∧
        psi P s + 10000 * C09.sum dts ≤ psi P (rsRun P s dts) ∧ s.pos ≤ (rsRun P s dts).pos ∨
       (dts = [] ∧ Mov (rsRun P s dts))) := by
  intro dts
  induction dts with
  | nil => intro s h _; right; right; exact ⟨rfl, h⟩
  | cons dt dts ih =>
    intro s h htg
    unfold rsRun
    have t := mov_tick P hfc hcap s dt h (by omega) (by omega)
    simp only at t
    obtain ⟨ttg, tcase⟩ := t
    rcases tcase with ⟨hst, hpos, _, hmono⟩ | ⟨hmv, hcar, hpsi, hmono⟩
    · have r := stopped_run P dts (rsTick P s dt) hst
      left
      exact ⟨r.1, by rw [r.2.1, htg] at *; exact hpos, by rw [r.2.1]; exact hmono⟩
    · have r := ih (rsTick P s dt) hmv (by rw [ttg, htg])
      rcases r with ⟨r1, r2, r3⟩ | ⟨r1, r2, r3, r4, r5⟩ | ⟨r1, r2⟩
      · left; exact ⟨r1, r2, by omega⟩
      · right; left
        exact ⟨r1, r2, r3, by simp only [C09.sum]; omega, by omega⟩
      · right; left
        subst r1
        simp only [rsRun] at r2 ⊢
        exact ⟨hmv, hcar, by rw [ttg, htg], by simp [C09.sum]; omega, hmono⟩

/-- C10 (convergence, downward): a roller shutter executing a positioning task towards a target below its
    estimated position — for every sequence of accounting callbacks whose total duration reaches the travel to
    the end stop plus the task's end-stop margin (Ψ-cap), the motor has been switched off with the estimate at or
    beyond the target; it never moves back, and after one more callback the task is finished -/
theorem c10_task_converges_down (P : RsP) (hfc : 10 ≤ P.fc)
    (hcap : P.fc / 10 + 1 + 10 * P.fc * (taskMargin P + 1) ≤ 600000000) (s : RsT) (h : Mov s)
    (htp : 0 < s.target) (htg100 : s.target ≤ 100) (dts : List Nat) (hne : dts ≠ [])
    (hlong : 10100 * (P.fc * 1000) + P.fc * 1000 + 10000 + 100000 * P.fc * (taskMargin P + 1)
               ≤ psi P s + 10000 * C09.sum dts) :
    Stopped (rsRun P s dts) ∧ (rsRun P s dts).pos - 100 ≥ s.target * 100 ∧ s.pos ≤ (rsRun P s dts).pos := by
  have r := mov_run P hfc hcap s.target htp htg100 dts s h rfl
  rcases r with r | ⟨hm, hc, _, hpsi, _⟩ | ⟨he, _⟩
  · exact r
  · exfalso
    obtain ⟨_, _, _, _, _, hhi⟩ := hm
    unfold CarryOk at hc
    unfold psi at hpsi hlong
    have : (rsRun P s dts).pos * (P.fc * 1000) ≤ 10100 * (P.fc * 1000) := Nat.mul_le_mul_right _ hhi
    generalize 100000 * P.fc * (taskMargin P + 1) = X at *
    omega
  · exact absurd he hne

/-- the stop happens at the first callback at or beyond the target: the estimate passes the target by no more
    than the travel of the carried time plus that callback interval (+1 unit) -/
theorem c10_overshoot (P : RsP) (hfc : 10 ≤ P.fc)
    (hcap : P.fc / 10 + 1 + 10 * P.fc * (taskMargin P + 1) ≤ 600000000) (s : RsT) (dt : Nat) (h : Mov s)
    (htp : 0 < s.target) (htg100 : s.target ≤ 100) (hbefore : s.pos - 100 < s.target * 100)
    (hst : Stopped (rsTick P s dt)) :
    ((rsTick P s dt).pos - s.pos) * (P.fc * 1000) ≤ 10000 * s.downT + 10000 * dt + 10000 := by
  have t := mov_tick P hfc hcap s dt h htp htg100
  simp only at t
  rcases t.2 with ⟨_, _, hb, _⟩ | ⟨hm, _⟩
  · exact hb
  · exfalso
    obtain ⟨_, _, hrel, _⟩ := hm
    obtain ⟨hrel0, _⟩ := hst
    omega

/-! ### the upward direction (mirror image) -/

def MovU (s : RsT) : Prop :=
  s.tstate = 2 ∧ s.dir = 2 ∧ s.rel = 2 ∧ s.pend = 0 ∧ 100 ≤ s.pos ∧ s.pos ≤ 10100

def psiU (P : RsP) (s : RsT) : Nat := (10100 - s.pos) * (P.fo * 1000) + 10000 * s.upT

def CarryOkU (P : RsP) (s : RsT) : Prop :=
  10000 * s.upT < P.fo * 1000 + 10000 + 100000 * P.fo * (taskMargin P + 1)

theorem account_movU (P : RsP) (s : RsT) (dt : Nat) (h : MovU s) :
    account P s dt =
      { s with pos := (mvTick (C09.rsCfg P.fo true) { pos := s.pos, tilt := 0, time := s.upT } dt).pos,
               upT := (mvTick (C09.rsCfg P.fo true) { pos := s.pos, tilt := 0, time := s.upT } dt).time,
               downT := 0 } := by
  obtain ⟨hts, _, hrel, _, hlo, hhi⟩ := h
  unfold account
  rw [if_pos hrel]
  have hk : known s.pos = true := known_of s.pos ⟨hlo, hhi⟩
  simp only [calibrateStep, hk, Bool.not_true, Bool.false_and, Bool.false_eq_true, if_false]
  simp [hts, hrel, mvTick, C09.rsCfg]

theorem task_reached_stops_up (P : RsP) (s : RsT) (h : MovU s) (htg : s.target < 100)
    (hreach : s.pos - 100 ≤ s.target * 100)
    (hnm : ¬ (s.pos - 100 = 0 ∧ inMargin P.fo s.upT (taskMargin P) = true)) :
    (taskStep P s).rel = 0 ∧ (taskStep P s).tstate = 2 ∧ (taskStep P s).dir = 0 ∧ (taskStep P s).pos = s.pos ∧
    (taskStep P s).pend = 0 := by
  obtain ⟨hts, hdir, hrel, hpend, hlo, hhi⟩ := h
  have hk : known s.pos = true := known_of s.pos ⟨hlo, hhi⟩
  unfold taskStep
  rw [if_neg (by omega)]
  simp only [hk, Bool.not_true, Bool.false_eq_true, if_false]
  have e1 : ¬ (s.tstate = 1) := by omega
  simp only [e1, if_false]
  have e2 : ¬ (s.tstate = 2 ∧ s.dir = 0) := by omega
  simp only [e2, if_false]
  have e3 : s.tstate = 2 ∧ ((s.dir = 2 ∧ s.pos - 100 ≤ s.target * 100) ∨ (s.dir = 1 ∧ s.pos - 100 ≥ s.target * 100)) :=
    ⟨hts, Or.inl ⟨hdir, hreach⟩⟩
  rw [if_pos e3]
  have e4 : ¬ (s.pos - 100 = 10000 ∧ inMargin P.fc s.downT (taskMargin P) = true) := by
    intro hh; omega
  rw [if_neg hnm, if_neg e4]
  simp [relOff, hts]

theorem task_not_reached_runs_up (P : RsP) (s : RsT) (h : MovU s) (hb : s.pos - 100 > s.target * 100) :
    taskStep P s = s := by
  obtain ⟨hts, hdir, hrel, hpend, hlo, hhi⟩ := h
  have hk : known s.pos = true := known_of s.pos ⟨hlo, hhi⟩
  unfold taskStep
  rw [if_neg (by omega)]
  simp only [hk, Bool.not_true, Bool.false_eq_true, if_false]
  have e1 : ¬ (s.tstate = 1) := by omega
  simp only [e1, if_false]
  have e2 : ¬ (s.tstate = 2 ∧ s.dir = 0) := by omega
  simp only [e2, if_false]
  have e3 : ¬ (s.tstate = 2 ∧ ((s.dir = 2 ∧ s.pos - 100 ≤ s.target * 100) ∨ (s.dir = 1 ∧ s.pos - 100 ≥ s.target * 100))) := by
    intro hh; rcases hh.2 with h2 | h1
    · omega
    · omega
  rw [if_neg e3]

theorem mov_tick_up (P : RsP) (hfo : 10 ≤ P.fo)
    (hcap : P.fo / 10 + 1 + 10 * P.fo * (taskMargin P + 1) ≤ 600000000)
    (s : RsT) (dt : Nat) (h : MovU s) (htg : s.target < 100) :
    let s' := rsTick P s dt
    s'.target = s.target ∧
    ((Stopped s' ∧ s'.pos - 100 ≤ s.target * 100 ∧
        (s.pos - s'.pos) * (P.fo * 1000) ≤ 10000 * s.upT + 10000 * dt + 10000 ∧ s'.pos ≤ s.pos) ∨
     (MovU s' ∧ CarryOkU P s' ∧ psiU P s + 10000 * dt ≤ psiU P s' ∧ s'.pos ≤ s.pos)) := by
  intro s'
  have hacc := account_movU P s dt h
  obtain ⟨hts, hdir, hrel, hpend, hlo, hhi⟩ := h
  have td := C09.tick_up P.fo hfo { pos := s.pos, tilt := 0, time := s.upT } dt ⟨hlo, hhi⟩
  have hr := C09.c09_pos_range_mono (C09.rsCfg P.fo true) { pos := s.pos, tilt := 0, time := s.upT + dt } ⟨hlo, hhi⟩
  simp only at td
  generalize hm : mvTick (C09.rsCfg P.fo true) { pos := s.pos, tilt := 0, time := s.upT } dt = m at td hacc
  have hmr : 100 ≤ m.pos ∧ m.pos ≤ 10100 ∧ m.pos ≤ s.pos := by
    have : m = movePos (C09.rsCfg P.fo true) { pos := s.pos, tilt := 0, time := s.upT + dt } := by rw [← hm]; rfl
    rw [this]; exact ⟨hr.1, hr.2.1, hr.2.2.1 rfl⟩
  unfold C09.psiUp at td
  simp only at td
  have hMa : MovU (account P s dt) := by
    rw [hacc]; exact ⟨hts, hdir, hrel, hpend, hmr.1, hmr.2.1⟩
  have hs' : s' = commStep (taskStep P (account P s dt)) dt := rfl
  by_cases hreach : m.pos - 100 ≤ s.target * 100
  · by_cases hmg : (m.pos - 100 = 0 ∧ inMargin P.fo m.time (taskMargin P) = true)
    · have htask : taskStep P (account P s dt) = account P s dt := by
        have hk : known m.pos = true := known_of m.pos ⟨hmr.1, hmr.2.1⟩
        rw [hacc]
        unfold taskStep
        rw [if_neg (by simp only; omega)]
        simp only [hk, Bool.not_true, Bool.false_eq_true, if_false]
        have e1 : ¬ (s.tstate = 1) := by omega
        simp only [e1, if_false]
        have e2 : ¬ (s.tstate = 2 ∧ s.dir = 0) := by omega
        simp only [e2, if_false]
        rw [if_pos ⟨hts, Or.inl ⟨hdir, hreach⟩⟩]
        rw [if_pos hmg]
      have hb := inMargin_bound P.fo m.time (taskMargin P) hmg.2
      have hk := commStep_keep (account P s dt) dt (by
        rw [hacc]; simp only
        have : 10 * P.fo * taskMargin P + 10 * P.fo = 10 * P.fo * (taskMargin P + 1) := by rw [Nat.mul_add]; simp
        omega) (by rw [hacc]; simp)
      rw [hs', htask]
      obtain ⟨a1, a2, a3, a4, a5, a6, a7, a8⟩ := hk
      refine ⟨by rw [a7, hacc], Or.inr ⟨?_, ?_, ?_, ?_⟩⟩
      · unfold MovU; rw [a1, a2, a3, a4, a5]; exact hMa
      · unfold CarryOkU; rw [a8, hacc]; simp only
        have e : 100000 * P.fo * (taskMargin P + 1) = 10000 * (10 * P.fo * (taskMargin P + 1)) := by
          rw [← Nat.mul_assoc, ← Nat.mul_assoc]
        have : 10 * P.fo * taskMargin P + 10 ≤ 10 * P.fo * (taskMargin P + 1) := by
          rw [Nat.mul_add]; omega
        omega
      · unfold psiU; rw [a5, a8, hacc]; simp only; omega
      · rw [a5, hacc]; exact hmr.2.2
    · have hst := task_reached_stops_up P (account P s dt) hMa (by rw [hacc]; exact htg)
        (by rw [hacc]; exact hreach) (by rw [hacc]; exact hmg)
      obtain ⟨r1, r2, r3, r4, r5⟩ := hst
      have hk := commStep_off (taskStep P (account P s dt)) dt r1 r5
      obtain ⟨k1, k2, k3, k4, k5, k6⟩ := hk
      have htg' : (taskStep P (account P s dt)).target = s.target := by
        have hk' : known m.pos = true := known_of m.pos ⟨hmr.1, hmr.2.1⟩
        rw [hacc]; unfold taskStep
        rw [if_neg (by simp only; omega)]
        simp only [hk', Bool.not_true, Bool.false_eq_true, if_false]
        have e1 : ¬ (s.tstate = 1) := by omega
        simp only [e1, if_false]
        have e2 : ¬ (s.tstate = 2 ∧ s.dir = 0) := by omega
        simp only [e2, if_false]
        split <;> (try split) <;> (try split) <;> simp [relOff]
      rw [hs']
      refine ⟨by rw [k6, htg'], Or.inl ⟨⟨k1, k4, by rw [k5, r4, hacc]; exact hmr.1, by rw [k5, r4, hacc]; exact hmr.2.1,
        Or.inr ⟨by rw [k2, r2], by rw [k3, r3]⟩⟩, ?_, ?_, ?_⟩⟩
      · rw [k5, r4, hacc]; exact hreach
      · rw [k5, r4, hacc]; simp only
        have e : (10100 - m.pos) * (P.fo * 1000) = (10100 - s.pos) * (P.fo * 1000) + (s.pos - m.pos) * (P.fo * 1000) := by
          rw [← Nat.add_mul]; congr 1; omega
        have := td.2.1
        omega
      · rw [k5, r4, hacc]; exact hmr.2.2
  · have hb : (account P s dt).pos - 100 > (account P s dt).target * 100 := by rw [hacc]; simp only; omega
    have htask := task_not_reached_runs_up P (account P s dt) hMa hb
    have hgt : 100 < m.pos := by omega
    have hcar := td.2.2 hgt
    have hmt : m.time ≤ P.fo / 10 + 1 := by omega
    have hk := commStep_keep (account P s dt) dt (by
      rw [hacc]; simp only
      generalize 10 * P.fo * (taskMargin P + 1) = X at hcap
      omega) (by rw [hacc]; simp)
    rw [hs', htask]
    obtain ⟨a1, a2, a3, a4, a5, a6, a7, a8⟩ := hk
    refine ⟨by rw [a7, hacc], Or.inr ⟨?_, ?_, ?_, ?_⟩⟩
    · unfold MovU; rw [a1, a2, a3, a4, a5]; exact hMa
    · unfold CarryOkU; rw [a8, hacc]; simp only
      exact Nat.lt_add_right _ hcar
    · unfold psiU; rw [a5, a8, hacc]; simp only; omega
    · rw [a5, hacc]; exact hmr.2.2

theorem mov_run_up (P : RsP) (hfo : 10 ≤ P.fo)
    (hcap : P.fo / 10 + 1 + 10 * P.fo * (taskMargin P + 1) ≤ 600000000) (tg : Nat) (htg100 : tg < 100) :
    ∀ (dts : List Nat) (s : RsT), MovU s → s.target = tg →
      (Stopped (rsRun P s dts) ∧ (rsRun P s dts).pos - 100 ≤ tg * 100 ∧ (rsRun P s dts).pos ≤ s.pos) ∨
      (MovU (rsRun P s dts) ∧ CarryOkU P (rsRun P s dts) ∧ (rsRun P s dts).target = tg ∧
        psiU P s + 10000 * C09.sum dts ≤ psiU P (rsRun P s dts) ∧ (rsRun P s dts).pos ≤ s.pos ∨
       (dts = [] ∧ MovU (rsRun P s dts))) := by
  intro dts
  induction dts with
  | nil => intro s h _; right; right; exact ⟨rfl, h⟩
  | cons dt dts ih =>
    intro s h htg
    unfold rsRun
    have t := mov_tick_up P hfo hcap s dt h (by omega)
    simp only at t
    obtain ⟨ttg, tcase⟩ := t
    rcases tcase with ⟨hst, hpos, _, hmono⟩ | ⟨hmv, hcar, hpsi, hmono⟩
    · have r := stopped_run P dts (rsTick P s dt) hst
      left
      exact ⟨r.1, by rw [r.2.1, htg] at *; exact hpos, by rw [r.2.1]; exact hmono⟩
    · have r := ih (rsTick P s dt) hmv (by rw [ttg, htg])
      rcases r with ⟨r1, r2, r3⟩ | ⟨r1, r2, r3, r4, r5⟩ | ⟨r1, r2⟩
      · left; exact ⟨r1, r2, by omega⟩
      · right; left
        exact ⟨r1, r2, r3, by simp only [C09.sum]; omega, by omega⟩
      · right; left
        subst r1
        simp only [rsRun] at r2 ⊢
        exact ⟨hmv, hcar, by rw [ttg, htg], by simp [C09.sum]; omega, hmono⟩

/-- C10 (convergence, upward): the mirror statement for a target above the estimate's complement — for every
    sequence of callbacks whose duration reaches the travel to the upper end stop plus the task's margin, the
    motor is off with the estimate at or above (numerically at or below) the target, and it never moved back -/
theorem c10_task_converges_up (P : RsP) (hfo : 10 ≤ P.fo)
    (hcap : P.fo / 10 + 1 + 10 * P.fo * (taskMargin P + 1) ≤ 600000000) (s : RsT) (h : MovU s)
    (htg100 : s.target < 100) (dts : List Nat) (hne : dts ≠ [])
    (hlong : 10000 * (P.fo * 1000) + P.fo * 1000 + 10000 + 100000 * P.fo * (taskMargin P + 1)
               ≤ psiU P s + 10000 * C09.sum dts) :
    Stopped (rsRun P s dts) ∧ (rsRun P s dts).pos - 100 ≤ s.target * 100 ∧ (rsRun P s dts).pos ≤ s.pos := by
  have r := mov_run_up P hfo hcap s.target htg100 dts s h rfl
  rcases r with r | ⟨hm, hc, _, hpsi, _⟩ | ⟨he, _⟩
  · exact r
  · exfalso
    obtain ⟨_, _, _, _, hlo, _⟩ := hm
    unfold CarryOkU at hc
    unfold psiU at hpsi hlong
    have : (10100 - (rsRun P s dts).pos) * (P.fo * 1000) ≤ 10000 * (P.fo * 1000) := Nat.mul_le_mul_right _ (by omega)
    generalize 100000 * P.fo * (taskMargin P + 1) = X at *
    omega
  · exact absurd he hne

/-- the upward stop also happens at the first callback at or above the target: the estimate passes the target by
    no more than the travel of the carried time plus that callback interval (+1 unit) -/
theorem c10_overshoot_up (P : RsP) (hfo : 10 ≤ P.fo)
    (hcap : P.fo / 10 + 1 + 10 * P.fo * (taskMargin P + 1) ≤ 600000000) (s : RsT) (dt : Nat) (h : MovU s)
    (htg100 : s.target < 100) (hbefore : s.pos - 100 > s.target * 100)
    (hst : Stopped (rsTick P s dt)) :
    (s.pos - (rsTick P s dt).pos) * (P.fo * 1000) ≤ 10000 * s.upT + 10000 * dt + 10000 := by
  have t := mov_tick_up P hfo hcap s dt h htg100
  simp only at t
  rcases t.2 with ⟨_, _, hb, _⟩ | ⟨hm, _⟩
  · exact hb
  · exfalso
    obtain ⟨_, _, hrel, _⟩ := hm
    obtain ⟨hrel0, _⟩ := hst
    omega

/-- from rest, upward: the first callback after a task was added towards a target above the estimate starts the
    motor upwards (unless a zero margin forbids driving a shutter that already reports 0 %) -/
theorem task_start_up (P : RsP) (s : RsT) (dt : Nat)
    (h0 : s.tstate = 1 ∧ s.rel = 0 ∧ s.pend = 0 ∧ 100 ≤ s.pos ∧ s.pos ≤ 10100 ∧ s.sinceStop ≥ startGate + s.lag)
    (hb : s.pos - 100 > s.target * 100) (hg : ¬ (P.margin = 0 ∧ reportedPos s.pos = 0)) :
    MovU (rsTick P s dt) ∧ (rsTick P s dt).pos = s.pos ∧ (rsTick P s dt).upT = 0 ∧
    (rsTick P s dt).target = s.target := by
  obtain ⟨hts, hrel, hpend, hlo, hhi, hss⟩ := h0
  have hk : known s.pos = true := known_of s.pos ⟨hlo, hhi⟩
  have hacc : account P s dt = { s with upT := 0, downT := 0, sinceStop := s.sinceStop + dt } := by
    unfold account; rw [if_neg (by omega), if_neg (by omega)]
  have htask : taskStep P (account P s dt) =
      { s with upT := 0, downT := 0, sinceStop := s.sinceStop + dt, tstate := 2, dir := 2, rel := 2, pend := 0 } := by
    rw [hacc]
    have e3 : ¬ (s.sinceStop + dt < startGate + s.lag) := by omega
    have e4 : ¬ (P.margin = 0 ∧ reportedPos s.pos = 0) := hg
    have e6 : ¬ (s.pos - 100 ≤ s.target * 100) := by omega
    simp [taskStep, hts, hk, relReq, guardOn, hrel, hb, e3, e4, e6]
  unfold rsTick; rw [htask]
  have hk2 := commStep_keep { s with upT := 0, downT := 0, sinceStop := s.sinceStop + dt, tstate := 2, dir := 2, rel := 2, pend := 0 } dt
    (by simp) (by simp)
  obtain ⟨a1, a2, a3, a4, a5, a6, a7, a8⟩ := hk2
  exact ⟨⟨by rw [a2], by rw [a3], by rw [a1], by rw [a4], by rw [a5]; exact hlo, by rw [a5]; exact hhi⟩, by rw [a5], by rw [a8], by rw [a7]⟩

/-- non-vacuity, upward: 20 s opening time, default margin; from 80 % a task to 43 % driven by 0.5 s callbacks stops
    at the first callback at or above 43 % (42.5 %) and the motor is off -/
example :
    (rsRun { fo := 20000, fc := 20000, margin := 110, inMove := false } (addTask { pos := 8100 } 43)
      [10000, 500000, 500000, 500000, 500000, 500000, 500000, 500000, 500000, 500000, 500000, 500000, 500000, 500000, 500000,
       500000, 10000, 10000]).pos = 4350 ∧
    (rsRun { fo := 20000, fc := 20000, margin := 110, inMove := false } (addTask { pos := 8100 } 43)
      [10000, 500000, 500000, 500000, 500000, 500000, 500000, 500000, 500000, 500000, 500000, 500000, 500000, 500000, 500000,
       500000, 10000, 10000]).rel = 0 := by
  set_option maxRecDepth 8000 in decide

/-- from rest: the first callback after a task was added towards a target below the estimate starts the motor
    downwards (unless a zero margin forbids driving a shutter that already reports 100 %) -/
theorem task_start_down (P : RsP) (s : RsT) (dt : Nat)
    (h0 : s.tstate = 1 ∧ s.rel = 0 ∧ s.pend = 0 ∧ 100 ≤ s.pos ∧ s.pos ≤ 10100 ∧ s.sinceStop ≥ startGate + s.lag)
    (hb : s.pos - 100 < s.target * 100) (hg : ¬ (P.margin = 0 ∧ reportedPos s.pos = 100)) :
    Mov (rsTick P s dt) ∧ (rsTick P s dt).pos = s.pos ∧ (rsTick P s dt).downT = 0 ∧
    (rsTick P s dt).target = s.target := by
  obtain ⟨hts, hrel, hpend, hlo, hhi, hss⟩ := h0
  have hk : known s.pos = true := known_of s.pos ⟨hlo, hhi⟩
  have hacc : account P s dt = { s with upT := 0, downT := 0, sinceStop := s.sinceStop + dt } := by
    unfold account; rw [if_neg (by omega), if_neg (by omega)]
  have htask : taskStep P (account P s dt) =
      { s with upT := 0, downT := 0, sinceStop := s.sinceStop + dt, tstate := 2, dir := 1, rel := 1, pend := 0 } := by
    rw [hacc]
    have e1 : ¬ (s.pos - 100 > s.target * 100) := by omega
    have e3 : ¬ (s.sinceStop + dt < startGate + s.lag) := by omega
    have e4 : ¬ (P.margin = 0 ∧ reportedPos s.pos = 100) := hg
    have e6 : ¬ (s.target * 100 ≤ s.pos - 100) := by omega
    simp [taskStep, hts, hk, relReq, guardOn, hrel, hb, e1, e3, e4, e6]
  unfold rsTick; rw [htask]
  have hk2 := commStep_keep { s with upT := 0, downT := 0, sinceStop := s.sinceStop + dt, tstate := 2, dir := 1, rel := 1, pend := 0 } dt
    (by simp) (by simp)
  obtain ⟨a1, a2, a3, a4, a5, a6, a7, a8⟩ := hk2
  exact ⟨⟨by rw [a2], by rw [a3], by rw [a1], by rw [a4], by rw [a5]; exact hlo, by rw [a5]; exact hhi⟩, by rw [a5], by rw [a6], by rw [a7]⟩

/-- non-vacuity: 20 s closing time, default margin; from 20 % a task to 57 % driven by 0.5 s callbacks stops at
    the first callback at or beyond 57 % (57.5 %) and is finished -/
example :
    (rsRun { fo := 20000, fc := 20000, margin := 110, inMove := false } (addTask { pos := 2100 } 57)
      [10000, 500000, 500000, 500000, 500000, 500000, 500000, 500000, 500000, 500000, 500000, 500000, 500000, 500000, 500000,
       500000, 10000, 10000]).pos = 5850 ∧
    (rsRun { fo := 20000, fc := 20000, margin := 110, inMove := false } (addTask { pos := 2100 } 57)
      [10000, 500000, 500000, 500000, 500000, 500000, 500000, 500000, 500000, 500000, 500000, 500000, 500000, 500000, 500000,
       500000, 10000, 10000]).rel = 0 := by
  set_option maxRecDepth 8000 in decide

/-- **C10 (from rest to the target, downward)** the two halves joined: a calibrated shutter at rest (start gate passed) with an
    active task towards a target below its estimate — the first callback starts the motor, and for every further sequence of
    callbacks whose total duration reaches the travel to the end stop plus the task's margin the motor is off again with the
    estimate at or beyond the target, never having moved back -/
theorem c10_from_rest_converges_down (P : RsP) (hfc : 10 ≤ P.fc)
    (hcap : P.fc / 10 + 1 + 10 * P.fc * (taskMargin P + 1) ≤ 600000000) (s : RsT) (dt : Nat) (dts : List Nat)
    (h0 : s.tstate = 1 ∧ s.rel = 0 ∧ s.pend = 0 ∧ 100 ≤ s.pos ∧ s.pos ≤ 10100 ∧ s.sinceStop ≥ startGate + s.lag)
    (hb : s.pos - 100 < s.target * 100) (htg100 : s.target ≤ 100)
    (hg : ¬ (P.margin = 0 ∧ reportedPos s.pos = 100)) (hne : dts ≠ [])
    (hlong : 10100 * (P.fc * 1000) + P.fc * 1000 + 10000 + 100000 * P.fc * (taskMargin P + 1)
               ≤ s.pos * (P.fc * 1000) + 10000 * C09.sum dts) :
    Stopped (rsRun P s (dt :: dts)) ∧ (rsRun P s (dt :: dts)).pos - 100 ≥ s.target * 100 ∧
    s.pos ≤ (rsRun P s (dt :: dts)).pos := by
  obtain ⟨hm, hp, hd, ht⟩ := task_start_down P s dt h0 hb hg
  have hpsi : psi P (rsTick P s dt) = s.pos * (P.fc * 1000) := by unfold psi; rw [hp, hd]; omega
  have r := c10_task_converges_down P hfc hcap (rsTick P s dt) hm (by rw [ht]; omega) (by rw [ht]; exact htg100) dts hne
    (by rw [hpsi]; exact hlong)
  rw [ht, hp] at r
  simpa only [rsRun] using r

/-- **C10 (from rest to the target, upward)** the mirror statement -/
theorem c10_from_rest_converges_up (P : RsP) (hfo : 10 ≤ P.fo)
    (hcap : P.fo / 10 + 1 + 10 * P.fo * (taskMargin P + 1) ≤ 600000000) (s : RsT) (dt : Nat) (dts : List Nat)
    (h0 : s.tstate = 1 ∧ s.rel = 0 ∧ s.pend = 0 ∧ 100 ≤ s.pos ∧ s.pos ≤ 10100 ∧ s.sinceStop ≥ startGate + s.lag)
    (hb : s.pos - 100 > s.target * 100)
    (hg : ¬ (P.margin = 0 ∧ reportedPos s.pos = 0)) (hne : dts ≠ [])
    (hlong : 10000 * (P.fo * 1000) + P.fo * 1000 + 10000 + 100000 * P.fo * (taskMargin P + 1)
               ≤ (10100 - s.pos) * (P.fo * 1000) + 10000 * C09.sum dts) :
    Stopped (rsRun P s (dt :: dts)) ∧ (rsRun P s (dt :: dts)).pos - 100 ≤ s.target * 100 ∧
    (rsRun P s (dt :: dts)).pos ≤ s.pos := by
  obtain ⟨hm, hp, hu, ht⟩ := task_start_up P s dt h0 hb hg
  have hpsi : psiU P (rsTick P s dt) = (10100 - s.pos) * (P.fo * 1000) := by unfold psiU; rw [hp, hu]; omega
  have r := c10_task_converges_up P hfo hcap (rsTick P s dt) hm (by rw [ht]; omega) dts hne
    (by rw [hpsi]; exact hlong)
  rw [ht, hp] at r
  simpa only [rsRun] using r

/-- the premises of the from-rest theorems are met by a fresh request on a calibrated shutter at rest: `addTask` on a state
    with both outputs off and a reported position different from the request yields exactly `tstate = 1`, the new
    target and untouched outputs -/
theorem c10_addTask_from_rest (s : RsT) (g : Nat) (hrel : s.rel = 0)
    (hne : reportedPos s.pos ≠ (g : Int)) :
    (addTask s g).tstate = 1 ∧ (addTask s g).target = g ∧ (addTask s g).rel = 0 ∧ (addTask s g).pos = s.pos ∧
    (addTask s g).pend = s.pend ∧ (addTask s g).sinceStop = s.sinceStop ∧ (addTask s g).lag = s.lag := by
  unfold addTask
  rw [if_neg (by intro h; exact hne h.1)]
  simp [hrel]

/-- **C10 (a stop command ends everything)** whatever the shutter was doing - a task in any stage, an output energised, a
    request waiting for the delayed trigger - the stop command leaves both outputs off, no pending trigger and no task -/
theorem c10_stop_cmd_off (P : RsP) (s : RsT) :
    (moveCmd P s 0).rel = 0 ∧ (moveCmd P s 0).pend = 0 ∧ (moveCmd P s 0).tstate = 0 ∧ (moveCmd P s 0).pos = s.pos := by
  simp [moveCmd, relOff]

/-- ... and it stays that way: on a calibrated shutter, after a stop command every sequence of accounting callbacks leaves
    the outputs off, the task state idle and the position estimate untouched (the motor is not restarted by a stale task) -/
theorem c10_stop_cmd_stays_off (P : RsP) (s : RsT) (hk : 100 ≤ s.pos ∧ s.pos ≤ 10100) (dts : List Nat) :
    (rsRun P (moveCmd P s 0) dts).rel = 0 ∧ (rsRun P (moveCmd P s 0) dts).pend = 0 ∧
    (rsRun P (moveCmd P s 0) dts).tstate = 0 ∧ (rsRun P (moveCmd P s 0) dts).pos = s.pos := by
  obtain ⟨h1, h2, h3, h4⟩ := c10_stop_cmd_off P s
  have hst : Stopped (moveCmd P s 0) := ⟨h1, h2, by rw [h4]; exact hk.1, by rw [h4]; exact hk.2, Or.inl h3⟩
  obtain ⟨⟨r1, r2, _, _, _⟩, rp, rt⟩ := stopped_run P dts (moveCmd P s 0) hst
  refine ⟨r1, r2, ?_, by rw [rp, h4]⟩
  cases dts with
  | nil => simpa only [rsRun] using h3
  | cons d ds => exact rt (by simp)

/-- a plain move command (up or down) cancels the running task: what follows is governed by the plain-move rules (end-stop
    margin, 10-minute limit), not by a stale target -/
theorem c10_move_cmd_cancels_task (P : RsP) (s : RsT) (w : Nat) :
    (moveCmd P s w).tstate = 0 ∧ (moveCmd P s w).target = 0 ∧ (moveCmd P s w).dir = 0 := by
  unfold moveCmd
  by_cases hw : w = 0
  · rw [if_pos hw]; simp [relOff]
  · rw [if_neg hw]; unfold relReq; simp only; split <;> split <;> simp

/-- non-vacuity: a stop in the middle of a running task -/
example : (rsRun { fo := 20000, fc := 20000, margin := 110, inMove := false }
      (moveCmd { fo := 20000, fc := 20000, margin := 110, inMove := false }
        { pos := 4000, tstate := 2, dir := 1, rel := 1, target := 80, downT := 300000 } 0) [10000, 500000, 500000]).rel = 0 := by
  decide

/-! ### the power limit, upward (mirror of `Plain` / `c10_power_limit`) -/

def PlainU (s : RsT) : Prop :=
  s.tstate = 0 ∧ s.pend = 0 ∧ (s.rel = 0 ∨ s.rel = 2) ∧ s.comm < 200000 ∧
  (s.rel = 2 → s.upT > 600000000 → s.upT ≤ 600000000 + s.comm)

theorem plain_tick_up (P : RsP) (hfo : P.fo = 0) (s : RsT) (dt : Nat) (h : PlainU s) :
    PlainU (rsTick P s dt) ∧
    ((rsTick P s dt).rel = 2 → s.rel = 2 ∧ (rsTick P s dt).upT = s.upT + dt) := by
  obtain ⟨hts, hpend, hne2, hc, hJ⟩ := h
  by_cases hrel : s.rel = 2
  · have hacc : account P s dt = { s with upT := s.upT + dt, downT := 0 } := by
      unfold account
      rw [if_pos hrel]
      simp only [hfo, calibrateStep, movePos_nofull]
      simp [hrel]
    have htask : taskStep P (account P s dt) = account P s dt := by
      unfold taskStep; rw [hacc]; simp [hts]
    unfold rsTick; rw [htask, hacc]
    unfold commStep
    simp only
    by_cases hfire : s.comm + dt ≥ 200000
    · rw [if_pos hfire]
      by_cases hex : (s.upT + dt > 600000000 ∨ 0 > 600000000)
      · rw [if_pos hex]
        refine ⟨⟨by simp [relOff, hts], by simp [relOff], by simp [relOff], by simp [relOff], by simp [relOff]⟩, ?_⟩
        intro h1; simp [relOff] at h1
      · rw [if_neg hex]
        refine ⟨⟨by simpa using hts, by simpa using hpend, by simp [hrel], by simp, ?_⟩, by intro _; exact ⟨hrel, rfl⟩⟩
        intro _ h2; simp only at h2; omega
    · rw [if_neg hfire]
      refine ⟨⟨by simpa using hts, by simpa using hpend, by simp [hrel], by simp; omega, ?_⟩, by intro _; exact ⟨hrel, rfl⟩⟩
      intro _ h2
      simp only at h2 ⊢
      have := hJ hrel
      by_cases hprev : s.upT > 600000000
      · have := this hprev; omega
      · omega
  · have hrel0 : s.rel = 0 := by rcases hne2 with h | h; exact h; exact absurd h hrel
    have hacc : account P s dt = { s with upT := 0, downT := 0, sinceStop := s.sinceStop + dt } := by
      unfold account; rw [if_neg (by omega), if_neg (by omega)]
    have htask : taskStep P (account P s dt) = account P s dt := by
      unfold taskStep; rw [hacc]; simp [hts]
    unfold rsTick; rw [htask, hacc]
    unfold commStep
    simp only
    by_cases hfire : s.comm + dt ≥ 200000
    · rw [if_pos hfire, if_neg (by omega)]
      exact ⟨⟨by simpa using hts, by simpa using hpend, by simp [hrel0], by simp, by simp [hrel0]⟩, by simp [hrel0]⟩
    · rw [if_neg hfire]
      exact ⟨⟨by simpa using hts, by simpa using hpend, by simp [hrel0], by simp; omega, by simp [hrel0]⟩, by simp [hrel0]⟩

theorem plain_run_up (P : RsP) (hfo : P.fo = 0) : ∀ (dts : List Nat) (s : RsT), PlainU s →
    PlainU (rsRun P s dts) ∧
    ((rsRun P s dts).rel = 2 → s.rel = 2 ∧ (rsRun P s dts).upT = s.upT + C09.sum dts) := by
  intro dts
  induction dts with
  | nil => intro s h; exact ⟨h, by intro h1; exact ⟨h1, by simp [rsRun, C09.sum]⟩⟩
  | cons dt dts ih =>
    intro s h
    unfold rsRun
    have t := plain_tick_up P hfo s dt h
    have r := ih (rsTick P s dt) t.1
    refine ⟨r.1, ?_⟩
    intro h1
    have r2 := r.2 h1
    have t2 := t.2 r2.1
    exact ⟨t2.1, by rw [r2.2, t2.2]; simp [C09.sum]; omega⟩

/-- C10 (power limit, upward): a shutter driven up by a plain command while no opening time is configured — for every
    sequence of accounting callbacks, an output still on means the run time so far is below 600.2 s -/
theorem c10_power_limit_up (P : RsP) (hfo : P.fo = 0) (s : RsT) (dts : List Nat)
    (h0 : s.rel = 2 ∧ s.upT = 0 ∧ s.tstate = 0 ∧ s.pend = 0 ∧ s.comm < 200000) :
    (rsRun P s dts).rel = 2 → C09.sum dts < 600200000 := by
  intro h1
  have hp : PlainU s := ⟨h0.2.2.1, h0.2.2.2.1, Or.inr h0.1, h0.2.2.2.2, by intro _ h; omega⟩
  have r := plain_run_up P hfo dts s hp
  have e := (r.2 h1).2
  obtain ⟨_, _, _, hc, hJ⟩ := r.1
  have := hJ h1
  by_cases hx : (rsRun P s dts).upT > 600000000
  · have := this hx; omega
  · omega

theorem c10_power_limit_off_up (P : RsP) (hfo : P.fo = 0) (s : RsT) (dts : List Nat)
    (h0 : s.rel = 2 ∧ s.upT = 0 ∧ s.tstate = 0 ∧ s.pend = 0 ∧ s.comm < 200000)
    (hT : 600200000 ≤ C09.sum dts) : (rsRun P s dts).rel = 0 := by
  have hp : PlainU s := ⟨h0.2.2.1, h0.2.2.2.1, Or.inr h0.1, h0.2.2.2.2, by intro _ h; omega⟩
  have r := plain_run_up P hfo dts s hp
  rcases r.1.2.2.1 with h | h
  · exact h
  · have := c10_power_limit_up P hfo s dts h0 h; omega

/-! ### the power limit for facade blinds, both directions -/

theorem movePos_nofull_any (c : MvCfg) (m : Mv) (h : c.fullMs = 0) : movePos c m = m := by
  unfold movePos; simp [h]

def FbPlain (s : FbT) : Prop :=
  s.tstate = 0 ∧ s.pend = 0 ∧ (s.rel = 0 ∨ s.rel = 1) ∧ s.comm < 200000 ∧
  (s.rel = 1 → s.downT > 600000000 → s.downT ≤ 600000000 + s.comm)

theorem fb_plain_tick (P : FbP) (hfc : P.fc = 0) (s : FbT) (dt : Nat) (h : FbPlain s) :
    FbPlain (fbTick P s dt) ∧
    ((fbTick P s dt).rel = 1 → s.rel = 1 ∧ (fbTick P s dt).downT = s.downT + dt) := by
  obtain ⟨hts, hpend, hne2, hc, hJ⟩ := h
  by_cases hrel : s.rel = 1
  · have hacc : fbAccount P s dt = { s with downT := s.downT + dt, upT := 0 } := by
      unfold fbAccount
      rw [if_neg (by omega), if_pos hrel]
      have hm : ∀ m, movePos (P.mv false) m = m := fun m => movePos_nofull_any _ m (by simp [FbP.mv, hfc])
      simp only [hfc, fbCalibrate, hm]
      simp [hrel]
    have htask : fbTaskStep P (fbAccount P s dt) = fbAccount P s dt := by
      unfold fbTaskStep; rw [hacc]; simp [hts]
    unfold fbTick; rw [htask, hacc]
    unfold fbCommStep
    simp only
    by_cases hfire : s.comm + dt ≥ 200000
    · rw [if_pos hfire]
      by_cases hex : (0 > 600000000 ∨ s.downT + dt > 600000000)
      · rw [if_pos hex]
        refine ⟨⟨by simp [fbRelOff, hts], by simp [fbRelOff], by simp [fbRelOff], by simp [fbRelOff], by simp [fbRelOff]⟩, ?_⟩
        intro h1; simp [fbRelOff] at h1
      · rw [if_neg hex]
        refine ⟨⟨by simpa using hts, by simpa using hpend, by simp [hrel], by simp, ?_⟩, by intro _; exact ⟨hrel, rfl⟩⟩
        intro _ h2; simp only at h2; omega
    · rw [if_neg hfire]
      refine ⟨⟨by simpa using hts, by simpa using hpend, by simp [hrel], by simp; omega, ?_⟩, by intro _; exact ⟨hrel, rfl⟩⟩
      intro _ h2
      simp only at h2 ⊢
      have := hJ hrel
      by_cases hprev : s.downT > 600000000
      · have := this hprev; omega
      · omega
  · have hrel0 : s.rel = 0 := by rcases hne2 with h | h; exact h; exact absurd h hrel
    have hacc : fbAccount P s dt = { s with upT := 0, downT := 0, sinceStop := s.sinceStop + dt } := by
      unfold fbAccount; rw [if_neg (by omega), if_neg (by omega)]
    have htask : fbTaskStep P (fbAccount P s dt) = fbAccount P s dt := by
      unfold fbTaskStep; rw [hacc]; simp [hts]
    unfold fbTick; rw [htask, hacc]
    unfold fbCommStep
    simp only
    by_cases hfire : s.comm + dt ≥ 200000
    · rw [if_pos hfire, if_neg (by omega)]
      exact ⟨⟨by simpa using hts, by simpa using hpend, by simp [hrel0], by simp, by simp [hrel0]⟩, by simp [hrel0]⟩
    · rw [if_neg hfire]
      exact ⟨⟨by simpa using hts, by simpa using hpend, by simp [hrel0], by simp; omega, by simp [hrel0]⟩, by simp [hrel0]⟩

theorem fb_plain_run (P : FbP) (hfc : P.fc = 0) : ∀ (dts : List Nat) (s : FbT), FbPlain s →
    FbPlain (fbRun P s dts) ∧
    ((fbRun P s dts).rel = 1 → s.rel = 1 ∧ (fbRun P s dts).downT = s.downT + C09.sum dts) := by
  intro dts
  induction dts with
  | nil => intro s h; exact ⟨h, by intro h1; exact ⟨h1, by simp [fbRun, C09.sum]⟩⟩
  | cons dt dts ih =>
    intro s h
    unfold fbRun
    have t := fb_plain_tick P hfc s dt h
    have r := ih (fbTick P s dt) t.1
    refine ⟨r.1, ?_⟩
    intro h1
    have r2 := r.2 h1
    have t2 := t.2 r2.1
    exact ⟨t2.1, by rw [r2.2, t2.2]; simp [C09.sum]; omega⟩

/-- C10 (power limit, facade blind, down): a blind driven down by a plain command while no closing time is configured (whatever
    the tilt mode) — for every sequence of accounting callbacks an output still on means the run time so far is below
    600.2 s, so it is off once 600.2 s of callbacks have passed -/
theorem c10_fb_power_limit (P : FbP) (hfc : P.fc = 0) (s : FbT) (dts : List Nat)
    (h0 : s.rel = 1 ∧ s.downT = 0 ∧ s.tstate = 0 ∧ s.pend = 0 ∧ s.comm < 200000) :
    ((fbRun P s dts).rel = 1 → C09.sum dts < 600200000) ∧ (600200000 ≤ C09.sum dts → (fbRun P s dts).rel = 0) := by
  have hp : FbPlain s := ⟨h0.2.2.1, h0.2.2.2.1, Or.inr h0.1, h0.2.2.2.2, by intro _ h; omega⟩
  have r := fb_plain_run P hfc dts s hp
  have key : (fbRun P s dts).rel = 1 → C09.sum dts < 600200000 := by
    intro h1
    have e := (r.2 h1).2
    obtain ⟨_, _, _, hc, hJ⟩ := r.1
    have := hJ h1
    by_cases hx : (fbRun P s dts).downT > 600000000
    · have := this hx; omega
    · omega
  refine ⟨key, ?_⟩
  intro hT
  rcases r.1.2.2.1 with h | h
  · exact h
  · have := key h; omega

def FbPlainU (s : FbT) : Prop :=
  s.tstate = 0 ∧ s.pend = 0 ∧ (s.rel = 0 ∨ s.rel = 2) ∧ s.comm < 200000 ∧
  (s.rel = 2 → s.upT > 600000000 → s.upT ≤ 600000000 + s.comm)

theorem fb_plain_tick_up (P : FbP) (hfo : P.fo = 0) (s : FbT) (dt : Nat) (h : FbPlainU s) :
    FbPlainU (fbTick P s dt) ∧
    ((fbTick P s dt).rel = 2 → s.rel = 2 ∧ (fbTick P s dt).upT = s.upT + dt) := by
  obtain ⟨hts, hpend, hne2, hc, hJ⟩ := h
  by_cases hrel : s.rel = 2
  · have hacc : fbAccount P s dt = { s with upT := s.upT + dt, downT := 0 } := by
      unfold fbAccount
      rw [if_pos hrel]
      have hm : ∀ m, movePos (P.mv true) m = m := fun m => movePos_nofull_any _ m (by simp [FbP.mv, hfo])
      simp only [hfo, fbCalibrate, hm]
      simp [hrel]
    have htask : fbTaskStep P (fbAccount P s dt) = fbAccount P s dt := by
      unfold fbTaskStep; rw [hacc]; simp [hts]
    unfold fbTick; rw [htask, hacc]
    unfold fbCommStep
    simp only
    by_cases hfire : s.comm + dt ≥ 200000
    · rw [if_pos hfire]
      by_cases hex : (s.upT + dt > 600000000 ∨ 0 > 600000000)
      · rw [if_pos hex]
        refine ⟨⟨by simp [fbRelOff, hts], by simp [fbRelOff], by simp [fbRelOff], by simp [fbRelOff], by simp [fbRelOff]⟩, ?_⟩
        intro h1; simp [fbRelOff] at h1
      · rw [if_neg hex]
        refine ⟨⟨by simpa using hts, by simpa using hpend, by simp [hrel], by simp, ?_⟩, by intro _; exact ⟨hrel, rfl⟩⟩
        intro _ h2; simp only at h2; omega
    · rw [if_neg hfire]
      refine ⟨⟨by simpa using hts, by simpa using hpend, by simp [hrel], by simp; omega, ?_⟩, by intro _; exact ⟨hrel, rfl⟩⟩
      intro _ h2
      simp only at h2 ⊢
      have := hJ hrel
      by_cases hprev : s.upT > 600000000
      · have := this hprev; omega
      · omega
  · have hrel0 : s.rel = 0 := by rcases hne2 with h | h; exact h; exact absurd h hrel
    have hacc : fbAccount P s dt = { s with downT := 0, upT := 0, sinceStop := s.sinceStop + dt } := by
      unfold fbAccount; rw [if_neg (by omega), if_neg (by omega)]
    have htask : fbTaskStep P (fbAccount P s dt) = fbAccount P s dt := by
      unfold fbTaskStep; rw [hacc]; simp [hts]
    unfold fbTick; rw [htask, hacc]
    unfold fbCommStep
    simp only
    by_cases hfire : s.comm + dt ≥ 200000
    · rw [if_pos hfire, if_neg (by omega)]
      exact ⟨⟨by simpa using hts, by simpa using hpend, by simp [hrel0], by simp, by simp [hrel0]⟩, by simp [hrel0]⟩
    · rw [if_neg hfire]
      exact ⟨⟨by simpa using hts, by simpa using hpend, by simp [hrel0], by simp; omega, by simp [hrel0]⟩, by simp [hrel0]⟩

theorem fb_plain_run_up (P : FbP) (hfo : P.fo = 0) : ∀ (dts : List Nat) (s : FbT), FbPlainU s →
    FbPlainU (fbRun P s dts) ∧
    ((fbRun P s dts).rel = 2 → s.rel = 2 ∧ (fbRun P s dts).upT = s.upT + C09.sum dts) := by
  intro dts
  induction dts with
  | nil => intro s h; exact ⟨h, by intro h1; exact ⟨h1, by simp [fbRun, C09.sum]⟩⟩
  | cons dt dts ih =>
    intro s h
    unfold fbRun
    have t := fb_plain_tick_up P hfo s dt h
    have r := ih (fbTick P s dt) t.1
    refine ⟨r.1, ?_⟩
    intro h1
    have r2 := r.2 h1
    have t2 := t.2 r2.1
    exact ⟨t2.1, by rw [r2.2, t2.2]; simp [C09.sum]; omega⟩

/-- C10 (power limit, facade blind, up): a blind driven up by a plain command while no opening time is configured (whatever
    the tilt mode) — for every sequence of accounting callbacks an output still on means the run time so far is below
    600.2 s, so it is off once 600.2 s of callbacks have passed -/
theorem c10_fb_power_limit_up (P : FbP) (hfo : P.fo = 0) (s : FbT) (dts : List Nat)
    (h0 : s.rel = 2 ∧ s.upT = 0 ∧ s.tstate = 0 ∧ s.pend = 0 ∧ s.comm < 200000) :
    ((fbRun P s dts).rel = 2 → C09.sum dts < 600200000) ∧ (600200000 ≤ C09.sum dts → (fbRun P s dts).rel = 0) := by
  have hp : FbPlainU s := ⟨h0.2.2.1, h0.2.2.2.1, Or.inr h0.1, h0.2.2.2.2, by intro _ h; omega⟩
  have r := fb_plain_run_up P hfo dts s hp
  have key : (fbRun P s dts).rel = 2 → C09.sum dts < 600200000 := by
    intro h1
    have e := (r.2 h1).2
    obtain ⟨_, _, _, hc, hJ⟩ := r.1
    have := hJ h1
    by_cases hx : (fbRun P s dts).upT > 600000000
    · have := this hx; omega
    · omega
  refine ⟨key, ?_⟩
  intro hT
  rcases r.1.2.2.1 with h | h
  · exact h
  · have := key h; omega

/-! ### idle stays idle - with or without calibration, roller shutter and facade blind -/

/-- nothing energised, nothing pending, no task -/
def Idle (s : RsT) : Prop := s.rel = 0 ∧ s.pend = 0 ∧ s.tstate = 0
def FbIdle (s : FbT) : Prop := s.rel = 0 ∧ s.pend = 0 ∧ s.tstate = 0

theorem idle_tick (P : RsP) (s : RsT) (dt : Nat) (h : Idle s) :
    Idle (rsTick P s dt) ∧ (rsTick P s dt).pos = s.pos := by
  obtain ⟨hr, hp, ht⟩ := h
  have hacc : account P s dt = { s with upT := 0, downT := 0, sinceStop := s.sinceStop + dt } := by
    unfold account; rw [if_neg (by omega), if_neg (by omega)]
  have htask : taskStep P (account P s dt) = { s with upT := 0, downT := 0, sinceStop := s.sinceStop + dt } := by
    rw [hacc]; unfold taskStep; simp [ht]
  unfold rsTick; rw [htask]; unfold commStep Idle
  split
  · split <;> simp [relOff, hr, hp, ht]
  · simp [hr, hp, ht]

/-- **C10 (at rest nothing starts the motor)** a shutter with no task, no pending trigger and both outputs off - calibrated or
    not - keeps its outputs off and its estimate for every sequence of accounting callbacks -/
theorem c10_idle_run (P : RsP) : ∀ (dts : List Nat) (s : RsT), Idle s →
    Idle (rsRun P s dts) ∧ (rsRun P s dts).pos = s.pos := by
  intro dts
  induction dts with
  | nil => intro s h; exact ⟨h, rfl⟩
  | cons dt dts ih =>
    intro s h
    unfold rsRun
    have t := idle_tick P s dt h
    have r := ih _ t.1
    exact ⟨r.1, by rw [r.2, t.2]⟩

/-- the stop command reaches that state from anywhere, so after it the outputs stay off - also on a shutter that is not
    calibrated (where `c10_stop_cmd_stays_off`'s premise fails) -/
theorem c10_stop_cmd_stays_off_any (P : RsP) (s : RsT) (dts : List Nat) :
    (rsRun P (moveCmd P s 0) dts).rel = 0 ∧ (rsRun P (moveCmd P s 0) dts).pend = 0 ∧
    (rsRun P (moveCmd P s 0) dts).tstate = 0 ∧ (rsRun P (moveCmd P s 0) dts).pos = s.pos := by
  obtain ⟨h1, h2, h3, h4⟩ := c10_stop_cmd_off P s
  obtain ⟨⟨r1, r2, r3⟩, rp⟩ := c10_idle_run P dts (moveCmd P s 0) ⟨h1, h2, h3⟩
  exact ⟨r1, r2, r3, by rw [rp, h4]⟩

theorem fb_idle_tick (P : FbP) (s : FbT) (dt : Nat) (h : FbIdle s) :
    FbIdle (fbTick P s dt) ∧ (fbTick P s dt).pos = s.pos ∧ (fbTick P s dt).tilt = s.tilt := by
  obtain ⟨hr, hp, ht⟩ := h
  have hacc : fbAccount P s dt = { s with upT := 0, downT := 0, sinceStop := s.sinceStop + dt } := by
    unfold fbAccount; rw [if_neg (by omega), if_neg (by omega)]
  have htask : fbTaskStep P (fbAccount P s dt) = { s with upT := 0, downT := 0, sinceStop := s.sinceStop + dt } := by
    rw [hacc]; unfold fbTaskStep; simp [ht]
  unfold fbTick; rw [htask]; unfold fbCommStep FbIdle
  split
  · split <;> simp [fbRelOff, hr, hp, ht]
  · simp [hr, hp, ht]

/-- the same for a facade blind: position and tilt estimates untouched, outputs off, for every callback sequence -/
theorem c10_fb_idle_run (P : FbP) : ∀ (dts : List Nat) (s : FbT), FbIdle s →
    FbIdle (fbRun P s dts) ∧ (fbRun P s dts).pos = s.pos ∧ (fbRun P s dts).tilt = s.tilt := by
  intro dts
  induction dts with
  | nil => intro s h; exact ⟨h, rfl, rfl⟩
  | cons dt dts ih =>
    intro s h
    unfold fbRun
    have t := fb_idle_tick P s dt h
    have r := ih _ t.1
    exact ⟨r.1, by rw [r.2.1, t.2.1], by rw [r.2.2, t.2.2]⟩

/-- **C10 (a stop command ends everything, facade blind)** from any state of a blind (task in any of its stages, tilting, a
    request waiting for the trigger) the stop command leaves the outputs off, and every callback sequence keeps them off -/
theorem c10_fb_stop_cmd_stays_off (P : FbP) (s : FbT) (dts : List Nat) :
    (fbRun P (fbMoveCmd P s 0) dts).rel = 0 ∧ (fbRun P (fbMoveCmd P s 0) dts).pend = 0 ∧
    (fbRun P (fbMoveCmd P s 0) dts).tstate = 0 ∧ (fbRun P (fbMoveCmd P s 0) dts).pos = s.pos ∧
    (fbRun P (fbMoveCmd P s 0) dts).tilt = s.tilt := by
  have h0 : FbIdle (fbMoveCmd P s 0) ∧ (fbMoveCmd P s 0).pos = s.pos ∧ (fbMoveCmd P s 0).tilt = s.tilt := by
    simp [fbMoveCmd, fbRelOff, FbIdle]
  obtain ⟨⟨r1, r2, r3⟩, rp, rt⟩ := c10_fb_idle_run P dts (fbMoveCmd P s 0) h0.1
  exact ⟨r1, r2, r3, by rw [rp, h0.2.1], by rw [rt, h0.2.2]⟩

/-! ### the delayed trigger (start gate after a stop) -/

/-- a direction requested on a shutter at rest before the start gate has passed is not dropped: it is parked for the delayed
    trigger with the outputs still off ... -/
theorem c10_request_parked (P : RsP) (s : RsT) (w : Nat) (hrel : s.rel = 0)
    (hgate : s.sinceStop < startGate + s.lag) :
    (relReq P s w).pend = w ∧ (relReq P s w).rel = 0 := by
  unfold relReq
  simp [hrel, hgate]

/-- ... and when the trigger fires, the parked direction is energised unless the zero-margin guard forbids it (then the
    outputs stay as they were); nothing stays pending, and a trigger with nothing parked changes nothing -/
theorem c10_trigger_executes (P : RsP) (s : RsT) :
    (fireTrig P s).pend = 0 ∧
    (s.pend = 0 → fireTrig P s = s) ∧
    (s.pend ≠ 0 → ¬ (P.margin = 0 ∧ ((s.pend = 2 ∧ reportedPos s.pos = 0) ∨ (s.pend = 1 ∧ reportedPos s.pos = 100))) →
      (fireTrig P s).rel = s.pend) ∧
    (s.pend ≠ 0 → (P.margin = 0 ∧ ((s.pend = 2 ∧ reportedPos s.pos = 0) ∨ (s.pend = 1 ∧ reportedPos s.pos = 100))) →
      (fireTrig P s).rel = s.rel) := by
  unfold fireTrig
  by_cases hp : s.pend = 0
  · simp [hp]
  · refine ⟨by simp [hp], fun h => absurd h hp, ?_, ?_⟩
    · intro _ hg; simp only [if_neg hp, guardOn]; rw [if_neg hg]
    · intro _ hg; simp only [if_neg hp, guardOn]; rw [if_pos hg]

/-- request, then trigger: a direction asked for at rest inside the start gate ends up energised once the trigger fires -/
theorem c10_parked_then_fired (P : RsP) (s : RsT) (w : Nat) (hw : w ≠ 0) (hrel : s.rel = 0)
    (hgate : s.sinceStop < startGate + s.lag)
    (hg : ¬ (P.margin = 0 ∧ ((w = 2 ∧ reportedPos s.pos = 0) ∨ (w = 1 ∧ reportedPos s.pos = 100)))) :
    (fireTrig P (relReq P s w)).rel = w ∧ (fireTrig P (relReq P s w)).pend = 0 := by
  have hreq : relReq P s w = { s with pend := w } := by unfold relReq; simp [hrel, hgate]
  rw [hreq]
  unfold fireTrig
  simp only [if_neg hw, guardOn]
  rw [if_neg hg]
  simp

/-- from rest inside the start gate (the shutter stopped less than the start delay ago): the first callback parks the downward
    request for the delayed trigger with the outputs still off, and the trigger's firing starts the motor - the task is then in
    the `Mov` regime of the convergence theorem with nothing carried -/
theorem task_start_down_parked (P : RsP) (s : RsT) (dt : Nat)
    (h0 : s.tstate = 1 ∧ s.rel = 0 ∧ s.pend = 0 ∧ 100 ≤ s.pos ∧ s.pos ≤ 10100 ∧ s.sinceStop + dt < startGate + s.lag)
    (hb : s.pos - 100 < s.target * 100) (hg : ¬ (P.margin = 0 ∧ reportedPos s.pos = 100)) :
    (rsTick P s dt).rel = 0 ∧ (rsTick P s dt).pend = 1 ∧
    Mov (fireTrig P (rsTick P s dt)) ∧ (fireTrig P (rsTick P s dt)).pos = s.pos ∧
    (fireTrig P (rsTick P s dt)).downT = 0 ∧ (fireTrig P (rsTick P s dt)).target = s.target := by
  obtain ⟨hts, hrel, hpend, hlo, hhi, hss⟩ := h0
  have hk : known s.pos = true := known_of s.pos ⟨hlo, hhi⟩
  have hacc : account P s dt = { s with upT := 0, downT := 0, sinceStop := s.sinceStop + dt } := by
    unfold account; rw [if_neg (by omega), if_neg (by omega)]
  have htask : taskStep P (account P s dt) =
      { s with upT := 0, downT := 0, sinceStop := s.sinceStop + dt, tstate := 2, dir := 1, pend := 1 } := by
    rw [hacc]
    have e1 : ¬ (s.pos - 100 > s.target * 100) := by omega
    have e6 : ¬ (s.target * 100 ≤ s.pos - 100) := by omega
    simp [taskStep, hts, hk, relReq, hrel, hb, e1, hss, e6]
  have hk2 := commStep_keep { s with upT := 0, downT := 0, sinceStop := s.sinceStop + dt, tstate := 2, dir := 1, pend := 1 } dt
    (by simp) (by simp)
  obtain ⟨a1, a2, a3, a4, a5, a6, a7, a8⟩ := hk2
  simp only at a1 a2 a3 a4 a5 a6 a7 a8
  have hg' : ¬ (P.margin = 0 ∧ (((rsTick P s dt).pend = 2 ∧ reportedPos (rsTick P s dt).pos = 0) ∨
      ((rsTick P s dt).pend = 1 ∧ reportedPos (rsTick P s dt).pos = 100))) := by
    unfold rsTick; rw [htask, a4, a5]
    intro h; rcases h with ⟨hm, h | h⟩
    · omega
    · exact hg ⟨hm, h.2⟩
  have hf := c10_trigger_executes P (rsTick P s dt)
  have hpe : (rsTick P s dt).pend = 1 := by unfold rsTick; rw [htask, a4]
  have hfr := hf.2.2.1 (by omega) hg'
  have hfeq : fireTrig P (rsTick P s dt) = { rsTick P s dt with pend := 0, rel := 1 } := by
    have : fireTrig P (rsTick P s dt) = { rsTick P s dt with pend := 0, rel := (fireTrig P (rsTick P s dt)).rel } := by
      unfold fireTrig; rw [if_neg (by omega)]
    rw [this, hfr, hpe]
  refine ⟨by unfold rsTick; rw [htask, a1, hrel], hpe, ?_⟩
  rw [hfeq]
  unfold rsTick; rw [htask]
  refine ⟨⟨by simp only; rw [a2], by simp only; rw [a3], rfl, rfl, by simp only; rw [a5]; exact hlo, by simp only; rw [a5]; exact hhi⟩,
    by simp only; rw [a5], by simp only; rw [a6], by simp only; rw [a7]⟩
/-- from rest inside the start gate (the shutter stopped less than the start delay ago): the first callback parks the upward
    request for the delayed trigger with the outputs still off, and the trigger's firing starts the motor - the task is then in
    the `Mov` regime of the convergence theorem with nothing carried -/
theorem task_start_up_parked (P : RsP) (s : RsT) (dt : Nat)
    (h0 : s.tstate = 1 ∧ s.rel = 0 ∧ s.pend = 0 ∧ 100 ≤ s.pos ∧ s.pos ≤ 10100 ∧ s.sinceStop + dt < startGate + s.lag)
    (hb : s.pos - 100 > s.target * 100) (hg : ¬ (P.margin = 0 ∧ reportedPos s.pos = 0)) :
    (rsTick P s dt).rel = 0 ∧ (rsTick P s dt).pend = 2 ∧
    MovU (fireTrig P (rsTick P s dt)) ∧ (fireTrig P (rsTick P s dt)).pos = s.pos ∧
    (fireTrig P (rsTick P s dt)).upT = 0 ∧ (fireTrig P (rsTick P s dt)).target = s.target := by
  obtain ⟨hts, hrel, hpend, hlo, hhi, hss⟩ := h0
  have hk : known s.pos = true := known_of s.pos ⟨hlo, hhi⟩
  have hacc : account P s dt = { s with upT := 0, downT := 0, sinceStop := s.sinceStop + dt } := by
    unfold account; rw [if_neg (by omega), if_neg (by omega)]
  have htask : taskStep P (account P s dt) =
      { s with upT := 0, downT := 0, sinceStop := s.sinceStop + dt, tstate := 2, dir := 2, pend := 2 } := by
    rw [hacc]
    have e6 : ¬ (s.pos - 100 ≤ s.target * 100) := by omega
    simp [taskStep, hts, hk, relReq, hrel, hb, hss, e6]
  have hk2 := commStep_keep { s with upT := 0, downT := 0, sinceStop := s.sinceStop + dt, tstate := 2, dir := 2, pend := 2 } dt
    (by simp) (by simp)
  obtain ⟨a1, a2, a3, a4, a5, a6, a7, a8⟩ := hk2
  simp only at a1 a2 a3 a4 a5 a6 a7 a8
  have hg' : ¬ (P.margin = 0 ∧ (((rsTick P s dt).pend = 2 ∧ reportedPos (rsTick P s dt).pos = 0) ∨
      ((rsTick P s dt).pend = 1 ∧ reportedPos (rsTick P s dt).pos = 100))) := by
    unfold rsTick; rw [htask, a4, a5]
    intro h; rcases h with ⟨hm, h | h⟩
    · exact hg ⟨hm, h.2⟩
    · omega
  have hf := c10_trigger_executes P (rsTick P s dt)
  have hpe : (rsTick P s dt).pend = 2 := by unfold rsTick; rw [htask, a4]
  have hfr := hf.2.2.1 (by omega) hg'
  have hfeq : fireTrig P (rsTick P s dt) = { rsTick P s dt with pend := 0, rel := 2 } := by
    have : fireTrig P (rsTick P s dt) = { rsTick P s dt with pend := 0, rel := (fireTrig P (rsTick P s dt)).rel } := by
      unfold fireTrig; rw [if_neg (by omega)]
    rw [this, hfr, hpe]
  refine ⟨by unfold rsTick; rw [htask, a1, hrel], hpe, ?_⟩
  rw [hfeq]
  unfold rsTick; rw [htask]
  refine ⟨⟨by simp only; rw [a2], by simp only; rw [a3], rfl, rfl, by simp only; rw [a5]; exact hlo, by simp only; rw [a5]; exact hhi⟩,
    by simp only; rw [a5], by simp only; rw [a8], by simp only; rw [a7]⟩
/-- **C10 (from rest inside the start gate to the target)** the request parked by the first callback and released by the
    delayed trigger converges like any other: for every later callback sequence long enough the motor is off again at or
    beyond the target -/
theorem c10_from_rest_parked_converges_down (P : RsP) (hfc : 10 ≤ P.fc)
    (hcap : P.fc / 10 + 1 + 10 * P.fc * (taskMargin P + 1) ≤ 600000000) (s : RsT) (dt : Nat) (dts : List Nat)
    (h0 : s.tstate = 1 ∧ s.rel = 0 ∧ s.pend = 0 ∧ 100 ≤ s.pos ∧ s.pos ≤ 10100 ∧ s.sinceStop + dt < startGate + s.lag)
    (hb : s.pos - 100 < s.target * 100) (htg100 : s.target ≤ 100)
    (hg : ¬ (P.margin = 0 ∧ reportedPos s.pos = 100)) (hne : dts ≠ [])
    (hlong : 10100 * (P.fc * 1000) + P.fc * 1000 + 10000 + 100000 * P.fc * (taskMargin P + 1)
               ≤ s.pos * (P.fc * 1000) + 10000 * C09.sum dts) :
    Stopped (rsRun P (fireTrig P (rsTick P s dt)) dts) ∧
    (rsRun P (fireTrig P (rsTick P s dt)) dts).pos - 100 ≥ s.target * 100 ∧
    s.pos ≤ (rsRun P (fireTrig P (rsTick P s dt)) dts).pos := by
  obtain ⟨_, _, hm, hp, hd, ht⟩ := task_start_down_parked P s dt h0 hb hg
  have hpsi : psi P (fireTrig P (rsTick P s dt)) = s.pos * (P.fc * 1000) := by unfold psi; rw [hp, hd]; omega
  have r := c10_task_converges_down P hfc hcap _ hm (by rw [ht]; omega) (by rw [ht]; exact htg100) dts hne
    (by rw [hpsi]; exact hlong)
  rw [ht, hp] at r
  exact r

/-- the upward mirror of `c10_from_rest_parked_converges_down` -/
theorem c10_from_rest_parked_converges_up (P : RsP) (hfo : 10 ≤ P.fo)
    (hcap : P.fo / 10 + 1 + 10 * P.fo * (taskMargin P + 1) ≤ 600000000) (s : RsT) (dt : Nat) (dts : List Nat)
    (h0 : s.tstate = 1 ∧ s.rel = 0 ∧ s.pend = 0 ∧ 100 ≤ s.pos ∧ s.pos ≤ 10100 ∧ s.sinceStop + dt < startGate + s.lag)
    (hb : s.pos - 100 > s.target * 100)
    (hg : ¬ (P.margin = 0 ∧ reportedPos s.pos = 0)) (hne : dts ≠ [])
    (hlong : 10000 * (P.fo * 1000) + P.fo * 1000 + 10000 + 100000 * P.fo * (taskMargin P + 1)
               ≤ (10100 - s.pos) * (P.fo * 1000) + 10000 * C09.sum dts) :
    Stopped (rsRun P (fireTrig P (rsTick P s dt)) dts) ∧
    (rsRun P (fireTrig P (rsTick P s dt)) dts).pos - 100 ≤ s.target * 100 ∧
    (rsRun P (fireTrig P (rsTick P s dt)) dts).pos ≤ s.pos := by
  obtain ⟨_, _, hm, hp, hu, ht⟩ := task_start_up_parked P s dt h0 hb hg
  have hpsi : psiU P (fireTrig P (rsTick P s dt)) = (10100 - s.pos) * (P.fo * 1000) := by unfold psiU; rw [hp, hu]; omega
  have r := c10_task_converges_up P hfo hcap _ hm (by rw [ht]; omega) dts hne (by rw [hpsi]; exact hlong)
  rw [ht, hp] at r
  exact r

/-- facade blind: the same parking rule ... -/
theorem c10_fb_request_parked (P : FbP) (s : FbT) (w : Nat) (hrel : s.rel = 0)
    (hgate : s.sinceStop < startGate + s.lag) :
    (fbRelReq P s w).pend = w ∧ (fbRelReq P s w).rel = 0 ∧ (fbRelReq P s w).pos = s.pos ∧ (fbRelReq P s w).tilt = s.tilt := by
  unfold fbRelReq
  simp [hrel, hgate]

/-- ... and the same firing rule with the blind's guard (at an end stop with zero margin only a tilt change may start the motor) -/
theorem c10_fb_trigger_executes (P : FbP) (s : FbT) :
    (fbFireTrig P s).pend = 0 ∧
    (s.pend = 0 → fbFireTrig P s = s) ∧
    (s.pend ≠ 0 → (fbFireTrig P s).rel = fbGuardOn P { s with pend := 0 } s.pend) ∧
    (P.margin ≠ 0 → s.pend ≠ 0 → (fbFireTrig P s).rel = s.pend) := by
  unfold fbFireTrig
  by_cases hp : s.pend = 0
  · simp [hp]
  · refine ⟨by simp [hp], fun h => absurd h hp, by intro _; simp [hp], ?_⟩
    intro hm _
    simp only [if_neg hp, fbGuardOn]
    rw [if_neg (by intro h; exact hm h.1)]

/-- a plain move command cancels a blind's task (position and tilt targets) -/
theorem c10_fb_move_cmd_cancels_task (P : FbP) (s : FbT) (w : Nat) :
    (fbMoveCmd P s w).tstate = 0 ∧ (fbMoveCmd P s w).target = 0 ∧ (fbMoveCmd P s w).ttarget = 0 ∧ (fbMoveCmd P s w).dir = 0 := by
  unfold fbMoveCmd
  by_cases hw : w = 0
  · rw [if_pos hw]; simp [fbRelOff]
  · rw [if_neg hw]; unfold fbRelReq; simp only; split <;> split <;> simp

/-- **C10 (the newest request wins)** a request made while the shutter is on its way somewhere else (a task running or an
    output energised) always becomes the task - also when the reported position happens to equal the requested one at
    that moment (before the repair in /repo such a request was ignored and the shutter ran on to the old target) -/
theorem c10_request_replaces_running (s : RsT) (g : Nat) (h : s.tstate ≠ 0 ∨ s.rel ≠ 0) :
    (addTask s g).tstate = 1 ∧ (addTask s g).target = g ∧ (addTask s g).dir = 0 := by
  unfold addTask
  have : ¬ (reportedPos s.pos = (g : Int) ∧ s.tstate = 0 ∧ s.rel = 0) := by
    intro hh; rcases h with h | h
    · exact h hh.2.1
    · exact h hh.2.2
  rw [if_neg this]
  exact ⟨rfl, rfl, rfl⟩

/-- ... and if the stored position is exactly the requested one, the next callback stops the motor there -/
theorem c10_request_at_current_position_stops (P : RsP) (s : RsT) (g : Nat) (h : s.tstate ≠ 0 ∨ s.rel ≠ 0)
    (hk : known s.pos = true) (heq : s.pos - 100 = g * 100) :
    (taskStep P (addTask s g)).rel = 0 ∧ (taskStep P (addTask s g)).tstate = 0 := by
  obtain ⟨a1, a2, a3⟩ := c10_request_replaces_running s g h
  have hpos : (addTask s g).pos = s.pos := by
    unfold addTask; split <;> rfl
  unfold taskStep
  rw [if_neg (by rw [a1]; decide)]
  rw [hpos, hk]
  simp only [Bool.not_true, Bool.false_eq_true, if_false, a1, a2, heq, Nat.lt_irrefl, if_true]
  simp [relOff, a3]

/-! ### facade blinds (Model/FbTask): the task's tilt phase, the newest request, ranges, the time limit -/

/-- the accounting callback keeps a known position inside 0..100 % and moves it only in the direction of travel -/
theorem c10_fb_position_range (P : FbP) (s : FbT) (dt : Nat) (hk : 100 ≤ s.pos ∧ s.pos ≤ 10100) :
    100 ≤ (fbAccount P s dt).pos ∧ (fbAccount P s dt).pos ≤ 10100 ∧
    (s.rel = 2 → (fbAccount P s dt).pos ≤ s.pos) ∧ (s.rel = 1 → s.pos ≤ (fbAccount P s dt).pos) := by
  have hkn : known s.pos = true := by unfold known; simp; omega
  unfold fbAccount
  by_cases h2 : s.rel = 2
  · rw [if_pos h2]
    simp only [fbCalibrate, hkn, Bool.not_true, Bool.false_and, Bool.false_eq_true, if_false]
    have := C09.c09_pos_range_mono (P.mv true) { pos := s.pos, tilt := s.tilt, time := s.upT + dt } hk
    simp only [FbP.mv] at this ⊢
    refine ⟨this.1, this.2.1, fun _ => this.2.2.1 trivial, fun h => by omega⟩
  · rw [if_neg h2]
    by_cases h1 : s.rel = 1
    · rw [if_pos h1]
      simp only [fbCalibrate, hkn, Bool.not_true, Bool.false_and, Bool.false_eq_true, if_false]
      have := C09.c09_pos_range_mono (P.mv false) { pos := s.pos, tilt := s.tilt, time := s.downT + dt } hk
      simp only [FbP.mv] at this ⊢
      refine ⟨this.1, this.2.1, fun h => by omega, fun _ => this.2.2.2 trivial⟩
    · rw [if_neg h1]
      exact ⟨hk.1, hk.2, fun h => absurd h h2, fun h => absurd h h1⟩

/-- **C10 (blinds: the newest request wins)** a request with a position or a tilt made while the blind is on its way
    always becomes the task -/
theorem c10_fb_request_replaces_running (P : FbP) (s : FbT) (g gt : Int) (h : s.tstate ≠ 0 ∨ s.rel ≠ 0)
    (hreq : ¬ ((if g > 100 then 100 else g) = -1 ∧ (if gt > 100 then 100 else gt) = -1)) :
    (fbAddTask P s g gt).tstate = 1 ∧ (fbAddTask P s g gt).dir = 0 := by
  unfold fbAddTask
  simp only
  have hidle : ¬ (s.tstate = 0 ∧ s.rel = 0) := by
    intro hh; rcases h with h | h
    · exact h hh.1
    · exact h hh.2
  rw [if_neg (by intro hh; rcases hh.2 with h1 | h1; exact hreq h1; exact hidle h1)]
  exact ⟨rfl, rfl⟩

theorem fbRelReq_frame (P : FbP) (s : FbT) (w : Nat) :
    (fbRelReq P s w).tstate = s.tstate ∧ (fbRelReq P s w).dir = s.dir := by
  unfold fbRelReq
  simp only
  split <;> split <;> exact ⟨rfl, rfl⟩

theorem fbRelOff_frame (s : FbT) :
    (fbRelOff s).tstate = s.tstate ∧ (fbRelOff s).dir = s.dir ∧ (fbRelOff s).rel = 0 ∧ (fbRelOff s).pend = 0 :=
  ⟨rfl, rfl, rfl, rfl⟩

/-- **C10 (blinds: the tilt phase ends at the target)** in the tilt phase, once the stored tilt has reached the requested one
    in the direction of travel, the callback switches both outputs off and the task is over -/
theorem c10_fb_tilt_reached_stops (P : FbP) (s : FbT) (hk : known s.pos = true) (h3 : s.tstate = 3)
    (hreach : (s.dir = 2 ∧ fbRawTilt s ≤ s.ttarget * 100) ∨ (s.dir = 1 ∧ fbRawTilt s ≥ s.ttarget * 100)) :
    (fbTaskStep P s).rel = 0 ∧ (fbTaskStep P s).tstate = 0 ∧ (fbTaskStep P s).pend = 0 := by
  unfold fbTaskStep
  rw [if_neg (by rw [h3]; decide)]
  simp only [hk, Bool.not_true, Bool.false_eq_true, if_false]
  have e1 : ∀ tp a, fbS1 P s tp a = s := by
    intro tp a; unfold fbS1; rw [if_neg (by rw [h3]; decide)]
  have e2 : ∀ rt tt, fbS2 P s rt tt = s := by
    intro rt tt; unfold fbS2; rw [if_neg (by rw [h3]; intro h; cases h.1)]
  have e3 : ∀ a b c d e, fbS3 P s a b c d e = s := by
    intro a b c d e; unfold fbS3; rw [if_neg (by rw [h3]; intro h; cases h.1)]
  rw [e1, e2, e3]
  unfold fbS4
  rw [if_pos ⟨h3, hreach⟩]
  exact ⟨rfl, rfl, rfl⟩

/-- **C10 (blinds: from the position phase to the tilt phase)** when the position phase is over (direction none) the next
    callback either starts the tilt phase towards the requested tilt or, if nothing is left to do, ends the task with
    both outputs off -/
theorem c10_fb_position_phase_hands_over (P : FbP) (s : FbT) (hk : known s.pos = true) (h2 : s.tstate = 2) (hd : s.dir = 0) :
    ((fbTaskStep P s).tstate = 3 ∧ (fbTaskStep P s).dir ≠ 0) ∨
    ((fbTaskStep P s).tstate = 0 ∧ (fbTaskStep P s).rel = 0) := by
  unfold fbTaskStep
  rw [if_neg (by rw [h2]; decide)]
  simp only [hk, Bool.not_true, Bool.false_eq_true, if_false]
  have e1 : ∀ tp a, fbS1 P s tp a = s := by
    intro tp a; unfold fbS1; rw [if_neg (by rw [h2]; decide)]
  rw [e1]
  generalize (fbPreTilt P s ((s.pos : Int) - 100) (fbRawTilt s) (s.target * 100) (s.ttarget * 100)) = pre
  unfold fbS2
  rw [if_pos ⟨h2, hd⟩]
  by_cases ha : fbRawTilt s > s.ttarget * 100 ∧ s.ttarget * 100 ≠ -100
  · left
    rw [if_pos ha]
    obtain ⟨f1, f2⟩ := fbRelReq_frame P { s with tstate := 3, dir := 2 } 2
    generalize fbRelReq P { s with tstate := 3, dir := 2 } 2 = r at f1 f2
    simp only at f1 f2
    have e3 : fbS3 P r ((s.pos : Int) - 100) (fbRawTilt s) (s.target * 100) pre.2.1 pre.2.2 = r := by
      unfold fbS3; rw [if_neg (by rw [f1]; intro h; cases h.1)]
    rw [e3]
    unfold fbS4
    have : ¬ (r.tstate = 3 ∧ ((r.dir = 2 ∧ fbRawTilt s ≤ s.ttarget * 100) ∨ (r.dir = 1 ∧ fbRawTilt s ≥ s.ttarget * 100))) := by
      rw [f2]; intro h; rcases h.2 with h' | h'
      · omega
      · cases h'.1
    rw [if_neg this]
    exact ⟨f1, by rw [f2]; decide⟩
  · rw [if_neg ha]
    by_cases hb : fbRawTilt s < s.ttarget * 100 ∧ s.ttarget * 100 ≠ -100
    · left
      rw [if_pos hb]
      obtain ⟨f1, f2⟩ := fbRelReq_frame P { s with tstate := 3, dir := 1 } 1
      generalize fbRelReq P { s with tstate := 3, dir := 1 } 1 = r at f1 f2
      simp only at f1 f2
      have e3 : fbS3 P r ((s.pos : Int) - 100) (fbRawTilt s) (s.target * 100) pre.2.1 pre.2.2 = r := by
        unfold fbS3; rw [if_neg (by rw [f1]; intro h; cases h.1)]
      rw [e3]
      unfold fbS4
      have : ¬ (r.tstate = 3 ∧ ((r.dir = 2 ∧ fbRawTilt s ≤ s.ttarget * 100) ∨ (r.dir = 1 ∧ fbRawTilt s ≥ s.ttarget * 100))) := by
        rw [f2]; intro h; rcases h.2 with h' | h'
        · cases h'.1
        · omega
      rw [if_neg this]
      exact ⟨f1, by rw [f2]; decide⟩
    · right
      rw [if_neg hb]
      have e3 : ∀ r : FbT, r.tstate = 0 → fbS3 P r ((s.pos : Int) - 100) (fbRawTilt s) (s.target * 100) pre.2.1 pre.2.2 = r := by
        intro r hr; unfold fbS3; rw [if_neg (by rw [hr]; intro h; cases h.1)]
      have e4 : ∀ r : FbT, r.tstate = 0 → fbS4 r (fbRawTilt s) (s.ttarget * 100) = r := by
        intro r hr; unfold fbS4; rw [if_neg (by rw [hr]; intro h; cases h.1)]
      rw [e3 _ rfl, e4 _ rfl]
      exact ⟨rfl, rfl⟩

/-- **C10 (blinds: ten minutes)** the reporting block switches a blind off as soon as either run time exceeds ten minutes -/
theorem c10_fb_limit_off (s : FbT) (dt : Nat) (hc : s.comm + dt ≥ 200000)
    (hl : s.upT > 600000000 ∨ s.downT > 600000000) : (fbCommStep s dt).rel = 0 := by
  unfold fbCommStep
  rw [if_pos hc, if_pos hl]
  simp [fbRelOff]

/-- non-vacuity: mode 1 (position kept while tilting), 20 s travel, 2 s tilting, from 50 % / 0 %: a request for 50 % / 60 % runs
    the tilt phase only and ends with both outputs off at tilt 60 % -/
example :
    let P : FbP := { fo := 20000, fc := 20000, margin := 110, inMove := false, ttype := 1, tiltMs := 2000 }
    let s := fbRun P (fbAddTask P { pos := 5100, tilt := 100 } 50 60) (List.replicate 140 10000)
    s.rel = 0 ∧ s.tstate = 0 ∧ s.tilt = 6100 ∧ s.pos = 5100 := by
  set_option maxRecDepth 100000 in decide

/-- the two timing constants of the task models are those of the source tree (regenerated): a start is postponed while
    `RS_START_DELAY - elapsed_ms + 1` exceeds the 100 ms threshold; one relay_hi takes 10 µs + RELAY_DOUBLE_TRY + 10 µs -/
theorem c10_gate_consts :
    startGate = (Gen.rsParams.startDelay - Gen.rsParams.thresh + 1) * 1000 ∧
    relayHiUs = Gen.rsParams.preUs + Gen.rsParams.dblUs + Gen.rsParams.postUs := by decide


/-! ### auto-calibration (Model/AutoCal) -/

/-- the run time the step looks at: steps 1 and 3 run up, step 2 runs down -/
def acTime (s : AcSt) (upT downT : Nat) : Nat := if s.step = 2 then downT else upT

/-- **C10.A1 (a step never outlasts the limit)** in every calibration step, whatever the motor sensor says, the call made
    once the run time of the step's direction is beyond the limit acts: a sensor reporting movement for ever fails the
    calibration (times zeroed, failure flag, motor off with the task cancelled); a sensor reporting standstill ends the step -/
theorem c10_ac_step_acts_after_max (P : AcParams) (hfm : P.filterMs ≤ P.maxMs) (s : AcSt) (upT downT : Nat) (mv : Bool)
    (hs : 1 ≤ s.step ∧ s.step ≤ 3) (ht : P.maxMs * 1000 < acTime s upT downT) :
    (acStep P s upT downT mv).2.1 ≠ .none ∧
    (mv = true → (acStep P s upT downT mv).2.1 = .failed ∧ (acStep P s upT downT mv).1 = s.failNow) := by
  have hf : ¬ (upT < P.filterMs * 1000 ∧ downT < P.filterMs * 1000) := by
    unfold acTime at ht
    have : P.filterMs * 1000 ≤ P.maxMs * 1000 := Nat.mul_le_mul_right _ hfm
    split at ht <;> omega
  unfold acStep
  rw [if_neg (by omega), if_neg hf]
  unfold acTime at ht
  by_cases h1 : s.step = 1
  · rw [if_pos h1]; rw [if_neg (by omega)] at ht
    cases mv
    · simp
    · simp [ht]
  · rw [if_neg h1]
    by_cases h2 : s.step = 2
    · rw [if_pos h2]; rw [if_pos h2] at ht
      cases mv
      · simp only [Bool.not_false, if_true]
        split <;> simp
      · simp [ht]
    · rw [if_neg h2]
      have h3 : s.step = 3 := by omega
      rw [if_pos h3]; rw [if_neg h2] at ht
      cases mv
      · simp only [Bool.not_false, if_true]
        split <;> simp
      · simp [ht]

/-- stored times are plausible while they matter: in step 3 the closing time is at least the minimum, and a finished
    calibration has both times at least the minimum -/
def AcInv (P : AcParams) (s : AcSt) : Prop :=
  (s.step = 3 → P.minMs ≤ s.closing) ∧ (s.done = true → P.minMs ≤ s.closing ∧ P.minMs ≤ s.opening)

theorem acInv_fail (P : AcParams) (s : AcSt) : AcInv P s.failNow :=
  ⟨fun h => by simp [AcSt.failNow] at h, fun h => by simp [AcSt.failNow] at h⟩

/-- **C10.A2 (plausible times or failure)** the invariant is kept by every call, for every run time and sensor reading -/
theorem c10_ac_inv_step (P : AcParams) (s : AcSt) (upT downT : Nat) (mv : Bool) (hi : AcInv P s)
    (hnd : 1 ≤ s.step → s.done = false) :
    AcInv P (acStep P s upT downT mv).1 := by
  obtain ⟨i1, i2⟩ := hi
  unfold acStep
  by_cases h0 : s.step = 0
  · rw [if_pos h0]; exact ⟨i1, i2⟩
  · rw [if_neg h0]
    have hdn : s.done = false := hnd (by omega)
    by_cases hf : upT < P.filterMs * 1000 ∧ downT < P.filterMs * 1000
    · rw [if_pos hf]; exact ⟨i1, i2⟩
    · rw [if_neg hf]
      by_cases h1 : s.step = 1
      · rw [if_pos h1]
        cases mv
        · simp only [Bool.not_false, if_true]
          exact ⟨fun h => by simp at h, fun h => by simp [hdn] at h⟩
        · simp only [Bool.not_true, Bool.false_eq_true, if_false]
          split
          · exact acInv_fail P s
          · exact ⟨i1, i2⟩
      · rw [if_neg h1]
        by_cases h2 : s.step = 2
        · rw [if_pos h2]
          cases mv
          · simp only [Bool.not_false, if_true]
            by_cases hm : downT < P.minMs * 1000
            · rw [if_pos hm]; exact acInv_fail P s
            · rw [if_neg hm]
              refine ⟨fun _ => ?_, fun h => by simp [hdn] at h⟩
              show P.minMs ≤ downT / 1000
              exact (Nat.le_div_iff_mul_le (by decide)).mpr (by omega)
          · simp only [Bool.not_true, Bool.false_eq_true, if_false]
            split
            · exact acInv_fail P s
            · exact ⟨i1, i2⟩
        · rw [if_neg h2]
          by_cases h3 : s.step = 3
          · rw [if_pos h3]
            cases mv
            · simp only [Bool.not_false, if_true]
              by_cases hm : upT < P.minMs * 1000
              · rw [if_pos hm]; exact acInv_fail P s
              · rw [if_neg hm]
                refine ⟨fun h => by simp at h, fun _ => ⟨i1 h3, ?_⟩⟩
                show P.minMs ≤ upT / 1000
                exact (Nat.le_div_iff_mul_le (by decide)).mpr (by omega)
            · simp only [Bool.not_true, Bool.false_eq_true, if_false]
              split
              · exact acInv_fail P s
              · exact ⟨i1, i2⟩
          · rw [if_neg h3]; exact ⟨i1, i2⟩

/-- **C10.A3 (success only from step 3 with a sufficient run)** a call finishes the calibration exactly when it is in step 3,
    the sensor reports standstill and the run up lasted at least the minimum; the stored opening time is that run -/
theorem c10_ac_success_iff (P : AcParams) (s : AcSt) (upT downT : Nat) (mv : Bool) (hnd : s.done = false) :
    (acStep P s upT downT mv).1.done = true ↔
      s.step = 3 ∧ mv = false ∧ P.minMs * 1000 ≤ upT ∧ ¬ (upT < P.filterMs * 1000 ∧ downT < P.filterMs * 1000) := by
  unfold acStep
  by_cases h0 : s.step = 0
  · rw [if_pos h0]; simp [hnd]; omega
  · rw [if_neg h0]
    by_cases hf : upT < P.filterMs * 1000 ∧ downT < P.filterMs * 1000
    · rw [if_pos hf]; simp [hnd]; intro _ _ _; exact hf
    · rw [if_neg hf]
      by_cases h1 : s.step = 1
      · rw [if_pos h1]
        cases mv
        · simp [hnd, h1]
        · simp only [Bool.not_true, Bool.false_eq_true, if_false]
          split <;> simp [hnd, AcSt.failNow]
      · rw [if_neg h1]
        by_cases h2 : s.step = 2
        · rw [if_pos h2]
          cases mv
          · simp only [Bool.not_false, if_true]
            split <;> simp [hnd, h2, AcSt.failNow]
          · simp only [Bool.not_true, Bool.false_eq_true, if_false]
            split <;> simp [hnd, AcSt.failNow]
        · rw [if_neg h2]
          by_cases h3 : s.step = 3
          · rw [if_pos h3]
            cases mv
            · simp only [Bool.not_false, if_true]
              by_cases hm : upT < P.minMs * 1000
              · rw [if_pos hm]; simp [AcSt.failNow]; omega
              · rw [if_neg hm]; simp [h3]; exact ⟨by omega, fun h => by omega⟩
            · simp only [Bool.not_true, Bool.false_eq_true, if_false]
              split <;> simp [hnd, AcSt.failNow]
          · rw [if_neg h3]; simp [hnd, h3]

/-- **C10.A4 (a sensor that never reports movement)** a run down in step 2 whose callbacks come at most `minMs - filterMs`
    apart, with the sensor always reporting standstill, ends in failure as soon as the filter time has passed - the motor does
    not stay on: the action that ends the run is never a relay request, and it is the failure once the samples reach the filter -/
theorem c10_ac_never_moving_fails (P : AcParams) (hmf : P.filterMs ≤ P.minMs) (s : AcSt) (hs : s.step = 2) :
    ∀ (dts : List (Nat × Bool)) (t0 : Nat), t0 < P.filterMs * 1000 →
      (∀ d ∈ dts, d.2 = false ∧ d.1 ≤ (P.minMs - P.filterMs) * 1000) →
      ((acRun P false s t0 dts).2.1 = .failed ∧ (acRun P false s t0 dts).1 = s.failNow) ∨
      ((acRun P false s t0 dts).2.1 = .none ∧ (acRun P false s t0 dts).2.2 < P.filterMs * 1000) := by
  intro dts
  induction dts with
  | nil => intro t0 h0 _; right; exact ⟨rfl, h0⟩
  | cons d rest ih =>
    intro t0 h0 hd
    obtain ⟨hmv, hdt⟩ := hd d (by simp)
    obtain ⟨dt, mv⟩ := d
    simp only at hmv hdt
    subst hmv
    unfold acRun
    simp only [Bool.false_eq_true, if_false]
    by_cases hf : t0 + dt < P.filterMs * 1000
    · have e : acStep P s 0 (t0 + dt) false = (s, .none, false) := by
        unfold acStep
        rw [if_neg (by omega), if_pos ⟨by omega, hf⟩]
      rw [e]
      simp only [if_true]
      exact ih (t0 + dt) hf (fun x hx => hd x (by simp [hx]))
    · have hlt : t0 + dt < P.minMs * 1000 := by
        have : (P.minMs - P.filterMs) * 1000 = P.minMs * 1000 - P.filterMs * 1000 := Nat.sub_mul _ _ _
        have : P.filterMs * 1000 ≤ P.minMs * 1000 := Nat.mul_le_mul_right _ hmf
        omega
      have e : acStep P s 0 (t0 + dt) false = (s.failNow, .failed, false) := by
        unfold acStep
        rw [if_neg (by omega), if_neg (by omega), if_neg (by omega), if_pos hs]
        simp [hlt]
      rw [e]
      left
      simp

/-- the constants of /repo: filter 300 ms <= minimum 500 ms <= limit 590 s, below the general ten-minute cut-off -/
theorem c10_ac_consts : Gen.acParams.filterMs ≤ Gen.acParams.minMs ∧ Gen.acParams.minMs ≤ Gen.acParams.maxMs ∧
    Gen.acParams.maxMs * 1000 < 600 * 1000 * 1000 := by decide

/- non-vacuity: a complete calibration: step 1 ends at standstill, step 2 measures 17.5 s, step 3 measures 16 s -/
example : (acStep Gen.acParams { step := 1, closing := 0, opening := 0 } 5000000 0 false) =
    ({ step := 2, closing := 0, opening := 0 }, .relay 1, false) := by decide
example : (acStep Gen.acParams { step := 2, closing := 0, opening := 0 } 0 17500000 false) =
    ({ step := 3, closing := 17500, opening := 0 }, .relay 2, true) := by decide
example : (acStep Gen.acParams { step := 3, closing := 17500, opening := 0 } 16000000 0 false) =
    ({ step := 0, closing := 17500, opening := 16000, done := true }, .relay 0, true) := by decide
example : (acStep Gen.acParams { step := 3, closing := 17500, opening := 0 } 590000001 0 true).2.1 = .failed := by decide

end SuplaVerif.C10
