/- Props/C10 — placeholder while the harness is being explored (no theorem yet) -/
namespace SuplaVerif.C10
end SuplaVerif.C10
