/-
  Props/C13 — stored config round-trips; identity survives resets, migration, failed saves.

  Theorems about the save/accept pair over NOR flash, for every record content, every old sector
  content and every outcome of the erase and the write: a save reported as successful leaves
  exactly the submitted record in flash (so the next boot loads exactly it); a blank sector is
  never accepted; a save that fails after the erase leaves a blank (rejected) sector.  Migrations,
  factory reset and power loss inside the write are exercised on the implementation
  (tools/props/c13.py).
-/
import SuplaVerif.Model.CfgStore
import SuplaVerif.Gen.Consts

namespace SuplaVerif.C13
open Bytes

theorem and_ff (b : UInt8) : (0xFF : UInt8) &&& b = b := by
  apply UInt8.toBitVec_inj.mp
  simp only [UInt8.toBitVec_and]
  have : (0xFF : UInt8).toBitVec = BitVec.allOnes 8 := by decide
  rw [this, BitVec.allOnes_and]

/-- writing to an erased sector stores the data itself -/
theorem norWrite_erased (rec : Bytes) : norWrite (erased rec.length) rec = rec := by
  unfold norWrite erased
  induction rec with
  | nil => rfl
  | cons x xs ih =>
    simp only [List.length_cons, List.replicate_succ, List.zipWith_cons_cons]
    rw [and_ff, ih]

/-- **C13.1 (round trip)** a save reported as successful means both operations succeeded and the
    sector holds exactly the record — whatever it held before. -/
theorem c13_save_success_stores_record (L : CfgLayout) (sector rec : Bytes) (e w : FlashOutcome)
    (hlen : rec.length = L.recLen) (h : (cfgSave L sector rec e w).1 = true) :
    e = .ok ∧ w = .ok ∧ (cfgSave L sector rec e w).2 = rec := by
  unfold cfgSave at h ⊢
  cases e <;> cases w <;> simp at h ⊢
  rw [← hlen]; exact norWrite_erased rec

/-- **C13.2 (no merged record)** if the erase does not succeed nothing is written: the sector is
    either untouched or blank — never the AND-merge of old and new (the defect F8) -/
theorem c13_failed_erase_no_merge (L : CfgLayout) (sector rec : Bytes) (e w : FlashOutcome) (he : e ≠ .ok) :
    (cfgSave L sector rec e w).1 = false ∧
    ((cfgSave L sector rec e w).2 = sector ∨ (cfgSave L sector rec e w).2 = erased L.recLen) := by
  unfold cfgSave
  cases e <;> simp at he ⊢

/-- **C13.3 (blank is rejected)** an erased sector is never accepted as a configuration -/
theorem c13_blank_rejected (L : CfgLayout) (_ht : L.tag.length = 6) (hnb : L.tag ≠ erased 6) (hr : 6 ≤ L.recLen) :
    cfgAccept L (erased L.recLen) = false := by
  unfold cfgAccept
  have : (erased L.recLen).take 6 = erased 6 := by
    unfold erased; rw [List.take_replicate]; congr 1; omega
  rw [this]
  have hne : (erased 6 == L.tag) = false := by
    apply beq_false_of_ne; exact fun h => hnb h.symm
  simp [hne]

/-- **C13.4 (failed save after erase ⇒ defaults)** if the erase succeeded and the write had no
    effect, the sector is blank: the next boot rejects it and generates fresh defaults -/
theorem c13_failed_write_leaves_blank (L : CfgLayout) (sector rec : Bytes) :
    cfgSave L sector rec .ok .failNoEffect = (false, erased L.recLen) := by
  unfold cfgSave; simp

/-- **C13.5 (zero identity rejected)** a record with the right TAG but an all-zero AuthKey or
    GUID is not accepted -/
theorem c13_zero_identity_rejected (L : CfgLayout) (s : Bytes)
    (h : allZero ((s.drop 6).take L.guidLen) = true ∨ allZero ((s.drop (6 + L.guidLen)).take L.authLen) = true) :
    cfgAccept L s = false := by
  unfold cfgAccept
  rcases h with h | h <;> simp [h]

/-- constants of the source tree -/
theorem c13_layout : Gen.cfgLayout.tag = [83, 85, 80, 76, 65, 7] ∧ Gen.cfgLayout.guidLen = 16 ∧
    Gen.cfgLayout.authLen = 16 ∧ 38 ≤ Gen.cfgLayout.recLen := by decide

theorem c13_blank_rejected_repo : cfgAccept Gen.cfgLayout (erased Gen.cfgLayout.recLen) = false :=
  c13_blank_rejected Gen.cfgLayout (by decide) (by decide) (by decide)

/-- **C13 (RAM follows flash)** the configuration in RAM is replaced by a submitted one only if the save
    succeeded: with the copy guarded as it is in /repo (translator fact `Gen.formCommitGuarded`), for every
    old sector content, every submitted record and every outcome of the erase and the write, a save that is
    not reported successful leaves the configuration in RAM as it was; a successful one makes RAM and flash
    hold the same record. -/
theorem c13_repo_commit_guarded : Gen.formCommitGuarded = true := by decide

theorem c13_ram_only_if_saved (L : CfgLayout) (sector ram new : Bytes) (e w : FlashOutcome)
    (hfail : (cfgSave L sector new e w).1 = false) :
    formCommit Gen.formCommitGuarded ram new (cfgSave L sector new e w).1 = ram := by
  rw [c13_repo_commit_guarded, hfail]; rfl

theorem c13_ram_equals_flash_after_save (L : CfgLayout) (sector ram new : Bytes) (e w : FlashOutcome)
    (hlen : new.length = L.recLen) (hok : (cfgSave L sector new e w).1 = true) :
    formCommit Gen.formCommitGuarded ram new (cfgSave L sector new e w).1 = (cfgSave L sector new e w).2 := by
  rw [c13_repo_commit_guarded, hok]
  have := c13_save_success_stores_record L sector new e w hlen hok
  simp only [formCommit, if_true]
  exact this.2.2.symm

end SuplaVerif.C13
