/-
  Props/C13 — stored config round-trips; identity survives resets, migration, failed saves.

  Theorems about the save/accept pair over NOR flash, for every record content, every old sector
  content and every outcome of the erase and the write: a save reported as successful leaves
  exactly the submitted record in flash (so the next boot loads exactly it); a blank sector is
  never accepted; a save that fails after the erase leaves a blank (rejected) sector.  Migrations,
  factory reset and power loss inside the write are exercised on the implementation
  (tools/props/c13.py).
-/
import SuplaVerif.Model.CfgStore
import SuplaVerif.Model.Migrate
import SuplaVerif.Gen.MigrateTable
import SuplaVerif.Gen.Consts

namespace SuplaVerif.C13
open Bytes

theorem and_ff (b : UInt8) : (0xFF : UInt8) &&& b = b := by
  apply UInt8.toBitVec_inj.mp
  simp only [UInt8.toBitVec_and]
  have : (0xFF : UInt8).toBitVec = BitVec.allOnes 8 := by decide
  rw [this, BitVec.allOnes_and]

/-- writing to an erased sector stores the data itself -/
theorem norWrite_erased (rec : Bytes) : norWrite (erased rec.length) rec = rec := by
  unfold norWrite erased
  induction rec with
  | nil => rfl
  | cons x xs ih =>
    simp only [List.length_cons, List.replicate_succ, List.zipWith_cons_cons]
    rw [and_ff, ih]

/-- **C13.1 (round trip)** a save reported as successful means both operations succeeded and the
    sector holds exactly the record — whatever it held before. -/
theorem c13_save_success_stores_record (L : CfgLayout) (sector rec : Bytes) (e w : FlashOutcome)
    (hlen : rec.length = L.recLen) (h : (cfgSave L sector rec e w).1 = true) :
    e = .ok ∧ w = .ok ∧ (cfgSave L sector rec e w).2 = rec := by
  unfold cfgSave at h ⊢
  cases e <;> cases w <;> simp at h ⊢
  rw [← hlen]; exact norWrite_erased rec

/-- **C13.2 (no merged record)** if the erase does not succeed nothing is written: the sector is
    either untouched or blank — never the AND-merge of old and new (the defect F8) -/
theorem c13_failed_erase_no_merge (L : CfgLayout) (sector rec : Bytes) (e w : FlashOutcome) (he : e ≠ .ok) :
    (cfgSave L sector rec e w).1 = false ∧
    ((cfgSave L sector rec e w).2 = sector ∨ (cfgSave L sector rec e w).2 = erased L.recLen) := by
  unfold cfgSave
  cases e <;> simp at he ⊢

/-- **C13.3 (blank is rejected)** an erased sector is never accepted as a configuration -/
theorem c13_blank_rejected (L : CfgLayout) (_ht : L.tag.length = 6) (hnb : L.tag ≠ erased 6) (hr : 6 ≤ L.recLen) :
    cfgAccept L (erased L.recLen) = false := by
  unfold cfgAccept
  have : (erased L.recLen).take 6 = erased 6 := by
    unfold erased; rw [List.take_replicate]; congr 1; omega
  rw [this]
  have hne : (erased 6 == L.tag) = false := by
    apply beq_false_of_ne; exact fun h => hnb h.symm
  simp [hne]

/-- **C13.4 (failed save after erase ⇒ defaults)** if the erase succeeded and the write had no
    effect, the sector is blank: the next boot rejects it and generates fresh defaults -/
theorem c13_failed_write_leaves_blank (L : CfgLayout) (sector rec : Bytes) :
    cfgSave L sector rec .ok .failNoEffect = (false, erased L.recLen) := by
  unfold cfgSave; simp

/-- **C13.5 (zero identity rejected)** a record with the right TAG but an all-zero AuthKey or
    GUID is not accepted -/
theorem c13_zero_identity_rejected (L : CfgLayout) (s : Bytes)
    (h : allZero ((s.drop 6).take L.guidLen) = true ∨ allZero ((s.drop (6 + L.guidLen)).take L.authLen) = true) :
    cfgAccept L s = false := by
  unfold cfgAccept
  rcases h with h | h <;> simp [h]

/-- **C13.5b (foreign tag rejected)** a sector whose first six bytes differ from the current tag in any byte - the
    layout-version byte included - is not accepted as the current layout, whatever identity follows -/
theorem c13_foreign_tag_rejected (L : CfgLayout) (s : Bytes) (h : s.take 6 ≠ L.tag) : cfgAccept L s = false := by
  unfold cfgAccept
  have : (s.take 6 == L.tag) = false := beq_false_of_ne h
  simp [this]

/-- non-vacuity of C13.5b with the repository's layout: 'SUPLA' followed by the unknown version 8 and a non-zero identity -/
example : cfgAccept Gen.cfgLayout ([83, 85, 80, 76, 65, 8] ++ List.replicate 40 1) = false := by decide

/-- constants of the source tree -/
theorem c13_layout : Gen.cfgLayout.tag = [83, 85, 80, 76, 65, 7] ∧ Gen.cfgLayout.guidLen = 16 ∧
    Gen.cfgLayout.authLen = 16 ∧ 38 ≤ Gen.cfgLayout.recLen := by decide

theorem c13_blank_rejected_repo : cfgAccept Gen.cfgLayout (erased Gen.cfgLayout.recLen) = false :=
  c13_blank_rejected Gen.cfgLayout (by decide) (by decide) (by decide)

/-- **C13 (RAM follows flash)** the configuration in RAM is replaced by a submitted one only if the save
    succeeded: with the copy guarded as it is in /repo (translator fact `Gen.formCommitGuarded`), for every
    old sector content, every submitted record and every outcome of the erase and the write, a save that is
    not reported successful leaves the configuration in RAM as it was; a successful one makes RAM and flash
    hold the same record. -/
theorem c13_repo_commit_guarded : Gen.formCommitGuarded = true := by decide

theorem c13_ram_only_if_saved (L : CfgLayout) (sector ram new : Bytes) (e w : FlashOutcome)
    (hfail : (cfgSave L sector new e w).1 = false) :
    formCommit Gen.formCommitGuarded ram new (cfgSave L sector new e w).1 = ram := by
  rw [c13_repo_commit_guarded, hfail]; rfl

theorem c13_ram_equals_flash_after_save (L : CfgLayout) (sector ram new : Bytes) (e w : FlashOutcome)
    (hlen : new.length = L.recLen) (hok : (cfgSave L sector new e w).1 = true) :
    formCommit Gen.formCommitGuarded ram new (cfgSave L sector new e w).1 = (cfgSave L sector new e w).2 := by
  rw [c13_repo_commit_guarded, hok]
  have := c13_save_success_stores_record L sector new e w hlen hok
  simp only [formCommit, if_true]
  exact this.2.2.symm


/-! ### migration 5 -> 6 -> 7 (Model/Migrate, table regenerated from supla_esp_cfg_init) -/

theorem applyCopies_untouched (A B : Rec) (cs : List FieldCopy) (f : String) (h : cs.filter (fun c => c.dst == f) = []) :
    ∀ r : Rec, applyCopies A B cs r f = r f := by
  induction cs with
  | nil => intro r; rfl
  | cons c cs ih =>
    intro r
    have hc : (c.dst == f) = false := by
      cases hx : (c.dst == f)
      · rfl
      · simp [List.filter, hx] at h
    have hrest : cs.filter (fun c => c.dst == f) = [] := by simpa [List.filter, hc] using h
    unfold applyCopies
    rw [ih hrest]
    have : f ≠ c.dst := fun e => by rw [e] at hc; simp at hc
    simp [this]

/-- a destination written by exactly one copy holds the copied part of the source field -/
theorem applyCopies_sole (A B : Rec) (cs : List FieldCopy) (f : String) (c : FieldCopy) (h : soleCopy cs f = some c) :
    ∀ r : Rec, applyCopies A B cs r f = ((if c.src = 0 then A else B) c.fld).take c.len ++ (r f).drop c.len := by
  induction cs with
  | nil => simp [soleCopy] at h
  | cons d ds ih =>
    intro r
    unfold soleCopy at h
    cases hd : (d.dst == f)
    · have e : (d :: ds).filter (fun c => c.dst == f) = ds.filter (fun c => c.dst == f) := by simp [List.filter, hd]
      rw [e] at h
      unfold applyCopies
      rw [ih (by unfold soleCopy; exact h)]
      have : f ≠ d.dst := fun e => by rw [e] at hd; simp at hd
      simp [this]
    · have e : (d :: ds).filter (fun c => c.dst == f) = d :: ds.filter (fun c => c.dst == f) := by simp [List.filter, hd]
      rw [e] at h
      cases hr : ds.filter (fun c => c.dst == f) with
      | nil =>
        rw [hr] at h
        simp only [Option.some.injEq] at h
        subst h
        unfold applyCopies
        rw [applyCopies_untouched A B ds f hr]
        have : f = d.dst := ((by simpa using hd : d.dst = f)).symm
        simp [this]
      | cons x xs => rw [hr] at h; cases h

/-- a field copied whole arrives unchanged (the new record starts zeroed / empty) -/
theorem whole_copy (A B : Rec) (cs : List FieldCopy) (dst : String) (src : Nat) (fld : String) (n : Nat)
    (h : wholeFrom cs dst src fld n = true) (hl : ((if src = 0 then A else B) fld).length = n) :
    applyCopies A B cs (fun _ => []) dst = (if src = 0 then A else B) fld := by
  unfold wholeFrom at h
  cases hs : soleCopy cs dst with
  | none => rw [hs] at h; cases h
  | some c =>
    rw [hs] at h
    simp only [Bool.and_eq_true, beq_iff_eq] at h
    obtain ⟨⟨⟨⟨h1, h2⟩, h3⟩, _⟩, _⟩ := h
    rw [applyCopies_sole A B cs dst c hs]
    simp only [List.drop_nil, List.append_nil]
    rw [h1, h2, h3, ← hl]
    exact List.take_length

/-- **C13.M1 (what the 5 -> 6 migration of /repo keeps)** with the copy lists regenerated from supla_esp_cfg_init: in both
    branches GUID, server, Wi-Fi name and password come whole from the sector read as layout 5B (the leading fields of both
    old layouts coincide); AuthKey, e-mail and the first two values of each timing array come whole from the layout the
    branch stands for (5A: FullOpeningTime / FullClosingTime are what later layouts call Time1 / Time2) -/
theorem c13_migration_table :
    (∀ useA : Bool,
      let cs := Gen.migCommon ++ (if useA then Gen.migA else Gen.migB)
      wholeFrom cs "GUID" 1 "GUID" (copiedLen cs "GUID") = true ∧
      wholeFrom cs "Server" 1 "Server" (copiedLen cs "Server") = true ∧
      wholeFrom cs "WIFI_SSID" 1 "WIFI_SSID" (copiedLen cs "WIFI_SSID") = true ∧
      wholeFrom cs "WIFI_PWD" 1 "WIFI_PWD" (copiedLen cs "WIFI_PWD") = true ∧
      wholeFrom cs "AuthKey" (if useA then 0 else 1) "AuthKey" (copiedLen cs "AuthKey") = true ∧
      wholeFrom cs "Email" (if useA then 0 else 1) "Email" (copiedLen cs "Email") = true ∧
      wholeFrom cs "Time1" (if useA then 0 else 1) (if useA then "FullOpeningTime" else "Time1") (copiedLen cs "Time1") = true ∧
      wholeFrom cs "Time2" (if useA then 0 else 1) (if useA then "FullClosingTime" else "Time2") (copiedLen cs "Time2") = true) ∧
    Gen.mig67Kept = ["Time1[0]", "Time1[1]", "Time2[0]", "Time2[1]"] ∧
    (∀ z ∈ Gen.mig67Zeroed, z = "Time1" ∨ z = "Time2") := by decide

/-- **C13.M2 (identity survives the migration)** for every old sector content: the migrated record carries the GUID of the
    sector and the AuthKey of the layout chosen -/
theorem c13_migration_keeps_identity (A B : Rec) (useA : Bool)
    (hg : (B "GUID").length = copiedLen (Gen.migCommon ++ (if useA then Gen.migA else Gen.migB)) "GUID")
    (ha : ((if useA then A else B) "AuthKey").length = copiedLen (Gen.migCommon ++ (if useA then Gen.migA else Gen.migB)) "AuthKey") :
    migrate56 Gen.migCommon Gen.migA Gen.migB useA A B "GUID" = B "GUID" ∧
    migrate56 Gen.migCommon Gen.migA Gen.migB useA A B "AuthKey" = (if useA then A else B) "AuthKey" := by
  have t := c13_migration_table.1 useA
  simp only at t
  unfold migrate56
  refine ⟨?_, ?_⟩
  · have := whole_copy A B _ "GUID" 1 "GUID" _ t.1 (by simpa using hg)
    simpa using this
  · cases useA
    · have := whole_copy A B _ "AuthKey" 1 "AuthKey" _ t.2.2.2.2.1 (by simpa using ha)
      simpa using this
    · have := whole_copy A B _ "AuthKey" 0 "AuthKey" _ t.2.2.2.2.1 (by simpa using ha)
      simpa using this

/-- **C13.F1 (a factory reset keeps the identity)** in the regenerated list of what factory_defaults puts aside before zeroing the
    record and puts back afterwards, GUID, AuthKey and the tag are there with their whole field lengths -/
theorem c13_factory_keeps_identity :
    ("GUID", Gen.cfgLayout.guidLen, Gen.cfgLayout.guidLen) ∈ Gen.factoryKept ∧
    (∃ n, ("AuthKey", n, n) ∈ Gen.factoryKept ∧ 0 < n) ∧ ("TAG", 6, 6) ∈ Gen.factoryKept := by
  refine ⟨by decide, ⟨16, by decide, by decide⟩, by decide⟩

end SuplaVerif.C13
