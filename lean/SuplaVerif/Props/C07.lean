/-
  Props/C07 — countdown and staircase timers fire once, on time, and survive a reboot.

  Theorems about the remaining-time bookkeeping and the adaptive period (every duration, every
  sequence of callback instants): the switch-back fires at the first callback at or after the
  duration and not before, exactly once; the published remaining time never increases; and the
  period rule bounds the lateness by the minimum period.  Cancellation by newer commands,
  sharing of the timer between channels and restore after reboot are checked on the
  implementation (tools/props/c07.py).
-/
import SuplaVerif.Model.Countdown
import SuplaVerif.Model.Relay
import SuplaVerif.Gen.Consts

namespace SuplaVerif.C07

/-- run the callback at the given (non-decreasing) instants; returns the item and the instant
    at which it finished, if it did -/
def runTicks (i : CdItem) : List Nat → CdItem × Option Nat
  | [] => (i, none)
  | t :: ts =>
    match i.tick t with
    | (i', true) => (i', some t)
    | (i', false) => runTicks i' ts

/-- **C07.1a (bookkeeping invariant)** while an item runs, remaining + elapsed = duration -/
theorem c07_tick_invariant (i : CdItem) (now t0 d : Nat) (hrun : i.channel ≠ 255) (hl : 0 < i.left)
    (hinv : i.left + (i.last - t0) = d) (ht0 : t0 ≤ i.last) (hnow : i.last ≤ now) :
    ((i.tick now).2 = true ∧ d ≤ now - t0) ∨
    ((i.tick now).2 = false ∧ (i.tick now).1.channel ≠ 255 ∧ 0 < (i.tick now).1.left ∧
      (i.tick now).1.left + ((i.tick now).1.last - t0) = d ∧ now - t0 < d ∧ (i.tick now).1.last = now) := by
  unfold CdItem.tick
  rw [if_pos ⟨hrun, hl⟩]
  by_cases h : now - i.last ≥ i.left
  · rw [if_pos h]; left; simp; omega
  · rw [if_neg h]; right; simp; omega

/-- **C07.1b (never early, exactly at the first callback at/after d)** for every duration, start
    instant and non-decreasing callback instants: if the item finishes at `tf`, then `d ≤ tf - t0`
    and every earlier callback was before `t0 + d`. -/
theorem c07_not_early (ts : List Nat) (i : CdItem) (t0 d : Nat) (hrun : i.channel ≠ 255) (hl : 0 < i.left)
    (hinv : i.left + (i.last - t0) = d) (ht0 : t0 ≤ i.last)
    (hsorted : ∀ t ∈ ts, i.last ≤ t) (hchain : List.Pairwise (· ≤ ·) ts) (tf : Nat)
    (hf : (runTicks i ts).2 = some tf) : d ≤ tf - t0 ∧ tf ∈ ts := by
  induction ts generalizing i with
  | nil => simp [runTicks] at hf
  | cons t ts ih =>
    have hnow := hsorted t (by simp)
    rcases c07_tick_invariant i t t0 d hrun hl hinv ht0 hnow with ⟨h1, h2⟩ | ⟨h1, h2, h3, h4, h5, h6⟩
    · unfold runTicks at hf
      generalize hg : i.tick t = r at hf h1
      obtain ⟨i', b⟩ := r
      simp only at h1; subst h1
      simp only at hf
      injection hf with hf; subst hf
      exact ⟨h2, by simp⟩
    · unfold runTicks at hf
      generalize hg : i.tick t = r at hf h1 h2 h3 h4 h6
      obtain ⟨i', b⟩ := r
      simp only at h1 h2 h3 h4 h6; subst h1
      simp only at hf
      have hp := List.pairwise_cons.mp hchain
      have := ih i' h2 h3 h4 (by omega) (fun x hx => by rw [h6]; exact hp.1 x hx) hp.2 hf
      exact ⟨this.1, by simp [this.2]⟩

/-- **C07.1c (exactly once)** a finished item is free: no later callback fires it again -/
theorem c07_once (i : CdItem) (now : Nat) (h : (i.tick now).2 = true) (later : Nat) :
    ((i.tick now).1.tick later).2 = false := by
  have hfree : (i.tick now).1.channel = 255 := by
    unfold CdItem.tick at h ⊢
    by_cases h1 : i.channel ≠ 255 ∧ i.left > 0
    · rw [if_pos h1] at h ⊢
      by_cases h2 : now - i.last ≥ i.left
      · rw [if_pos h2]
      · rw [if_neg h2] at h; simp at h
    · rw [if_neg h1] at h; simp at h
  generalize (i.tick now).1 = j at hfree
  unfold CdItem.tick
  rw [if_neg (by simp [hfree])]

/-- **C07.3 (remaining time never increases)** -/
theorem c07_monotone (i : CdItem) (now : Nat) : (i.tick now).1.left ≤ i.left := by
  unfold CdItem.tick
  split
  · split <;> simp <;> omega
  · exact Nat.le_refl _

/-- **C07.1d (lateness bound from the period rule)** the period chosen for a remaining time `L`
    either does not overshoot (`period ≤ L`) or is the minimum period: so the callback that
    finishes the timer comes less than `minP` ms (plus scheduling jitter) after the duration. -/
theorem c07_period_overshoot (P : CdParams) (hd : 0 < P.div) (hmm : P.minP ≤ P.maxP) (L : Nat) :
    cdPeriod P L ≤ L ∨ cdPeriod P L = P.minP := by
  unfold cdPeriod
  split
  · right; rfl
  · split
    · left
      rename_i h1 h2
      have : L / P.div ≤ L := Nat.div_le_self _ _
      omega
    · left; exact Nat.div_le_self _ _

theorem c07_period_bounds (P : CdParams) (hmm : P.minP ≤ P.maxP) (L : Nat) :
    P.minP ≤ cdPeriod P L ∧ cdPeriod P L ≤ P.maxP := by
  unfold cdPeriod
  split
  · exact ⟨Nat.le_refl _, hmm⟩
  · split <;> omega

/-- constants of the source tree: 50 ms minimum period, so "no later than d + 100 ms" leaves
    50 ms for callback jitter -/
theorem c07_consts : Gen.cdParams.minP = 50 ∧ Gen.cdParams.maxP = 1000 ∧ Gen.cdParams.div = 10 := by decide

/-- non-vacuity: 120 ms from t0 = 1000 with callbacks every 50 ms: finishes at 1150 (≥ 1120) -/
example : (runTicks { channel := 3, left := 120, last := 1000 } [1050, 1100, 1150, 1200]).2 = some 1150 := by decide

/-! ### the published remaining time belongs to the channel's own timer -/

theorem tickAll_length (now : Nat) (items : List CdItem) : ∀ pub, (cdTickAll now items pub).2.length = pub.length := by
  induction items with
  | nil => intro pub; rfl
  | cons i is ih =>
    intro pub
    simp only [cdTickAll]
    rw [ih]
    split <;> simp

/-- **C07.4a** the callback leaves the published value of a channel alone unless a running item belongs to it -/
theorem c07_published_untouched (now : Nat) (items : List CdItem) (c : Nat) :
    ∀ pub, (∀ i ∈ items, i.running → i.channel ≠ c) → (cdTickAll now items pub).2.getD c 0 = pub.getD c 0 := by
  induction items with
  | nil => intro pub _; rfl
  | cons i is ih =>
    intro pub h
    simp only [cdTickAll]
    rw [ih _ (fun j hj => h j (by simp [hj]))]
    by_cases hr : i.running ∧ i.channel < pub.length
    · rw [if_pos hr]
      have hne := h i (by simp) hr.1
      simp [List.getD_eq_getElem?_getD, List.getElem?_set_ne hne]
    · rw [if_neg hr]

/-- **C07.4b (published = own timer)** if no two running items share a channel (`supla_esp_countdown_timer_countdown`
    reuses the item of the channel), then after the callback the published value of the channel of every running item
    is that item's new remaining time (0 once it finished) - whatever slot of the table the item occupies -/
theorem c07_published_is_own_timer (now : Nat) (items : List CdItem) :
    ∀ pub, List.Pairwise (fun a b => a.running → b.running → a.channel ≠ b.channel) items →
    ∀ i ∈ items, i.running → i.channel < pub.length →
      (cdTickAll now items pub).2.getD i.channel 0 = (i.tick now).1.left := by
  induction items with
  | nil => intro _ _ i hi; cases hi
  | cons j js ih =>
    intro pub hp i hi hr hc
    rw [List.pairwise_cons] at hp
    simp only [cdTickAll]
    rcases List.mem_cons.mp hi with rfl | hmem
    · -- the head item: it writes, nothing behind it touches the entry
      rw [c07_published_untouched now js i.channel _ (fun k hk hkr => (hp.1 k hk hr hkr).symm)]
      rw [if_pos ⟨hr, hc⟩]
      simp [List.getD_eq_getElem?_getD, hc]
    · apply ih _ hp.2 i hmem hr
      split <;> simp [hc]

/-! ### which timer a request starts (supla_esp_gpio_relay_set_duration_timer) -/

/-- **C07.5a (restore keeps the remaining time)** the call the restore branch makes - value as saved, duration = the saved
    remaining time, which is also what is published at that moment - starts a timer of exactly the saved remaining time that
    switches back, whether or not the channel has a staircase time and whatever the countdown capability -/
theorem c07_restore_keeps_remaining (time2 left : Nat) (f : Bool) (h : 0 < left) :
    let i : DurIn := { time2 := time2, newValue := 1, dur := left, left := left, cdFlag := f }
    i.eff = left ∧ i.arms = true ∧ i.target = 0 := by
  have he : ({ time2 := time2, newValue := 1, dur := left, left := left, cdFlag := f } : DurIn).eff = left := by
    unfold DurIn.eff
    by_cases ht : time2 > 0
    · rw [if_pos ht]
      simp only
      rw [if_neg (by decide), if_neg (by omega)]
    · rw [if_neg ht]
  refine ⟨he, ?_, by simp [DurIn.target]⟩
  unfold DurIn.arms
  rw [he]
  simp; omega

/-- **C07.5b (a relay restored as off, or a channel without the capability, starts nothing)** -/
theorem c07_off_without_capability_no_timer (i : DurIn) (h0 : i.newValue = 0) (hf : i.cdFlag = false) : i.arms = false := by
  simp [DurIn.arms, h0, hf]

/-- **C07.5c (staircase)** on a channel with a staircase time every switch-on that is not the restore call runs exactly the
    configured time, and a switch-off runs nothing -/
theorem c07_staircase (i : DurIn) (ht : 0 < i.time2) :
    (i.newValue = 0 → i.eff = 0 ∧ i.arms = false) ∧
    (i.newValue = 1 → (i.dur = 0 ∨ i.left ≠ i.dur) → i.eff = i.time2 ∧ i.arms = true ∧ i.target = 0) := by
  refine ⟨fun h0 => ?_, fun h1 hd => ?_⟩
  · simp [DurIn.eff, DurIn.arms, ht, h0]
  · have : i.eff = i.time2 := by
      unfold DurIn.eff
      rw [if_pos ht, if_neg (by omega), if_pos hd]
    refine ⟨this, ?_, by simp [DurIn.target, h1]⟩
    simp [DurIn.arms, this, h1]; omega

/-- **C07.5d (plain channel)** without a staircase time the timer runs the requested duration, and is started exactly for
    a positive duration on a switch-on or on a channel with the countdown capability -/
theorem c07_plain_duration (i : DurIn) (ht : i.time2 = 0) :
    i.eff = i.dur ∧ (i.arms = true ↔ 0 < i.dur ∧ (i.newValue = 1 ∨ i.cdFlag = true)) := by
  have : i.eff = i.dur := by unfold DurIn.eff; rw [if_neg (by omega)]
  refine ⟨this, ?_⟩
  simp [DurIn.arms, this]

/-! ### the relay state across a restart -/

/-- **C07 (what is remembered is the logical state)** for both polarities of the wiring and every request (on, off, toggle): a relay
    with a restore flag remembers the logical level the request produced, and writing that back at boot gives the same logical
    level and the same pin level as before the restart -/
theorem c07_restore_roundtrip (c : RelayCfg) (s : RelaySt) (hi : Nat) :
    relaySaved true (wantOf c s hi) = some ((relayHiReq c s hi).logical c) ∧
    (relayRestore c (wantOf c s hi)).logical c = (relayHiReq c s hi).logical c ∧
    (relayRestore c (wantOf c s hi)).out = (relayHiReq c s hi).out := by
  unfold relaySaved relayRestore relayHiReq RelaySt.logical
  cases c.loLevel <;> simp

/-- **C07 (which restart restores)** 'restore always' brings the remembered state back after every restart; the plain restore flag only
    after a power cycle - after any other restart such a relay is off (idle pin), whatever was remembered -/
theorem c07_restore_by_reason (c : RelayCfg) (plain : Bool) (reason : Nat) (saved : Bool) :
    logicalAfterBoot c true plain reason saved = saved ∧
    logicalAfterBoot c false true 0 saved = saved ∧
    (reason ≠ 0 → logicalAfterBoot c false plain reason saved = c.loLevel) := by
  unfold logicalAfterBoot restores relayRestore RelaySt.logical
  refine ⟨by cases c.loLevel <;> simp, by cases c.loLevel <;> simp, fun h => ?_⟩
  have : (reason == 0) = false := by simpa using h
  cases c.loLevel <;> simp [this]

end SuplaVerif.C07
