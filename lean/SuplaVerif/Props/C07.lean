/-
  Props/C07 — countdown and staircase timers fire once, on time, and survive a reboot.

  Theorems about the remaining-time bookkeeping and the adaptive period (every duration, every
  sequence of callback instants): the switch-back fires at the first callback at or after the
  duration and not before, exactly once; the published remaining time never increases; and the
  period rule bounds the lateness by the minimum period.  Cancellation by newer commands,
  sharing of the timer between channels and restore after reboot are checked on the
  implementation (tools/props/c07.py).
-/
import SuplaVerif.Model.Countdown
import SuplaVerif.Gen.Consts

namespace SuplaVerif.C07

/-- run the callback at the given (non-decreasing) instants; returns the item and the instant
    at which it finished, if it did -/
def runTicks (i : CdItem) : List Nat → CdItem × Option Nat
  | [] => (i, none)
  | t :: ts =>
    match i.tick t with
    | (i', true) => (i', some t)
    | (i', false) => runTicks i' ts

/-- **C07.1a (bookkeeping invariant)** while an item runs, remaining + elapsed = duration -/
theorem c07_tick_invariant (i : CdItem) (now t0 d : Nat) (hrun : i.channel ≠ 255) (hl : 0 < i.left)
    (hinv : i.left + (i.last - t0) = d) (ht0 : t0 ≤ i.last) (hnow : i.last ≤ now) :
    ((i.tick now).2 = true ∧ d ≤ now - t0) ∨
    ((i.tick now).2 = false ∧ (i.tick now).1.channel ≠ 255 ∧ 0 < (i.tick now).1.left ∧
      (i.tick now).1.left + ((i.tick now).1.last - t0) = d ∧ now - t0 < d ∧ (i.tick now).1.last = now) := by
  unfold CdItem.tick
  rw [if_pos ⟨hrun, hl⟩]
  by_cases h : now - i.last ≥ i.left
  · rw [if_pos h]; left; simp; omega
  · rw [if_neg h]; right; simp; omega

/-- **C07.1b (never early, exactly at the first callback at/after d)** for every duration, start
    instant and non-decreasing callback instants: if the item finishes at `tf`, then `d ≤ tf - t0`
    and every earlier callback was before `t0 + d`. -/
theorem c07_not_early (ts : List Nat) (i : CdItem) (t0 d : Nat) (hrun : i.channel ≠ 255) (hl : 0 < i.left)
    (hinv : i.left + (i.last - t0) = d) (ht0 : t0 ≤ i.last)
    (hsorted : ∀ t ∈ ts, i.last ≤ t) (hchain : List.Pairwise (· ≤ ·) ts) (tf : Nat)
    (hf : (runTicks i ts).2 = some tf) : d ≤ tf - t0 ∧ tf ∈ ts := by
  induction ts generalizing i with
  | nil => simp [runTicks] at hf
  | cons t ts ih =>
    have hnow := hsorted t (by simp)
    rcases c07_tick_invariant i t t0 d hrun hl hinv ht0 hnow with ⟨h1, h2⟩ | ⟨h1, h2, h3, h4, h5, h6⟩
    · unfold runTicks at hf
      generalize hg : i.tick t = r at hf h1
      obtain ⟨i', b⟩ := r
      simp only at h1; subst h1
      simp only at hf
      injection hf with hf; subst hf
      exact ⟨h2, by simp⟩
    · unfold runTicks at hf
      generalize hg : i.tick t = r at hf h1 h2 h3 h4 h6
      obtain ⟨i', b⟩ := r
      simp only at h1 h2 h3 h4 h6; subst h1
      simp only at hf
      have hp := List.pairwise_cons.mp hchain
      have := ih i' h2 h3 h4 (by omega) (fun x hx => by rw [h6]; exact hp.1 x hx) hp.2 hf
      exact ⟨this.1, by simp [this.2]⟩

/-- **C07.1c (exactly once)** a finished item is free: no later callback fires it again -/
theorem c07_once (i : CdItem) (now : Nat) (h : (i.tick now).2 = true) (later : Nat) :
    ((i.tick now).1.tick later).2 = false := by
  have hfree : (i.tick now).1.channel = 255 := by
    unfold CdItem.tick at h ⊢
    by_cases h1 : i.channel ≠ 255 ∧ i.left > 0
    · rw [if_pos h1] at h ⊢
      by_cases h2 : now - i.last ≥ i.left
      · rw [if_pos h2]
      · rw [if_neg h2] at h; simp at h
    · rw [if_neg h1] at h; simp at h
  generalize (i.tick now).1 = j at hfree
  unfold CdItem.tick
  rw [if_neg (by simp [hfree])]

/-- **C07.3 (remaining time never increases)** -/
theorem c07_monotone (i : CdItem) (now : Nat) : (i.tick now).1.left ≤ i.left := by
  unfold CdItem.tick
  split
  · split <;> simp <;> omega
  · exact Nat.le_refl _

/-- **C07.1d (lateness bound from the period rule)** the period chosen for a remaining time `L`
    either does not overshoot (`period ≤ L`) or is the minimum period: so the callback that
    finishes the timer comes less than `minP` ms (plus scheduling jitter) after the duration. -/
theorem c07_period_overshoot (P : CdParams) (hd : 0 < P.div) (hmm : P.minP ≤ P.maxP) (L : Nat) :
    cdPeriod P L ≤ L ∨ cdPeriod P L = P.minP := by
  unfold cdPeriod
  split
  · right; rfl
  · split
    · left
      rename_i h1 h2
      have : L / P.div ≤ L := Nat.div_le_self _ _
      omega
    · left; exact Nat.div_le_self _ _

theorem c07_period_bounds (P : CdParams) (hmm : P.minP ≤ P.maxP) (L : Nat) :
    P.minP ≤ cdPeriod P L ∧ cdPeriod P L ≤ P.maxP := by
  unfold cdPeriod
  split
  · exact ⟨Nat.le_refl _, hmm⟩
  · split <;> omega

/-- constants of the source tree: 50 ms minimum period, so "no later than d + 100 ms" leaves
    50 ms for callback jitter -/
theorem c07_consts : Gen.cdParams.minP = 50 ∧ Gen.cdParams.maxP = 1000 ∧ Gen.cdParams.div = 10 := by decide

/-- non-vacuity: 120 ms from t0 = 1000 with callbacks every 50 ms: finishes at 1150 (≥ 1120) -/
example : (runTicks { channel := 3, left := 120, last := 1000 } [1050, 1100, 1150, 1200]).2 = some 1150 := by decide

end SuplaVerif.C07
