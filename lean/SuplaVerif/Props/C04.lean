/-
  Props/C04 — every connection starts with exactly one registration and carries nothing else until the
  server has accepted it; a refusal stops the client; a new connection starts clean.
-/
import SuplaVerif.Model.DevConn
import SuplaVerif.Gen.Consts
namespace SuplaVerif.C04
open SuplaVerif

/-- what has been handed to the current connection, by registration state -/
def Inv (s : Dc) : Prop :=
  (s.up → s.srpc) ∧
  (s.registered = 0 ∨ s.registered = -1 ∨ s.registered = 1) ∧
  (s.up → s.registered = 0 → s.epoch = []) ∧
  (s.up → s.registered = -1 → s.epoch = [DcFrame.reg]) ∧
  (s.up → s.registered = 1 → ∃ rest, s.epoch = DcFrame.reg :: rest ∧ ∀ f ∈ rest, f = DcFrame.other)

theorem inv_init : Inv {} := by
  unfold Inv; simp

theorem sendReg_inv (s : Dc) (h : Inv s) : Inv s.sendReg := by
  obtain ⟨h0, h2, h3, h4, h5⟩ := h
  unfold Dc.sendReg
  by_cases hc : s.srpc ∧ s.registered = 0
  · rw [if_pos hc]
    refine ⟨h0, by simp, by simp, ?_, by simp⟩
    intro hu _
    have := h3 hu hc.2
    simp only at hu
    simp [hu, this]
  · rw [if_neg hc]; exact ⟨h0, h2, h3, h4, h5⟩

theorem sendReg_fields (s : Dc) :
    s.sendReg.up = s.up ∧ s.sendReg.srpc = s.srpc ∧ (s.srpc → s.sendReg.registered ≠ 0) := by
  unfold Dc.sendReg
  by_cases hc : s.srpc ∧ s.registered = 0
  · rw [if_pos hc]; simp
  · rw [if_neg hc]
    refine ⟨rfl, rfl, ?_⟩
    intro hs h0; exact hc ⟨hs, h0⟩

theorem stop_inv (s : Dc) (f : Dc → Dc) (hf : ∀ t, (f t).up = t.up ∧ (f t).srpc = t.srpc ∧ (f t).registered = t.registered ∧ (f t).epoch = t.epoch) :
    Inv (f s.stop) := by
  have := hf s.stop
  unfold Inv
  rw [this.1, this.2.1, this.2.2.1, this.2.2.2]
  simp [Dc.stop]

/-- the invariant is kept by every event the SDK can deliver -/
theorem inv_step (s s' : Dc) (e : DcEv) (h : Inv s) (hs : s.step e = some s') : Inv s' := by
  have hall := h
  obtain ⟨h0, h2, h3, h4, h5⟩ := h
  cases e with
  | start =>
    simp only [Dc.step, Option.some.injEq] at hs; subst hs
    exact ⟨h0, h2, h3, h4, h5⟩
  | gotIp =>
    simp only [Dc.step] at hs
    by_cases hc : s.started ∧ ¬ s.srpc ∧ ¬ s.resolving
    · rw [if_pos hc] at hs; simp only [Option.some.injEq] at hs; subst hs
      exact ⟨by simp, h2, by simp, by simp, by simp⟩
    · rw [if_neg hc] at hs; simp only [Option.some.injEq] at hs; subst hs
      exact ⟨h0, h2, h3, h4, h5⟩
  | dnsFound ok =>
    simp only [Dc.step] at hs
    by_cases hr : s.resolving
    · rw [if_pos hr] at hs
      cases ok with
      | true => simp only [if_true, Option.some.injEq] at hs; subst hs
                exact ⟨by simp, h2, by simp, by simp, by simp⟩
      | false => simp only [Bool.false_eq_true, if_false, Option.some.injEq] at hs; subst hs
                 exact ⟨h0, h2, h3, h4, h5⟩
    · rw [if_neg hr] at hs; cases hs
  | connectCb =>
    simp only [Dc.step] at hs
    by_cases hp : s.pending ∧ ¬ s.closing
    · rw [if_pos hp] at hs; simp only [Option.some.injEq] at hs; subst hs
      exact ⟨by simp, by simp, by simp, by simp, by simp⟩
    · rw [if_neg hp] at hs; cases hs
  | iterate =>
    simp only [Dc.step] at hs
    by_cases hc : s.srpc
    · rw [if_pos hc] at hs; simp only [Option.some.injEq] at hs; subst hs
      exact sendReg_inv s hall
    · rw [if_neg hc] at hs; cases hs
  | regOk =>
    simp only [Dc.step] at hs
    by_cases hc : (s.up ∨ s.closing) ∧ s.srpc
    · rw [if_pos hc] at hs; simp only [Option.some.injEq] at hs; subst hs
      obtain ⟨i0, i2, i3, i4, i5⟩ := sendReg_inv s hall
      have hf := sendReg_fields s
      have hne := hf.2.2 hc.2
      refine ⟨i0, by simp, by simp, by simp, ?_⟩
      intro hu _
      simp only at hu
      rcases i2 with r0 | rm | r1
      · exact absurd r0 hne
      · exact ⟨[], by simp [i4 hu rm], by simp⟩
      · exact i5 hu r1
    · rw [if_neg hc] at hs; cases hs
  | regRefused =>
    simp only [Dc.step] at hs
    by_cases hc : (s.up ∨ s.closing) ∧ s.srpc
    · rw [if_pos hc] at hs; simp only [Option.some.injEq] at hs; subst hs
      exact sendReg_inv s hall
    · rw [if_neg hc] at hs; cases hs
  | otherMsg =>
    simp only [Dc.step] at hs
    by_cases hc : (s.up ∨ s.closing) ∧ s.srpc
    · rw [if_pos hc] at hs; simp only [Option.some.injEq] at hs; subst hs
      exact sendReg_inv s hall
    · rw [if_neg hc] at hs; cases hs
  | disconnectCb =>
    simp only [Dc.step] at hs
    by_cases hu : s.up ∨ s.closing
    · rw [if_pos hu] at hs; simp only [Option.some.injEq] at hs; subst hs
      exact ⟨by simp, h2, by simp, by simp, by simp⟩
    · rw [if_neg hu] at hs; cases hs
  | reconFire =>
    simp only [Dc.step] at hs
    by_cases hr : s.reconTimer
    · rw [if_pos hr] at hs; simp only [Option.some.injEq] at hs; subst hs
      exact stop_inv s (fun t => { t with started := true, reconTimer := false }) (by intro t; simp)
    · rw [if_neg hr] at hs; cases hs
  | stopFire =>
    simp only [Dc.step] at hs
    by_cases hr : s.stopTimer
    · rw [if_pos hr] at hs; simp only [Option.some.injEq] at hs; subst hs
      exact stop_inv s (fun t => { t with stopTimer := false }) (by intro t; simp)
    · rw [if_neg hr] at hs; cases hs
  | localEv =>
    simp only [Dc.step] at hs
    by_cases hc : s.srpc ∧ s.registered = 1 ∧ s.up
    · rw [if_pos hc] at hs; simp only [Option.some.injEq] at hs; subst hs
      refine ⟨h0, h2, ?_, ?_, ?_⟩
      · intro _ h0'; simp only at h0'; omega
      · intro _ hm; simp only at hm; omega
      · intro _ _
        obtain ⟨rest, he, hr⟩ := h5 hc.2.2 hc.2.1
        refine ⟨rest ++ [DcFrame.other], by simp [he], ?_⟩
        intro f hf
        rcases List.mem_append.mp hf with hf | hf
        · exact hr f hf
        · simpa using hf
    · rw [if_neg hc] at hs; simp only [Option.some.injEq] at hs; subst hs
      exact ⟨h0, h2, h3, h4, h5⟩
  | lateData =>
    simp only [Dc.step] at hs
    by_cases hc : s.closing ∧ ¬ s.up ∧ ¬ s.srpc
    · rw [if_pos hc] at hs; simp only [Option.some.injEq] at hs; subst hs
      exact ⟨h0, h2, h3, h4, h5⟩
    · rw [if_neg hc] at hs; cases hs

theorem inv_run : ∀ (es : List DcEv) (s s' : Dc), Inv s → s.run es = some s' → Inv s' := by
  intro es
  induction es with
  | nil => intro s s' h hr; simp only [Dc.run, Option.some.injEq] at hr; subst hr; exact h
  | cons e es ih =>
    intro s s' h hr
    simp only [Dc.run] at hr
    cases hs : s.step e with
    | none => rw [hs] at hr; cases hr
    | some t => rw [hs] at hr; exact ih t s' (inv_step s t e h hs) hr

/-- C04 (first frame, exactly one): after any sequence of events the SDK can deliver — wifi changes,
    DNS answers, connects, disconnects at any moment, timers, server messages, local events — what the
    device has handed to the connection that is currently up is either nothing, or starts with the
    registration request and contains no second one -/
theorem c04_first_is_registration (es : List DcEv) (s : Dc) (h : Dc.run {} es = some s) (hu : s.up) :
    s.epoch = [] ∨ ∃ rest, s.epoch = DcFrame.reg :: rest ∧ ∀ f ∈ rest, f = DcFrame.other := by
  obtain ⟨_, h2, h3, h4, h5⟩ := inv_run es {} s inv_init h
  rcases h2 with r | r | r
  · left; exact h3 hu r
  · right; exact ⟨[], h4 hu r, by simp⟩
  · right; exact h5 hu r

/-- C04 (quiet until accepted): anything other than the registration request is on the connection only
    if the server has accepted the registration on this connection -/
theorem c04_quiet_until_accepted (es : List DcEv) (s : Dc) (h : Dc.run {} es = some s) (hu : s.up)
    (ho : DcFrame.other ∈ s.epoch) : s.registered = 1 := by
  obtain ⟨_, h2, h3, h4, _⟩ := inv_run es {} s inv_init h
  rcases h2 with r | r | r
  · rw [h3 hu r] at ho; cases ho
  · rw [h4 hu r] at ho; simp at ho
  · exact r

/-- C04 (clean start): the connect callback always begins an empty epoch in the unregistered state, so
    the next iterate sends a registration -/
theorem c04_connect_starts_clean (s s' : Dc) (h : s.step .connectCb = some s') :
    s'.epoch = [] ∧ s'.registered = 0 ∧ s'.srpc ∧ s'.up ∧ (s'.sendReg).epoch = [DcFrame.reg] := by
  simp only [Dc.step] at h
  by_cases hp : s.pending ∧ ¬ s.closing
  · rw [if_pos hp] at h; simp only [Option.some.injEq] at h; subst h
    simp [Dc.sendReg]
  · rw [if_neg hp] at h; cases h

/-! ### bytes of a closed connection -/

/-- bytes of an old connection can only sit in the receive staging buffer while the close of that connection is not yet reported -/
def StaleInv (s : Dc) : Prop := s.stale = true → s.closing = true

theorem staleInv_step (s s' : Dc) (e : DcEv) (h : StaleInv s) (hs : s.step e = some s') : StaleInv s' := by
  unfold StaleInv at *
  cases e <;> simp only [Dc.step] at hs
  case start => simp only [Option.some.injEq] at hs; subst hs; exact h
  case gotIp =>
    split at hs <;> (simp only [Option.some.injEq] at hs; subst hs)
    · intro hst; simp only at hst ⊢; simp [h hst]
    · exact h
  case dnsFound ok =>
    split at hs
    · split at hs <;> (simp only [Option.some.injEq] at hs; subst hs)
      · intro hst; simp only at hst ⊢; simp [h hst]
      · exact h
    · cases hs
  case connectCb =>
    split at hs
    · simp only [Option.some.injEq] at hs; subst hs; exact h
    · cases hs
  case iterate =>
    split at hs
    · simp only [Option.some.injEq] at hs; subst hs
      unfold Dc.sendReg; split <;> exact h
    · cases hs
  case regOk =>
    split at hs
    · simp only [Option.some.injEq] at hs; subst hs
      unfold Dc.sendReg; split <;> exact h
    · cases hs
  case regRefused =>
    split at hs
    · simp only [Option.some.injEq] at hs; subst hs
      unfold Dc.sendReg; split <;> exact h
    · cases hs
  case otherMsg =>
    split at hs
    · simp only [Option.some.injEq] at hs; subst hs
      unfold Dc.sendReg; split <;> exact h
    · cases hs
  case disconnectCb =>
    split at hs
    · simp only [Option.some.injEq] at hs; subst hs; intro hst; simp at hst
    · cases hs
  case reconFire =>
    split at hs
    · simp only [Option.some.injEq] at hs; subst hs
      intro hst; simp only [Dc.stop] at hst ⊢; simp [h hst]
    · cases hs
  case stopFire =>
    split at hs
    · simp only [Option.some.injEq] at hs; subst hs
      intro hst; simp only [Dc.stop] at hst ⊢; simp [h hst]
    · cases hs
  case localEv =>
    split at hs <;> (simp only [Option.some.injEq] at hs; subst hs; exact h)
  case lateData =>
    split at hs
    · rename_i hc; simp only [Option.some.injEq] at hs; subst hs; intro _; exact hc.1
    · cases hs

theorem staleInv_run : ∀ (es : List DcEv) (s s' : Dc), StaleInv s → s.run es = some s' → StaleInv s' := by
  intro es
  induction es with
  | nil => intro s s' h hr; simp only [Dc.run, Option.some.injEq] at hr; subst hr; exact h
  | cons e es ih =>
    intro s s' h hr
    simp only [Dc.run] at hr
    cases hst : s.step e with
    | none => rw [hst] at hr; cases hr
    | some s1 => rw [hst] at hr; exact ih s1 s' (staleInv_step s s1 e h hst) hr

/-- **C04 (no leftovers of the old connection)** in every history the SDK can deliver - including the server's last segments
    arriving after the device itself asked for the close -, when a new connection is established the receive staging buffer
    holds nothing of the old one: late data only arrives while the close is unreported, the close report clears the buffer, and
    the next connection is only established after that report. -/
theorem c04_no_stale_bytes_at_connect (es : List DcEv) (s s' : Dc) (h : Dc.run {} es = some s)
    (hc : s.step .connectCb = some s') : s'.stale = false := by
  have hi : StaleInv s := staleInv_run es {} s (by intro h; cases h) h
  simp only [Dc.step] at hc
  split at hc
  · rename_i hp
    simp only [Option.some.injEq] at hc; subst hc
    simp only
    cases hst : s.stale with
    | false => rfl
    | true => exact absurd (hi hst) hp.2
  · cases hc

/-- non-vacuity: refusal, the device closes, the acceptance of some earlier request arrives late, the close is reported, the
    device is started again and connects -/
example : (Dc.run {} [.start, .gotIp, .dnsFound true, .connectCb, .iterate, .regRefused, .stopFire, .lateData, .disconnectCb,
                      .start, .gotIp, .dnsFound true, .connectCb]).map (fun s => (s.stale, s.closing, s.up)) = some (false, false, true) := by
  decide
/-- ... and the connect callback is not deliverable while the close is unreported -/
example : Dc.run {} [.start, .gotIp, .dnsFound true, .connectCb, .iterate, .regRefused, .stopFire, .lateData,
                     .start, .gotIp, .dnsFound true, .connectCb] = none := by decide

/-- the source has the reset the model's connectCb relies on (extractor fact; without it a second connect
    that is not preceded by a stop keeps registered = 1 and the new connection carries no registration) -/
theorem c04_repo_connect_resets : Gen.dcConnectResets = true := by decide

/-- C04 (refusal): a refusal arms the stop; when it fires the client is stopped, unregistered, without a
    protocol instance and with the connection closed, and no later event makes it talk before a new
    start -/
theorem c04_refusal_stops (s s1 s2 : Dc) (h1 : s.step .regRefused = some s1) (h2 : s1.step .stopFire = some s2) :
    s2.started = false ∧ s2.srpc = false ∧ s2.up = false ∧ s2.registered = 0 := by
  simp only [Dc.step] at h1
  by_cases hc : (s.up ∨ s.closing) ∧ s.srpc
  · rw [if_pos hc] at h1; simp only [Option.some.injEq] at h1; subst h1
    simp only [Dc.step, if_true, Option.some.injEq] at h2; subst h2
    simp [Dc.stop]
  · rw [if_neg hc] at h1; cases h1

/-- non-vacuity: a full cycle connect, register, accept, talk, lose the connection, reconnect -/
example : (Dc.run {} [.start, .gotIp, .dnsFound true, .connectCb, .iterate, .regOk, .localEv, .disconnectCb, .localEv,
                      .reconFire, .gotIp, .dnsFound true, .connectCb, .iterate]).map (fun s => (s.epoch, s.registered))
    = some ([DcFrame.reg], -1) := by decide

end SuplaVerif.C04
