/-
  Props/C09 — the shutter position estimate follows the motor run time however the run is split into
  accounting callbacks; position and tilt stay in range and move only in the direction of travel; the
  reported value is -1 or 0..100.
-/
import SuplaVerif.Model.RsPos
namespace SuplaVerif.C09
open SuplaVerif

/-! ### range, direction, reported value (all tilt modes) -/

theorem div_lt_of_floor_gt (r f t : Nat) (h : r * f / 10000 > t) : 10000 * t / f < r := by
  have hf : 0 < f := by
    cases f with
    | zero => simp at h
    | succ n => exact Nat.succ_pos n
  have h1 : t < r * f / 10000 := h
  have h2 : (t + 1) * 10000 ≤ r * f := by
    have := Nat.div_mul_le_self (r * f) 10000
    have h3 : (t + 1) ≤ r * f / 10000 := h1
    calc (t + 1) * 10000 ≤ (r * f / 10000) * 10000 := Nat.mul_le_mul_right _ h3
      _ ≤ r * f := this
  apply (Nat.div_lt_iff_lt_mul hf).mpr
  have : 10000 * t < (t + 1) * 10000 := by omega
  omega

/-- the position stays inside 0..100 % and moves only in the direction of travel -/
theorem c09_pos_range_mono (c : MvCfg) (s : Mv) (h : 100 ≤ s.pos ∧ s.pos ≤ 10100) :
    100 ≤ (movePos c s).pos ∧ (movePos c s).pos ≤ 10100 ∧
    (c.up = true → (movePos c s).pos ≤ s.pos) ∧ (c.up = false → s.pos ≤ (movePos c s).pos) := by
  unfold movePos
  by_cases h0 : s.pos < 100 ∨ s.pos > 10100 ∨ c.fullMs = 0
  · rw [if_pos h0]; simp; omega
  · rw [if_neg h0]
    simp only
    unfold posStep
    by_cases h1 : remPosTime c s > 0
    · rw [if_pos h1]
      by_cases h2 : remPosTime c s ≤ s.time
      · rw [if_pos h2]
        cases hu : c.up <;> simp <;> omega
      · rw [if_neg h2]
        have h2' : remPosTime c s > s.time := by omega
        have hr : remaining c.up s.pos * c.fullPos / 10000 > s.time := by
          unfold remPosTime at h2'
          by_cases hz : (tiltStep c s).2 > 0 ∧ (c.ttype = 1 ∨ c.ttype = 3)
          · rw [if_pos hz] at h2'; omega
          · rw [if_neg hz] at h2'; exact h2'
        have hd := div_lt_of_floor_gt _ _ _ hr
        cases hu : c.up
        · have hd' : 10000 * s.time / c.fullPos < 10100 - s.pos := by simpa [remaining, hu] using hd
          generalize 10000 * s.time / c.fullPos = g at hd' ⊢
          simp; omega
        · have hd' : 10000 * s.time / c.fullPos < s.pos - 100 := by simpa [remaining, hu] using hd
          generalize 10000 * s.time / c.fullPos = g at hd' ⊢
          simp; omega
    · rw [if_neg h1]; simp; omega

theorem tiltIn_range (c : MvCfg) (s : Mv) (hs : c.tiltSupported = true) : 100 ≤ tiltIn c s ∧ tiltIn c s ≤ 10100 := by
  unfold tiltIn
  by_cases h3 : c.ttype = 3 ∧ s.pos < 10100
  · rw [if_pos h3]; omega
  · rw [if_neg h3]
    by_cases h : c.tiltSupported = true ∧ (s.tilt < 100 ∨ s.tilt > 10100)
    · rw [if_pos h]; omega
    · rw [if_neg h]
      have : ¬ (s.tilt < 100 ∨ s.tilt > 10100) := fun hh => h ⟨hs, hh⟩
      omega

/-- for a facade blind (any of the three tilt modes) the tilt stays inside 0..100 % and moves only in the
    direction of travel (relative to the tilt the step starts from) -/
theorem c09_tilt_range_mono (c : MvCfg) (s : Mv) (hs : c.tiltSupported = true) (hp : 100 ≤ s.pos ∧ s.pos ≤ 10100)
    (hf : c.fullMs ≠ 0) :
    100 ≤ (movePos c s).tilt ∧ (movePos c s).tilt ≤ 10100 ∧
    (c.up = true → (movePos c s).tilt ≤ tiltIn c s) ∧ (c.up = false → tiltIn c s ≤ (movePos c s).tilt) := by
  have hr := tiltIn_range c s hs
  unfold movePos
  rw [if_neg (by omega)]
  simp only
  unfold tiltStep
  by_cases h1 : remTiltTime c s > 0
  · rw [if_pos h1]
    by_cases h2 : remTiltTime c s ≤ s.time
    · rw [if_pos h2]
      cases hu : c.up <;> simp <;> omega
    · rw [if_neg h2]
      have hrt : remaining c.up (tiltIn c s) * c.fullTilt / 10000 > s.time := by
        unfold remTiltTime at h1 h2
        by_cases h3 : c.ttype = 3 ∧ s.pos < 10100
        · rw [if_pos h3] at h1; omega
        · rw [if_neg h3] at h1 h2
          rw [if_pos hs] at h1 h2
          omega
      have hd := div_lt_of_floor_gt _ _ _ hrt
      cases hu : c.up
      · have hd' : 10000 * s.time / c.fullTilt < 10100 - tiltIn c s := by simpa [remaining, hu] using hd
        generalize 10000 * s.time / c.fullTilt = g at hd' ⊢
        simp; omega
      · have hd' : 10000 * s.time / c.fullTilt < tiltIn c s - 100 := by simpa [remaining, hu] using hd
        generalize 10000 * s.time / c.fullTilt = g at hd' ⊢
        simp; omega
  · rw [if_neg h1]; simp; omega

/-- the value sent to the server is -1 or 0..100 -/
theorem c09_reported_range (p : Nat) : reportedPos p = -1 ∨ (0 ≤ reportedPos p ∧ reportedPos p ≤ 100) := by
  unfold reportedPos
  by_cases h : 100 ≤ p ∧ p ≤ 10100
  · rw [if_pos h]; right; constructor
    · exact Int.natCast_nonneg _
    · have : (p - 100 + 50) / 100 ≤ 100 := by omega
      exact_mod_cast this
  · rw [if_neg h]; left; rfl

/-- an unknown position stays unknown (no bookkeeping without calibration) -/
theorem c09_unknown_stays (c : MvCfg) (s : Mv) (h : s.pos < 100 ∨ s.pos > 10100) : movePos c s = s := by
  unfold movePos
  rw [if_pos (by omega)]

/-! ### accuracy for a roller shutter (no tilt), any split of the run time -/

/-- conserved quantity while closing: distance travelled in time units plus the carried time -/
def psiDown (F : Nat) (s : Mv) : Nat := s.pos * F + 10000 * s.time
def psiUp (F : Nat) (s : Mv) : Nat := (10100 - s.pos) * F + 10000 * s.time

def rsCfg (fullMs : Nat) (up : Bool) : MvCfg := { fullMs := fullMs, tiltMs := 0, ttype := 0, up := up }

theorem rs_tiltStep (fullMs : Nat) (up : Bool) (s : Mv) : (tiltStep (rsCfg fullMs up) s).2 = 0 := by
  unfold tiltStep remTiltTime rsCfg MvCfg.tiltSupported
  simp

theorem rs_fullPos (fullMs : Nat) (up : Bool) : (rsCfg fullMs up).fullPos = fullMs * 1000 := by
  unfold MvCfg.fullPos MvCfg.full rsCfg; simp

/-- arithmetic core of one callback: with t µs available and x units to go, the step consumes
    ⌊δF/10⁴⌋ µs for δ units, and distance·F + 10⁴·carry grows by 10⁴·dt plus less than 10⁴ -/
theorem step_arith (F t x : Nat) (hF : 10000 ≤ F) :
    (x * F / 10000 ≤ t →
       x * F / 10000 ≤ t ∧ 10000 * (x * F / 10000) ≤ x * F ∧ x * F < 10000 * (x * F / 10000) + 10000) ∧
    (x * F / 10000 > t →
       (10000 * t / F) * F / 10000 ≤ t ∧
       10000 * ((10000 * t / F) * F / 10000) ≤ (10000 * t / F) * F ∧
       (10000 * t / F) * F < 10000 * ((10000 * t / F) * F / 10000) + 10000 ∧
       (10000 * t / F) * F ≤ 10000 * t ∧ 10000 * t < (10000 * t / F) * F + F) := by
  have hFpos : 0 < F := by omega
  constructor
  · intro h
    refine ⟨h, ?_, ?_⟩
    · have := Nat.div_mul_le_self (x * F) 10000; omega
    · have := Nat.lt_div_mul_add (a := x * F) (b := 10000) (by decide); omega
  · intro _
    have a1 := Nat.div_mul_le_self (10000 * t) F
    have a2 := Nat.lt_div_mul_add (a := 10000 * t) (b := F) hFpos
    have b1 := Nat.div_mul_le_self ((10000 * t / F) * F) 10000
    have b2 := Nat.lt_div_mul_add (a := (10000 * t / F) * F) (b := 10000) (by decide)
    refine ⟨?_, by omega, by omega, a1, by omega⟩
    have : (10000 * t / F) * F / 10000 * 10000 ≤ 10000 * t := by omega
    omega

/-- one callback of a closing roller shutter: Ψ grows by 10⁴·dt + e with 0 ≤ e < 10⁴; below the end
    stop the carried time stays under one unit's worth (+1 µs) -/
theorem tick_down (fullMs : Nat) (hF : 10 ≤ fullMs) (s : Mv) (dt : Nat) (hp : 100 ≤ s.pos ∧ s.pos ≤ 10100) :
    let s' := mvTick (rsCfg fullMs false) s dt
    psiDown (fullMs * 1000) s + 10000 * dt ≤ psiDown (fullMs * 1000) s' ∧
    psiDown (fullMs * 1000) s' < psiDown (fullMs * 1000) s + 10000 * dt + 10000 ∧
    (s'.pos < 10100 → 10000 * s'.time < fullMs * 1000 + 10000) := by
  intro s'
  have hFF : 10000 ≤ fullMs * 1000 := by omega
  have hs' : s' = movePos (rsCfg fullMs false) { s with time := s.time + dt } := rfl
  have h0 : ¬ (s.pos < 100 ∨ s.pos > 10100 ∨ (rsCfg fullMs false).fullMs = 0) := by
    simp [rsCfg]; omega
  unfold movePos at hs'
  simp only at hs'
  rw [if_neg h0] at hs'
  have hts := rs_tiltStep fullMs false { s with time := s.time + dt }
  have hfp := rs_fullPos fullMs false
  generalize hF' : fullMs * 1000 = F at *
  have hrem : remPosTime (rsCfg fullMs false) { s with time := s.time + dt } = (10100 - s.pos) * F / 10000 := by
    unfold remPosTime; rw [hts, hfp]; simp [remaining, rsCfg]
  have ar := step_arith F (s.time + dt) (10100 - s.pos) hFF
  unfold posStep at hs'
  rw [hrem, hts, hfp] at hs'
  simp only [rsCfg, remaining, Bool.false_eq_true, if_false] at hs'
  by_cases h1 : (10100 - s.pos) * F / 10000 > 0
  · rw [if_pos h1] at hs'
    by_cases h2 : (10100 - s.pos) * F / 10000 ≤ s.time + dt
    · rw [if_pos h2] at hs'
      obtain ⟨a, b, c⟩ := ar.1 h2
      simp only [Option.getD] at hs'
      rw [hs']; unfold psiDown; simp only
      have e : 10100 * F = s.pos * F + (10100 - s.pos) * F := by
        rw [← Nat.add_mul]; congr 1; omega
      refine ⟨by omega, by omega, by intro hlt; omega⟩
    · rw [if_neg h2] at hs'
      obtain ⟨a, b, c, d, e⟩ := ar.2 (by omega)
      simp only [Option.getD] at hs'
      rw [hs']; unfold psiDown; simp only
      have e2 : (s.pos + 10000 * (s.time + dt) / F) * F = s.pos * F + (10000 * (s.time + dt) / F) * F := Nat.add_mul _ _ _
      refine ⟨by omega, by omega, by intro _; omega⟩
  · rw [if_neg h1] at hs'
    simp only [Option.getD] at hs'
    rw [hs']; unfold psiDown; simp only
    have hz : (10100 - s.pos) * F / 10000 = 0 := by omega
    have hpos : s.pos = 10100 := by
      by_cases hq : s.pos = 10100
      · exact hq
      · exfalso
        have : 1 * F ≤ (10100 - s.pos) * F := Nat.mul_le_mul_right F (by omega)
        have : 10000 ≤ (10100 - s.pos) * F := by omega
        have := Nat.div_pos this (by decide : 0 < 10000)
        omega
    refine ⟨by omega, by omega, by intro hlt; omega⟩

def sum : List Nat → Nat
  | [] => 0
  | x :: xs => x + sum xs

theorem run_pos_range (c : MvCfg) : ∀ (dts : List Nat) (s : Mv), 100 ≤ s.pos ∧ s.pos ≤ 10100 →
    100 ≤ (mvRun c s dts).pos ∧ (mvRun c s dts).pos ≤ 10100 := by
  intro dts
  induction dts with
  | nil => intro s h; exact h
  | cons dt dts ih =>
    intro s h
    unfold mvRun
    apply ih
    have := c09_pos_range_mono c { s with time := s.time + dt } h
    exact ⟨this.1, this.2.1⟩

/-- conservation over any split of the run time into callbacks -/
theorem run_down (fullMs : Nat) (hF : 10 ≤ fullMs) : ∀ (dts : List Nat) (s : Mv), 100 ≤ s.pos ∧ s.pos ≤ 10100 →
    psiDown (fullMs * 1000) s + 10000 * sum dts ≤ psiDown (fullMs * 1000) (mvRun (rsCfg fullMs false) s dts) ∧
    psiDown (fullMs * 1000) (mvRun (rsCfg fullMs false) s dts) ≤ psiDown (fullMs * 1000) s + 10000 * sum dts + 10000 * dts.length := by
  intro dts
  induction dts with
  | nil => intro s _; simp [mvRun, sum]
  | cons dt dts ih =>
    intro s h
    unfold mvRun
    have t := tick_down fullMs hF s dt h
    have hr := c09_pos_range_mono (rsCfg fullMs false) { s with time := s.time + dt } h
    have r := ih (mvTick (rsCfg fullMs false) s dt) ⟨hr.1, hr.2.1⟩
    simp only [sum, List.length_cons]
    have t1 := t.1; have t2 := t.2.1
    constructor
    · omega
    · omega

theorem run_mono_down (fullMs : Nat) : ∀ (dts : List Nat) (s : Mv), 100 ≤ s.pos ∧ s.pos ≤ 10100 →
    s.pos ≤ (mvRun (rsCfg fullMs false) s dts).pos := by
  intro dts
  induction dts with
  | nil => intro s _; exact Nat.le_refl _
  | cons dt dts ih =>
    intro s h
    unfold mvRun
    have hr := c09_pos_range_mono (rsCfg fullMs false) { s with time := s.time + dt } h
    have h1 : s.pos ≤ (mvTick (rsCfg fullMs false) s dt).pos := hr.2.2.2 rfl
    have h2 := ih (mvTick (rsCfg fullMs false) s dt) ⟨hr.1, hr.2.1⟩
    omega

/-- C09 (closing roller shutter): from a known position p₀ with nothing carried, after run time T = Σ dts split in
    any way into n callbacks, the position p is in range, not behind p₀, and never ahead of the run time by more
    than n·10⁴/F units of 0.01 %:  (p − p₀)·F ≤ 10⁴·T + 10⁴·n  (F = full closing time in µs) -/
theorem c09_accuracy_down_upper (fullMs : Nat) (hF : 10 ≤ fullMs) (p0 : Nat) (hp : 100 ≤ p0 ∧ p0 ≤ 10100)
    (dts : List Nat) :
    p0 ≤ (mvRun (rsCfg fullMs false) { pos := p0, tilt := 0, time := 0 } dts).pos ∧
    (mvRun (rsCfg fullMs false) { pos := p0, tilt := 0, time := 0 } dts).pos ≤ 10100 ∧
    ((mvRun (rsCfg fullMs false) { pos := p0, tilt := 0, time := 0 } dts).pos - p0) * (fullMs * 1000)
      ≤ 10000 * sum dts + 10000 * dts.length := by
  have r := run_down fullMs hF dts { pos := p0, tilt := 0, time := 0 } hp
  have rg := run_pos_range (rsCfg fullMs false) dts { pos := p0, tilt := 0, time := 0 } hp
  have hmono := run_mono_down fullMs dts { pos := p0, tilt := 0, time := 0 } hp
  unfold psiDown at r
  simp only at r hmono
  generalize mvRun (rsCfg fullMs false) { pos := p0, tilt := 0, time := 0 } dts = q at *
  refine ⟨hmono, rg.2, ?_⟩
  have e : q.pos * (fullMs * 1000) = p0 * (fullMs * 1000) + (q.pos - p0) * (fullMs * 1000) := by
    rw [← Nat.add_mul]; congr 1; omega
  have := r.2
  omega

/-- the carried time after a run is below one unit's worth while the end stop is not reached -/
theorem run_carry_down (fullMs : Nat) (hF : 10 ≤ fullMs) : ∀ (dts : List Nat) (s : Mv), 100 ≤ s.pos ∧ s.pos ≤ 10100 →
    dts ≠ [] → (mvRun (rsCfg fullMs false) s dts).pos < 10100 →
    10000 * (mvRun (rsCfg fullMs false) s dts).time < fullMs * 1000 + 10000 := by
  intro dts
  induction dts with
  | nil => intro s _ h; exact absurd rfl h
  | cons dt dts ih =>
    intro s h _ hlt
    unfold mvRun at hlt ⊢
    have hr := c09_pos_range_mono (rsCfg fullMs false) { s with time := s.time + dt } h
    cases dts with
    | nil =>
      simp only [mvRun] at hlt ⊢
      exact (tick_down fullMs hF s dt h).2.2 hlt
    | cons d2 ds => exact ih (mvTick (rsCfg fullMs false) s dt) ⟨hr.1, hr.2.1⟩ (by simp) hlt

/-- C09 (closing, lower bound): while the end stop is not reached the estimate is never behind the run time by
    more than one unit plus 10⁴/F:  10⁴·T < (p − p₀)·F + F + 10⁴ -/
theorem c09_accuracy_down_lower (fullMs : Nat) (hF : 10 ≤ fullMs) (p0 : Nat) (hp : 100 ≤ p0 ∧ p0 ≤ 10100)
    (dts : List Nat) (hne : dts ≠ [])
    (hlt : (mvRun (rsCfg fullMs false) { pos := p0, tilt := 0, time := 0 } dts).pos < 10100) :
    10000 * sum dts <
      ((mvRun (rsCfg fullMs false) { pos := p0, tilt := 0, time := 0 } dts).pos - p0) * (fullMs * 1000) + fullMs * 1000 + 10000 := by
  have r := run_down fullMs hF dts { pos := p0, tilt := 0, time := 0 } hp
  have hc := run_carry_down fullMs hF dts { pos := p0, tilt := 0, time := 0 } hp hne hlt
  have hmono := run_mono_down fullMs dts { pos := p0, tilt := 0, time := 0 } hp
  unfold psiDown at r
  simp only at r hmono
  generalize mvRun (rsCfg fullMs false) { pos := p0, tilt := 0, time := 0 } dts = q at *
  have e : q.pos * (fullMs * 1000) = p0 * (fullMs * 1000) + (q.pos - p0) * (fullMs * 1000) := by
    rw [← Nat.add_mul]; congr 1; omega
  have := r.1
  omega

/-! ### the opening direction (mirror image) -/

theorem tick_up (fullMs : Nat) (hF : 10 ≤ fullMs) (s : Mv) (dt : Nat) (hp : 100 ≤ s.pos ∧ s.pos ≤ 10100) :
    let s' := mvTick (rsCfg fullMs true) s dt
    psiUp (fullMs * 1000) s + 10000 * dt ≤ psiUp (fullMs * 1000) s' ∧
    psiUp (fullMs * 1000) s' < psiUp (fullMs * 1000) s + 10000 * dt + 10000 ∧
    (100 < s'.pos → 10000 * s'.time < fullMs * 1000 + 10000) := by
  intro s'
  have hFF : 10000 ≤ fullMs * 1000 := by omega
  have hs' : s' = movePos (rsCfg fullMs true) { s with time := s.time + dt } := rfl
  have h0 : ¬ (s.pos < 100 ∨ s.pos > 10100 ∨ (rsCfg fullMs true).fullMs = 0) := by
    simp [rsCfg]; omega
  unfold movePos at hs'
  simp only at hs'
  rw [if_neg h0] at hs'
  have hts := rs_tiltStep fullMs true { s with time := s.time + dt }
  have hfp := rs_fullPos fullMs true
  generalize hF' : fullMs * 1000 = F at *
  have hrem : remPosTime (rsCfg fullMs true) { s with time := s.time + dt } = (s.pos - 100) * F / 10000 := by
    unfold remPosTime; rw [hts, hfp]; simp [remaining, rsCfg]
  have ar := step_arith F (s.time + dt) (s.pos - 100) hFF
  unfold posStep at hs'
  rw [hrem, hts, hfp] at hs'
  simp only [rsCfg, remaining, if_true] at hs'
  by_cases h1 : (s.pos - 100) * F / 10000 > 0
  · rw [if_pos h1] at hs'
    by_cases h2 : (s.pos - 100) * F / 10000 ≤ s.time + dt
    · rw [if_pos h2] at hs'
      obtain ⟨a, b, c⟩ := ar.1 h2
      simp only [Option.getD] at hs'
      rw [hs']; unfold psiUp; simp only
      have e : (10100 - 100) * F = (10100 - s.pos) * F + (s.pos - 100) * F := by
        rw [← Nat.add_mul]; congr 1; omega
      refine ⟨by omega, by omega, by intro hlt; omega⟩
    · rw [if_neg h2] at hs'
      obtain ⟨a, b, c, d, e⟩ := ar.2 (by omega)
      have hdl := div_lt_of_floor_gt (s.pos - 100) F (s.time + dt) (by omega)
      simp only [Option.getD] at hs'
      rw [hs']; unfold psiUp; simp only
      generalize 10000 * (s.time + dt) / F = dl at *
      have e2 : (10100 - (s.pos - dl)) * F = (10100 - s.pos) * F + dl * F := by
        rw [← Nat.add_mul]; congr 1; omega
      refine ⟨by omega, by omega, by intro _; omega⟩
  · rw [if_neg h1] at hs'
    simp only [Option.getD] at hs'
    rw [hs']; unfold psiUp; simp only
    have hz : (s.pos - 100) * F / 10000 = 0 := by omega
    have hpos : s.pos = 100 := by
      by_cases hq : s.pos = 100
      · exact hq
      · exfalso
        have : 1 * F ≤ (s.pos - 100) * F := Nat.mul_le_mul_right F (by omega)
        have : 10000 ≤ (s.pos - 100) * F := by omega
        have := Nat.div_pos this (by decide : 0 < 10000)
        omega
    refine ⟨by omega, by omega, by intro hlt; omega⟩

theorem run_up (fullMs : Nat) (hF : 10 ≤ fullMs) : ∀ (dts : List Nat) (s : Mv), 100 ≤ s.pos ∧ s.pos ≤ 10100 →
    psiUp (fullMs * 1000) s + 10000 * sum dts ≤ psiUp (fullMs * 1000) (mvRun (rsCfg fullMs true) s dts) ∧
    psiUp (fullMs * 1000) (mvRun (rsCfg fullMs true) s dts) ≤ psiUp (fullMs * 1000) s + 10000 * sum dts + 10000 * dts.length := by
  intro dts
  induction dts with
  | nil => intro s _; simp [mvRun, sum]
  | cons dt dts ih =>
    intro s h
    unfold mvRun
    have t := tick_up fullMs hF s dt h
    have hr := c09_pos_range_mono (rsCfg fullMs true) { s with time := s.time + dt } h
    have r := ih (mvTick (rsCfg fullMs true) s dt) ⟨hr.1, hr.2.1⟩
    simp only [sum, List.length_cons]
    have t1 := t.1; have t2 := t.2.1
    constructor
    · omega
    · omega

theorem run_mono_up (fullMs : Nat) : ∀ (dts : List Nat) (s : Mv), 100 ≤ s.pos ∧ s.pos ≤ 10100 →
    (mvRun (rsCfg fullMs true) s dts).pos ≤ s.pos := by
  intro dts
  induction dts with
  | nil => intro s _; exact Nat.le_refl _
  | cons dt dts ih =>
    intro s h
    unfold mvRun
    have hr := c09_pos_range_mono (rsCfg fullMs true) { s with time := s.time + dt } h
    have h1 : (mvTick (rsCfg fullMs true) s dt).pos ≤ s.pos := hr.2.2.1 rfl
    have h2 := ih (mvTick (rsCfg fullMs true) s dt) ⟨hr.1, hr.2.1⟩
    omega

/-- C09 (opening roller shutter): (p₀ − p)·F ≤ 10⁴·T + 10⁴·n -/
theorem c09_accuracy_up_upper (fullMs : Nat) (hF : 10 ≤ fullMs) (p0 : Nat) (hp : 100 ≤ p0 ∧ p0 ≤ 10100)
    (dts : List Nat) :
    100 ≤ (mvRun (rsCfg fullMs true) { pos := p0, tilt := 0, time := 0 } dts).pos ∧
    (mvRun (rsCfg fullMs true) { pos := p0, tilt := 0, time := 0 } dts).pos ≤ p0 ∧
    (p0 - (mvRun (rsCfg fullMs true) { pos := p0, tilt := 0, time := 0 } dts).pos) * (fullMs * 1000)
      ≤ 10000 * sum dts + 10000 * dts.length := by
  have r := run_up fullMs hF dts { pos := p0, tilt := 0, time := 0 } hp
  have rg := run_pos_range (rsCfg fullMs true) dts { pos := p0, tilt := 0, time := 0 } hp
  have hmono := run_mono_up fullMs dts { pos := p0, tilt := 0, time := 0 } hp
  unfold psiUp at r
  simp only at r hmono
  generalize mvRun (rsCfg fullMs true) { pos := p0, tilt := 0, time := 0 } dts = q at *
  refine ⟨rg.1, hmono, ?_⟩
  have e : (10100 - q.pos) * (fullMs * 1000) = (10100 - p0) * (fullMs * 1000) + (p0 - q.pos) * (fullMs * 1000) := by
    rw [← Nat.add_mul]; congr 1; omega
  have := r.2
  omega

theorem run_carry_up (fullMs : Nat) (hF : 10 ≤ fullMs) : ∀ (dts : List Nat) (s : Mv), 100 ≤ s.pos ∧ s.pos ≤ 10100 →
    dts ≠ [] → 100 < (mvRun (rsCfg fullMs true) s dts).pos →
    10000 * (mvRun (rsCfg fullMs true) s dts).time < fullMs * 1000 + 10000 := by
  intro dts
  induction dts with
  | nil => intro s _ h; exact absurd rfl h
  | cons dt dts ih =>
    intro s h _ hlt
    unfold mvRun at hlt ⊢
    have hr := c09_pos_range_mono (rsCfg fullMs true) { s with time := s.time + dt } h
    cases dts with
    | nil =>
      simp only [mvRun] at hlt ⊢
      exact (tick_up fullMs hF s dt h).2.2 hlt
    | cons d2 ds => exact ih (mvTick (rsCfg fullMs true) s dt) ⟨hr.1, hr.2.1⟩ (by simp) hlt

/-- C09 (opening, lower bound): 10⁴·T < (p₀ − p)·F + F + 10⁴ while the upper end stop is not reached -/
theorem c09_accuracy_up_lower (fullMs : Nat) (hF : 10 ≤ fullMs) (p0 : Nat) (hp : 100 ≤ p0 ∧ p0 ≤ 10100)
    (dts : List Nat) (hne : dts ≠ [])
    (hlt : 100 < (mvRun (rsCfg fullMs true) { pos := p0, tilt := 0, time := 0 } dts).pos) :
    10000 * sum dts <
      (p0 - (mvRun (rsCfg fullMs true) { pos := p0, tilt := 0, time := 0 } dts).pos) * (fullMs * 1000) + fullMs * 1000 + 10000 := by
  have r := run_up fullMs hF dts { pos := p0, tilt := 0, time := 0 } hp
  have hc := run_carry_up fullMs hF dts { pos := p0, tilt := 0, time := 0 } hp hne hlt
  have hmono := run_mono_up fullMs dts { pos := p0, tilt := 0, time := 0 } hp
  unfold psiUp at r
  simp only at r hmono
  generalize mvRun (rsCfg fullMs true) { pos := p0, tilt := 0, time := 0 } dts = q at *
  have e : (10100 - q.pos) * (fullMs * 1000) = (10100 - p0) * (fullMs * 1000) + (p0 - q.pos) * (fullMs * 1000) := by
    rw [← Nat.add_mul]; congr 1; omega
  have := r.1
  omega

/-- non-vacuity: 12.345 s closing time, 7 irregular callbacks from fully open -/
example : (mvRun (rsCfg 12345 false) { pos := 100, tilt := 0, time := 0 } [10000, 10000, 7000, 250000, 1000, 12000000, 5000]).pos = 10049 := by
  decide

end SuplaVerif.C09
