/-
  Props/C02 — outgoing calls reach the wire intact, in order, exactly once or not at all.

  Quantifiers: every history (calls with any id/payload, iterate ticks, received segments,
  espconn_sent result scripts of any content), any length.  "No loss event" (`NoLoss`) is the
  observable hypothesis the property itself makes: no overflow was reported and espconn_sent
  never returned a hard error.
-/
import SuplaVerif.Lemmas.Out
import SuplaVerif.Gen.Consts

namespace SuplaVerif.C02
open Bytes

/-- observations of the OUT half inside a trace -/
def outObs : List Obs → List OObs
  | [] => []
  | .out o :: os => o :: outObs os
  | _ :: os => outObs os

@[simp] theorem outObs_nil : outObs [] = [] := rfl
@[simp] theorem outObs_append (a b : List Obs) : outObs (a ++ b) = outObs a ++ outObs b := by
  induction a with
  | nil => rfl
  | cons x xs ih => cases x <;> simp [outObs, ih]
@[simp] theorem outObs_map_out (l : List OObs) : outObs (l.map Obs.out) = l := by
  induction l with
  | nil => rfl
  | cons x xs ih => simp [outObs, ih]

/-- the frame queued by an event, if it is an accepted call on a live connection -/
def acceptedBy (P : ProtoParams) (al : Nat → Bool) (s : Io) : Ev → List Frame
  | .call c p => if s.dead then [] else (IoOut.accepted P al s.o c p).toList
  | _ => []

/-- frames of the calls accepted during a history, in issue order -/
def acceptedCalls (P : ProtoParams) (al : Nat → Bool) (s : Io) : List (Bytes × Ev) → List Frame
  | [] => []
  | (sc, e) :: es => acceptedBy P al s e ++ acceptedCalls P al (Io.step P al sc s e).1 es

theorem outObs_inHalf (P : ProtoParams) (sc : Bytes) (i : IoIn) : outObs (i.inHalf P sc).2.2 = [] := by
  unfold IoIn.inHalf
  simp only
  generalize (if (List.take P.chunk i.staging).length > 0 then AccBuf.append P i.inb (List.take P.chunk i.staging)
    else (PRes.ok, i.inb)) = ra
  split
  · rfl
  · generalize popInSdp P ra.2 sc = r
    obtain ⟨pr, inb, sdp⟩ := r
    cases pr <;> rfl

/-- one iterate conserves the bytes in flight -/
theorem devIterate_cons (P : ProtoParams) (sc : Bytes) (s : Io)
    (h : NoLoss (outObs (Io.devIterate P sc s).2)) :
    wireOf (outObs (Io.devIterate P sc s).2) ++ (Io.devIterate P sc s).1.o.pending = s.o.pending ∧
    (Io.devIterate P sc s).1.o.nextRr = s.o.nextRr ∧ (Io.devIterate P sc s).1.o.ver = s.o.ver ∧
    (Io.devIterate P sc s).1.o.outQ.length ≤ s.o.outQ.length := by
  unfold Io.devIterate Io.srpcIterate at h ⊢
  have hw := dataWrite_spec P s.o []
  generalize s.o.dataWrite P [] = r0 at hw h
  obtain ⟨o0, ob0⟩ := r0
  simp only at hw h ⊢
  have hin := outObs_inHalf P sc s.i
  generalize s.i.inHalf P sc = ri at hin h
  obtain ⟨ok, i', o1⟩ := ri
  simp only at hin
  have hpend0 : NoLoss ob0 → wireOf ob0 ++ o0.pending = s.o.pending ∧ o0.nextRr = s.o.nextRr ∧
      o0.ver = s.o.ver ∧ o0.outQ = s.o.outQ := by
    intro hn
    have := hw hn
    refine ⟨?_, this.2.2.2.1, this.2.2.2.2, this.2.2.1⟩
    simp only [IoOut.pending]
    rw [this.2.1, this.2.2.1]
    have e := this.1
    simp only [List.append_nil] at e
    calc wireOf ob0 ++ (o0.shim ++ s.o.outb.data ++ Frame.enc s.o.outQ)
        = (wireOf ob0 ++ o0.shim) ++ s.o.outb.data ++ Frame.enc s.o.outQ := by simp
      _ = s.o.shim ++ s.o.outb.data ++ Frame.enc s.o.outQ := by rw [e]
  cases ok with
  | false =>
    simp only at h ⊢
    have hall : outObs (List.map Obs.out ob0 ++ o1 ++ [Obs.log "ITERFAIL", Obs.restart]) = ob0 := by
      simp [outObs, hin]
    rw [hall] at h ⊢
    have := hpend0 h
    exact ⟨this.1, this.2.1, this.2.2.1, by rw [this.2.2.2]; exact Nat.le_refl _⟩
  | true =>
    simp only at h ⊢
    have ho := outHalf_spec P o0
    generalize o0.outHalf P = r2 at ho h
    obtain ⟨ok2, o', o2⟩ := r2
    simp only at ho
    cases ok2 with
    | true =>
      simp only at h ⊢
      have hall : outObs (List.map Obs.out ob0 ++ (o1 ++ List.map Obs.out o2)) = ob0 ++ o2 := by
        simp [hin]
      rw [hall] at h ⊢
      rw [NoLoss_append] at h
      have h0 := hpend0 h.1
      have h2 := ho h.2
      refine ⟨?_, by rw [h2.2.1, h0.2.1], by rw [h2.2.2.1, h0.2.2.1], by rw [← h0.2.2.2]; exact h2.2.2.2⟩
      rw [wireOf_append, List.append_assoc, h2.1, h0.1]
    | false =>
      simp only at h ⊢
      have hall : outObs (List.map Obs.out ob0 ++ (o1 ++ List.map Obs.out o2) ++
          [Obs.log "ITERFAIL", Obs.restart]) = ob0 ++ o2 := by
        simp [hin, outObs]
      rw [hall] at h ⊢
      rw [NoLoss_append] at h
      have h0 := hpend0 h.1
      have h2 := ho h.2
      refine ⟨?_, by rw [h2.2.1, h0.2.1], by rw [h2.2.2.1, h0.2.2.1], by rw [← h0.2.2.2]; exact h2.2.2.2⟩
      rw [wireOf_append, List.append_assoc, h2.1, h0.1]

/-- one event: wire ++ pending grows exactly by the frame of an accepted call -/
theorem step_cons (P : ProtoParams) (al : Nat → Bool) (sc : Bytes) (s : Io) (e : Ev)
    (h : NoLoss (outObs (Io.step P al sc s e).2)) :
    wireOf (outObs (Io.step P al sc s e).2) ++ (Io.step P al sc s e).1.o.pending =
      s.o.pending ++ Frame.enc (acceptedBy P al s e) := by
  cases hd : s.dead with
  | true =>
    have hstep : Io.step P al sc s e = (s, []) := by unfold Io.step; simp [hd]
    have hacc : acceptedBy P al s e = [] := by cases e <;> simp [acceptedBy, hd]
    rw [hstep, hacc]; simp [Frame.enc]
  | false =>
    cases e with
    | tick =>
      have hstep : Io.step P al sc s .tick = Io.devIterate P sc s := by unfold Io.step; simp [hd]
      rw [hstep] at h ⊢
      simp [acceptedBy, Frame.enc, (devIterate_cons P sc s h).1]
    | esp cs =>
      have hstep : Io.step P al sc s (.esp cs) =
          ({ s with o := { s.o with esp := s.o.esp ++ cs } }, []) := by
        unfold Io.step; simp [hd]
      rw [hstep]; simp [acceptedBy, Frame.enc, IoOut.pending]
    | recv d =>
      have hstep : Io.step P al sc s (.recv d) = Io.recvCb P sc s d := by unfold Io.step; simp [hd]
      rw [hstep] at h ⊢
      unfold Io.recvCb at h ⊢
      by_cases h0 : d.length = 0
      · rw [if_pos h0]; simp [acceptedBy, Frame.enc]
      · rw [if_neg h0] at h ⊢
        by_cases hfit : d.length ≤ P.stage - s.i.staging.length
        · rw [if_pos hfit] at h ⊢
          have := devIterate_cons P sc _ h
          simp [acceptedBy, Frame.enc, this.1]
        · rw [if_neg hfit]; simp [acceptedBy, Frame.enc, outObs]
    | call c p =>
      have hstep : Io.step P al sc s (.call c p) =
          ({ s with o := (IoOut.asyncCall P al s.o c p).1 }, (IoOut.asyncCall P al s.o c p).2.map Obs.out) := by
        unfold Io.step; simp [hd]
      rw [hstep]
      simp only [outObs_map_out, acceptedBy, hd, Bool.false_eq_true, if_false]
      unfold IoOut.asyncCall
      by_cases hal : al c = true
      · simp only [hal, Bool.not_true, Bool.false_eq_true, if_false]
        cases hacc : IoOut.accepted P al s.o c p with
        | none => simp [wireOf, IoOut.pending, Frame.enc]
        | some f => simp [wireOf, IoOut.pending, enc_append]
      · have : IoOut.accepted P al s.o c p = none := by unfold IoOut.accepted; simp [hal]
        simp [hal, this, wireOf, Frame.enc]

theorem run_cons (P : ProtoParams) (al : Nat → Bool) (h : List (Bytes × Ev)) (s : Io)
    (hn : NoLoss (outObs (Io.run P al s h).2)) :
    wireOf (outObs (Io.run P al s h).2) ++ (Io.run P al s h).1.o.pending =
      s.o.pending ++ Frame.enc (acceptedCalls P al s h) := by
  induction h generalizing s with
  | nil => simp [Io.run, acceptedCalls, Frame.enc]
  | cons x xs ih =>
    obtain ⟨sc, e⟩ := x
    simp only [Io.run, acceptedCalls] at hn ⊢
    have h1 := step_cons P al sc s e
    generalize hst : Io.step P al sc s e = r at h1 hn ih ⊢
    obtain ⟨s1, o1⟩ := r
    simp only at h1 hn ⊢
    have h2 := ih s1
    generalize hrn : Io.run P al s1 xs = r2 at h2 hn ⊢
    obtain ⟨s2, o2⟩ := r2
    simp only at h2 hn ⊢
    rw [outObs_append, NoLoss_append] at hn
    rw [outObs_append, wireOf_append, List.append_assoc, h2 hn.2, ← List.append_assoc, h1 hn.1,
      enc_append, List.append_assoc]

/-! ## The property theorems -/

/-- **C02.1 (conservation)** from a fresh connection, as long as no loss event was observed:
    bytes on the wire ++ bytes still buffered (shim, out buffer, out queue — in that order) equal
    the concatenation, in issue order, of the frames of the accepted calls. -/
theorem c02_conservation (P : ProtoParams) (al : Nat → Bool) (i : IoIn) (ver nextRr : Nat)
    (esp : List Int) (dead : Bool) (h : List (Bytes × Ev))
    (hn : NoLoss (outObs (Io.run P al ⟨i, { ver := ver, nextRr := nextRr, esp := esp }, dead⟩ h).2)) :
    wireOf (outObs (Io.run P al ⟨i, { ver := ver, nextRr := nextRr, esp := esp }, dead⟩ h).2) ++
      (Io.run P al ⟨i, { ver := ver, nextRr := nextRr, esp := esp }, dead⟩ h).1.o.pending =
    Frame.enc (acceptedCalls P al ⟨i, { ver := ver, nextRr := nextRr, esp := esp }, dead⟩ h) := by
  have := run_cons P al h ⟨i, { ver := ver, nextRr := nextRr, esp := esp }, dead⟩ hn
  simpa [IoOut.pending, Frame.enc] using this

/-- **C02.1b (nothing lost, duplicated, reordered or interleaved)** the wire is a prefix of the
    concatenated frames of the accepted calls. -/
theorem c02_wire_prefix (P : ProtoParams) (al : Nat → Bool) (i : IoIn) (ver nextRr : Nat)
    (esp : List Int) (dead : Bool) (h : List (Bytes × Ev))
    (hn : NoLoss (outObs (Io.run P al ⟨i, { ver := ver, nextRr := nextRr, esp := esp }, dead⟩ h).2)) :
    wireOf (outObs (Io.run P al ⟨i, { ver := ver, nextRr := nextRr, esp := esp }, dead⟩ h).2) <+:
    Frame.enc (acceptedCalls P al ⟨i, { ver := ver, nextRr := nextRr, esp := esp }, dead⟩ h) := by
  rw [← c02_conservation P al i ver nextRr esp dead h hn]
  exact List.prefix_append _ _

/-- **C02.2 (round trip)** what is sent decodes to the same calls: the receiver grammar of C01
    recognises the concatenated frames of any list of valid calls as exactly those calls. -/
theorem c02_roundtrip (P : ProtoParams) (hP : P.WF) (fs : List Frame) (hv : ∀ f ∈ fs, f.Valid P) :
    goodFrames P (Frame.enc fs) = fs := by
  unfold goodFrames
  have := goodFramesFuel_enc P hP fs hv [] (Frame.enc fs).length (enc_length_ge fs)
  simp only [List.append_nil] at this
  rw [this]
  cases h : (Frame.enc fs).length - fs.length <;> simp [goodFramesFuel, parseHead]

/-- **C02.3 (request ids)** the id given to an accepted call is non-zero, below 2^32, and is the
    successor of the previous id unless the 32-bit counter wraps (then it is 1). -/
theorem c02_rrid (n : Nat) :
    IoOut.nextId n ≠ 0 ∧ IoOut.nextId n < U32 ∧ (n + 1 < U32 → IoOut.nextId n = n + 1) := by
  unfold IoOut.nextId U32
  refine ⟨?_, ?_, ?_⟩
  · split <;> omega
  · split <;> omega
  · intro h; rw [Nat.mod_eq_of_lt h]; split <;> omega

/-- every accepted call carries the id `nextId` of the connection's counter, the connection's
    version, and exactly the caller's call id and payload; its payload is within the maximum -/
theorem c02_accepted_frame (P : ProtoParams) (al : Nat → Bool) (s : IoOut) (c : Nat) (p : Bytes)
    (f : Frame) (h : IoOut.accepted P al s c p = some f) :
    f = { ver := s.ver, rrId := IoOut.nextId s.nextRr, callId := c, payload := p } ∧
    p.length ≤ P.maxData ∧ s.outQ.length < P.queue ∧ al c = true := by
  unfold IoOut.accepted at h
  split at h; · cases h
  split at h; · cases h
  split at h; · cases h
  rename_i h1 h2 h3
  injection h with h
  exact ⟨h.symm, by omega, by omega, by simpa using h1⟩

/-- **C02.4 (reject or send)** a call returns 0 iff it was not accepted; an accepted call returns
    its (non-zero) request id and is appended to the queue. -/
theorem c02_reject_or_send (P : ProtoParams) (al : Nat → Bool) (s : IoOut) (c : Nat) (p : Bytes) :
    (IoOut.accepted P al s c p = none ∧ (s.asyncCall P al c p).2 = [.callret 0] ∧
      (s.asyncCall P al c p).1.outQ = s.outQ) ∨
    (∃ f, IoOut.accepted P al s c p = some f ∧ (s.asyncCall P al c p).2 = [.callret f.rrId] ∧
      f.rrId ≠ 0 ∧ (s.asyncCall P al c p).1.outQ = s.outQ ++ [f]) := by
  unfold IoOut.asyncCall
  by_cases hal : al c = true
  · simp only [hal, Bool.not_true, Bool.false_eq_true, if_false]
    cases hacc : IoOut.accepted P al s c p with
    | none => left; simp
    | some f =>
      right
      have := (c02_accepted_frame P al s c p f hacc).1
      exact ⟨f, rfl, rfl, by rw [this]; exact (c02_rrid _).1, rfl⟩
  · left
    have : IoOut.accepted P al s c p = none := by unfold IoOut.accepted; simp [hal]
    simp [hal, this]

/-- **C02.5 (overflow is reported)** the send shim drops bytes only with the error log. -/
theorem c02_overflow_reported (P : ProtoParams) (s : IoOut) (d : Bytes) (hd : d.length > 0)
    (hov : s.shim.length + d.length > P.sendBuf) :
    s.shimAppend P d = (s, [.log "SENDOVF"]) := by
  unfold IoOut.shimAppend; rw [if_pos hd, if_pos hov]

/-- the out-buffer overflow (either append) is reported and ends the connection -/
theorem c02_outbuf_overflow_reported (P : ProtoParams) (s : IoOut) (f : Frame) (q : List Frame)
    (hq : s.outQ = f :: q) (hfail : (IoOut.outAppend P s.outb f).1 ≠ .ok) :
    (s.outHalf P).1 = false ∧ OObs.log "OUTAPPERR" ∈ (s.outHalf P).2.2 := by
  have hs := outAppend_spec P s.outb f
  unfold IoOut.outHalf IoOut.queueToBuf
  rw [hq]
  simp only
  generalize IoOut.outAppend P s.outb f = r at hs hfail ⊢
  obtain ⟨ar, ob⟩ := r
  simp only at hs hfail ⊢
  rcases hs with ⟨h1, _⟩ | ⟨h1, h2⟩
  · exact absurd h1 hfail
  · rw [if_pos ⟨h1, h2⟩]; simp

/-- the shim buffer stays within its array -/
theorem c02_shim_bound (P : ProtoParams) (s : IoOut) (d : Bytes) (hs : s.shim.length ≤ P.sendBuf) :
    (s.shimAppend P d).1.shim.length ≤ P.sendBuf := by
  unfold IoOut.shimAppend
  split
  · split
    · exact hs
    · simp only [List.length_append]; omega
  · exact hs

/-! ## Instantiation and non-vacuity -/

theorem c02_roundtrip_repo (fs : List Frame) (hv : ∀ f ∈ fs, f.Valid Gen.protoParams) :
    goodFrames Gen.protoParams (Frame.enc fs) = fs :=
  c02_roundtrip Gen.protoParams Gen.protoParams_wf fs hv

/-- non-vacuity: a concrete call is accepted, survives a transient refusal and reaches the wire
    whole (history: script [-5, 0], call 40 with payload [1,2], two iterates). -/
example :
    let r := Io.run Gen.protoParams (fun _ => true) { o := { ver := 23 } }
      [([], .esp [-5, 0]), ([], .call 40 [1, 2]), ([], .tick), ([], .tick)]
    NoLoss (outObs r.2) ∧ wireOf (outObs r.2) = Frame.bytes ⟨23, 1, 40, [1, 2]⟩ ∧ r.1.o.pending = [] := by
  decide

end SuplaVerif.C02
