/-
  Props/C12 — config mode, recalibration, factory reset need physical access or authorisation.

  Theorem part: the server-message gate.  For every CALCFG request (every command, data type,
  size, channel, authorisation byte) and every set of shutters: configuration mode is started only
  by an authorised enter-configuration request, calibration is discarded only by an authorised
  recalibrate request for a matching channel, and an unauthorised request changes nothing and is
  answered 'unauthorised' (or 'not supported').  That no *other* server message and no button
  gesture short of the hold / ten toggles reaches these effects is checked on the implementation
  (all call ids through the real dispatcher, button gestures; tools/props/c12.py).
-/
import SuplaVerif.Model.CalCfg
import SuplaVerif.Gen.Consts

namespace SuplaVerif.C12

/-- **C12.1** configuration mode ⇒ enter-configuration command marked super-user authorised -/
theorem c12_enter_needs_auth (K : CalConsts) (req : CalReq) (rs : List RsChan)
    (h : (calcfg K req rs).enterCfg = true) : req.command = K.cmdEnterCfg ∧ req.auth = 1 := by
  unfold calcfg at h
  split at h
  · rename_i hc
    split at h
    · rename_i ha; exact ⟨hc, ha⟩
    · simp at h
  · split at h
    · split at h
      · simp at h
      · split at h <;> simp at h
    · simp at h

/-- **C12.2** calibration discarded ⇒ recalibrate command, authorised, for a shutter on that
    channel carrying the recalibrate flag -/
theorem c12_recal_needs_auth (K : CalConsts) (req : CalReq) (rs : List RsChan) (i : Nat)
    (h : i ∈ (calcfg K req rs).recalibrated) :
    req.command = K.cmdRecalibrate ∧ req.auth ≠ 0 ∧ i ∈ matching req rs := by
  unfold calcfg at h
  split at h
  · split at h <;> simp at h
  · split at h
    · rename_i hc
      split at h
      · simp at h
      · split at h
        · simp at h
        · rename_i ha; exact ⟨hc.1, ha, h⟩
    · simp at h

theorem matching_spec (req : CalReq) (rs : List RsChan) (i : Nat) (h : i ∈ matching req rs) :
    ∃ r, rs[i]? = some r ∧ (r.channel : Int) = req.channel ∧ r.recalFlag = true := by
  unfold matching at h
  simp only [List.mem_filter, List.mem_range] at h
  obtain ⟨_, h2⟩ := h
  cases hr : rs[i]? with
  | none => rw [hr] at h2; simp at h2
  | some r => rw [hr] at h2; simp at h2; exact ⟨r, rfl, h2.1, h2.2⟩

/-- **C12.3** a request that is not authorised has no effect at all, and is answered
    'unauthorised' when it is an enter-configuration or a matching recalibrate request,
    'not supported' otherwise -/
theorem c12_unauth_noop (K : CalConsts) (req : CalReq) (rs : List RsChan) (h : req.auth = 0) :
    (calcfg K req rs).enterCfg = false ∧ (calcfg K req rs).recalibrated = [] ∧
    ((calcfg K req rs).result = K.resUnauth ∨ (calcfg K req rs).result = K.resNotSupp) := by
  unfold calcfg
  split
  · rw [if_neg (by omega)]; simp
  · split
    · split
      · simp
      · simp
    · simp

/-- **C12.4** every command other than the two above is 'not supported' and has no effect -/
theorem c12_other_commands_noop (K : CalConsts) (req : CalReq) (rs : List RsChan)
    (h1 : req.command ≠ K.cmdEnterCfg) (h2 : req.command ≠ K.cmdRecalibrate) :
    calcfg K req rs = { result := K.resNotSupp } := by
  unfold calcfg
  rw [if_neg h1, if_neg (fun h => h2 h.1)]

/-- non-vacuity with the constants of the source tree -/
example : (calcfg Gen.calConsts { channel := 0, command := Gen.calConsts.cmdEnterCfg, auth := 1, dataType := 0, dataSize := 0 } []).enterCfg = true := by decide
example : (calcfg Gen.calConsts { channel := 0, command := Gen.calConsts.cmdEnterCfg, auth := 0, dataType := 0, dataSize := 0 } []).result = Gen.calConsts.resUnauth := by decide
example : (calcfg Gen.calConsts { channel := 1, command := Gen.calConsts.cmdRecalibrate, auth := 1, dataType := 0, dataSize := 0 }
    [⟨0, true⟩, ⟨1, true⟩]).recalibrated = [1] := by decide

end SuplaVerif.C12
