/-
  Props/C12 — config mode, recalibration, factory reset need physical access or authorisation.

  Theorem part: the server-message gate.  For every CALCFG request (every command, data type,
  size, channel, authorisation byte) and every set of shutters: configuration mode is started only
  by an authorised enter-configuration request, calibration is discarded only by an authorised
  recalibrate request for a matching channel, and an unauthorised request changes nothing and is
  answered 'unauthorised' (or 'not supported').  That no *other* server message and no button
  gesture short of the hold / ten toggles reaches these effects is checked on the implementation
  (all call ids through the real dispatcher, button gestures; tools/props/c12.py).
-/
import SuplaVerif.Model.CalCfg
import SuplaVerif.Model.CfgButton
import SuplaVerif.Gen.Consts
import SuplaVerif.Model.Uptime

namespace SuplaVerif.C12

/-- **C12.1** configuration mode ⇒ enter-configuration command marked super-user authorised -/
theorem c12_enter_needs_auth (K : CalConsts) (req : CalReq) (rs : List RsChan)
    (h : (calcfg K req rs).enterCfg = true) : req.command = K.cmdEnterCfg ∧ req.auth = 1 := by
  unfold calcfg at h
  split at h
  · rename_i hc
    split at h
    · rename_i ha; exact ⟨hc, ha⟩
    · simp at h
  · split at h
    · split at h
      · simp at h
      · split at h <;> simp at h
    · simp at h

/-- **C12.2** calibration discarded ⇒ recalibrate command, authorised, for a shutter on that
    channel carrying the recalibrate flag -/
theorem c12_recal_needs_auth (K : CalConsts) (req : CalReq) (rs : List RsChan) (i : Nat)
    (h : i ∈ (calcfg K req rs).recalibrated) :
    req.command = K.cmdRecalibrate ∧ req.auth ≠ 0 ∧ i ∈ matching req rs := by
  unfold calcfg at h
  split at h
  · split at h <;> simp at h
  · split at h
    · rename_i hc
      split at h
      · simp at h
      · split at h
        · simp at h
        · rename_i ha; exact ⟨hc.1, ha, h⟩
    · simp at h

theorem matching_spec (req : CalReq) (rs : List RsChan) (i : Nat) (h : i ∈ matching req rs) :
    ∃ r, rs[i]? = some r ∧ (r.channel : Int) = req.channel ∧ r.recalFlag = true := by
  unfold matching at h
  simp only [List.mem_filter, List.mem_range] at h
  obtain ⟨_, h2⟩ := h
  cases hr : rs[i]? with
  | none => rw [hr] at h2; simp at h2
  | some r => rw [hr] at h2; simp at h2; exact ⟨r, rfl, h2.1, h2.2⟩

/-- **C12.3** a request that is not authorised has no effect at all, and is answered
    'unauthorised' when it is an enter-configuration or a matching recalibrate request,
    'not supported' otherwise -/
theorem c12_unauth_noop (K : CalConsts) (req : CalReq) (rs : List RsChan) (h : req.auth = 0) :
    (calcfg K req rs).enterCfg = false ∧ (calcfg K req rs).recalibrated = [] ∧
    ((calcfg K req rs).result = K.resUnauth ∨ (calcfg K req rs).result = K.resNotSupp) := by
  unfold calcfg
  split
  · rw [if_neg (by omega)]; simp
  · split
    · split
      · simp
      · simp
    · simp

/-- **C12.4** every command other than the two above is 'not supported' and has no effect -/
theorem c12_other_commands_noop (K : CalConsts) (req : CalReq) (rs : List RsChan)
    (h1 : req.command ≠ K.cmdEnterCfg) (h2 : req.command ≠ K.cmdRecalibrate) :
    calcfg K req rs = { result := K.resNotSupp } := by
  unfold calcfg
  rw [if_neg h1, if_neg (fun h => h2 h.1)]

/-- non-vacuity with the constants of the source tree -/
example : (calcfg Gen.calConsts { channel := 0, command := Gen.calConsts.cmdEnterCfg, auth := 1, dataType := 0, dataSize := 0 } []).enterCfg = true := by decide
example : (calcfg Gen.calConsts { channel := 0, command := Gen.calConsts.cmdEnterCfg, auth := 0, dataType := 0, dataSize := 0 } []).result = Gen.calConsts.resUnauth := by decide
example : (calcfg Gen.calConsts { channel := 1, command := Gen.calConsts.cmdRecalibrate, auth := 1, dataType := 0, dataSize := 0 }
    [⟨0, true⟩, ⟨1, true⟩]).recalibrated = [1] := by decide

/-! ### the configuration button (legacy input handling) -/

/-- what holds between events while the device is in normal operation -/
structure CbInv (s : CbSt) : Prop where
  armedHeld : s.armed = true → s.last = true ∧ s.chgLvl = true ∧ s.chgT = s.lastAct
  counted : s.click ≤ s.streak

theorem cbInv_init : CbInv {} := ⟨(fun h => by cases h), Nat.le_refl _⟩

theorem cbClick_le_streak (c : CbCfg) (s : CbSt) (ns : Bool) (now : Nat) (h : s.click ≤ s.streak) :
    cbClick c s ns now ≤ cbStreak c s now := by
  unfold cbClick cbStreak
  by_cases hf : now - s.lastAct ≥ c.windowUs
  · rw [if_pos hf, if_pos hf]; exact Nat.le_refl _
  · rw [if_neg hf, if_neg hf]
    by_cases hk : cbCounts c ns = true
    · rw [if_pos hk]; omega
    · rw [if_neg hk]; omega

theorem cbChange_inv (c : CbCfg) (s : CbSt) (ns : Bool) (now : Nat) (h : CbInv s) (hno : (cbChange c s ns now).2 = false) :
    CbInv (cbChange c s ns now).1 := by
  unfold cbChange at hno ⊢
  by_cases hc : c.onToggle = true ∧ cbClick c s ns now ≥ c.count
  · rw [if_pos hc] at hno; cases hno
  · rw [if_neg hc]
    refine ⟨?_, cbClick_le_streak c s ns now h.counted⟩
    intro ha
    simp only [Bool.and_eq_true] at ha
    simp [ha.1]

theorem cbTick_inv (c : CbCfg) (s : CbSt) (now : Nat) (h : CbInv s) : CbInv (cbTick c s now).1 := by
  unfold cbTick
  by_cases hc : s.armed = true ∧ s.last = true ∧ c.onHold = true ∧ now - s.lastAct ≥ c.pressUs
  · rw [if_pos hc]
    exact ⟨(fun ha => by cases ha), Nat.zero_le _⟩
  · rw [if_neg hc]; exact h

/-- **C12.B1 (hold)** the timer callback starts configuration mode only if the last recognised change of the button was a
    press and the configured hold time (5 s) has passed since: the button has been held for that long -/
theorem c12_hold_needs_press_time (c : CbCfg) (s : CbSt) (now : Nat) (h : CbInv s) (hs : (cbTick c s now).2 = true) :
    c.onHold = true ∧ s.chgLvl = true ∧ now - s.chgT ≥ c.pressUs := by
  unfold cbTick at hs
  by_cases hc : s.armed = true ∧ s.last = true ∧ c.onHold = true ∧ now - s.lastAct ≥ c.pressUs
  · obtain ⟨_, h2, h3⟩ := h.armedHeld hc.1
    exact ⟨hc.2.2.1, h2, by rw [h3]; exact hc.2.2.2⟩
  · rw [if_neg hc] at hs; cases hs

/-- **C12.B2 (toggles)** a recognised change starts configuration mode only if toggling is enabled for the button and this
    is at least the tenth (`count`-th) change in a row none of which came 2 s or more after the preceding press -/
theorem c12_toggle_needs_ten (c : CbCfg) (s : CbSt) (ns : Bool) (now : Nat) (h : CbInv s) (hcount : 2 ≤ c.count)
    (hs : (cbChange c s ns now).2 = true) :
    c.onToggle = true ∧ (cbChange c s ns now).1.streak ≥ c.count ∧ now - s.lastAct < c.windowUs := by
  unfold cbChange at hs ⊢
  by_cases hc : c.onToggle = true ∧ cbClick c s ns now ≥ c.count
  · rw [if_pos hc]
    have hle := cbClick_le_streak c s ns now h.counted
    refine ⟨hc.1, Nat.le_trans hc.2 hle, ?_⟩
    have h2 := hc.2
    unfold cbClick at h2
    by_cases hf : now - s.lastAct ≥ c.windowUs
    · rw [if_pos hf] at h2; omega
    · omega
  · rw [if_neg hc] at hs; cases hs

/-- for the constants of the source: ten changes, 5 s -/
theorem c12_button_consts : Gen.cfgBtnPressCount = 10 ∧ Gen.cfgBtnPressTimeMs = 5000 := by decide

/-- every event keeps the invariant until configuration mode starts -/
theorem cbRun_inv (c : CbCfg) (es : List CbEv) : ∀ s, CbInv s → (cbRun c s es).2 = false → CbInv (cbRun c s es).1 := by
  induction es with
  | nil => intro s h _; exact h
  | cons e es ih =>
    intro s h hno
    unfold cbRun at hno ⊢
    simp only at hno ⊢
    by_cases hr : (cbStep c s e).2 = true
    · rw [if_pos hr] at hno; cases hno
    · rw [if_neg hr] at hno ⊢
      have hr' : (cbStep c s e).2 = false := by simpa using hr
      apply ih _ _ hno
      cases e with
      | chg ns now => exact cbChange_inv c s ns now h hr'
      | tick now => exact cbTick_inv c s now h

/-- **C12.B (only the two gestures start configuration mode from the button)** for every sequence of recognised changes and
    timer callbacks of a configuration button, from power-on: if configuration mode is started, then either by a callback
    while the button had been held for the configured time since its last recognised change (a press), or by a change that
    is at least the `count`-th in a row without a 2 s pause after a press -/
theorem c12_button_starts_only_by_gesture (c : CbCfg) (hcount : 2 ≤ c.count) (es : List CbEv) :
    ∀ s, CbInv s → (cbRun c s es).2 = true →
    ∃ s0 e, CbInv s0 ∧ (cbStep c s0 e).2 = true ∧
      ((∃ now, e = .tick now ∧ c.onHold = true ∧ s0.chgLvl = true ∧ now - s0.chgT ≥ c.pressUs) ∨
       (∃ ns now, e = .chg ns now ∧ c.onToggle = true ∧ (cbChange c s0 ns now).1.streak ≥ c.count ∧
          now - s0.lastAct < c.windowUs)) := by
  induction es with
  | nil => intro s _ h; simp [cbRun] at h
  | cons e es ih =>
    intro s hinv h
    unfold cbRun at h
    simp only at h
    by_cases hr : (cbStep c s e).2 = true
    · refine ⟨s, e, hinv, hr, ?_⟩
      cases e with
      | chg ns now =>
        right
        obtain ⟨t1, t2, t3⟩ := c12_toggle_needs_ten c s ns now hinv hcount hr
        exact ⟨ns, now, rfl, t1, t2, t3⟩
      | tick now =>
        left
        obtain ⟨t1, t2, t3⟩ := c12_hold_needs_press_time c s now hinv hr
        exact ⟨now, rfl, t1, t2, t3⟩
    · rw [if_neg hr] at h
      have hr' : (cbStep c s e).2 = false := by simpa using hr
      apply ih _ _ h
      cases e with
      | chg ns now => exact cbChange_inv c s ns now hinv hr'
      | tick now => exact cbTick_inv c s now hinv

/-- non-vacuity: a press held 5 s starts configuration mode by the callback at 5 s, not by the one at 4.98 s;
    ten presses 300 ms apart start it at the tenth when toggling is enabled -/
example :
    let c : CbCfg := { typ := 2, onHold := true, onToggle := false, pressUs := 5000000, count := 10, windowUs := 2000000 }
    (cbRun c {} [.chg true 10000000, .tick 14980000]).2 = false ∧ (cbRun c {} [.chg true 10000000, .tick 15000000]).2 = true := by
  decide
example :
    let c : CbCfg := { typ := 2, onHold := false, onToggle := true, pressUs := 5000000, count := 10, windowUs := 2000000 }
    let clicks (n : Nat) : List CbEv := (List.range n).flatMap (fun k => [.chg true (10000000 + 300000 * k), .chg false (10150000 + 300000 * k)])
    (cbRun c {} (clicks 9)).2 = false ∧ (cbRun c {} (clicks 10)).2 = true := by decide

/-! ### the 2 s toggle window on the wrapping 32-bit microsecond counter -/

/-- the window test of supla_esp_input_legacy_state_change_handling as written: `system_get_time() - last_state_change >= 2 s`
    on counter readings -/
def windowOverSub (boot last now window : Nat) : Bool := decide (subw (cnt boot now) (cnt boot last) ≥ window)
/-- the deadline form `system_get_time() >= last_state_change + 2 s` (sum taken in 32 bits) -/
def windowOverCmp (boot last now window : Nat) : Bool := decide (cnt boot now ≥ (cnt boot last + window) % W32)

/-- **C12.B3 (the toggle window is elapsed time)** for every boot value of the counter and every two instants less than
    2^32 us (71.6 min) apart, the firmware's test on counter readings is the model's test on true time: the toggle counter
    `cbClick` is therefore the same wherever the wrap falls, and C12.B2 applies to the device as it runs. -/
theorem c12_toggle_window_is_elapsed_time (boot last e window : Nat) (he : e < W32) :
    windowOverSub boot last (last + e) window = decide ((last + e) - last ≥ window) := by
  unfold windowOverSub subw cnt W32 at *
  have : last + e - last = e := by omega
  rw [this]
  congr 1
  apply propext
  constructor <;> intro h <;> omega

/-- **C12.B3' (the deadline form is not)** nine quick toggles ending 5.5 s before the wrap and one more toggle 8 s later: the
    deadline form still sees the window open (the tenth "quick" toggle), the subtracting form does not. -/
theorem c12_window_by_comparison_is_boot_dependent :
    windowOverCmp (W32 - 10000000) 4500000 12500000 2000000 = false ∧
    windowOverSub (W32 - 10000000) 4500000 12500000 2000000 = true ∧
    windowOverCmp 0 4500000 12500000 2000000 = true := by decide


/-! ### configuration mode at boot (user_init) -/

/-- **C12.B1 (boot with a complete configuration)** with server, Wi-Fi name and password and e-mail set (MQTT: server, Wi-Fi and -
    unless authentication is off - user name and password; not locked) user_init goes on to normal operation -/
theorem c12_boot_complete_no_cfgmode (c : BootCfg) (h1 : c.server0 = false) (h2 : c.ssid0 = false) (h3 : c.wifiPwd0 = false)
    (h4 : c.email0 = false) :
    bootCfgModeBase c = false ∧
    (c.mqttEnabled = false → bootCfgModeMqtt c = false) ∧
    (c.mqttEnabled = true → c.locked = false → (c.mqttNoAuth = true ∨ c.locPwd0 = false) → bootCfgModeMqtt c = false) := by
  refine ⟨by simp [bootCfgModeBase, h1, h2, h3, h4], fun hm => by simp [bootCfgModeMqtt, h1, h2, h3, h4, hm], fun hm hl ha => ?_⟩
  rcases ha with ha | ha <;> simp [bootCfgModeMqtt, h1, h2, h3, h4, hm, hl, ha]

/-- **C12.B2 (configuration mode at boot only when something is missing)** if user_init starts the configuration mode, the
    server, the Wi-Fi name or password, or the account (e-mail, or location id/password with no e-mail) is empty - or, with
    MQTT, the user name / password while authentication is on, or the device is locked -/
theorem c12_boot_cfgmode_means_incomplete (c : BootCfg) :
    (bootCfgModeBase c = true → c.server0 = true ∨ c.ssid0 = true ∨ c.wifiPwd0 = true ∨ c.email0 = true) ∧
    (bootCfgModeMqtt c = true → c.server0 = true ∨ c.ssid0 = true ∨ c.wifiPwd0 = true ∨ c.email0 = true ∨
      (c.mqttEnabled = true ∧ (c.locked = true ∨ (c.mqttNoAuth = false ∧ c.locPwd0 = true)))) := by
  cases c with
  | mk a b e s w i m n l =>
    cases a <;> cases b <;> cases e <;> cases s <;> cases w <;> cases i <;> cases m <;> cases n <;> cases l <;>
      simp [bootCfgModeBase, bootCfgModeMqtt]

end SuplaVerif.C12
