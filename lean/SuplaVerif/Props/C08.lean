/-
  Props/C08 — roller-shutter motor outputs are interlocked and restarts/reversals are spaced.

  The theorems are about `Rs.setRelay` / `Rs.fireTrigger` / `Rs.swap`, the model of the only code
  that energises shutter outputs.  They hold for every state, every value, every flag, every
  boot value of the counter and every instant (so for every history of calls, by induction:
  `c08_interlock_run`).  That every energising of a shutter relay in the firmware goes through this
  code is checked on the implementation (the model replays the observed calls and must reproduce
  every GPIO change; tools/props/c08.py).
-/
import SuplaVerif.Model.RsRelay
import SuplaVerif.Gen.Consts

namespace SuplaVerif.C08

/-- the two outputs of a shutter are not both energised -/
def Interlock (s : Rs) : Prop := ¬(s.up = true ∧ s.down = true)

theorem relayHi_up (P : RsParams) (s : Rs) (pin : Nat) (hi : Bool) :
    (s.relayHi P true pin hi).1.up = hi ∧ (s.relayHi P true pin hi).1.down = s.down ∧
    (s.relayHi P true pin hi).1.boot = s.boot := by
  unfold Rs.relayHi
  simp only [if_true]
  split <;> simp

theorem relayHi_down (P : RsParams) (s : Rs) (pin : Nat) (hi : Bool) :
    (s.relayHi P false pin hi).1.up = s.up ∧ (s.relayHi P false pin hi).1.down = hi ∧
    (s.relayHi P false pin hi).1.boot = s.boot := by
  unfold Rs.relayHi
  simp only [Bool.false_eq_true, if_false]
  split <;> simp

/-- after the first step of a direction command the opposite output is off, the other unchanged -/
theorem forceOpp_levels (P : RsParams) (s : Rs) (v pu pd : Nat) :
    (v = 2 → (s.forceOpp P v pu pd).1.down = false ∧ (s.forceOpp P v pu pd).1.up = s.up) ∧
    (v ≠ 2 → (s.forceOpp P v pu pd).1.up = false ∧ (s.forceOpp P v pu pd).1.down = s.down) := by
  unfold Rs.forceOpp
  constructor
  · intro hv
    rw [if_pos hv]
    cases hd : s.down
    · simp [hd]
    · simp only [if_true]
      have := relayHi_down P s pd false
      exact ⟨this.2.1, this.1⟩
  · intro hv
    rw [if_neg hv]
    cases hu : s.up
    · simp [hu]
    · simp only [if_true]
      have := relayHi_up P s pu false
      exact ⟨this.1, this.2.1⟩

theorem act_interlock (P : RsParams) (s : Rs) (v : Nat) (bu bd : Bool) (pu pd : Nat)
    (h : Interlock s) (h2 : v = 2 → s.down = false) (h1 : v = 1 → s.up = false) :
    Interlock (s.act P v bu bd pu pd).1 := by
  unfold Rs.act
  split
  · rename_i hv
    split
    · exact h
    · have := relayHi_up P s pu true
      unfold Interlock; rw [this.2.1, h2 hv]; simp
  · split
    · rename_i hv
      split
      · exact h
      · have := relayHi_down P s pd true
        unfold Interlock; rw [this.1, h1 hv]; simp
    · have a := relayHi_up P s pu false
      have b := relayHi_down P (s.relayHi P true pu false).1 pd false
      unfold Interlock; simp only; rw [b.2.1]; simp

/-- **C08.1 (interlock, one call)** `set_relay` never leaves both outputs energised, whatever the
    value, flags, stamps, time or counter. -/
theorem c08_interlock_setRelay (P : RsParams) (s : Rs) (v : Nat) (sd bu bd : Bool) (pu pd : Nat)
    (h : Interlock s) : Interlock (s.setRelay P v sd bu bd pu pd).1 := by
  unfold Rs.setRelay
  have h0 : Interlock { s with trig := none } := h
  split
  · rename_i hv
    split
    · exact h
    · exact act_interlock P _ v bu bd pu pd h0 (by omega) (by omega)
  · rename_i hv
    have hl := forceOpp_levels P { s with trig := none } v pu pd
    simp only
    have hi0 : Interlock (Rs.forceOpp P { s with trig := none } v pu pd).1 := by
      unfold Interlock
      by_cases h2 : v = 2
      · rw [(hl.1 h2).1]; simp
      · rw [(hl.2 h2).1]; simp
    split
    · exact hi0
    · exact act_interlock P _ v bu bd pu pd hi0 (fun h2 => (hl.1 h2).1) (fun h1 => (hl.2 (by omega)).1)

theorem c08_interlock_fire (P : RsParams) (s : Rs) (bu bd : Bool) (pu pd : Nat) (h : Interlock s) :
    Interlock (s.fireTrigger P bu bd pu pd).1 := by
  unfold Rs.fireTrigger
  split
  · exact h
  · exact c08_interlock_setRelay P s _ false bu bd pu pd h

/-- swapping the motor direction (channel config) keeps the interlock -/
theorem c08_interlock_swap (s : Rs) (h : Interlock s) : Interlock s.swap := by
  unfold Interlock Rs.swap at *; simp only; intro ⟨a, b⟩; exact h ⟨b, a⟩

/-- operations on one shutter's outputs, as the firmware performs them -/
inductive RsOp
  | set (v : Nat) (sd bu bd : Bool) (pu pd : Nat) (at_ : Nat)   -- set_relay at true time `at_`
  | fire (bu bd : Bool) (pu pd : Nat) (at_ : Nat)               -- delayed trigger fires
  | swap
  deriving Repr

def applyOp (P : RsParams) (s : Rs) : RsOp → Rs × List RsObs
  | .set v sd bu bd pu pd t => ({ s with now := max s.now t }).setRelay P v sd bu bd pu pd
  | .fire bu bd pu pd t => ({ s with now := max s.now t }).fireTrigger P bu bd pu pd
  | .swap => (s.swap, [])

def runOps (P : RsParams) (s : Rs) : List RsOp → Rs × List RsObs
  | [] => (s, [])
  | o :: os =>
    let r1 := applyOp P s o
    let r2 := runOps P r1.1 os
    (r2.1, r1.2 ++ r2.2)

/-- **C08.1 (interlock, every history)** after any sequence of commands, trigger firings and motor
    swaps at any instants, with any counter boot value, the two outputs are never both energised. -/
theorem c08_interlock_run (P : RsParams) (ops : List RsOp) (s : Rs) (h : Interlock s) :
    Interlock (runOps P s ops).1 := by
  induction ops generalizing s with
  | nil => exact h
  | cons o os ih =>
    unfold runOps
    apply ih
    cases o with
    | set v sd bu bd pu pd t => exact c08_interlock_setRelay P _ v sd bu bd pu pd h
    | fire bu bd pu pd t => exact c08_interlock_fire P _ bu bd pu pd h
    | swap => exact c08_interlock_swap s h

/-! ### spacing -/

/-- elapsed time as the firmware computes it from a stamp taken at true time `τ`: exact modulo 2^32, or one
    microsecond short when the counter read 0 at `τ` (0 is reserved for "not set", the stamp is 1 then) -/
theorem elapsed_from_stamp (boot τ now : Nat) (hlt : τ < now) :
    subw (cnt boot now) (stamp (cnt boot τ)) = (now - τ) % W32 ∨
    subw (cnt boot now) (stamp (cnt boot τ)) = (now - τ - 1) % W32 := by
  unfold stamp
  by_cases h0 : cnt boot τ = 0
  · rw [if_pos h0]
    right
    unfold subw cnt W32 at *
    omega
  · rw [if_neg h0]
    left
    unfold subw cnt W32
    omega

/-- **C08.2a (the delay is exact across a wrap)** if both outputs went off at true time `τ` and
    were stamped then, the start delay computed at a later true time `now` uses the true elapsed time
    modulo 2^32 (at most one microsecond less) — for every boot value, also when the counter read 0 at `τ`. -/
theorem c08_delay_uses_true_elapsed (P : RsParams) (hs0 : P.startDelay ≠ 0) (s : Rs) (τ : Nat)
    (hstart : s.startT = 0) (hstop : s.stopT = stamp (cnt s.boot τ)) (hlt : τ < s.now) :
    ∃ e, (e = (s.now - τ) % W32 ∨ e = (s.now - τ - 1) % W32) ∧
      Rs.startDelayOf P s = (if e / 1000 < P.startDelay then P.startDelay - e / 1000 + 1 else 0) := by
  refine ⟨subw (cnt s.boot s.now) (stamp (cnt s.boot τ)), elapsed_from_stamp s.boot τ s.now hlt, ?_⟩
  have hpos : stamp (cnt s.boot τ) > 0 := by unfold stamp; split <;> omega
  unfold Rs.startDelayOf
  rw [hstop]
  by_cases hc : subw (cnt s.boot s.now) (stamp (cnt s.boot τ)) / 1000 < P.startDelay
  · rw [if_pos hc, if_pos ⟨hs0, hstart, hpos, hc⟩]
  · rw [if_neg hc, if_neg (fun h => hc h.2.2.2)]

/-- **C08.2b (spacing, the decisive inequality)** whenever the computed delay does not exceed the
    scheduling threshold — the only case in which `set_relay` energises an output at once — at
    least `startDelay - thresh - 1` ms of true time have passed since the outputs went off; with no
    upper bound on the elapsed time, wherever the counter wrapped and whatever it read at the stop. -/
theorem c08_spacing (P : RsParams) (hP : P.thresh < P.startDelay) (hs0 : P.startDelay ≠ 0) (s : Rs) (τ : Nat)
    (hstart : s.startT = 0) (hstop : s.stopT = stamp (cnt s.boot τ)) (hlt : τ < s.now)
    (hd : ¬ Rs.startDelayOf P s > P.thresh) :
    τ + (P.startDelay - P.thresh - 1) * 1000 ≤ s.now := by
  obtain ⟨e, he, hdel⟩ := c08_delay_uses_true_elapsed P hs0 s τ hstart hstop hlt
  rw [hdel] at hd
  have hle : e ≤ s.now - τ := by
    rcases he with he | he
    · rw [he]; exact Nat.mod_le _ _
    · rw [he]; exact Nat.le_trans (Nat.mod_le _ _) (Nat.sub_le _ _)
  have hdm := Nat.div_mul_le_self e 1000
  by_cases hc : e / 1000 < P.startDelay
  · rw [if_pos hc] at hd
    have h1 : P.startDelay - P.thresh - 1 ≤ e / 1000 := by omega
    have := Nat.mul_le_mul_right 1000 h1
    omega
  · have h1 : P.startDelay ≤ e / 1000 := by omega
    have h3 := Nat.mul_le_mul_right 1000 h1
    have : (P.startDelay - P.thresh - 1) * 1000 ≤ P.startDelay * 1000 :=
      Nat.mul_le_mul_right 1000 (by omega)
    omega

/-- **C08.2c (a command during the delay schedules, it does not energise)** from the all-off
    state, if the delay exceeds the threshold, `set_relay` for a direction produces no GPIO change
    at all and arms the delayed trigger for exactly the remaining time. -/
theorem c08_delayed_not_immediate (P : RsParams) (s : Rs) (v : Nat) (sd bu bd : Bool) (pu pd : Nat)
    (hv : v ≠ 0) (hup : s.up = false) (hdown : s.down = false)
    (hd : Rs.startDelayOf P { s with trig := none } > P.thresh) :
    (s.setRelay P v sd bu bd pu pd).2 = [] ∧
    (s.setRelay P v sd bu bd pu pd).1.trig =
      some (v, s.now + Rs.startDelayOf P { s with trig := none } * 1000) := by
  have hf : Rs.forceOpp P { s with trig := none } v pu pd = ({ s with trig := none }, []) := by
    unfold Rs.forceOpp
    split <;> simp [hup, hdown]
  unfold Rs.setRelay
  rw [if_neg hv]
  simp only [hf]
  rw [if_pos hd]
  simp

/-- a reversal first switches the running output off and stamps the stop: afterwards both are
    off and `start_time` is cleared (so that the start delay applies to the new direction) -/
theorem c08_reversal_forces_off (P : RsParams) (s : Rs) (pu pd : Nat) (hup : s.up = true)
    (hil : Interlock s) (hrun : s.stopT = 0) :
    (s.forceOpp P 1 pu pd).1.up = false ∧ (s.forceOpp P 1 pu pd).1.down = false ∧
    (s.forceOpp P 1 pu pd).1.startT = 0 ∧ (s.forceOpp P 1 pu pd).1.stopT = stamp (cnt s.boot s.now) ∧
    (s.forceOpp P 1 pu pd).1.now = s.now + P.preUs + P.dblUs + P.postUs + P.oppUs := by
  have hdown : s.down = false := by
    cases hd : s.down
    · rfl
    · exact absurd ⟨hup, hd⟩ hil
  unfold Rs.forceOpp
  simp only [show (1 : Nat) ≠ 2 by decide, if_false, hup, if_true]
  unfold Rs.relayHi
  simp [hdown, hrun]

/-! ### instantiation and non-vacuity -/

/-- for the constants of the source tree: an immediate start happens no earlier than 899 ms after
    the outputs went off -/
theorem c08_spacing_repo (s : Rs) (τ : Nat)
    (hstart : s.startT = 0) (hstop : s.stopT = stamp (cnt s.boot τ)) (hlt : τ < s.now)
    (hd : ¬ Rs.startDelayOf Gen.rsParams s > Gen.rsParams.thresh) : τ + 899000 ≤ s.now :=
  c08_spacing Gen.rsParams (by decide) (by decide) s τ hstart hstop hlt hd

/-- non-vacuity: a stop at true time 2.8 s stamped just before the counter wraps, then a DOWN
    command 0.5 s later (after the wrap): nothing is energised, a delayed start is scheduled for
    the remaining 501 ms (the historic witness of F7 behaved differently). -/
example :
    let s : Rs := { stopT := cnt (4294967296 - 3000000) 2800000, boot := 4294967296 - 3000000, now := 3300000,
                    offSince := some 2800000 }
    (s.setRelay Gen.rsParams 1 false false false 1 2).2 = [] ∧
    (s.setRelay Gen.rsParams 1 false false false 1 2).1.trig = some (1, 3300000 + 501000) := by decide

/-- non-vacuity of the zero reading: the shutter runs up, a DOWN command arrives at the very microsecond the
    counter wraps to 0: the up output goes off (stamp 1, not 0), nothing is energised, the start is scheduled.
    Before the repair in /repo the stamp 0 read as "never stopped" and the down output followed 20 ms later. -/
example :
    let s : Rs := { up := true, startT := 7, boot := 4294967296 - 1500000, now := 1500000 }
    (s.setRelay Gen.rsParams 1 false false false 1 2).1.up = false ∧
    (s.setRelay Gen.rsParams 1 false false false 1 2).1.down = false ∧
    (s.setRelay Gen.rsParams 1 false false false 1 2).1.stopT = 1 ∧
    (s.setRelay Gen.rsParams 1 false false false 1 2).1.trig.isSome = true := by decide

end SuplaVerif.C08
