/-
  Props/C03 — mis-sized or out-of-range server messages are ignored without side effects.

  Part (a): the size validation of srpc_getdata, as a table regenerated from the preprocessed
  source on every run (Gen/GetData.lean).  The quantifier "every call id x every payload length x
  every field value" is discharged by a generic theorem about table rows (`c03_copy_in_bounds`,
  `c03_size_is_required`) plus a kernel-decided check of the whole finite table
  (`c03_table_safe`, `c03_dispatched_modelled`).
  Part (b), the handlers' index guards, is checked on the implementation (sanitizers + slot
  ownership monitor, tools/props/c03.py); see DESIGN.md.
-/
import SuplaVerif.Model.GetData
import SuplaVerif.Gen.GetData

namespace SuplaVerif.C03
open Bytes

/-- **C03.a1** for every table row that is `Safe`: an accepted packet is copied within the
    allocation (`memcpy(rd->data.x, sdp.data, data_size)` with `data_size ≤ alloc`), for every
    length and every payload. -/
theorem c03_copy_in_bounds (e : GdEntry) (hs : e.Safe) (ds : Nat) (p : Bytes)
    (h : e.check.accepts ds p = some true) : e.check = .noData ∨ ds ≤ e.alloc := by
  unfold GdEntry.Safe at hs
  cases hc : e.check with
  | exact sizes =>
    right
    rw [hc] at hs h
    simp only [GdCheck.accepts, Option.some.injEq] at h
    exact hs.2 ds (by simpa using h)
  | valid main item max fo fw sg =>
    right
    rw [hc] at hs h
    simp only [GdCheck.accepts, Option.some.injEq, Bool.and_eq_true, decide_eq_true_eq] at h
    omega
  | noData => left; rfl
  | other => rw [hc] at h; simp [GdCheck.accepts] at h

/-- **C03.a2** an accepted length is exactly the length the call type requires: one of the fixed
    structure sizes, or header + declared element count x element size with the count within
    its maximum. -/
theorem c03_size_is_required (e : GdEntry) (hs : e.Safe) (ds : Nat) (p : Bytes)
    (h : e.check.accepts ds p = some true) :
    match e.check with
    | .exact sizes => ds ∈ sizes
    | .valid main item max fo fw sg =>
        ∃ v, fieldVal p fo fw sg = some v ∧ ds = (main - item * max) + v * item ∧ v ≤ max
    | .noData => True
    | .other => False := by
  unfold GdEntry.Safe at hs
  cases hc : e.check with
  | exact sizes =>
    rw [hc] at h
    simp only [GdCheck.accepts, Option.some.injEq] at h
    simpa using h
  | valid main item max fo fw sg =>
    rw [hc] at hs h
    simp only [GdCheck.accepts, Option.some.injEq, Bool.and_eq_true, decide_eq_true_eq] at h
    obtain ⟨⟨h1, h2⟩, h3⟩ := h
    cases hv : fieldVal p fo fw sg with
    | none => rw [hv] at h3; simp at h3
    | some v =>
      rw [hv] at h3
      simp only [beq_iff_eq] at h3
      refine ⟨v, hv, by omega, ?_⟩
      have hm : v * item ≤ item * max := by omega
      rw [Nat.mul_comm item max] at hm
      exact Nat.le_of_mul_le_mul_right hm hs.2.2.2
  | noData => trivial
  | other => rw [hc] at h; simp [GdCheck.accepts] at h

/-- **C03.a3** a call id with no case in the switch yields DATA_ERROR (the pointer stays NULL) -/
theorem c03_unknown_id_error (tbl : List GdEntry) (c ds : Nat) (p : Bytes)
    (h : tbl.find? (fun e => e.callId == c) = none) : getdataResult tbl c ds p = some (-2) := by
  simp [getdataResult, h]

/-- **C03.a2'** a call whose size rule is one fixed size is accepted only with a payload of exactly the size of the structure
    its handler receives (the allocation): the size test and the structure cannot drift apart -/
theorem c03_single_size_is_structure (e : GdEntry) (hs : e.Safe) (n ds : Nat) (p : Bytes) (hc : e.check = .exact [n])
    (h : e.check.accepts ds p = some true) : ds = e.alloc := by
  unfold GdEntry.Safe at hs
  rw [hc] at hs h
  simp only [GdCheck.accepts, Option.some.injEq] at h
  have h1 : ds = n := by simpa using h
  have h2 : e.alloc = n := by simpa using hs.1
  omega

/-- **C03.a4** a packet whose length is none of the fixed sizes its call id requires yields
    DATA_ERROR, whatever it contains -/
theorem c03_mis_sized_error (tbl : List GdEntry) (e : GdEntry) (sizes : List Nat) (c ds : Nat) (p : Bytes)
    (hf : tbl.find? (fun e => e.callId == c) = some e) (hc : e.check = .exact sizes)
    (hn : ds ∉ sizes) : getdataResult tbl c ds p = some (-2) := by
  simp [getdataResult, hf, hc, GdCheck.accepts, hn]

/-- the read of the size field happens inside the part of the packet that `data_size` covers -/
theorem c03_field_inside (e : GdEntry) (hs : e.Safe) (main item max fo fw : Nat) (sg : Bool)
    (hc : e.check = .valid main item max fo fw sg) (ds : Nat) (h : main - item * max ≤ ds) :
    fo + fw ≤ ds := by
  unfold GdEntry.Safe at hs; rw [hc] at hs; omega

/-! ### the table of the current source tree (finite: decided by the kernel) -/

/-- every row of the regenerated table is `Safe` -/
theorem c03_table_safe : ∀ e ∈ Gen.getDataTable, e.Safe := by decide

/-- every call id the device dispatches to a handler has a row whose validation is modelled
    (none of them is an unmodelled shape or missing) -/
theorem c03_dispatched_modelled :
    ∀ c ∈ Gen.dispatched, ∃ e ∈ Gen.getDataTable, e.callId = c ∧ e.check ≠ .other ∧ e.check ≠ .noData := by
  decide

/-- call ids are unique in the table (the switch has no duplicate labels) -/
theorem c03_table_ids_unique : (Gen.getDataTable.map (·.callId)).Nodup := by decide

/-- non-vacuity: SET_VALUE (110) with its 17-byte structure is accepted, 16 bytes are not -/
example : getdataResult Gen.getDataTable 110 17 (List.replicate 17 0) = some 1 := by decide
example : getdataResult Gen.getDataTable 110 16 (List.replicate 16 0) = some (-2) := by decide
/-- a CALCFG request (460) declaring 3 data bytes must be 21+3 bytes long -/
example : getdataResult Gen.getDataTable 460 24
    ([0,0,0,0, 0,0,0,0, 0,0,0,0, 0, 0,0,0,0, 3,0,0,0] ++ [1,2,3]) = some 1 := by decide
example : getdataResult Gen.getDataTable 460 25
    ([0,0,0,0, 0,0,0,0, 0,0,0,0, 0, 0,0,0,0, 3,0,0,0] ++ [1,2,3,4]) = some (-2) := by decide

end SuplaVerif.C03
