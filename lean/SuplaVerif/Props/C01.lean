/-
  Props/C01 — SRPC receiver delivers only genuine well-formed frames and is memory-safe.

  Property theorems only (helper lemmas live in Lemmas/*).  Everything is proved for every
  `ProtoParams` satisfying the side conditions `WF` and `bufMin < bufMax`; Gen/Consts.lean
  (regenerated from /repo on every run) instantiates them for the constants of the source.

  Quantifiers: every history = every list of events (segments of any content and size, iterate
  ticks, device calls, espconn result scripts), every content of the scratch packet `srpc->sdp`
  at every event; no bound on lengths.
-/
import SuplaVerif.Lemmas.Io
import SuplaVerif.Gen.Consts

namespace SuplaVerif.C01
open Bytes

/-- bytes of an event that the receive callback takes into the staging buffer -/
def acceptedBytes (P : ProtoParams) (s : Io) : Ev → Bytes
  | .recv d => if Io.accepts P s d then d else []
  | _ => []

/-- the byte stream accepted during a history (segments dropped by the staging-buffer bound,
    and everything after the connection died, excluded) -/
def acceptedStream (P : ProtoParams) (al : Nat → Bool) (s : Io) : List (Bytes × Ev) → Bytes
  | [] => []
  | (sc, e) :: es => acceptedBytes P s e ++ acceptedStream P al (Io.step P al sc s e).1 es

/-- all bytes the network delivered during a history -/
def offeredStream : List (Bytes × Ev) → Bytes
  | [] => []
  | (_, .recv d) :: es => d ++ offeredStream es
  | _ :: es => offeredStream es

/-- state invariant relating what was delivered (`fs`) to the accepted stream (`S`) -/
structure Good (P : ProtoParams) (s : Io) (S : Bytes) (fs : List Frame) : Prop where
  valid  : ∀ f ∈ fs, f.Valid P
  inv    : s.i.inb.Inv P
  stage  : s.i.staging.length ≤ P.stage
  stream : ∃ tail, S = Frame.enc fs ++ tail ∧ (s.dead = false → tail = s.i.inb.data ++ s.i.staging)

/-- devIterate keeps the invariant; the delivered frame (if any) is the next frame of the stream -/
theorem devIterate_good (P : ProtoParams) (hP : P.WF) (hm : P.bufMin < P.bufMax) (sc : Bytes)
    (s : Io) (S : Bytes) (fs : List Frame) (hd : s.dead = false) (hg : Good P s S fs) :
    Good P (Io.devIterate P sc s).1 S (fs ++ delivers (Io.devIterate P sc s).2) := by
  obtain ⟨hv, hinv, hst, tail, hS, htail⟩ := hg
  have htl := htail hd
  have hspec := inHalf_spec P hP hm sc s.i hinv
  unfold Io.devIterate Io.srpcIterate
  simp only
  generalize hin : s.i.inHalf P sc = r at hspec
  obtain ⟨ok, i', o1⟩ := r
  simp only at hspec
  obtain ⟨hinv', hstg', hcase⟩ := hspec
  cases ok with
  | false =>
    simp only
    rcases hcase with ⟨f, _, _, hok, _⟩ | ⟨hdel, _⟩
    · cases hok
    · refine ⟨?_, hinv', ?_, tail, ?_, fun h => by cases h⟩
      · simpa [hdel] using hv
      · show i'.staging.length ≤ P.stage; omega
      · simp [hdel, hS]
  | true =>
    simp only
    generalize hout : IoOut.outHalf P (IoOut.dataWrite P s.o []).1 = ro
    obtain ⟨ok2, o', o2⟩ := ro
    rcases hcase with ⟨f, hdel, hfv, _, hpend⟩ | ⟨hdel, hkeep⟩
    · have hgood : ∀ d : Bool, Good P { i := i', o := o', dead := d } S (fs ++ [f]) := by
        intro d
        refine ⟨?_, hinv', (by show i'.staging.length ≤ P.stage; omega), i'.inb.data ++ i'.staging, ?_,
          fun _ => rfl⟩
        · intro g hgm
          rcases List.mem_append.mp hgm with h | h
          · exact hv g h
          · simp at h; subst h; exact hfv
        · rw [hS, htl, hpend, enc_append, enc_single]; simp
      cases ok2 <;> simp [hdel] <;> exact hgood _
    · have hgood : ∀ d : Bool, Good P { i := i', o := o', dead := d } S fs := by
        intro d
        refine ⟨hv, hinv', (by show i'.staging.length ≤ P.stage; omega), tail, hS, fun _ => ?_⟩
        rw [htl]; exact (hkeep rfl).symm
      cases ok2 <;> simp [hdel] <;> exact hgood _

/-- one event keeps the invariant, extending the accepted stream by the accepted bytes and the
    delivered list by what the event delivered -/
theorem step_good (P : ProtoParams) (hP : P.WF) (hm : P.bufMin < P.bufMax) (al : Nat → Bool)
    (sc : Bytes) (s : Io) (e : Ev) (S : Bytes) (fs : List Frame) (hg : Good P s S fs) :
    Good P (Io.step P al sc s e).1 (S ++ acceptedBytes P s e) (fs ++ delivers (Io.step P al sc s e).2) := by
  cases hd : s.dead with
  | true =>
    have hacc : acceptedBytes P s e = [] := by
      cases e <;> simp [acceptedBytes, Io.accepts, hd]
    have hstep : Io.step P al sc s e = (s, []) := by unfold Io.step; simp [hd]
    rw [hstep, hacc]
    simpa using hg
  | false =>
    cases e with
    | tick =>
      have hstep : Io.step P al sc s .tick = Io.devIterate P sc s := by unfold Io.step; simp [hd]
      rw [hstep]
      simpa [acceptedBytes] using devIterate_good P hP hm sc s S fs hd hg
    | call c p =>
      have hstep : Io.step P al sc s (.call c p) =
          ({ s with o := (IoOut.asyncCall P al s.o c p).1 }, (IoOut.asyncCall P al s.o c p).2.map Obs.out) := by
        unfold Io.step; simp [hd]
      rw [hstep]
      simp only [acceptedBytes, List.append_nil, delivers_map_out]
      refine ⟨hg.valid, hg.inv, hg.stage, ?_⟩
      exact hg.stream
    | esp cs =>
      have hstep : Io.step P al sc s (.esp cs) =
          ({ s with o := { s.o with esp := s.o.esp ++ cs } }, []) := by
        unfold Io.step; simp [hd]
      rw [hstep]
      simp only [acceptedBytes, List.append_nil, delivers_nil]
      refine ⟨hg.valid, hg.inv, hg.stage, ?_⟩
      exact hg.stream
    | recv d =>
      have hstep : Io.step P al sc s (.recv d) = Io.recvCb P sc s d := by unfold Io.step; simp [hd]
      rw [hstep]
      unfold Io.recvCb
      by_cases h0 : d.length = 0
      · have : d = [] := List.eq_nil_of_length_eq_zero h0
        subst this
        simp [acceptedBytes]
        exact hg
      · rw [if_neg h0]
        by_cases hfit : d.length ≤ P.stage - s.i.staging.length
        · rw [if_pos hfit]
          have hacc : acceptedBytes P s (.recv d) = d := by
            simp [acceptedBytes, Io.accepts, hd, hfit]
          rw [hacc]
          apply devIterate_good P hP hm sc _ _ fs (by simpa using hd)
          obtain ⟨hv, hinv, hst, tail, hS, htail⟩ := hg
          refine ⟨hv, hinv, ?_, tail ++ d, by rw [hS]; simp, fun _ => ?_⟩
          · show (s.i.staging ++ d).length ≤ P.stage
            simp only [List.length_append]; omega
          · show tail ++ d = s.i.inb.data ++ (s.i.staging ++ d)
            rw [htail hd]; simp
        · rw [if_neg hfit]
          have hacc : acceptedBytes P s (.recv d) = [] := by
            simp [acceptedBytes, Io.accepts, hfit]
          obtain ⟨hv, hinv, hst, tail, hS, _⟩ := hg
          rw [hacc]
          simp only [List.append_nil, delivers]
          exact ⟨hv, hinv, hst, tail, by simpa using hS, fun h => by cases h⟩

theorem run_good (P : ProtoParams) (hP : P.WF) (hm : P.bufMin < P.bufMax) (al : Nat → Bool)
    (h : List (Bytes × Ev)) (s : Io) (S : Bytes) (fs : List Frame) (hg : Good P s S fs) :
    Good P (Io.run P al s h).1 (S ++ acceptedStream P al s h) (fs ++ delivers (Io.run P al s h).2) := by
  induction h generalizing s S fs with
  | nil => simpa [Io.run, acceptedStream] using hg
  | cons x xs ih =>
    obtain ⟨sc, e⟩ := x
    have h1 := step_good P hP hm al sc s e S fs hg
    have h2 := ih _ _ _ h1
    unfold Io.run acceptedStream
    generalize hst : Io.step P al sc s e = r at h1 h2
    obtain ⟨s1, o1⟩ := r
    simp only at h1 h2 ⊢
    generalize hrn : Io.run P al s1 xs = r2 at h2
    obtain ⟨s2, o2⟩ := r2
    simpa [List.append_assoc] using h2

theorem init_good (P : ProtoParams) (hb : 0 < P.bufMax) (o : IoOut) :
    Good P { i := {}, o := o, dead := false } [] [] :=
  ⟨by simp, AccBuf.Inv.init P hb, by simp, [], by simp [Frame.enc], by simp⟩

/-! ## The property theorems -/

/-- **C01.1 (delivery)** For every history from a fresh connection: the packets handed to the
    handler are a prefix of the good frames of the accepted byte stream — in stream order, each at
    most once, byte-for-byte (`goodFrames` is defined on the stream alone, so the result does not
    depend on segmentation or on where iterate ticks fall). -/
theorem c01_delivery (P : ProtoParams) (hP : P.WF) (hm : P.bufMin < P.bufMax) (al : Nat → Bool)
    (o : IoOut) (h : List (Bytes × Ev)) :
    delivers (Io.run P al { i := {}, o := o, dead := false } h).2 <+:
      goodFrames P (acceptedStream P al { i := {}, o := o, dead := false } h) := by
  have hg := run_good P hP hm al h _ [] [] (init_good P (by omega) o)
  simp only [List.nil_append] at hg
  obtain ⟨hv, _, _, tail, hS, _⟩ := hg
  unfold goodFrames
  rw [hS, goodFramesFuel_enc P hP _ hv tail _ (by
    have := enc_length_ge (delivers (Io.run P al { i := {}, o := o, dead := false } h).2)
    simp only [List.length_append]; omega)]
  exact List.prefix_append _ _

/-- **C01.1b (genuine)** every delivered packet is a valid frame whose wire image occurs in the
    accepted stream at the position after the previously delivered ones. -/
theorem c01_genuine (P : ProtoParams) (hP : P.WF) (hm : P.bufMin < P.bufMax) (al : Nat → Bool)
    (o : IoOut) (h : List (Bytes × Ev)) :
    (∀ f ∈ delivers (Io.run P al { i := {}, o := o, dead := false } h).2, f.Valid P) ∧
    ∃ tail, acceptedStream P al { i := {}, o := o, dead := false } h =
      Frame.enc (delivers (Io.run P al { i := {}, o := o, dead := false } h).2) ++ tail := by
  have hg := run_good P hP hm al h _ [] [] (init_good P (by omega) o)
  simp only [List.nil_append] at hg
  obtain ⟨hv, _, _, tail, hS, _⟩ := hg
  exact ⟨hv, tail, hS⟩

/-- **C01.1c (complete when drained)** if the connection is alive and nothing is pending, exactly
    the good frames of the accepted stream have been delivered and the stream is their encoding. -/
theorem c01_drained (P : ProtoParams) (hP : P.WF) (hm : P.bufMin < P.bufMax) (al : Nat → Bool)
    (o : IoOut) (h : List (Bytes × Ev))
    (halive : (Io.run P al { i := {}, o := o, dead := false } h).1.dead = false)
    (hempty : (Io.run P al { i := {}, o := o, dead := false } h).1.i.inb.data = [] ∧
              (Io.run P al { i := {}, o := o, dead := false } h).1.i.staging = []) :
    acceptedStream P al { i := {}, o := o, dead := false } h =
      Frame.enc (delivers (Io.run P al { i := {}, o := o, dead := false } h).2) := by
  have hg := run_good P hP hm al h _ [] [] (init_good P (by omega) o)
  simp only [List.nil_append] at hg
  obtain ⟨_, _, _, tail, hS, htail⟩ := hg
  have := htail halive
  rw [hempty.1, hempty.2] at this
  rw [hS, this]; simp

/-- **C01.2 (errors end the connection)** once dead (after any error) no event delivers anything
    or changes the state: no earlier packet is delivered again, nothing later is delivered. -/
theorem c01_dead_silent (P : ProtoParams) (al : Nat → Bool) (s : Io) (hd : s.dead = true)
    (h : List (Bytes × Ev)) : Io.run P al s h = (s, []) := by
  induction h with
  | nil => rfl
  | cons x xs ih =>
    obtain ⟨sc, e⟩ := x
    unfold Io.run
    have : Io.step P al sc s e = (s, []) := by unfold Io.step; simp [hd]
    rw [this]; simp only; rw [ih]; rfl

/-- **C01.2b (errors are reported)** an iterate that does not succeed (malformed tag, version out
    of range, oversized or wrapped length, wrong end tag, buffer overflow) kills the connection
    and emits the restart observation; a malformed head is such a failure. -/
theorem c01_error_reported (P : ProtoParams) (sc : Bytes) (s : Io)
    (hfail : (Io.srpcIterate P sc { s with o := (s.o.dataWrite P []).1 }).1 = false) :
    (Io.devIterate P sc s).1.dead = true ∧ Obs.restart ∈ (Io.devIterate P sc s).2 := by
  unfold Io.devIterate
  simp only
  split
  · rename_i heq; rw [heq] at hfail; cases hfail
  · simp

theorem c01_malformed_fails (P : ProtoParams) (hP : P.WF) (hm : P.bufMin < P.bufMax) (sc : Bytes)
    (i : IoIn) (hb : i.inb.Inv P) (hst : i.staging = [])
    (hbad : parseHead P i.inb.data = .bad ∨ parseHead P i.inb.data = .badVersion) :
    (i.inHalf P sc).1 = false ∧ delivers (i.inHalf P sc).2.2 = [] := by
  unfold IoIn.inHalf
  simp only [hst, List.take_nil, List.length_nil, Nat.lt_irrefl, if_false, List.drop_nil]
  simp only [ne_eq, not_true_eq_false, if_false]
  rcases hbad with h | h
  · obtain ⟨b', sdp, hpop, _, _⟩ := popInSdp_bad P hP hm i.inb sc hb h
    rw [hpop]; simp
  · obtain ⟨b', sdp, hpop, _, _⟩ := popInSdp_badVersion P hm i.inb sc hb h
    rw [hpop]; simp

/-- **C01.3 (bounds)** in every reachable state the buffered input is below the fixed receive
    limit and the staging buffer within its array. -/
theorem c01_bounds (P : ProtoParams) (hP : P.WF) (hm : P.bufMin < P.bufMax) (al : Nat → Bool)
    (o : IoOut) (h : List (Bytes × Ev)) :
    (Io.run P al { i := {}, o := o, dead := false } h).1.i.inb.data.length < P.bufMax ∧
    (Io.run P al { i := {}, o := o, dead := false } h).1.i.staging.length ≤ P.stage := by
  have hg := run_good P hP hm al h _ [] [] (init_good P (by omega) o)
  obtain ⟨_, hinv, hst, _⟩ := hg
  exact ⟨Nat.lt_of_le_of_lt hinv.fits hinv.below, hst⟩

/-- **C01.3b (copy stays inside the packet)** whenever a packet is popped, the number of bytes
    copied into the TSuplaDataPacket is at most its size and the end tag compared lies inside the
    buffered data. -/
theorem c01_copy_in_bounds (P : ProtoParams) (d : Bytes) (f : Frame) (rest : Bytes)
    (h : parseHead P d = .frame f rest) :
    P.hdr + le32 (d.drop 14) ≤ P.hdr + P.maxData ∧ P.hdr + le32 (d.drop 14) + 5 ≤ d.length := by
  obtain ⟨_, _, _, _, hds, hlen, _⟩ := parseHead_frame_inv P d f rest h
  exact ⟨by omega, hlen⟩

/-- **C01.4 (a segment that cannot be stored ends the connection)** a segment that does not fit the
    staging buffer is reported and followed by the restart: nothing received later is parsed over the hole. -/
theorem c01_drop_reported (P : ProtoParams) (sc : Bytes) (s : Io) (d : Bytes) (h0 : d.length ≠ 0)
    (hbig : ¬ d.length ≤ P.stage - s.i.staging.length) :
    Io.recvCb P sc s d = ({ s with dead := true }, [.log "RECVOVF", .restart]) := by
  unfold Io.recvCb; rw [if_neg h0, if_neg hbig]

/-- the verdict of the grammar on a stream prefix is final: appending bytes to a stream whose head
    is a frame does not change that frame (segmentation independence of the spec itself). -/
theorem c01_frame_stable (P : ProtoParams) (hP : P.WF) (d x : Bytes) (f : Frame) (rest : Bytes)
    (h : parseHead P d = .frame f rest) : parseHead P (d ++ x) = .frame f (rest ++ x) := by
  obtain ⟨hd, hv⟩ := parseHead_sound P hP d f rest h
  rw [hd, List.append_assoc]
  exact parseHead_complete P hP f hv _

/-! ## Instantiation for the constants of the source tree, and non-vacuity -/

theorem c01_delivery_repo (al : Nat → Bool) (o : IoOut) (h : List (Bytes × Ev)) :
    delivers (Io.run Gen.protoParams al { i := {}, o := o, dead := false } h).2 <+:
      goodFrames Gen.protoParams (acceptedStream Gen.protoParams al { i := {}, o := o, dead := false } h) :=
  c01_delivery Gen.protoParams Gen.protoParams_wf (by decide) al o h

theorem c01_bounds_repo (al : Nat → Bool) (o : IoOut) (h : List (Bytes × Ev)) :
    (Io.run Gen.protoParams al { i := {}, o := o, dead := false } h).1.i.inb.data.length < 2048 ∧
    (Io.run Gen.protoParams al { i := {}, o := o, dead := false } h).1.i.staging.length ≤ 1024 :=
  c01_bounds Gen.protoParams Gen.protoParams_wf (by decide) al o h

/-- non-vacuity: a concrete valid frame satisfies the hypotheses and is delivered -/
example : delivers (Io.run Gen.protoParams (fun _ => true) {}
    [([], .recv (Frame.bytes ⟨23, 7, 40, [1, 2]⟩))]).2 = [⟨23, 7, 40, [1, 2]⟩] := by decide

/-- the historic witness of F1 (declared length 2^32-18 wraps the size sum to 0) is rejected and
    kills the connection in the model of the repaired code -/
example : (Io.run Gen.protoParams (fun _ => true) {}
    [([], .recv (TAG ++ [23] ++ Bytes.toLe32 9 ++ Bytes.toLe32 9 ++ Bytes.toLe32 (4294967296 - 18) ++ TAG))]).1.dead
    = true := by decide

end SuplaVerif.C01
