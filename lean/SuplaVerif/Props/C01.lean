import SuplaVerif.Model.Srpc
import SuplaVerif.Gen.Consts
namespace SuplaVerif.C01
theorem placeholder_params_wf : Gen.protoParams.WF := Gen.protoParams_wf
end SuplaVerif.C01
