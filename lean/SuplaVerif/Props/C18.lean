/-
  Props/C18 — firmware update: writes stay inside the spare slot and below the announced length;
  the image is marked for boot only with the expected footer and a verifying signature over exactly
  the image body.
-/
import SuplaVerif.Model.Update
import SuplaVerif.Model.UpdHdr
import SuplaVerif.Gen.Consts
namespace SuplaVerif.C18
open SuplaVerif

/-- bookkeeping invariant of the download -/
structure Inv (S : Nat) (u : Upd) : Prop where
  pos : u.awo + u.buffPos = u.addr + u.downloaded
  le : u.downloaded ≤ u.expected
  buf : u.buffPos < S
  base : u.addr ≤ u.awo

/-- a write lies inside [slot base, slot base + announced length) -/
def Contained (u : Upd) (w : Wr) : Prop := u.addr ≤ w.1 ∧ w.1 + w.2 ≤ u.addr + u.expected

def sumLen : List Wr → Nat
  | [] => 0
  | w :: ws => w.2 + sumLen ws

theorem sumLen_append (a b : List Wr) : sumLen (a ++ b) = sumLen a + sumLen b := by
  induction a with
  | nil => simp [sumLen]
  | cons w ws ih => simp [sumLen, ih]; omega

structure LoopPost (S : Nat) (u : Upd) (n : Nat) (r : Upd × List Wr) : Prop where
  inv : Inv S r.1
  addr : r.1.addr = u.addr
  exp : r.1.expected = u.expected
  dl : r.1.downloaded = u.downloaded + n
  cont : ∀ w ∈ r.2, Contained u w
  prog : u.awo + sumLen r.2 = r.1.awo

theorem feedLoop_post (S : Nat) (hS : 0 < S) :
    ∀ (fuel : Nat) (u : Upd) (n : Nat), n ≤ fuel → Inv S u → u.downloaded + n ≤ u.expected →
      LoopPost S u n (feedLoop S fuel u n) := by
  intro fuel
  induction fuel with
  | zero =>
    intro u n hn hi _
    have : n = 0 := by omega
    subst this
    unfold feedLoop
    exact ⟨hi, rfl, rfl, rfl, (by intro w hw; cases hw), (by simp [sumLen])⟩
  | succ fuel ih =>
    intro u n hn hi hle
    unfold feedLoop
    by_cases h0 : n = 0
    · rw [if_pos h0]; subst h0
      exact ⟨hi, rfl, rfl, rfl, (by intro w hw; cases hw), (by simp [sumLen])⟩
    · rw [if_neg h0]
      have hp := hi.pos; have hb := hi.buf; have hl := hi.le; have hbase := hi.base
      by_cases h1 : n + u.buffPos > S
      · rw [if_pos h1]
        have hi' : Inv S { u with awo := u.awo + S, buffPos := 0, downloaded := u.downloaded + (S - u.buffPos) } :=
          ⟨by simp; omega, by simp; omega, by simp; exact hS, by simp; omega⟩
        have r := ih { u with awo := u.awo + S, buffPos := 0, downloaded := u.downloaded + (S - u.buffPos) }
          (n - (S - u.buffPos)) (by omega) hi' (by simp; omega)
        refine ⟨r.inv, by rw [r.addr], by rw [r.exp], ?_, ?_, ?_⟩
        · rw [r.dl]; simp; omega
        · intro w hw
          cases hw with
          | head => exact ⟨by simpa using hbase, by simp; omega⟩
          | tail _ hw' => exact r.cont w hw'
        · have := r.prog; simp [sumLen] at this ⊢; omega
      · rw [if_neg h1]
        by_cases h2 : n + u.buffPos = S
        · rw [if_pos h2]
          refine ⟨⟨by simp; omega, by simp; omega, by simp; exact hS, by simp; omega⟩, rfl, rfl, rfl, ?_, by simp [sumLen]⟩
          intro w hw
          cases hw with
          | head => exact ⟨by simpa using hbase, by simp; omega⟩
          | tail _ hw' => cases hw'
        · rw [if_neg h2]
          exact ⟨⟨by simp; omega, by simp; omega, by simp; omega, by simpa using hbase⟩, rfl, rfl, rfl,
            (by intro w hw; cases hw), (by simp [sumLen])⟩

structure FeedPost (S : Nat) (u : Upd) (r : Upd × List Wr) : Prop where
  inv : Inv S r.1
  addr : r.1.addr = u.addr
  exp : r.1.expected = u.expected
  mono : u.downloaded ≤ r.1.downloaded
  cont : ∀ w ∈ r.2, Contained u w
  prog : u.awo + sumLen r.2 = r.1.awo

/-- C18, containment of one chunk: with the chunk clamp, whatever length the server delivers, every
    flash write lies inside [slot base, slot base + announced length) -/
theorem feed_post (P : UpdParams) (hc : P.clamp = true) (hS : 0 < P.sec) (u : Upd) (n : Nat) (hi : Inv P.sec u) :
    FeedPost P.sec u (feed P u n) := by
  unfold feed
  have hch : u.downloaded + chunk P u n ≤ u.expected := by
    unfold chunk; rw [if_pos hc]; have := hi.le; omega
  have r := feedLoop_post P.sec hS (chunk P u n) u (chunk P u n) (Nat.le_refl _) hi hch
  generalize feedLoop P.sec (chunk P u n) u (chunk P u n) = q at r
  unfold finish
  by_cases hf : q.1.buffPos > 0 ∧ q.1.downloaded = q.1.expected
  · rw [if_pos hf]
    have qi := r.inv
    refine ⟨⟨by simp; have := qi.pos; omega, by simpa using qi.le, by simp; exact hS, by simp; have := qi.base; omega⟩,
      by simpa using r.addr, by simpa using r.exp, by simp; have := r.dl; omega, ?_, ?_⟩
    · intro w hw
      rcases List.mem_append.mp hw with hw | hw
      · exact r.cont w hw
      · have : w = (q.1.awo, q.1.buffPos) := by simpa using hw
        subst this
        have := qi.pos; have := qi.base; have := r.addr; have := r.exp
        exact ⟨by simp; omega, by simp; omega⟩
    · rw [sumLen_append]; have := r.prog; simp [sumLen]; omega
  · rw [if_neg hf]
    exact ⟨r.inv, r.addr, r.exp, by have := r.dl; omega, r.cont, r.prog⟩

/-- a whole download: any sequence of chunk lengths -/
def feeds (P : UpdParams) : Upd → List Nat → Upd × List Wr
  | u, [] => (u, [])
  | u, n :: ns => ((feeds P (feed P u n).1 ns).1, (feed P u n).2 ++ (feeds P (feed P u n).1 ns).2)

/-- C18 containment for every server behaviour: from the start of a download with any announced
    length, for every sequence of delivered chunk lengths (in particular one that continues after
    the announced length), all flash writes lie inside the announced part of the slot, they are
    contiguous from the slot base (total written = progress of the write address) and the received
    count never exceeds the announced length -/
theorem c18_writes_contained (P : UpdParams) (hc : P.clamp = true) (hS : 0 < P.sec) :
    ∀ (ns : List Nat) (u : Upd), Inv P.sec u →
      Inv P.sec (feeds P u ns).1 ∧ (feeds P u ns).1.addr = u.addr ∧ (feeds P u ns).1.expected = u.expected ∧
      (∀ w ∈ (feeds P u ns).2, Contained u w) ∧ u.awo + sumLen (feeds P u ns).2 = (feeds P u ns).1.awo := by
  intro ns
  induction ns with
  | nil => intro u hi; exact ⟨hi, rfl, rfl, (by intro w hw; cases hw), (by simp [feeds, sumLen])⟩
  | cons n ns ih =>
    intro u hi
    have f := feed_post P hc hS u n hi
    have r := ih (feed P u n).1 f.inv
    unfold feeds
    dsimp only
    refine ⟨r.1, by rw [r.2.1, f.addr], by rw [r.2.2.1, f.exp], ?_, ?_⟩
    · intro w hw
      rcases List.mem_append.mp hw with hw | hw
      · exact f.cont w hw
      · have := r.2.2.2.1 w hw
        unfold Contained at this ⊢
        rw [f.addr, f.exp] at this; exact this
    · rw [sumLen_append]; have := f.prog; have := r.2.2.2.2; omega

def start (addr expected : Nat) : Upd := { addr := addr, awo := addr, buffPos := 0, downloaded := 0, expected := expected }

theorem start_inv (S : Nat) (hS : 0 < S) (addr expected : Nat) : Inv S (start addr expected) :=
  ⟨rfl, Nat.zero_le _, hS, Nat.le_refl _⟩

/-- the clamp is present in /repo (extractor fact) and the sector size is positive -/
theorem c18_repo_clamp : Gen.updParams.clamp = true ∧ 0 < Gen.updParams.sec ∧ 0 < Gen.updParams.rsa := by decide

/-- without the clamp (the code before the repair) a server that keeps sending writes beyond the
    announced length: announced 5000, chunks 3000 + 6000 -/
theorem c18_unclamped_overruns :
    ∃ w ∈ (feeds { Gen.updParams with clamp := false } (start 528384 5000) [3000, 6000]).2,
      ¬ Contained (start 528384 5000) w := by
  refine ⟨(532480, 4096), by decide, ?_⟩
  unfold Contained start; simp

/-- slot geometry check against the SDK flash layout: the spare slot with the largest accepted
    size ends at or below the end of its firmware area (`endLo` for the lower slot, `endHi` for the
    upper one: the sectors behind hold user data / system parameters) and does not overlap the
    running image (the other slot, of the same maximal size) -/
def geomOk (P : UpdParams) (endLo endHi map ubin : Nat) : Bool :=
  match slotOf P map ubin, slotOf P map (1 - ubin), limitOf P map with
  | some slot, some other, some lim =>
    decide (slot + lim ≤ (if slot < other then endLo else endHi) ∧ (slot + lim ≤ other ∨ other + lim ≤ slot))
  | _, _, _ => false

/-- for every supported flash map of /repo and both running images; SDK layout: 512+512 maps keep
    user data from 0x7C000 / system parameters from 0xFC000, 1024+1024 maps from 0xFC000 / 0x1FC000 -/
theorem c18_slot_geometry :
    (∀ map ∈ Gen.updParams.maps512, ∀ ubin ∈ [0, 1], geomOk Gen.updParams 0x7C000 0xFC000 map ubin = true) ∧
    (∀ map ∈ Gen.updParams.maps1024, ∀ ubin ∈ [0, 1], geomOk Gen.updParams 0xFC000 0x1FC000 map ubin = true) := by
  decide

/-- an unsupported map never starts a download -/
theorem c18_unsupported_map (P : UpdParams) (map n : Nat) (h1 : map ∉ P.maps512) (h2 : map ∉ P.maps1024) :
    sizeAccepted P map n = false ∧ slotOf P map 0 = none := by
  unfold sizeAccepted limitOf slotOf; simp [h1, h2]

/-- a download starts only for 0 < announced ≤ the limit of the map -/
theorem c18_size_gate (P : UpdParams) (map n : Nat) (h : sizeAccepted P map n = true) :
    ∃ l, limitOf P map = some l ∧ 0 < n ∧ n ≤ l := by
  unfold sizeAccepted at h
  cases hl : limitOf P map with
  | none => rw [hl] at h; cases h
  | some l => rw [hl] at h; exact ⟨l, rfl, by simpa using h⟩

/-- the image is marked for boot only if the footer is the expected one, announces the built-in key
    size, and the signature verification succeeded -/
theorem c18_mark_only_if (P : UpdParams) (hr : 0 < P.rsa) (footer : List Nat) (sigOk : Bool)
    (h : markBoot P footer sigOk = true) :
    sigOk = true ∧ footer.take 6 = [186, 190, 43, 237, 0, 1] ∧ footer.getD 6 0 * 256 - footer.getD 7 0 = P.rsa := by
  unfold markBoot at h
  have h' := Bool.and_eq_true_iff.mp h
  refine ⟨h'.2, ?_⟩
  have hk : keyBytes P footer = P.rsa := by simpa using h'.1
  unfold keyBytes at hk
  by_cases hf : footer.take 6 = [186, 190, 43, 237, 0, 1]
  · rw [if_pos hf] at hk; exact ⟨hf, hk⟩
  · rw [if_neg hf] at hk
    omega

/-- at the moment of verification (everything announced received, buffer flushed) the hash covers
    exactly the image body [base, base + announced − 16 − key size) and the signature is the key-size
    bytes right behind it, followed by the 16-byte footer -/
theorem c18_hash_exact (P : UpdParams) (u : Upd) (hi : Inv P.sec u) (hb : u.buffPos = 0) (hd : u.downloaded = u.expected)
    (hlen : 16 + P.rsa < u.expected) :
    hashedLen P u = u.expected - 16 - P.rsa ∧ u.addr + hashedLen P u + P.rsa + 16 = u.awo := by
  unfold hashedLen
  have := hi.pos
  constructor <;> omega


/-! ### the response head -/
open Bytes

/-- decimal reading of a digit string, continuing from `acc` -/
def decVal : Bytes → Nat → Nat
  | [], acc => acc
  | b :: r, acc => decVal r (acc * 10 + (b.toNat - 48))

theorem decVal_mod (ds : Bytes) (a : Nat) : decVal ds (a % 2 ^ 32) % 2 ^ 32 = decVal ds a % 2 ^ 32 := by
  induction ds generalizing a with
  | nil => simp [decVal]
  | cons b r ih =>
    unfold decVal
    rw [← ih (a % 2 ^ 32 * 10 + (b.toNat - 48)), ← ih (a * 10 + (b.toNat - 48))]
    congr 2
    omega

theorem digit_not_eol (b : UInt8) (h : isDigit b = true) : isEol b = false := by
  unfold isDigit at h; unfold isEol
  have h1 : (48 : UInt8) ≤ b := by simpa using (Bool.and_eq_true_iff.mp h).1
  cases hb : (b == 13 || b == 10)
  · rfl
  · exfalso
    rcases Bool.or_eq_true_iff.mp hb with h2 | h2
    · have : b = 13 := by simpa using h2
      subst this; exact absurd h1 (by decide)
    · have : b = 10 := by simpa using h2
      subst this; exact absurd h1 (by decide)

/-- **C18.H1 (the announced length is the digits of the Content-Length line)** a run of digits followed by a line
    end is read as its decimal value (as a 32-bit pattern), whatever follows the line end -/
theorem c18_digits_line (ds : Bytes) (hd : ∀ b ∈ ds, isDigit b = true) (e : UInt8) (he : isEol e = true)
    (rest : Bytes) (acc : Nat) (hacc : acc < 2 ^ 32) :
    digitsLoop (ds ++ e :: rest) acc = (decVal ds acc % 2 ^ 32, true) := by
  induction ds generalizing acc with
  | nil =>
    show digitsLoop (e :: rest) acc = _
    unfold digitsLoop
    rw [if_pos he]; simp [decVal]; omega
  | cons b r ih =>
    have hb := hd b (by simp)
    show digitsLoop (b :: (r ++ e :: rest)) acc = _
    unfold digitsLoop
    rw [if_neg (by rw [digit_not_eol b hb]; simp), if_pos hb]
    rw [ih (fun x hx => hd x (by simp [hx])) _ (Nat.mod_lt _ (by decide))]
    rw [decVal_mod]
    rfl

/-- **C18.H2 (nothing behind the line end is read)** for every prefix, the digit loop gives the same result whatever
    follows the first line end: later header lines (also ones beginning with digits) cannot change the length -/
theorem c18_digits_stop_at_line_end (pre : Bytes) (e : UInt8) (he : isEol e = true) (r1 r2 : Bytes) (acc : Nat) :
    digitsLoop (pre ++ e :: r1) acc = digitsLoop (pre ++ e :: r2) acc := by
  induction pre generalizing acc with
  | nil =>
    show digitsLoop (e :: r1) acc = digitsLoop (e :: r2) acc
    unfold digitsLoop; rw [if_pos he, if_pos he]
  | cons b r ih =>
    show digitsLoop (b :: (r ++ e :: r1)) acc = digitsLoop (b :: (r ++ e :: r2)) acc
    unfold digitsLoop
    by_cases h1 : isEol b = true
    · rw [if_pos h1, if_pos h1]
    · rw [if_neg h1, if_neg h1]
      by_cases h2 : isDigit b = true
      · rw [if_pos h2, if_pos h2]; exact ih _
      · rw [if_neg h2, if_neg h2]

/-- strstr: the index found is an occurrence and the first one -/
theorem findSub_spec (pat : Bytes) (s : Bytes) (i : Nat) (h : findSub pat s = some i) :
    pat.isPrefixOf (s.drop i) = true ∧ ∀ j < i, pat.isPrefixOf (s.drop j) = false := by
  induction s generalizing i with
  | nil =>
    unfold findSub at h
    by_cases hp : pat.isEmpty = true
    · rw [if_pos hp] at h
      cases h
      cases pat with
      | nil => exact ⟨rfl, fun j hj => absurd hj (Nat.not_lt_zero _)⟩
      | cons _ _ => cases hp
    · rw [if_neg hp] at h; cases h
  | cons b bs ih =>
    unfold findSub at h
    by_cases hp : pat.isPrefixOf (b :: bs) = true
    · rw [if_pos hp] at h; cases h
      exact ⟨hp, fun j hj => absurd hj (Nat.not_lt_zero _)⟩
    · rw [if_neg hp] at h
      cases hf : findSub pat bs with
      | none => rw [hf] at h; cases h
      | some k =>
        rw [hf] at h
        have hi : k + 1 = i := by simpa using h
        subst hi
        have := ih k hf
        refine ⟨this.1, fun j hj => ?_⟩
        cases j with
        | zero => exact Bool.eq_false_iff.mpr hp
        | succ j => exact this.2 j (by omega)

/-- **C18.H3 (gate)** the head starts a download only with the status line, the content type and a Content-Length
    present, the digit loop having reached the end of its line, and the accumulated length positive (as an int) and
    within the limit of the flash map -/
theorem c18_head_gate (H : HdrParams) (P : UpdParams) (map : Nat) (h : Bytes) (hs : (hdrScan H P map h).2 = true) :
    sizeAccepted P map (hdrScan H P map h).1 = true ∧ (hdrScan H P map h).1 < 2 ^ 31 ∧
    (findSub H.ok200 (cstr h)).isSome = true ∧ (findSub H.ctype (cstr h)).isSome = true ∧
    ∃ i, findSub H.clen (cstr h) = some i ∧
      (hdrScan H P map h).1 = (digitsLoop (h.drop (i + H.clen.length)) 0).1 ∧
      (digitsLoop (h.drop (i + H.clen.length)) 0).2 = true := by
  unfold hdrScan at hs ⊢
  simp only at hs ⊢
  by_cases hc : ((findSub H.ok200 (cstr h)).isSome && (findSub H.ctype (cstr h)).isSome) = true
  · rw [if_pos hc] at hs ⊢
    have hc' := Bool.and_eq_true_iff.mp hc
    cases hf : findSub H.clen (cstr h) with
    | none => rw [hf] at hs; cases hs
    | some i =>
      rw [hf] at hs
      simp only at hs ⊢
      have h1 := Bool.and_eq_true_iff.mp hs
      have h2 := Bool.and_eq_true_iff.mp h1.1
      exact ⟨h1.2, by simpa using h2.2, hc'.1, hc'.2, i, rfl, rfl, h2.1⟩
  · rw [if_neg hc] at hs; cases hs

/-- **C18.H4 (head to flash)** composition: whatever head made the device start downloading, and whatever the server
    sends afterwards, every flash write lies inside the spare slot below the limit of the map and below the
    accumulated length -/
theorem c18_head_to_flash (H : HdrParams) (P : UpdParams) (hc : P.clamp = true) (hS : 0 < P.sec) (map slot : Nat)
    (h : Bytes) (hs : (hdrScan H P map h).2 = true) (ns : List Nat) :
    ∃ l, limitOf P map = some l ∧ (hdrScan H P map h).1 ≤ l ∧
      ∀ w ∈ (feeds P (start slot (hdrScan H P map h).1) ns).2,
        slot ≤ w.1 ∧ w.1 + w.2 ≤ slot + (hdrScan H P map h).1 ∧ w.1 + w.2 ≤ slot + l := by
  obtain ⟨l, hl, _, hle⟩ := c18_size_gate P map _ (c18_head_gate H P map h hs).1
  refine ⟨l, hl, hle, fun w hw => ?_⟩
  have := (c18_writes_contained P hc hS ns (start slot (hdrScan H P map h).1) (start_inv P.sec hS _ _)).2.2.2.1 w hw
  unfold Contained start at this
  simp only at this
  exact ⟨this.1, this.2, by omega⟩

/-- collecting the head: it is complete only with CR LF CR LF at its end and at most maxHdr-1 bytes, and what was
    collected is the bytes received so far, in order -/
theorem collect_spec (m : Nat) (acc seg : Bytes) (k : Nat) :
    (collect m acc seg k).1 = acc ++ seg.take ((collect m acc seg k).2.2 - k) ∧ k ≤ (collect m acc seg k).2.2 ∧
    ((collect m acc seg k).2.1 = 1 → endsHead (collect m acc seg k).1 = true ∧ (collect m acc seg k).1.length ≤ m - 1) := by
  induction seg generalizing acc k with
  | nil => simp [collect]
  | cons b rest ih =>
    unfold collect
    by_cases h1 : acc.length ≥ m - 1
    · rw [if_pos h1]; simp
    · rw [if_neg h1]
      by_cases h2 : endsHead (acc ++ [b]) = true
      · rw [if_pos h2]
        refine ⟨by simp, by simp, fun _ => ⟨h2, by simp; omega⟩⟩
      · rw [if_neg h2]
        obtain ⟨a, b', c⟩ := ih (acc ++ [b]) (k + 1)
        refine ⟨?_, by omega, c⟩
        rw [a]
        have : (collect m (acc ++ [b]) rest (k + 1)).2.2 - k = ((collect m (acc ++ [b]) rest (k + 1)).2.2 - (k + 1)) + 1 := by omega
        rw [this]
        simp

/-- instantiation with the literals of /repo -/
theorem c18_head_to_flash_repo (map slot : Nat) (h : Bytes) (hs : (hdrScan Gen.hdrParams Gen.updParams map h).2 = true)
    (ns : List Nat) :
    ∃ l, limitOf Gen.updParams map = some l ∧
      ∀ w ∈ (feeds Gen.updParams (start slot (hdrScan Gen.hdrParams Gen.updParams map h).1) ns).2,
        slot ≤ w.1 ∧ w.1 + w.2 ≤ slot + l := by
  obtain ⟨l, a, _, c⟩ := c18_head_to_flash Gen.hdrParams Gen.updParams c18_repo_clamp.1 c18_repo_clamp.2.1 map slot h hs ns
  exact ⟨l, a, fun w hw => ⟨(c w hw).1, (c w hw).2.2⟩⟩

/- non-vacuity of the head theorems: an ordinary head announces 100 bytes and starts the download on a 512+512 map;
    a following header line beginning with digits changes nothing; a length beyond 32 bits is taken modulo 2^32 (and
    then still gated); digits followed by letters, or another status line, start nothing -/
set_option maxRecDepth 8000 in
example : hdrScan Gen.hdrParams Gen.updParams 2 [72, 84, 84, 80, 47, 49, 46, 49, 32, 50, 48, 48, 32, 79, 75, 13, 10, 67, 111, 110, 116, 101, 110, 116, 45, 84, 121, 112, 101, 58, 32, 97, 112, 112, 108, 105, 99, 97, 116, 105, 111, 110, 47, 111, 99, 116, 101, 116, 45, 115, 116, 114, 101, 97, 109, 13, 10, 67, 111, 110, 116, 101, 110, 116, 45, 76, 101, 110, 103, 116, 104, 58, 32, 49, 48, 48, 13, 10, 13, 10] = (100, true) := by decide
set_option maxRecDepth 8000 in
example : hdrScan Gen.hdrParams Gen.updParams 2 [72, 84, 84, 80, 47, 49, 46, 49, 32, 50, 48, 48, 32, 79, 75, 13, 10, 67, 111, 110, 116, 101, 110, 116, 45, 84, 121, 112, 101, 58, 32, 97, 112, 112, 108, 105, 99, 97, 116, 105, 111, 110, 47, 111, 99, 116, 101, 116, 45, 115, 116, 114, 101, 97, 109, 13, 10, 67, 111, 110, 116, 101, 110, 116, 45, 76, 101, 110, 103, 116, 104, 58, 32, 49, 48, 48, 13, 10, 57, 57, 57, 57, 57, 57, 57, 58, 32, 120, 13, 10, 13, 10] = (100, true) := by decide
set_option maxRecDepth 8000 in
example : hdrScan Gen.hdrParams Gen.updParams 2 [72, 84, 84, 80, 47, 49, 46, 49, 32, 50, 48, 48, 32, 79, 75, 13, 10, 67, 111, 110, 116, 101, 110, 116, 45, 84, 121, 112, 101, 58, 32, 97, 112, 112, 108, 105, 99, 97, 116, 105, 111, 110, 47, 111, 99, 116, 101, 116, 45, 115, 116, 114, 101, 97, 109, 13, 10, 67, 111, 110, 116, 101, 110, 116, 45, 76, 101, 110, 103, 116, 104, 58, 32, 52, 50, 57, 52, 57, 54, 55, 51, 57, 54, 13, 10, 13, 10] = (100, true) := by decide
set_option maxRecDepth 8000 in
example : hdrScan Gen.hdrParams Gen.updParams 2 [72, 84, 84, 80, 47, 49, 46, 49, 32, 50, 48, 48, 32, 79, 75, 13, 10, 67, 111, 110, 116, 101, 110, 116, 45, 84, 121, 112, 101, 58, 32, 97, 112, 112, 108, 105, 99, 97, 116, 105, 111, 110, 47, 111, 99, 116, 101, 116, 45, 115, 116, 114, 101, 97, 109, 13, 10, 67, 111, 110, 116, 101, 110, 116, 45, 76, 101, 110, 103, 116, 104, 58, 32, 49, 50, 97, 98, 13, 10, 13, 10] = (12, false) := by decide
set_option maxRecDepth 8000 in
example : hdrScan Gen.hdrParams Gen.updParams 2 [72, 84, 84, 80, 47, 49, 46, 49, 32, 52, 48, 52, 32, 78, 111, 116, 32, 70, 111, 117, 110, 100, 13, 10, 67, 111, 110, 116, 101, 110, 116, 45, 84, 121, 112, 101, 58, 32, 97, 112, 112, 108, 105, 99, 97, 116, 105, 111, 110, 47, 111, 99, 116, 101, 116, 45, 115, 116, 114, 101, 97, 109, 13, 10, 67, 111, 110, 116, 101, 110, 116, 45, 76, 101, 110, 103, 116, 104, 58, 32, 49, 48, 48, 13, 10, 13, 10] = (0, false) := by decide
set_option maxRecDepth 8000 in
example : (collect 700 [] ([72, 84, 84, 80, 47, 49, 46, 49, 32, 50, 48, 48, 32, 79, 75, 13, 10, 67, 111, 110, 116, 101, 110, 116, 45, 84, 121, 112, 101, 58, 32, 97, 112, 112, 108, 105, 99, 97, 116, 105, 111, 110, 47, 111, 99, 116, 101, 116, 45, 115, 116, 114, 101, 97, 109, 13, 10, 67, 111, 110, 116, 101, 110, 116, 45, 76, 101, 110, 103, 116, 104, 58, 32, 49, 48, 48, 13, 10, 13, 10] ++ [1, 2, 3]) 0).2 = (1, 80) := by decide

/-- non-vacuity: a complete download of 5000 bytes in chunks 3000 + 6000 (server overruns) ends
    with exactly 5000 bytes written at the slot base -/
example : (feeds Gen.updParams (start 528384 5000) [3000, 6000]).2 = [(528384, 4096), (532480, 904)] ∧
    (feeds Gen.updParams (start 528384 5000) [3000, 6000]).1.downloaded = 5000 := by decide

end SuplaVerif.C18
