/-
  Props/C14 — config form: every text value stays inside its field and is NUL-terminated; numeric
  settings are accepted only inside their valid ranges.
-/
import SuplaVerif.Model.Form
namespace SuplaVerif.C14
open SuplaVerif

/-- the copy never writes beyond the field: for every segment content the number of bytes written
    before the terminator is at most the field size -/
theorem decVal_bounded (size : Nat) (l acc : List UInt8) (h : acc.length ≤ size) :
    (decVal size l acc).length ≤ size := by
  fun_induction decVal size l acc with
  | case1 acc => exact h
  | case2 acc c hc => simp; omega
  | case3 acc c hc => exact h
  | case4 acc c d1 d2 rest' hc hp hstop => simp at hstop ⊢; omega
  | case5 acc c d1 d2 rest' hc hp hgo ih => apply ih; simp at hgo ⊢; omega
  | case6 acc c d1 hc hp => exact h
  | case7 acc c d1 rest hc hp hstop => simp at hstop ⊢; omega
  | case8 acc c d1 rest hc hp hgo ih => apply ih; simp at hgo ⊢; omega
  | case9 acc c d1 rest hc => exact h

/-- what is left in the field is terminated inside the field: exactly one terminator is placed, at
    an index below `size` -/
theorem stored_terminated (size : Nat) (hs : 0 < size) (w : List UInt8) (hw : w.length ≤ size) :
    (stored size w).length ≤ size ∧ (stored size w).getLast? = some 0 := by
  unfold stored
  by_cases h : w.length < size
  · rw [if_pos h]; simp; omega
  · rw [if_neg h]; simp; omega

theorem cstr_no_nul : ∀ (b : List UInt8), (0 : UInt8) ∉ cstr b ∧ (cstr b).length ≤ b.length := by
  intro b
  induction b with
  | nil => simp [cstr]
  | cons c cs ih =>
    unfold cstr
    by_cases hc : c = 0
    · rw [if_pos hc]; simp
    · rw [if_neg hc]; simp; exact ⟨⟨fun h => hc h.symm, ih.1⟩, by omega⟩

theorem cstr_lt_of_last (b : List UInt8) (h : b.getLast? = some 0) : (cstr b).length < b.length := by
  induction b with
  | nil => simp at h
  | cons c cs ih =>
    unfold cstr
    by_cases hc : c = 0
    · rw [if_pos hc]; simp
    · rw [if_neg hc]
      cases cs with
      | nil => simp at h; exact absurd h hc
      | cons d ds =>
        have : (d :: ds).getLast? = some 0 := by simpa [List.getLast?_cons_cons] using h
        have := ih this
        simp at this ⊢; omega

/-- C14 (text fields): for every field size ≥ 1 and every segment content, the resulting setting is
    a NUL-free string strictly shorter than the field, i.e. it is terminated inside the field -/
theorem c14_field_bounded (size : Nat) (hs : 0 < size) (l : List UInt8) :
    (fieldValue size l).length < size ∧ (0 : UInt8) ∉ fieldValue size l := by
  unfold fieldValue
  have hb := decVal_bounded size l [] (Nat.zero_le _)
  have st := stored_terminated size hs _ hb
  exact ⟨by have := cstr_lt_of_last _ st.2; omega, (cstr_no_nul _).1⟩

/-- port: the setting after the field is a valid port or the previous value -/
theorem c14_port (old : Int) (s : List UInt8) :
    (1 ≤ applyPort old s ∧ applyPort old s ≤ 65535) ∨ applyPort old s = old := by
  unfold applyPort
  by_cases h : 0 < str2int s ∧ str2int s ≤ 65535
  · rw [if_pos h]; left; omega
  · rw [if_neg h]; right; rfl

theorem c14_qos (old : Int) (s : List UInt8) :
    (0 ≤ applyQos old s ∧ applyQos old s ≤ 2) ∨ applyQos old s = old := by
  unfold applyQos
  by_cases h : 0 ≤ ((s.headD 0).toNat : Int) - 48 ∧ ((s.headD 0).toNat : Int) - 48 ≤ 2
  · rw [if_pos h]; left; exact h
  · rw [if_neg h]; right; rfl

theorem c14_margin (s : List UInt8) : -1 ≤ applyMargin s ∧ applyMargin s ≤ 100 := by
  unfold applyMargin
  by_cases h : toSChar (str2int s) < -1 ∨ toSChar (str2int s) > 100
  · rw [if_pos h]; omega
  · rw [if_neg h]; omega

/-- non-vacuity / examples: an over-long value is cut to size-1 bytes; %-escapes and '+' decode -/
example : fieldValue 4 [97, 98, 99, 100, 101, 102, 38, 120] = [97, 98, 99] := by
  simp [fieldValue, decVal, stored, cstr, plain]
example : fieldValue 32 [97, 37, 50, 49, 43, 98, 38, 120, 61] = [97, 33, 32, 98] := by
  simp [fieldValue, decVal, stored, cstr, plain, hexByte, hexDigit]
example : applyPort 1883 [55, 48, 48, 48, 48] = 1883 ∧ applyPort 1883 [56, 56, 56, 51] = 8883 := by decide

end SuplaVerif.C14
