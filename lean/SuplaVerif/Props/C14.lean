/-
  Props/C14 — config form: every text value stays inside its field and is NUL-terminated; numeric
  settings are accepted only inside their valid ranges.
-/
import SuplaVerif.Model.Form
import SuplaVerif.Model.Cred
import SuplaVerif.Model.FormScan
import SuplaVerif.Model.FormFlags
import SuplaVerif.Gen.FormTable
namespace SuplaVerif.C14
open SuplaVerif

/-- the copy never writes beyond the field: for every segment content the number of bytes written
    before the terminator is at most the field size -/
theorem decVal_bounded (size : Nat) (l acc : List UInt8) (h : acc.length ≤ size) :
    (decVal size l acc).length ≤ size := by
  fun_induction decVal size l acc with
  | case1 acc => exact h
  | case2 acc c hc => simp; omega
  | case3 acc c hc => exact h
  | case4 acc c d1 d2 rest' hc hp hstop => simp at hstop ⊢; omega
  | case5 acc c d1 d2 rest' hc hp hgo ih => apply ih; simp at hgo ⊢; omega
  | case6 acc c d1 hc hp => exact h
  | case7 acc c d1 rest hc hp hstop => simp at hstop ⊢; omega
  | case8 acc c d1 rest hc hp hgo ih => apply ih; simp at hgo ⊢; omega
  | case9 acc c d1 rest hc => exact h

/-- what is left in the field is terminated inside the field: exactly one terminator is placed, at
    an index below `size` -/
theorem stored_terminated (size : Nat) (hs : 0 < size) (w : List UInt8) (hw : w.length ≤ size) :
    (stored size w).length ≤ size ∧ (stored size w).getLast? = some 0 := by
  unfold stored
  by_cases h : w.length < size
  · rw [if_pos h]; simp; omega
  · rw [if_neg h]; simp; omega

theorem cstr_no_nul : ∀ (b : List UInt8), (0 : UInt8) ∉ cstr b ∧ (cstr b).length ≤ b.length := by
  intro b
  induction b with
  | nil => simp [cstr]
  | cons c cs ih =>
    unfold cstr
    by_cases hc : c = 0
    · rw [if_pos hc]; simp
    · rw [if_neg hc]; simp; exact ⟨⟨fun h => hc h.symm, ih.1⟩, by omega⟩

theorem cstr_lt_of_last (b : List UInt8) (h : b.getLast? = some 0) : (cstr b).length < b.length := by
  induction b with
  | nil => simp at h
  | cons c cs ih =>
    unfold cstr
    by_cases hc : c = 0
    · rw [if_pos hc]; simp
    · rw [if_neg hc]
      cases cs with
      | nil => simp at h; exact absurd h hc
      | cons d ds =>
        have : (d :: ds).getLast? = some 0 := by simpa [List.getLast?_cons_cons] using h
        have := ih this
        simp at this ⊢; omega

/-- C14 (text fields): for every field size ≥ 1 and every segment content, the resulting setting is
    a NUL-free string strictly shorter than the field, i.e. it is terminated inside the field -/
theorem c14_field_bounded (size : Nat) (hs : 0 < size) (l : List UInt8) :
    (fieldValue size l).length < size ∧ (0 : UInt8) ∉ fieldValue size l := by
  unfold fieldValue
  have hb := decVal_bounded size l [] (Nat.zero_le _)
  have st := stored_terminated size hs _ hb
  exact ⟨by have := cstr_lt_of_last _ st.2; omega, (cstr_no_nul _).1⟩

/-- port: the setting after the field is a valid port or the previous value -/
theorem c14_port (old : Int) (s : List UInt8) :
    (1 ≤ applyPort old s ∧ applyPort old s ≤ 65535) ∨ applyPort old s = old := by
  unfold applyPort
  by_cases h : 0 < str2int s ∧ str2int s ≤ 65535
  · rw [if_pos h]; left; omega
  · rw [if_neg h]; right; rfl

theorem c14_qos (old : Int) (s : List UInt8) :
    (0 ≤ applyQos old s ∧ applyQos old s ≤ 2) ∨ applyQos old s = old := by
  unfold applyQos
  by_cases h : 0 ≤ ((s.headD 0).toNat : Int) - 48 ∧ ((s.headD 0).toNat : Int) - 48 ≤ 2
  · rw [if_pos h]; left; exact h
  · rw [if_neg h]; right; rfl

theorem c14_margin (s : List UInt8) : -1 ≤ applyMargin s ∧ applyMargin s ≤ 100 := by
  unfold applyMargin
  by_cases h : toSChar (str2int s) < -1 ∨ toSChar (str2int s) > 100
  · rw [if_pos h]; omega
  · rw [if_neg h]; omega

/-- non-vacuity / examples: an over-long value is cut to size-1 bytes; %-escapes and '+' decode -/
example : fieldValue 4 [97, 98, 99, 100, 101, 102, 38, 120] = [97, 98, 99] := by
  simp [fieldValue, decVal, stored, cstr, plain]
example : fieldValue 32 [97, 37, 50, 49, 43, 98, 38, 120, 61] = [97, 33, 32, 98] := by
  simp [fieldValue, decVal, stored, cstr, plain, hexByte, hexDigit]
example : applyPort 1883 [55, 48, 48, 48, 48] = 1883 ∧ applyPort 1883 [56, 56, 56, 51] = 8883 := by decide

/-! ### keeping a stored long password when the form leaves the password empty
     (`Bytes.cstr` is the C-string view of Base/Bytes; the `cstr` above is Model/Form's) -/

/-- a byte string whose C-string view is shorter than the string has a terminator right behind that view -/
theorem bcstr_split : ∀ (b : Bytes), (Bytes.cstr b).length < b.length →
    b = Bytes.cstr b ++ 0 :: b.drop ((Bytes.cstr b).length + 1) ∧ (∀ x ∈ Bytes.cstr b, x ≠ 0) := by
  intro b
  induction b with
  | nil => intro h; simp [Bytes.cstr] at h
  | cons x xs ih =>
    intro h
    unfold Bytes.cstr at h ⊢
    by_cases hx : x = 0
    · simp [hx]
    · simp only [hx, if_false, List.length_cons] at h ⊢
      have := ih (by omega)
      refine ⟨?_, ?_⟩
      · simp only [List.cons_append, List.drop_succ_cons]
        rw [← this.1]
      · intro y hy
        rcases List.mem_cons.mp hy with h1 | h1
        · rw [h1]; exact hx
        · exact this.2 y h1

theorem bcstr_prefix_zero (p r : Bytes) (h : ∀ x ∈ p, x ≠ 0) : Bytes.cstr (p ++ 0 :: r) = p := by
  induction p with
  | nil => simp [Bytes.cstr]
  | cons x xs ih =>
    have hx : x ≠ 0 := h x (by simp)
    simp only [List.cons_append, Bytes.cstr, hx, if_false]
    rw [ih (fun y hy => h y (by simp [hy]))]

theorem take_len_succ (c r : Bytes) (x : UInt8) : (c ++ x :: r).take (c.length + 1) = c ++ [x] := by
  induction c with
  | nil => simp
  | cons y ys ih => simp [ih]

/-- **C14 (the e-mail survives the kept password)** whatever password and e-mail were stored and whatever e-mail the form
    brought: keeping the stored long password leaves the new e-mail exactly as submitted - its characters and its
    terminator are not touched, the overflow part is placed behind the terminator (this is what keeps it off the page, C15) -
    and the Email field keeps its size -/
theorem c14_keep_password_keeps_mail (L E : Nat) (oldPwd oldMail newMail : Bytes) (hlen : newMail.length = E)
    (hterm : strnlen newMail E < E) :
    Bytes.cstr (keepLongPassword L E oldPwd oldMail newMail).2 = Bytes.cstr newMail ∧
    (keepLongPassword L E oldPwd oldMail newMail).2.length = E := by
  have htake : newMail.take E = newMail := by rw [← hlen]; exact List.take_length
  have hnm : strnlen newMail E = (Bytes.cstr newMail).length := by unfold strnlen; rw [htake]
  have hn : (Bytes.cstr newMail).length < newMail.length := by rw [← hnm, hlen]; exact hterm
  obtain ⟨hsplit, hnn⟩ := bcstr_split newMail hn
  unfold keepLongPassword
  by_cases h1 : strnlen oldPwd L = L
  · rw [if_pos h1]
    by_cases h2 : strnlen oldMail E < E ∧ strnlen newMail E < E
    · rw [if_pos h2]
      simp only
      by_cases h3 : strnlen (oldMail.drop (strnlen oldMail E + 1)) (E - strnlen oldMail E - 1) < E - strnlen oldMail E - 1 ∧
          strnlen newMail E < E - 1
      · rw [if_pos h3]
        simp only
        generalize (List.take _ (List.drop (strnlen oldMail E + 1) oldMail) ++ [0]) = d
        rw [hnm]
        generalize hc : Bytes.cstr newMail = c at hsplit hnn hn hnm
        have hpoke : poke newMail (c.length + 1) d = c ++ 0 :: (d ++ newMail.drop (c.length + 1 + d.length)) := by
          unfold poke
          have e1 : newMail.take (c.length + 1) = c ++ [0] := by
            conv => lhs; rw [hsplit]
            exact take_len_succ c _ 0
          rw [e1]
          simp [List.append_assoc]
        rw [hpoke]
        have hcE : c.length + 1 ≤ E := by omega
        have htk : (c ++ 0 :: (d ++ newMail.drop (c.length + 1 + d.length))).take E =
            c ++ 0 :: (d ++ newMail.drop (c.length + 1 + d.length)).take (E - c.length - 1) := by
          rw [List.take_append]
          have : E - c.length = (E - c.length - 1) + 1 := by omega
          rw [List.take_of_length_le (Nat.le_of_lt (by omega : c.length < E)), this, List.take_succ_cons]
          simp
        rw [htk]
        refine ⟨bcstr_prefix_zero _ _ hnn, ?_⟩
        simp only [List.length_append, List.length_cons, List.length_take, List.length_drop, hlen]
        omega
      · rw [if_neg h3]; exact ⟨rfl, hlen⟩
    · rw [if_neg h2]; exact ⟨rfl, hlen⟩
  · rw [if_neg h1]; exact ⟨rfl, hlen⟩


/-! ### the field scanner (Model/FormScan) -/

/-- where the field of an event or of a pending value comes from: it was pending when the segment began, or a row of the
    table whose name stands at a name position of the segment and whose protocol condition holds -/
def Origin (T : List Row) (mqtt : Bool) (l : Bytes) (cur : Option (Row × Bytes)) (r : Row) : Prop :=
  (∃ b, cur = some (r, b)) ∨
  (r ∈ T ∧ condOk r mqtt = true ∧ ∃ s, s <:+ l ∧ atName s = true ∧ s.take 3 = r.name)

theorem lookup_some (T : List Row) (mqtt : Bool) (nm : Bytes) (r : Row) (h : lookup T mqtt nm = some r) :
    r ∈ T ∧ r.name = nm ∧ condOk r mqtt = true := by
  unfold lookup at h
  cases hf : T.find? (fun r => r.name == nm) with
  | none => rw [hf] at h; cases h
  | some r' =>
    rw [hf] at h
    simp only at h
    by_cases hc : condOk r' mqtt = true
    · rw [if_pos hc] at h
      cases h
      have h1 := List.find?_some hf
      exact ⟨List.mem_of_find?_eq_some hf, by simpa using h1, hc⟩
    · rw [if_neg hc] at h; cases h

theorem copyStep_len (size : Nat) (buf l : Bytes) (h : buf.length ≤ size) : (copyStep size buf l).1.length ≤ size := by
  unfold copyStep
  split
  · rename_i hc
    split <;> (simp; omega)
  · exact h

/-- one iteration: a value that stays pending, and an event, belong to a field with an origin in this segment; the buffer
    never holds more than the field size -/
theorem iter_spec (T : List Row) (mqtt : Bool) (l : Bytes) (cur : Option (Row × Bytes))
    (hcur : ∀ r b, cur = some (r, b) → b.length ≤ r.size) :
    (∀ r b, (iter T mqtt l cur).cur = some (r, b) → Origin T mqtt l cur r ∧ b.length ≤ r.size) ∧
    (∀ ev, (iter T mqtt l cur).ev = some ev →
      ∃ r w, Origin T mqtt l cur r ∧ ev = (r.var, stored r.size w) ∧ w.length ≤ r.size) := by
  -- the field the copy step works on
  have hc1 : ∀ r b, (if (cur.isNone && atName l) = true then (lookup T mqtt (l.take 3)).map (fun r => (r, ([] : Bytes))) else cur)
      = some (r, b) → Origin T mqtt l cur r ∧ b.length ≤ r.size := by
    intro r b h
    by_cases hn : (cur.isNone && atName l) = true
    · rw [if_pos hn] at h
      cases hl : lookup T mqtt (l.take 3) with
      | none => rw [hl] at h; cases h
      | some r' =>
        rw [hl] at h
        simp only [Option.map_some, Option.some.injEq, Prod.mk.injEq] at h
        obtain ⟨h1, h2⟩ := h
        subst h1; subst h2
        have := lookup_some T mqtt _ _ hl
        have hat : atName l = true := (Bool.and_eq_true_iff.mp hn).2
        exact ⟨Or.inr ⟨this.1, this.2.2, l, List.suffix_refl l, hat, this.2.1.symm⟩, Nat.zero_le _⟩
    · rw [if_neg hn] at h
      exact ⟨Or.inl ⟨b, h⟩, hcur r b h⟩
  unfold iter
  simp only
  generalize (if (cur.isNone && atName l) = true then (lookup T mqtt (l.take 3)).map (fun r => (r, ([] : Bytes))) else cur) = c1 at hc1
  generalize (if (cur.isNone && atName l) = true then l.drop 4 else l) = l1
  cases c1 with
  | none =>
    refine ⟨?_, ?_⟩
    · intro r b h; simp at h
    · intro ev h; simp at h
  | some rb =>
    obtain ⟨row, buf⟩ := rb
    have ho := hc1 row buf rfl
    have hlen := copyStep_len row.size buf l1 ho.2
    simp only
    by_cases hv : valueEnds row.size (copyStep row.size buf l1).1 (copyStep row.size buf l1).2 = true
    · rw [if_pos hv]
      refine ⟨(fun r b h => by simp at h), (fun ev h => ?_)⟩
      simp only [Option.some.injEq] at h
      exact ⟨row, _, ho.1, h.symm, hlen⟩
    · rw [if_neg hv]
      refine ⟨(fun r b h => ?_), (fun ev h => by simp at h)⟩
      simp only [Option.some.injEq, Prod.mk.injEq] at h
      obtain ⟨h1, h2⟩ := h
      subst h1; subst h2
      exact ⟨ho.1, hlen⟩

theorem origin_lift (T : List Row) (mqtt : Bool) (l l' : Bytes) (cur cur' : Option (Row × Bytes)) (r : Row)
    (hs : l' <:+ l) (hc : ∀ r b, cur' = some (r, b) → Origin T mqtt l cur r)
    (h : Origin T mqtt l' cur' r) : Origin T mqtt l cur r := by
  rcases h with ⟨b, hb⟩ | ⟨h1, h2, s, h3, h4, h5⟩
  · exact hc r b hb
  · exact Or.inr ⟨h1, h2, s, List.IsSuffix.trans h3 hs, h4, h5⟩

theorem scanF_spec (T : List Row) (mqtt : Bool) (n : Nat) : ∀ (l : Bytes) (cur : Option (Row × Bytes))
    (_ : ∀ r b, cur = some (r, b) → b.length ≤ r.size),
    ∀ ev ∈ (scanF T mqtt n l cur).1, ∃ r w, Origin T mqtt l cur r ∧ ev = (r.var, stored r.size w) ∧ w.length ≤ r.size := by
  induction n with
  | zero => intro l cur _ ev h; cases h
  | succ n ih =>
    intro l cur hcur ev hev
    unfold scanF at hev
    by_cases hl : l = []
    · rw [if_pos hl] at hev; cases hev
    · rw [if_neg hl] at hev
      have sp := iter_spec T mqtt l cur hcur
      rcases List.mem_append.mp hev with h | h
      · have : (iter T mqtt l cur).ev = some ev := by
          cases he : (iter T mqtt l cur).ev with
          | none => rw [he] at h; cases h
          | some e => rw [he] at h; simp at h; rw [h]
        exact sp.2 ev this
      · obtain ⟨r, w, ho, h1, h2⟩ := ih _ _ (fun r b hb => (sp.1 r b hb).2) ev h
        obtain ⟨k, _, hk⟩ := iter_rest T mqtt l cur
        exact ⟨r, w, origin_lift T mqtt l _ cur _ r (by rw [hk]; exact List.drop_suffix k l)
          (fun r b hb => (sp.1 r b hb).1) ho, h1, h2⟩

/-- **C14.S1 (what the scanner can produce)** for every table, every segment content and every pending field: each event
    belongs to a field that was pending or whose name stands at a name position of this segment (with its protocol
    condition met), and its value is the terminator rule applied to at most `size` bytes -/
theorem scan_spec (T : List Row) (mqtt : Bool) (l : Bytes) (cur : Option (Row × Bytes))
    (hcur : ∀ r b, cur = some (r, b) → b.length ≤ r.size) :
    ∀ ev ∈ (scan T mqtt l cur).1, ∃ r w, Origin T mqtt l cur r ∧ ev = (r.var, stored r.size w) ∧ w.length ≤ r.size :=
  scanF_spec T mqtt l.length l cur hcur

/-- the name of row `r` stands at a name position of the segment -/
def Named (l : Bytes) (r : Row) : Prop := ∃ s, s <:+ l ∧ atName s = true ∧ s.take 3 = r.name

/-- **C14.S2 (only named fields, terminated inside their buffers)** a segment scanned with no field pending yields events
    only for rows of the table that are named in it, each value terminated inside the row's buffer -/
theorem c14_scan_only_named (T : List Row) (hsz : ∀ r ∈ T, 0 < r.size) (mqtt : Bool) (l : Bytes) :
    ∀ ev ∈ (scan T mqtt l none).1, ∃ r ∈ T, r.var = ev.1 ∧ condOk r mqtt = true ∧ Named l r ∧
      ev.2.length ≤ r.size ∧ ev.2.getLast? = some 0 := by
  intro ev hev
  obtain ⟨r, w, ho, h1, h2⟩ := scan_spec T mqtt l none (fun r b h => by cases h) ev hev
  rcases ho with ⟨b, hb⟩ | ⟨hr, hc, hn⟩
  · cases hb
  · have st := stored_terminated r.size (hsz r hr) w h2
    subst h1
    exact ⟨r, hr, rfl, hc, hn, st.1, st.2⟩

/-- **C14.S3 (absent means untouched)** a variable none of whose rows is named in the segment gets no event -/
theorem c14_absent_no_event (T : List Row) (mqtt : Bool) (l : Bytes) (v : Nat)
    (habs : ∀ r ∈ T, r.var = v → ¬ Named l r) : ∀ ev ∈ (scan T mqtt l none).1, ev.1 ≠ v := by
  intro ev hev hv
  obtain ⟨r, w, ho, h1, _⟩ := scan_spec T mqtt l none (fun r b h => by cases h) ev hev
  rcases ho with ⟨b, hb⟩ | ⟨hr, _, hn⟩
  · cases hb
  · subst h1
    exact habs r hr hv hn

/-- the text settings as a function of the destination id; an event writes the destination of the first row with its
    variable (destination 0 = the scratch buffer for numbers: not a setting) -/
def applyEvs (T : List Row) (cfg : Nat → Bytes) : List FormEv → Nat → Bytes
  | [] => cfg
  | ev :: rest =>
    match T.find? (fun r => r.var == ev.1) with
    | some r => applyEvs T (fun t => if t = r.target then ev.2 else cfg t) rest
    | none => applyEvs T cfg rest

theorem applyEvs_untouched (T : List Row) (evs : List FormEv) (cfg : Nat → Bytes) (t : Nat)
    (h : ∀ ev ∈ evs, ∀ r, T.find? (fun r => r.var == ev.1) = some r → r.target ≠ t) : applyEvs T cfg evs t = cfg t := by
  induction evs generalizing cfg with
  | nil => rfl
  | cons ev rest ih =>
    unfold applyEvs
    cases hf : T.find? (fun r => r.var == ev.1) with
    | none => exact ih cfg (fun e he => h e (by simp [he]))
    | some r =>
      simp only
      rw [ih _ (fun e he => h e (by simp [he]))]
      have := h ev (by simp) r hf
      rw [if_neg (fun e => this e.symm)]

/-- **C14.S4 (a setting not named in the request keeps its value)** for a table in which a variable has one row: if no row
    writing destination `t` is named in the segment, destination `t` is unchanged by the whole scan -/
theorem c14_unnamed_setting_kept (T : List Row) (huniq : ∀ r ∈ T, ∀ r' ∈ T, r.var = r'.var → r = r')
    (mqtt : Bool) (l : Bytes) (cfg : Nat → Bytes) (t : Nat) (habs : ∀ r ∈ T, r.target = t → ¬ Named l r) :
    applyEvs T cfg (scan T mqtt l none).1 t = cfg t := by
  apply applyEvs_untouched
  intro ev hev r' hf
  obtain ⟨r, w, ho, h1, _⟩ := scan_spec T mqtt l none (fun r b h => by cases h) ev hev
  rcases ho with ⟨b, hb⟩ | ⟨hr, _, hn⟩
  · cases hb
  · have hr' := List.mem_of_find?_eq_some hf
    have hv : r'.var = ev.1 := by simpa using List.find?_some hf
    have : r = r' := huniq r hr r' hr' (by rw [hv, h1])
    subst this
    exact fun ht => habs r hr ht hn

/-- **C14.S5 (nothing without a POST to "/")** the one-segment request handler counts fields only for a POST whose path
    is "/" and that contains the end of the head; the count is the protocol field (if present) plus one per event -/
theorem c14_count_needs_post (T : List Row) (pro : Bytes) (mqtt0 : Bool) (seg : Bytes) (m : Nat) (evs : List FormEv) (mq : Bool)
    (h : postScan T pro mqtt0 seg = some (m, evs, mq)) :
    reqType seg = 2 ∧ 0 < countHeadEnds seg ∧ m ≤ 1 + evs.length ∧ evs.length ≤ m ∧
    evs = (scan T mq (seg.drop (3 * countHeadEnds seg)) none).1 := by
  unfold postScan at h
  by_cases hc : reqType seg = 2 ∧ countHeadEnds seg > 0
  · rw [if_pos hc] at h
    simp only [Option.some.injEq, Prod.mk.injEq] at h
    obtain ⟨h1, h2, h3⟩ := h
    refine ⟨hc.1, hc.2, ?_, ?_, ?_⟩
    · rw [← h1, ← h2]; split <;> omega
    · rw [← h1, ← h2]; omega
    · rw [← h2, ← h3]
  · rw [if_neg hc] at h; cases h

/-- POST means: the segment begins with "POST / HTTP" -/
theorem reqType_post (l : Bytes) (h : reqType l = 2) : l.take 11 = [80, 79, 83, 84, 32, 47, 32, 72, 84, 84, 80] := by
  unfold reqType at h
  split at h
  · cases h
  · split at h
    · rename_i h2
      have h3 := Bool.and_eq_true_iff.mp h2
      have h4 := Bool.and_eq_true_iff.mp h3.1
      have a : l.take 4 = [80, 79, 83, 84] := by simpa using h4.1
      have b : (l.drop 4).take 7 = [32, 47, 32, 72, 84, 84, 80] := by simpa using h3.2
      have : l.take 11 = l.take 4 ++ (l.drop 4).take 7 := List.take_add (i := 4) (j := 7)
      rw [this, a, b]; rfl
    · cases h


/-! ### the table of /repo (regenerated) -/

/-- every buffer of the regenerated table has room for a terminator -/
theorem c14_table_sizes : ∀ r ∈ Gen.formTable, 0 < r.size := by decide

/-- in the regenerated table a variable has one row and a name has one row -/
theorem c14_table_unique :
    (Gen.formTable.map (·.var)).Nodup ∧ (Gen.formTable.map (·.name)).Nodup := by decide

theorem nodup_map_inj {α β : Type} (f : α → β) : ∀ (l : List α), (l.map f).Nodup →
    ∀ a ∈ l, ∀ b ∈ l, f a = f b → a = b := by
  intro l
  induction l with
  | nil => intro _ a ha; cases ha
  | cons x xs ih =>
    intro hn a ha b hb hab
    simp only [List.map_cons, List.nodup_cons, List.mem_map, not_exists, not_and] at hn
    rcases List.mem_cons.mp ha with ha | ha <;> rcases List.mem_cons.mp hb with hb | hb
    · rw [ha, hb]
    · exact absurd (by rw [← ha]; exact hab.symm) (hn.1 b hb)
    · exact absurd (by rw [← hb]; exact hab) (hn.1 a ha)
    · exact ih hn.2 a ha b hb hab

/-- **C14.S6 (the form of /repo)** with the table regenerated from supla_esp_parse_vars: a one-segment request yields
    events only for fields named in it, every value terminated inside its buffer; and a text setting none of whose
    field names stands at a name position keeps its value -/
theorem c14_repo_scan (mqtt : Bool) (l : Bytes) :
    (∀ ev ∈ (scan Gen.formTable mqtt l none).1, ∃ r ∈ Gen.formTable, r.var = ev.1 ∧ condOk r mqtt = true ∧ Named l r ∧
      ev.2.length ≤ r.size ∧ ev.2.getLast? = some 0) ∧
    (∀ (cfg : Nat → Bytes) (t : Nat), (∀ r ∈ Gen.formTable, r.target = t → ¬ Named l r) →
      applyEvs Gen.formTable cfg (scan Gen.formTable mqtt l none).1 t = cfg t) :=
  ⟨c14_scan_only_named Gen.formTable c14_table_sizes mqtt l,
   fun cfg t h => c14_unnamed_setting_kept Gen.formTable
     (nodup_map_inj (·.var) Gen.formTable c14_table_unique.1) mqtt l cfg t h⟩

/-- the save threshold of /repo is the property's "at least four recognised fields" -/
theorem c14_repo_min_fields : Gen.formMinFields = 4 := by decide

/- non-vacuity: a five-field POST in one segment: the protocol field and four events, in order; the same body sent with
   GET, or to another path, counts nothing -/
set_option maxRecDepth 20000 in
example : postScan Gen.formTable Gen.formPro false [80, 79, 83, 84, 32, 47, 32, 72, 84, 84, 80, 47, 49, 46, 49, 13, 10, 13, 10, 115, 105, 100, 61, 110, 43, 49, 38, 115, 118, 114, 61, 115, 46, 101, 120, 38, 101, 109, 108, 61, 97, 37, 52, 48, 98, 38, 112, 114, 111, 61, 48, 38, 108, 101, 100, 61, 49] =
    some (5, [(1, [110, 32, 49, 0]), (3, [115, 46, 101, 120, 0]), (20, [97, 64, 98, 0]), (10, [49, 0])], false) := by decide
set_option maxRecDepth 20000 in
example : postScan Gen.formTable Gen.formPro false [71, 69, 84, 32, 47, 32, 72, 84, 84, 80, 47, 49, 46, 49, 13, 10, 13, 10, 115, 105, 100, 61, 110, 43, 49, 38, 115, 118, 114, 61, 115, 46, 101, 120, 38, 101, 109, 108, 61, 97, 37, 52, 48, 98, 38, 112, 114, 111, 61, 48, 38, 108, 101, 100, 61, 49] = none := by decide

/-- a byte placed behind `A` and `T` survives the cut to the field size and stands behind `A` -/
theorem mem_drop_take_poke (A T R : Bytes) (x : UInt8) (E : Nat) (h : A.length + T.length + 1 ≤ E) :
    x ∈ ((A ++ (T ++ [x]) ++ R).take E).drop A.length := by
  rw [List.append_assoc, List.take_append, List.take_of_length_le (by omega : A.length ≤ E)]
  rw [List.drop_append, List.drop_of_length_le (Nat.le_refl _), Nat.sub_self, List.drop_zero, List.nil_append]
  rw [List.take_append, List.take_of_length_le (by simp; omega)]
  simp

/-- **C14 (the kept overflow part is a terminated string inside the field)** whenever the stored long password is carried
    over behind a new e-mail (long password stored, both e-mails terminated, the old part terminated, at least one byte of
    room behind the new e-mail's terminator): what stands behind the new e-mail's terminator contains a terminator inside the
    Email field - for every stored password, every old and every new e-mail, also when the part has to be cut. -/
theorem c14_kept_part_is_terminated (L E : Nat) (oldPwd oldMail newMail : Bytes) (hlen : newMail.length = E)
    (h1 : strnlen oldPwd L = L) (h2 : strnlen oldMail E < E ∧ strnlen newMail E < E)
    (h3 : strnlen (oldMail.drop (strnlen oldMail E + 1)) (E - strnlen oldMail E - 1) < E - strnlen oldMail E - 1 ∧
          strnlen newMail E < E - 1) :
    (0 : UInt8) ∈ (keepLongPassword L E oldPwd oldMail newMail).2.drop (strnlen newMail E + 1) := by
  unfold keepLongPassword
  rw [if_pos h1, if_pos h2]
  simp only
  rw [if_pos h3]
  simp only
  generalize hn : strnlen newMail E = n at h3 ⊢
  generalize List.drop (strnlen oldMail E + 1) oldMail = src
  generalize hp : (if strnlen src (E - strnlen oldMail E - 1) > E - n - 2 then E - n - 2 else strnlen src (E - strnlen oldMail E - 1)) = p
  have hple : p ≤ E - n - 2 := by rw [← hp]; split <;> omega
  have hT : (src.take p).length ≤ p := by rw [List.length_take]; exact Nat.min_le_left _ _
  have hk : (newMail.take (n + 1)).length = n + 1 := by rw [List.length_take]; omega
  unfold poke
  have := mem_drop_take_poke (newMail.take (n + 1)) (src.take p) (newMail.drop (n + 1 + (src.take p ++ [0]).length)) 0 E (by omega)
  rw [hk] at this
  exact this

/-- non-vacuity of the cut: Password field 4, Email field 12, overflow part "QQQQQQQ" (7) behind "ab"; the new e-mail "wxyz" leaves
    room for 5 characters and the terminator -/
example : keepLongPassword 4 12 [80, 80, 80, 80] [97, 98, 0, 81, 81, 81, 81, 81, 81, 81, 0, 0] [119, 120, 121, 122, 0, 0, 0, 0, 0, 0, 0, 0] =
    ([80, 80, 80, 80], [119, 120, 121, 122, 0, 81, 81, 81, 81, 81, 81, 0]) := by decide

/-- non-vacuity: Password field of 4, Email field of 12: the stored password "PPPP" + overflow "QQ" behind "ab", new e-mail
    "wxyz": the e-mail stays "wxyz", the overflow part follows its terminator -/
example : keepLongPassword 4 12 [80, 80, 80, 80] [97, 98, 0, 81, 81, 0, 0, 0, 0, 0, 0, 0] [119, 120, 121, 122, 0, 81, 0, 0, 0, 0, 0, 0] =
    ([80, 80, 80, 80], [119, 120, 121, 122, 0, 81, 81, 0, 0, 0, 0, 0]) := by decide

/-! ### the flag bits and their fields (Model/FormFlags) -/

def flagOpts : List (Option Bool) := [none, some false, some true]
theorem flagOpts_all (v : Option Bool) : v ∈ flagOpts := by
  cases v with
  | none => simp [flagOpts]
  | some b => cases b <;> simp [flagOpts]

def FlagKeeps (w : Nat) (pro ret tls mau : Option Bool) : Prop :=
  (pro = none → flagsAfter w pro ret tls mau &&& 1 = w &&& 1) ∧
  (ret = none → flagsAfter w pro ret tls mau &&& 2 = w &&& 2) ∧
  (tls = none → flagsAfter w pro ret tls mau &&& 4 = w &&& 4) ∧
  (mau = none → flagsAfter w pro ret tls mau &&& 8 = w &&& 8) ∧
  flagsAfter w pro ret tls mau &&& 16 = w &&& 16 ∧
  (∀ b, pro = some b → flagsAfter w pro ret tls mau &&& 1 = (if b then 1 else 0)) ∧
  (∀ b, ret = some b → flagsAfter w pro ret tls mau &&& 2 = (if b then 2 else 0)) ∧
  (∀ b, tls = some b → flagsAfter w pro ret tls mau &&& 4 = (if b then 4 else 0)) ∧
  (∀ b, mau = some b → flagsAfter w pro ret tls mau &&& 8 = (if b then 0 else 8))

instance (w : Nat) (pro ret tls mau : Option Bool) : Decidable (FlagKeeps w pro ret tls mau) := by
  unfold FlagKeeps; infer_instance

/-- every flag word (five bits) x every combination of absent / '0' / '1' for the four fields, decided by the kernel -/
theorem flag_table : ∀ w ∈ List.range 32, ∀ pro ∈ flagOpts, ∀ ret ∈ flagOpts, ∀ tls ∈ flagOpts, ∀ mau ∈ flagOpts,
    FlagKeeps w pro ret tls mau := by decide

/-- **C14 (flag bits)** for every flag word and every request: a bit whose field is absent keeps its value (the locked bit has no
    field and always does), a bit whose field is present gets the submitted value (mau inverted: it switches authentication ON) -/
theorem c14_flag_bits (w : Nat) (hw : w < 32) (pro ret tls mau : Option Bool) : FlagKeeps w pro ret tls mau :=
  flag_table w (List.mem_range.mpr hw) pro (flagOpts_all pro) ret (flagOpts_all ret) tls (flagOpts_all tls) mau (flagOpts_all mau)

end SuplaVerif.C14
