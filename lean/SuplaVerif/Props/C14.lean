/-
  Props/C14 — config form: every text value stays inside its field and is NUL-terminated; numeric
  settings are accepted only inside their valid ranges.
-/
import SuplaVerif.Model.Form
import SuplaVerif.Model.Cred
namespace SuplaVerif.C14
open SuplaVerif

/-- the copy never writes beyond the field: for every segment content the number of bytes written
    before the terminator is at most the field size -/
theorem decVal_bounded (size : Nat) (l acc : List UInt8) (h : acc.length ≤ size) :
    (decVal size l acc).length ≤ size := by
  fun_induction decVal size l acc with
  | case1 acc => exact h
  | case2 acc c hc => simp; omega
  | case3 acc c hc => exact h
  | case4 acc c d1 d2 rest' hc hp hstop => simp at hstop ⊢; omega
  | case5 acc c d1 d2 rest' hc hp hgo ih => apply ih; simp at hgo ⊢; omega
  | case6 acc c d1 hc hp => exact h
  | case7 acc c d1 rest hc hp hstop => simp at hstop ⊢; omega
  | case8 acc c d1 rest hc hp hgo ih => apply ih; simp at hgo ⊢; omega
  | case9 acc c d1 rest hc => exact h

/-- what is left in the field is terminated inside the field: exactly one terminator is placed, at
    an index below `size` -/
theorem stored_terminated (size : Nat) (hs : 0 < size) (w : List UInt8) (hw : w.length ≤ size) :
    (stored size w).length ≤ size ∧ (stored size w).getLast? = some 0 := by
  unfold stored
  by_cases h : w.length < size
  · rw [if_pos h]; simp; omega
  · rw [if_neg h]; simp; omega

theorem cstr_no_nul : ∀ (b : List UInt8), (0 : UInt8) ∉ cstr b ∧ (cstr b).length ≤ b.length := by
  intro b
  induction b with
  | nil => simp [cstr]
  | cons c cs ih =>
    unfold cstr
    by_cases hc : c = 0
    · rw [if_pos hc]; simp
    · rw [if_neg hc]; simp; exact ⟨⟨fun h => hc h.symm, ih.1⟩, by omega⟩

theorem cstr_lt_of_last (b : List UInt8) (h : b.getLast? = some 0) : (cstr b).length < b.length := by
  induction b with
  | nil => simp at h
  | cons c cs ih =>
    unfold cstr
    by_cases hc : c = 0
    · rw [if_pos hc]; simp
    · rw [if_neg hc]
      cases cs with
      | nil => simp at h; exact absurd h hc
      | cons d ds =>
        have : (d :: ds).getLast? = some 0 := by simpa [List.getLast?_cons_cons] using h
        have := ih this
        simp at this ⊢; omega

/-- C14 (text fields): for every field size ≥ 1 and every segment content, the resulting setting is
    a NUL-free string strictly shorter than the field, i.e. it is terminated inside the field -/
theorem c14_field_bounded (size : Nat) (hs : 0 < size) (l : List UInt8) :
    (fieldValue size l).length < size ∧ (0 : UInt8) ∉ fieldValue size l := by
  unfold fieldValue
  have hb := decVal_bounded size l [] (Nat.zero_le _)
  have st := stored_terminated size hs _ hb
  exact ⟨by have := cstr_lt_of_last _ st.2; omega, (cstr_no_nul _).1⟩

/-- port: the setting after the field is a valid port or the previous value -/
theorem c14_port (old : Int) (s : List UInt8) :
    (1 ≤ applyPort old s ∧ applyPort old s ≤ 65535) ∨ applyPort old s = old := by
  unfold applyPort
  by_cases h : 0 < str2int s ∧ str2int s ≤ 65535
  · rw [if_pos h]; left; omega
  · rw [if_neg h]; right; rfl

theorem c14_qos (old : Int) (s : List UInt8) :
    (0 ≤ applyQos old s ∧ applyQos old s ≤ 2) ∨ applyQos old s = old := by
  unfold applyQos
  by_cases h : 0 ≤ ((s.headD 0).toNat : Int) - 48 ∧ ((s.headD 0).toNat : Int) - 48 ≤ 2
  · rw [if_pos h]; left; exact h
  · rw [if_neg h]; right; rfl

theorem c14_margin (s : List UInt8) : -1 ≤ applyMargin s ∧ applyMargin s ≤ 100 := by
  unfold applyMargin
  by_cases h : toSChar (str2int s) < -1 ∨ toSChar (str2int s) > 100
  · rw [if_pos h]; omega
  · rw [if_neg h]; omega

/-- non-vacuity / examples: an over-long value is cut to size-1 bytes; %-escapes and '+' decode -/
example : fieldValue 4 [97, 98, 99, 100, 101, 102, 38, 120] = [97, 98, 99] := by
  simp [fieldValue, decVal, stored, cstr, plain]
example : fieldValue 32 [97, 37, 50, 49, 43, 98, 38, 120, 61] = [97, 33, 32, 98] := by
  simp [fieldValue, decVal, stored, cstr, plain, hexByte, hexDigit]
example : applyPort 1883 [55, 48, 48, 48, 48] = 1883 ∧ applyPort 1883 [56, 56, 56, 51] = 8883 := by decide

/-! ### keeping a stored long password when the form leaves the password empty
     (`Bytes.cstr` is the C-string view of Base/Bytes; the `cstr` above is Model/Form's) -/

/-- a byte string whose C-string view is shorter than the string has a terminator right behind that view -/
theorem bcstr_split : ∀ (b : Bytes), (Bytes.cstr b).length < b.length →
    b = Bytes.cstr b ++ 0 :: b.drop ((Bytes.cstr b).length + 1) ∧ (∀ x ∈ Bytes.cstr b, x ≠ 0) := by
  intro b
  induction b with
  | nil => intro h; simp [Bytes.cstr] at h
  | cons x xs ih =>
    intro h
    unfold Bytes.cstr at h ⊢
    by_cases hx : x = 0
    · simp [hx]
    · simp only [hx, if_false, List.length_cons] at h ⊢
      have := ih (by omega)
      refine ⟨?_, ?_⟩
      · simp only [List.cons_append, List.drop_succ_cons]
        rw [← this.1]
      · intro y hy
        rcases List.mem_cons.mp hy with h1 | h1
        · rw [h1]; exact hx
        · exact this.2 y h1

theorem bcstr_prefix_zero (p r : Bytes) (h : ∀ x ∈ p, x ≠ 0) : Bytes.cstr (p ++ 0 :: r) = p := by
  induction p with
  | nil => simp [Bytes.cstr]
  | cons x xs ih =>
    have hx : x ≠ 0 := h x (by simp)
    simp only [List.cons_append, Bytes.cstr, hx, if_false]
    rw [ih (fun y hy => h y (by simp [hy]))]

theorem take_len_succ (c r : Bytes) (x : UInt8) : (c ++ x :: r).take (c.length + 1) = c ++ [x] := by
  induction c with
  | nil => simp
  | cons y ys ih => simp [ih]

/-- **C14 (the e-mail survives the kept password)** whatever password and e-mail were stored and whatever e-mail the form
    brought: keeping the stored long password leaves the new e-mail exactly as submitted - its characters and its
    terminator are not touched, the overflow part is placed behind the terminator (this is what keeps it off the page, C15) -
    and the Email field keeps its size -/
theorem c14_keep_password_keeps_mail (L E : Nat) (oldPwd oldMail newMail : Bytes) (hlen : newMail.length = E)
    (hterm : strnlen newMail E < E) :
    Bytes.cstr (keepLongPassword L E oldPwd oldMail newMail).2 = Bytes.cstr newMail ∧
    (keepLongPassword L E oldPwd oldMail newMail).2.length = E := by
  have htake : newMail.take E = newMail := by rw [← hlen]; exact List.take_length
  have hnm : strnlen newMail E = (Bytes.cstr newMail).length := by unfold strnlen; rw [htake]
  have hn : (Bytes.cstr newMail).length < newMail.length := by rw [← hnm, hlen]; exact hterm
  obtain ⟨hsplit, hnn⟩ := bcstr_split newMail hn
  unfold keepLongPassword
  by_cases h1 : strnlen oldPwd L = L
  · rw [if_pos h1]
    by_cases h2 : strnlen oldMail E < E ∧ strnlen newMail E < E
    · rw [if_pos h2]
      simp only
      by_cases h3 : strnlen (oldMail.drop (strnlen oldMail E + 1)) (E - strnlen oldMail E - 1) < E - strnlen oldMail E - 1
      · rw [if_pos h3]
        simp only
        generalize (List.take _ (List.drop (strnlen oldMail E + 1) oldMail)) = d
        rw [hnm]
        generalize hc : Bytes.cstr newMail = c at hsplit hnn hn hnm
        have hpoke : poke newMail (c.length + 1) d = c ++ 0 :: (d ++ newMail.drop (c.length + 1 + d.length)) := by
          unfold poke
          have e1 : newMail.take (c.length + 1) = c ++ [0] := by
            conv => lhs; rw [hsplit]
            exact take_len_succ c _ 0
          rw [e1]
          simp [List.append_assoc]
        rw [hpoke]
        have hcE : c.length + 1 ≤ E := by omega
        have htk : (c ++ 0 :: (d ++ newMail.drop (c.length + 1 + d.length))).take E =
            c ++ 0 :: (d ++ newMail.drop (c.length + 1 + d.length)).take (E - c.length - 1) := by
          rw [List.take_append]
          have : E - c.length = (E - c.length - 1) + 1 := by omega
          rw [List.take_of_length_le (Nat.le_of_lt (by omega : c.length < E)), this, List.take_succ_cons]
          simp
        rw [htk]
        refine ⟨bcstr_prefix_zero _ _ hnn, ?_⟩
        simp only [List.length_append, List.length_cons, List.length_take, List.length_drop, hlen]
        omega
      · rw [if_neg h3]; exact ⟨rfl, hlen⟩
    · rw [if_neg h2]; exact ⟨rfl, hlen⟩
  · rw [if_neg h1]; exact ⟨rfl, hlen⟩

/-- non-vacuity: Password field of 4, Email field of 12: the stored password "PPPP" + overflow "QQ" behind "ab", new e-mail
    "wxyz": the e-mail stays "wxyz", the overflow part follows its terminator -/
example : keepLongPassword 4 12 [80, 80, 80, 80] [97, 98, 0, 81, 81, 0, 0, 0, 0, 0, 0, 0] [119, 120, 121, 122, 0, 81, 0, 0, 0, 0, 0, 0] =
    ([80, 80, 80, 80], [119, 120, 121, 122, 0, 81, 81, 0, 0, 0, 0, 0]) := by decide

end SuplaVerif.C14
