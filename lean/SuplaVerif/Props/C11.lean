/-
  Props/C11 — inputs: glitches are ignored and every real actuation acts exactly once.

  Theorems about the sampling state machine, for every level sequence: a notification of level
  `v` is preceded by `minCycle + 1` consecutive samples that all read `v` (so, with 20 ms sampling
  and minCycle = 5, the level was `v` at six instants spanning 100 ms: a shorter pulse cannot be
  notified), and a level that stays constant is notified after exactly `minCycle + 1` samples, once.
  Button modes (mono/bistable, action triggers, hold, multi-click) are exercised on the
  implementation (tools/props/c11.py).
-/
import SuplaVerif.Model.Debounce
import SuplaVerif.Gen.Consts

namespace SuplaVerif.C11

/-- the last `n` samples (most recent first in `hist`) all read `v` -/
def LastAll (hist : List Bool) (n : Nat) (v : Bool) : Prop := n ≤ hist.length ∧ ∀ x ∈ hist.take n, x = v

/-- invariant: while sampling (step ≥ 2) the last `step - 1` samples equal `value` -/
def Inv (d : Deb) (hist : List Bool) : Prop := 2 ≤ d.step → LastAll hist (d.step - 1) d.value

theorem sample_inv (m : Nat) (d : Deb) (hist : List Bool) (v : Bool) (h : Inv d hist) :
    Inv (d.sample m v).1 (v :: hist) ∧
    (∀ n, (d.sample m v).2 = some n → n = v ∧ LastAll (v :: hist) (m + 1) v) := by
  unfold Deb.sample
  by_cases h0 : d.step = 0
  · rw [if_pos h0]; exact ⟨fun h2 => by simp only at h2; omega, fun n hn => by cases hn⟩
  · rw [if_neg h0]
    by_cases h1 : d.step = 1 ∨ d.value ≠ v
    · rw [if_pos h1]
      refine ⟨fun _ => ⟨by simp, by simp⟩, fun n hn => by cases hn⟩
    · rw [if_neg h1]
      have hv : d.value = v := by
        cases hd : d.value <;> cases v <;> simp_all
      have hstep : 2 ≤ d.step := by omega
      obtain ⟨hlen, hall⟩ := h hstep
      by_cases h2 : d.step > m
      · rw [if_pos h2]
        refine ⟨fun h2 => by simp at h2, fun n hn => ?_⟩
        injection hn with hn
        refine ⟨hn.symm, ?_, ?_⟩
        · simp only [List.length_cons]; omega
        · intro x hx
          rw [List.take_succ_cons] at hx
          rcases List.mem_cons.mp hx with hx | hx
          · exact hx
          · rw [← hv]
            exact hall x (List.mem_of_mem_take (by
              have : List.take m hist = List.take m (List.take (d.step - 1) hist) := by
                rw [List.take_take]; congr 1; omega
              rw [this] at hx; exact hx) |> fun hm => by
                have : x ∈ List.take (d.step - 1) hist := by
                  have e : List.take m hist = List.take m (List.take (d.step - 1) hist) := by
                    rw [List.take_take]; congr 1; omega
                  rw [e] at hx; exact List.mem_of_mem_take hx
                exact this)
      · rw [if_neg h2]
        refine ⟨fun _ => ⟨by simp only [List.length_cons]; omega, ?_⟩, fun n hn => by cases hn⟩
        intro x hx
        simp only at hx
        rw [show d.step + 1 - 1 = (d.step - 1) + 1 by omega, List.take_succ_cons] at hx
        rcases List.mem_cons.mp hx with hx | hx
        · rw [hx]; exact hv.symm
        · exact hall x hx

/-- **C11.1 (glitches are ignored)** for every level sequence and every starting state: each
    notification of level `v` at sample index `k` is preceded by `minCycle + 1` consecutive samples
    (the notifying one included) that all read `v`. -/
theorem c11_notify_needs_stable_run (m : Nat) (samples : List Bool) (d : Deb) (hist : List Bool) (k0 : Nat)
    (hinv : Inv d hist) (k : Nat) (v : Bool)
    (hmem : (k, v) ∈ (Deb.run m d k0 samples).2) :
    ∃ j, k = k0 + j ∧ j < samples.length ∧
      LastAll ((samples.take (j + 1)).reverse ++ hist) (m + 1) v := by
  induction samples generalizing d hist k0 with
  | nil => simp [Deb.run] at hmem
  | cons s ss ih =>
    unfold Deb.run at hmem
    simp only at hmem
    have hs := sample_inv m d hist s hinv
    rcases List.mem_append.mp hmem with h | h
    · cases hr : (d.sample m s).2 with
      | none => rw [hr] at h; simp at h
      | some n =>
        rw [hr] at h
        simp only [List.mem_singleton, Prod.mk.injEq] at h
        obtain ⟨hk, hvn⟩ := h
        have := hs.2 n hr
        refine ⟨0, by omega, by simp, ?_⟩
        simp only [List.take_succ_cons, List.take_zero, List.reverse_cons, List.reverse_nil, List.nil_append,
          List.singleton_append]
        rw [hvn, this.1]; rw [this.1] at this; exact this.2
    · obtain ⟨j, hj1, hj2, hj3⟩ := ih (d.sample m s).1 (s :: hist) (k0 + 1) hs.1 h
      refine ⟨j + 1, by omega, by simp only [List.length_cons]; omega, ?_⟩
      simp only [List.take_succ_cons, List.reverse_cons, List.append_assoc, List.singleton_append]
      exact hj3

/-- **C11.2 (a stable level is recognised, once)** from the first sample after an edge
    (step = 1), `minCycle + 1` samples of a constant level `v` produce exactly one notification,
    of `v`, at the last of them, and leave the machine idle (for minCycle ≥ 1). -/
theorem c11_stable_notified_once (m : Nat) (hm : 1 ≤ m) (v : Bool) (val : Bool) :
    Deb.run m { step := 1, value := val } 0 (List.replicate (m + 1) v) =
      ({ step := 0, value := v }, [(m, v)]) := by
  -- each further equal sample increments the step until step = m + 1, which notifies
  have hloop : ∀ (n : Nat) (s k : Nat), 2 ≤ s → s + n = m + 1 →
      Deb.run m { step := s, value := v } k (List.replicate (n + 1) v) =
        ({ step := 0, value := v }, [(k + n, v)]) := by
    intro n
    induction n with
    | zero =>
      intro s k hs hn
      simp only [List.replicate, Deb.run, Deb.sample]
      rw [if_neg (by omega), if_neg (by simp; omega), if_pos (by omega)]
      simp [Deb.run]
    | succ n ih =>
      intro s k hs hn
      rw [show n + 1 + 1 = (n + 1) + 1 by rfl, List.replicate_succ]
      simp only [Deb.run, Deb.sample]
      rw [if_neg (by omega), if_neg (by simp; omega), if_neg (by omega)]
      simp only
      rw [ih (s + 1) (k + 1) (by omega) (by omega)]
      simp; omega
  obtain ⟨n, rfl⟩ : ∃ n, m = n + 1 := ⟨m - 1, by omega⟩
  rw [List.replicate_succ]
  simp only [Deb.run, Deb.sample]
  simp only [Nat.succ_ne_zero, if_false, true_or, if_true]
  rw [hloop n 2 (0 + 1) (by omega) (by omega)]
  simp; omega

/-- an idle machine (no edge) never notifies -/
theorem c11_idle_silent (m : Nat) (samples : List Bool) (val : Bool) (k : Nat) :
    (Deb.run m { step := 0, value := val } k samples).2 = [] := by
  induction samples generalizing k with
  | nil => rfl
  | cons s ss ih => simp [Deb.run, Deb.sample, ih]

/-- constants of the source tree: 6 equal samples 20 ms apart span 100 ms; a stable level is
    notified 120 ms after its edge at the latest (first sample ≤ 20 ms after the edge) -/
theorem c11_consts : Gen.inputMinCycle = 5 ∧ Gen.inputCycleMs = 20 ∧
    Gen.inputMinCycle * Gen.inputCycleMs ≥ 100 ∧ (Gen.inputMinCycle + 1) * Gen.inputCycleMs ≤ 120 := by decide

/-- non-vacuity: a 4-sample pulse (80 ms) inside a low level is not notified as high -/
example : (Deb.run 5 { step := 1, value := false } 0
    [true, true, true, true, false, false, false, false, false, false]).2 = [(9, false)] := by decide

end SuplaVerif.C11
