/-
  Props/C11 — inputs: glitches are ignored and every real actuation acts exactly once.

  Theorems about the sampling state machine, for every level sequence: a notification of level
  `v` is preceded by `minCycle + 1` consecutive samples that all read `v` (so, with 20 ms sampling
  and minCycle = 5, the level was `v` at six instants spanning 100 ms: a shorter pulse cannot be
  notified), and a level that stays constant is notified after exactly `minCycle + 1` samples, once.
  Second half (C11.A ..): the action-trigger handling behind the debounce (Model/InputAt): the highest
  detectable click count, a burst of N quick clicks resolved exactly once as min(N, highest enabled
  multiplicity), the local relay action only for a single click, a long press = one hold trigger.
  Plain-mode toggling of mono/bistable inputs is exercised on the implementation (tools/props/c11.py).
-/
import SuplaVerif.Model.Debounce
import SuplaVerif.Lemmas.InputAt
import SuplaVerif.Gen.Consts

namespace SuplaVerif.C11

/-- the last `n` samples (most recent first in `hist`) all read `v` -/
def LastAll (hist : List Bool) (n : Nat) (v : Bool) : Prop := n ≤ hist.length ∧ ∀ x ∈ hist.take n, x = v

/-- invariant: while sampling (step ≥ 2) the last `step - 1` samples equal `value` -/
def Inv (d : Deb) (hist : List Bool) : Prop := 2 ≤ d.step → LastAll hist (d.step - 1) d.value

theorem sample_inv (m : Nat) (d : Deb) (hist : List Bool) (v : Bool) (h : Inv d hist) :
    Inv (d.sample m v).1 (v :: hist) ∧
    (∀ n, (d.sample m v).2 = some n → n = v ∧ LastAll (v :: hist) (m + 1) v) := by
  unfold Deb.sample
  by_cases h0 : d.step = 0
  · rw [if_pos h0]; exact ⟨fun h2 => by simp only at h2; omega, fun n hn => by cases hn⟩
  · rw [if_neg h0]
    by_cases h1 : d.step = 1 ∨ d.value ≠ v
    · rw [if_pos h1]
      refine ⟨fun _ => ⟨by simp, by simp⟩, fun n hn => by cases hn⟩
    · rw [if_neg h1]
      have hv : d.value = v := by
        cases hd : d.value <;> cases v <;> simp_all
      have hstep : 2 ≤ d.step := by omega
      obtain ⟨hlen, hall⟩ := h hstep
      by_cases h2 : d.step > m
      · rw [if_pos h2]
        refine ⟨fun h2 => by simp at h2, fun n hn => ?_⟩
        injection hn with hn
        refine ⟨hn.symm, ?_, ?_⟩
        · simp only [List.length_cons]; omega
        · intro x hx
          rw [List.take_succ_cons] at hx
          rcases List.mem_cons.mp hx with hx | hx
          · exact hx
          · rw [← hv]
            exact hall x (List.mem_of_mem_take (by
              have : List.take m hist = List.take m (List.take (d.step - 1) hist) := by
                rw [List.take_take]; congr 1; omega
              rw [this] at hx; exact hx) |> fun hm => by
                have : x ∈ List.take (d.step - 1) hist := by
                  have e : List.take m hist = List.take m (List.take (d.step - 1) hist) := by
                    rw [List.take_take]; congr 1; omega
                  rw [e] at hx; exact List.mem_of_mem_take hx
                exact this)
      · rw [if_neg h2]
        refine ⟨fun _ => ⟨by simp only [List.length_cons]; omega, ?_⟩, fun n hn => by cases hn⟩
        intro x hx
        simp only at hx
        rw [show d.step + 1 - 1 = (d.step - 1) + 1 by omega, List.take_succ_cons] at hx
        rcases List.mem_cons.mp hx with hx | hx
        · rw [hx]; exact hv.symm
        · exact hall x hx

/-- **C11.1 (glitches are ignored)** for every level sequence and every starting state: each
    notification of level `v` at sample index `k` is preceded by `minCycle + 1` consecutive samples
    (the notifying one included) that all read `v`. -/
theorem c11_notify_needs_stable_run (m : Nat) (samples : List Bool) (d : Deb) (hist : List Bool) (k0 : Nat)
    (hinv : Inv d hist) (k : Nat) (v : Bool)
    (hmem : (k, v) ∈ (Deb.run m d k0 samples).2) :
    ∃ j, k = k0 + j ∧ j < samples.length ∧
      LastAll ((samples.take (j + 1)).reverse ++ hist) (m + 1) v := by
  induction samples generalizing d hist k0 with
  | nil => simp [Deb.run] at hmem
  | cons s ss ih =>
    unfold Deb.run at hmem
    simp only at hmem
    have hs := sample_inv m d hist s hinv
    rcases List.mem_append.mp hmem with h | h
    · cases hr : (d.sample m s).2 with
      | none => rw [hr] at h; simp at h
      | some n =>
        rw [hr] at h
        simp only [List.mem_singleton, Prod.mk.injEq] at h
        obtain ⟨hk, hvn⟩ := h
        have := hs.2 n hr
        refine ⟨0, by omega, by simp, ?_⟩
        simp only [List.take_succ_cons, List.take_zero, List.reverse_cons, List.reverse_nil, List.nil_append,
          List.singleton_append]
        rw [hvn, this.1]; rw [this.1] at this; exact this.2
    · obtain ⟨j, hj1, hj2, hj3⟩ := ih (d.sample m s).1 (s :: hist) (k0 + 1) hs.1 h
      refine ⟨j + 1, by omega, by simp only [List.length_cons]; omega, ?_⟩
      simp only [List.take_succ_cons, List.reverse_cons, List.append_assoc, List.singleton_append]
      exact hj3

/-- **C11.2 (a stable level is recognised, once)** from the first sample after an edge
    (step = 1), `minCycle + 1` samples of a constant level `v` produce exactly one notification,
    of `v`, at the last of them, and leave the machine idle (for minCycle ≥ 1). -/
theorem c11_stable_notified_once (m : Nat) (hm : 1 ≤ m) (v : Bool) (val : Bool) :
    Deb.run m { step := 1, value := val } 0 (List.replicate (m + 1) v) =
      ({ step := 0, value := v }, [(m, v)]) := by
  -- each further equal sample increments the step until step = m + 1, which notifies
  have hloop : ∀ (n : Nat) (s k : Nat), 2 ≤ s → s + n = m + 1 →
      Deb.run m { step := s, value := v } k (List.replicate (n + 1) v) =
        ({ step := 0, value := v }, [(k + n, v)]) := by
    intro n
    induction n with
    | zero =>
      intro s k hs hn
      simp only [List.replicate, Deb.run, Deb.sample]
      rw [if_neg (by omega), if_neg (by simp; omega), if_pos (by omega)]
      simp [Deb.run]
    | succ n ih =>
      intro s k hs hn
      rw [show n + 1 + 1 = (n + 1) + 1 by rfl, List.replicate_succ]
      simp only [Deb.run, Deb.sample]
      rw [if_neg (by omega), if_neg (by simp; omega), if_neg (by omega)]
      simp only
      rw [ih (s + 1) (k + 1) (by omega) (by omega)]
      simp; omega
  obtain ⟨n, rfl⟩ : ∃ n, m = n + 1 := ⟨m - 1, by omega⟩
  rw [List.replicate_succ]
  simp only [Deb.run, Deb.sample]
  simp only [Nat.succ_ne_zero, if_false, true_or, if_true]
  rw [hloop n 2 (0 + 1) (by omega) (by omega)]
  simp; omega

/-- an idle machine (no edge) never notifies -/
theorem c11_idle_silent (m : Nat) (samples : List Bool) (val : Bool) (k : Nat) :
    (Deb.run m { step := 0, value := val } k samples).2 = [] := by
  induction samples generalizing k with
  | nil => rfl
  | cons s ss ih => simp [Deb.run, Deb.sample, ih]

/-- constants of the source tree: 6 equal samples 20 ms apart span 100 ms; a stable level is
    notified 120 ms after its edge at the latest (first sample ≤ 20 ms after the edge) -/
theorem c11_consts : Gen.inputMinCycle = 5 ∧ Gen.inputCycleMs = 20 ∧
    Gen.inputMinCycle * Gen.inputCycleMs ≥ 100 ∧ (Gen.inputMinCycle + 1) * Gen.inputCycleMs ≤ 120 := by decide

/-- non-vacuity: a 4-sample pulse (80 ms) inside a low level is not notified as high -/
example : (Deb.run 5 { step := 1, value := false } 0
    [true, true, true, true, false, false, false, false, false, false]).2 = [(9, false)] := by decide

/-! ### action-trigger mode: multi-click, hold, local action -/

/-- **C11.A (highest enabled multiplicity)** `max_clicks` as computed by set_active_triggers covers every enabled
    press / toggle multiplicity ... -/
theorem c11_max_clicks_covers (a k : Nat) (hk : 1 ≤ k ∧ k ≤ 5)
    (h : hasBit a (capPress k) = true ∨ hasBit a (capToggle k) = true) : k ≤ maxFromActions a := by
  have hk' : k = 1 ∨ k = 2 ∨ k = 3 ∨ k = 4 ∨ k = 5 := by omega
  unfold maxFromActions
  rcases hk' with rfl | rfl | rfl | rfl | rfl <;> repeat' split <;> first | omega | simp_all

/-- ... and is itself enabled (0 when no press / toggle trigger is active) -/
theorem c11_max_clicks_enabled (a : Nat) (h : 0 < maxFromActions a) :
    hasBit a (capPress (maxFromActions a)) = true ∨ hasBit a (capToggle (maxFromActions a)) = true := by
  unfold maxFromActions at h ⊢
  repeat' split <;> simp_all

theorem emit_sub (c : AtCfg) (s : AtSt) (a : Nat) (o : AtOut) (h : o ∈ emit c s a) :
    o = .trig a ∧ Nat.land a s.active ≠ 0 ∧ c.channel ≠ 255 := by
  unfold emit at h
  split at h
  · cases h
  · rename_i hc
    simp only [List.mem_singleton] at h
    exact ⟨h, fun hh => hc (Or.inr (Or.inl hh)), fun hh => hc (Or.inr (Or.inr hh))⟩

/-- **C11.B (what a resolution can be)** the resolution of a click count is at most one action; a local relay
    action only for exactly one click on a button whose relay is still connected; a trigger only if it is in the
    active set, and then it is the trigger of exactly that click count -/
theorem c11_resolution (c : AtCfg) (s : AtSt) (a : Nat) :
    (sendAt c s a).length ≤ 1 ∧
    (∀ o ∈ sendAt c s a, (o = .localAct ∨ o = .localInact) → a = 0 ∧ s.click = 1 ∧ s.relayConn = true) ∧
    (∀ x, AtOut.trig x ∈ sendAt c s a → Nat.land x s.active ≠ 0 ∧ c.channel ≠ 255 ∧
      (a = 0 → x = countAction c s.click ∧ s.click ≠ -1)) ∧
    AtOut.cfgMode ∉ sendAt c s a := by
  unfold sendAt
  by_cases ha : a = 0
  · rw [if_pos ha]
    by_cases h1 : s.click = -1
    · rw [if_pos h1]; simp
    · rw [if_neg h1]
      by_cases h2 : s.click = 1 ∧ s.relayConn = true
      · rw [if_pos h2]
        have hL : ∀ o ∈ (if c.isRs = true then (if s.last = true ∨ c.typ = 2 then [AtOut.localAct] else [AtOut.localInact])
            else [AtOut.localAct]), o = .localAct ∨ o = .localInact := by
          by_cases g1 : c.isRs = true <;> by_cases g2 : (s.last = true ∨ c.typ = 2) <;> simp [g1, g2]
        have hlen : (if c.isRs = true then (if s.last = true ∨ c.typ = 2 then [AtOut.localAct] else [AtOut.localInact])
            else [AtOut.localAct]).length ≤ 1 := by
          by_cases g1 : c.isRs = true <;> by_cases g2 : (s.last = true ∨ c.typ = 2) <;> simp [g1, g2]
        refine ⟨hlen, fun _ _ _ => ⟨ha, h2.1, h2.2⟩, ?_, ?_⟩
        · intro x hx; rcases hL _ hx with h' | h' <;> cases h'
        · intro hx; rcases hL _ hx with h' | h' <;> cases h'
      · rw [if_neg h2]
        refine ⟨?_, ?_, ?_, ?_⟩
        · unfold emit; split <;> simp
        · intro o ho hl
          have := (emit_sub c s _ o ho).1
          rcases hl with hl | hl <;> rw [hl] at this <;> cases this
        · intro x hx
          obtain ⟨e1, e2, e3⟩ := emit_sub c s _ _ hx
          injection e1 with e1
          exact ⟨by rw [e1]; exact e2, e3, fun _ => ⟨e1, h1⟩⟩
        · intro hx; have := (emit_sub c s _ _ hx).1; cases this
  · rw [if_neg ha]
    refine ⟨?_, ?_, ?_, ?_⟩
    · unfold emit; split <;> simp
    · intro o ho hl
      have := (emit_sub c s _ o ho).1
      rcases hl with hl | hl <;> rw [hl] at this <;> cases this
    · intro x hx
      obtain ⟨e1, e2, e3⟩ := emit_sub c s _ _ hx
      injection e1 with e1
      exact ⟨by rw [e1]; exact e2, e3, fun h0 => absurd h0 ha⟩
    · intro hx; have := (emit_sub c s _ _ hx).1; cases this

/-- **C11.C (a burst of quick clicks is resolved exactly once, as min(N, highest multiplicity))** a plain monostable
    button in action-trigger mode, idle, with a highest detectable count M ≥ 2: N ≥ 1 quick clicks (each released
    before the hold time, each followed by the next inside the multi-click time, timer callbacks at any instants
    in between) and then quiet for the multi-click time produce exactly the resolution of min(N, M) clicks -
    one trigger, or the local relay action when that count is one and the relay is connected, or nothing when that
    trigger is not enabled - and leave the button idle again. Clicks beyond M are swallowed. -/
theorem c11_burst_resolved_once (c : AtCfg) (s : AtSt) (cs : List (List Nat × List Nat)) (δf : Nat)
    (h : PlainMono c s) (hidle : s.last = false ∧ s.click = 0) (hm : 2 ≤ s.maxClicks)
    (hq : ∀ p ∈ cs, Quick c p.1 p.2) (hne : cs ≠ []) (hδ : c.multiUs ≤ δf) :
    (runAt c s (burst cs ++ [.wait δf])).2 =
        sendAt c { s with click := (min cs.length s.maxClicks : Nat), last := false } 0 ∧
    (runAt c s (burst cs ++ [.wait δf])).1.click = 0 ∧ (runAt c s (burst cs ++ [.wait δf])).1.armed = false ∧
    (runAt c s (burst cs ++ [.wait δf])).1.last = false := by
  obtain ⟨b1, b2, b3, b4, b5⟩ := burst_run c cs s h hq hidle.1 hm (Or.inr ⟨by rw [hidle.2]; omega, by rw [hidle.2]; omega⟩)
  have harm := b3 hne
  generalize hsb : (runAt c s (burst cs)).1 = sb at b1 b2 b4 harm
  have hpm : PlainMono c sb := h.of_same b4
  obtain ⟨q1, q2⟩ := wait_released_quiet c sb hpm b1 harm δf hδ
  rw [runAt_append, hsb]
  simp only [runAt, stepAt, List.append_nil, q1, q2, b5]
  refine ⟨?_, trivial, trivial, b1⟩
  rw [hidle.2] at b2 ⊢
  simp only [countAfter] at b2
  by_cases hr : (0 : Int) + (cs.length : Int) ≥ (s.maxClicks : Int)
  · -- resolved by the M-th click; the quiet period finds nothing left
    rw [if_neg (by omega), if_pos hr] at b2
    have hmin : min cs.length s.maxClicks = s.maxClicks := by omega
    rw [if_pos ⟨by omega, hr⟩, hmin]
    have : sendAt c sb 0 = [] := by unfold sendAt; simp [b2]
    rw [this, List.append_nil]
  · rw [if_neg (by omega), if_neg hr] at b2
    have hmin : min cs.length s.maxClicks = cs.length := by omega
    rw [if_neg (fun hh => hr hh.2), hmin, List.nil_append]
    exact sendAt_congr c _ _ 0 (by simp [b2]) (by simp [b4.2.1]) (by simp [b1]) (by simp [b4.1])

/-- **C11.D (nothing but that one resolution)** in particular the burst produces at most one action at all, a local relay
    action only when min(N, M) = 1, i.e. never for a multi-click when two or more clicks are detectable -/
theorem c11_burst_at_most_one (c : AtCfg) (s : AtSt) (cs : List (List Nat × List Nat)) (δf : Nat)
    (h : PlainMono c s) (hidle : s.last = false ∧ s.click = 0) (hm : 2 ≤ s.maxClicks)
    (hq : ∀ p ∈ cs, Quick c p.1 p.2) (hne : cs ≠ []) (hδ : c.multiUs ≤ δf) :
    (runAt c s (burst cs ++ [.wait δf])).2.length ≤ 1 ∧
    (∀ o ∈ (runAt c s (burst cs ++ [.wait δf])).2, (o = .localAct ∨ o = .localInact) → cs.length = 1) := by
  rw [(c11_burst_resolved_once c s cs δf h hidle hm hq hne hδ).1]
  obtain ⟨r1, r2, _, _⟩ := c11_resolution c { s with click := (min cs.length s.maxClicks : Nat), last := false } 0
  refine ⟨r1, fun o ho hl => ?_⟩
  have := (r2 o ho hl).2.1
  simp only at this
  have hlen : 0 < cs.length := List.length_pos_iff.mpr hne
  omega

/-- **C11.E (a long press is one hold trigger)** from idle: press, callbacks before the hold time, the first callback
    at or after it: exactly the hold trigger (if it is enabled), the click is consumed (counter 0, timer stopped) ... -/
theorem c11_hold_once (c : AtCfg) (s : AtSt) (wp : List Nat) (δh : Nat) (h : PlainMono c s)
    (hidle : s.last = false ∧ s.click = 0) (hwp : ∀ δ ∈ wp, δ < c.holdUs) (hδ : c.holdUs ≤ δh) :
    (runAt c s (.press :: (wp.map .wait ++ [.wait δh]))).2 = emit c s capHold ∧
    (runAt c s (.press :: (wp.map .wait ++ [.wait δh]))).1.click = 0 ∧
    (runAt c s (.press :: (wp.map .wait ++ [.wait δh]))).1.armed = false ∧
    (runAt c s (.press :: (wp.map .wait ++ [.wait δh]))).1.last = true ∧
    SameCfg s (runAt c s (.press :: (wp.map .wait ++ [.wait δh]))).1 := by
  obtain ⟨p1, p2, p3, p4, p5⟩ := press_step c s h 0
  generalize hsp : (change c s true 0).1 = sp at p2 p3 p4 p5
  have hpm : PlainMono c sp := h.of_same p5
  have hw : runAt c sp (wp.map .wait) = (sp, []) :=
    run_noop_waits c sp wp (fun δ hδ' => wait_pressed c sp hpm p2 δ (hwp δ hδ'))
  have hc : sp.click = 1 := by rw [p4, hidle.2]; simp
  simp only [runAt, stepAt, hsp, p1, List.nil_append]
  rw [runAt_append, hw]
  simp only [runAt, stepAt, List.nil_append, List.append_nil]
  have ht : tickD c sp δh = ({ sp with click := 0, armed := false }, emit c sp capHold) := by
    unfold tickD
    simp only [p3, Bool.not_true, Bool.false_eq_true, if_false, hpm.typ, p2, hpm.noHold, hc]
    simp [hδ, sendAt, capHold, hc, p2]
  rw [ht]
  refine ⟨?_, rfl, rfl, p2, ⟨p5.1, p5.2.1, p5.2.2⟩⟩
  unfold emit
  rw [p5.1]

/-- ... and the release and whatever callbacks follow produce nothing more -/
theorem c11_after_hold_silent (c : AtCfg) (s : AtSt) (ws : List Nat) (h : PlainMono c s)
    (hs : s.last = true ∧ s.click = 0) :
    (runAt c s (.release :: ws.map .wait)).2 = [] := by
  obtain ⟨r1, r2, r3, r4, r5⟩ := release_step c s h 0
  generalize hsr : (change c s false 0).1 = sr at r2 r3 r4 r5
  have hrm : PlainMono c sr := h.of_same r5
  simp only [runAt, stepAt, hsr, r1, List.nil_append]
  have key : ∀ (ws : List Nat) (t : AtSt), PlainMono c t → t.last = false → t.click = 0 →
      (runAt c t (ws.map .wait)).2 = [] := by
    intro ws
    induction ws with
    | nil => intro t _ _ _; rfl
    | cons w ws ih =>
      intro t ht hl hc
      have hz : sendAt c t 0 = [] := by
        unfold sendAt emit countAction
        simp [hc]
      have hstep : (tickD c t w).2 = [] ∧ (tickD c t w).1.last = false ∧ (tickD c t w).1.click = 0 ∧
          SameCfg t (tickD c t w).1 := by
        unfold tickD
        by_cases ha : t.armed = true
        · simp only [ha, Bool.not_true, Bool.false_eq_true, if_false, ht.typ, hl]
          simp only [Bool.false_eq_true, and_false, false_and, if_false, Bool.not_false, true_or, if_true, hz, hc]
          by_cases h1 : w ≥ c.multiUs
          · simp [h1, hl, SameCfg]
          · by_cases h2 : t.maxClicks = 0
            · simp [h1, h2, hl, SameCfg]
            · have h3 : ¬ (0 : Int) ≥ (t.maxClicks : Int) := by omega
              simp [h1, h2, h3, hl, hc, SameCfg]
        · simp [ha, hl, hc, SameCfg]
      simp only [List.map_cons, runAt, stepAt, hstep.1, List.nil_append]
      exact ih _ (ht.of_same hstep.2.2.2) hstep.2.1 hstep.2.2.1
  exact key ws sr hrm r2 (by rw [r4]; exact hs.2)

/-- non-vacuity: PRESS_x2 and PRESS_x3 active (highest count 3), relay behind the button: a double click sends
    PRESS_x2, five clicks send PRESS_x3, a single click switches the relay, a long press sends nothing (hold is not
    active) - the premises of the theorems above hold for this state -/
example :
    let c : AtCfg := { typ := 2, cap := 64512, channel := 5, hasRelay := true, isRs := false, cfgHold := false,
                       cfgToggle := false, holdUs := 700000, multiUs := 300000, cfgPressUs := 5000000 }
    let s := setActive c {} (capPress 2 + capPress 3)
    let q : List Nat × List Nat := ([20000, 40000], [20000, 40000, 60000])
    s.maxClicks = 3 ∧ s.relayConn = true ∧
    (runAt c s (burst [q, q] ++ [.wait 300000])).2 = [.trig (capPress 2)] ∧
    (runAt c s (burst [q, q, q, q, q] ++ [.wait 300000])).2 = [.trig (capPress 3)] ∧
    (runAt c s (burst [q] ++ [.wait 300000])).2 = [.localAct] := by decide

end SuplaVerif.C11
