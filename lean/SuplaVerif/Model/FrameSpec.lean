/-
  Model/FrameSpec — the segmentation-free specification of the SRPC wire grammar:
  what the head of a byte stream is (a complete well-formed frame, an incomplete frame,
  or garbage) and the greedy list of good frames of a stream.  This is the *spec* the
  receiver (C01) and the sender (C02) are proved against; it mentions no buffer.
-/
import SuplaVerif.Model.Proto

namespace SuplaVerif
open Bytes

inductive Head
  | needMore
  | frame (f : Frame) (rest : Bytes)
  | bad
  | badVersion
  deriving Repr, DecidableEq

/-- classification of the head of a stream -/
def parseHead (P : ProtoParams) (d : Bytes) : Head :=
  if d.length < 5 then .needMore
  else if d.take 5 ≠ TAG then .bad
  else if d.length - 5 < P.hdr then .needMore
  else if (d.getD 5 0).toNat > P.ver ∨ (d.getD 5 0).toNat < P.verMin then .badVersion
  else if le32 (d.drop 14) > P.maxData then .bad
  else if P.hdr + le32 (d.drop 14) + 5 > d.length then .needMore
  else if (d.drop (P.hdr + le32 (d.drop 14))).take 5 ≠ TAG then .bad
  else .frame { ver := (d.getD 5 0).toNat, rrId := le32 (d.drop 6), callId := le32 (d.drop 10),
                payload := (d.drop P.hdr).take (le32 (d.drop 14)) }
              (d.drop (P.hdr + le32 (d.drop 14) + 5))

def Frame.enc (fs : List Frame) : Bytes := (fs.map Frame.bytes).flatten

/-- greedy list of the good frames at the start of a stream (fuel = an upper bound on the
    number of frames; `goodFrames` supplies the length of the stream) -/
def goodFramesFuel (P : ProtoParams) : Nat → Bytes → List Frame
  | 0, _ => []
  | n + 1, d =>
    match parseHead P d with
    | .frame f rest => f :: goodFramesFuel P n rest
    | _ => []

def goodFrames (P : ProtoParams) (d : Bytes) : List Frame := goodFramesFuel P d.length d

end SuplaVerif
