/-
  Model/Form — value handling of the config form parser (supla_esp_cfgmode.c, supla_esp_parse_vars):
  the per-field bounded copy with URL decoding and forced terminator, and the numeric acceptance
  rules.  `l` = the bytes of the segment from the first value byte to the end of the segment.
-/
namespace SuplaVerif

def hexDigit (c : UInt8) : Nat :=
  if 65 ≤ c.toNat ∧ c.toNat ≤ 70 then c.toNat - 55
  else if 97 ≤ c.toNat ∧ c.toNat ≤ 102 then c.toNat - 87
  else if 48 ≤ c.toNat ∧ c.toNat ≤ 57 then c.toNat - 48
  else 0

/-- HexToInt(&pdata[a+1], 2) stored into a char -/
def hexByte (d1 d2 : UInt8) : UInt8 := UInt8.ofNat (16 * hexDigit d1 + hexDigit d2)

/-- '+' becomes a blank -/
def plain (c : UInt8) : UInt8 := if c = 43 then 32 else c

/-- bytes written into the field buffer (before the terminator) -/
def decVal (size : Nat) (l : List UInt8) (acc : List UInt8) : List UInt8 :=
  match l with
  | [] => acc
  | [c] => if acc.length < size ∧ c ≠ 38 then acc ++ [plain c] else acc
  | c :: d1 :: rest =>
    if acc.length < size ∧ c ≠ 38 then
      if c = 37 ∧ rest ≠ [] then
        match rest with
        | d2 :: rest' =>
          if (acc ++ [hexByte d1 d2]).length ≥ size ∨ rest' = [] ∨ d2 = 38 then acc ++ [hexByte d1 d2]
          else decVal size rest' (acc ++ [hexByte d1 d2])
        | [] => acc
      else
        if (acc ++ [plain c]).length ≥ size then acc ++ [plain c]
        else decVal size (d1 :: rest) (acc ++ [plain c])
    else acc
termination_by l.length
decreasing_by all_goals (simp_all; try omega)

/-- the field buffer content the terminator rule leaves: offset < size: NUL after the bytes;
    otherwise the last byte of the field is overwritten by NUL -/
def stored (size : Nat) (w : List UInt8) : List UInt8 :=
  if w.length < size then w ++ [0] else w.take (size - 1) ++ [0]

/-- the C string in a buffer -/
def cstr : List UInt8 → List UInt8
  | [] => []
  | c :: cs => if c = 0 then [] else c :: cstr cs

def fieldValue (size : Nat) (l : List UInt8) : List UInt8 := cstr (stored size (decVal size l []))

/-- cfg_str2int over a NUL-free digit buffer -/
def digitsVal : List UInt8 → Nat → Nat
  | [], r => r
  | c :: cs, r => if 48 ≤ c.toNat ∧ c.toNat ≤ 57 then digitsVal cs (r * 10 + (c.toNat - 48)) else digitsVal cs r

def str2int (s : List UInt8) : Int :=
  match s with
  | 45 :: cs => - (digitsVal cs 0 : Int)
  | _ => (digitsVal s 0 : Int)

/-- VAR_PRT -/
def applyPort (old : Int) (s : List UInt8) : Int :=
  if 0 < str2int s ∧ str2int s ≤ 65535 then str2int s else old
/-- VAR_QOS: first character -/
def applyQos (old : Int) (s : List UInt8) : Int :=
  if 0 ≤ ((s.headD 0).toNat : Int) - 48 ∧ ((s.headD 0).toNat : Int) - 48 ≤ 2 then ((s.headD 0).toNat : Int) - 48 else old
/-- VAR_TMx: stored into a signed char, then range-checked -/
def toSChar (v : Int) : Int := (v + 128) % 256 - 128
def applyMargin (s : List UInt8) : Int :=
  if toSChar (str2int s) < -1 ∨ toSChar (str2int s) > 100 then -1 else toSChar (str2int s)

end SuplaVerif
