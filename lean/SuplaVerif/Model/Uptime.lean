/-
  Model/Uptime — src/user/uptime.c and the free-running 32-bit microsecond counter.
  True time `t` is an unbounded Nat (µs since the harness started); the hardware counter is
  `cnt boot t = (boot + t) % 2^32`.
-/
namespace SuplaVerif

def W32 : Nat := 4294967296

/-- system_get_time() at true time t when the counter held `boot` at t = 0 -/
def cnt (boot t : Nat) : Nat := (boot + t) % W32

/-- unsigned 32-bit subtraction a - b as the C computes it -/
def subw (a b : Nat) : Nat := (a + W32 - b % W32) % W32

structure Uptime where
  cycles : Nat := 0     -- uint32
  last   : Nat := 0     -- last_system_time
  deriving Repr, DecidableEq

/-- uptime_usec() given the current counter reading -/
def Uptime.poll (u : Uptime) (time : Nat) : Uptime × Nat :=
  let cycles := if time < u.last then (u.cycles + 1) % W32 else u.cycles
  ({ cycles := cycles, last := time }, cycles * 4294967295 + time)

def Uptime.usec (u : Uptime) (time : Nat) : Nat := (u.poll time).2
def Uptime.msec (u : Uptime) (time : Nat) : Nat := (u.poll time).2 / 1000
/-- uptime_sec() returns uint32 -/
def Uptime.sec (u : Uptime) (time : Nat) : Nat := ((u.poll time).2 / 1000 / 1000) % W32

end SuplaVerif
