/-
  Model/MqttTopic — command topics of the MQTT client (supla_esp_mqtt.c): supla_esp_mqtt_parse_int_with_prefix (the channel
  number) and supla_esp_mqtt_parser_set_on (relay commands).  `dev` is the device prefix (supla_esp_mqtt_vars->prefix).
-/
import SuplaVerif.Base.Bytes
namespace SuplaVerif

def isDigB (c : UInt8) : Bool := 48 ≤ c && c ≤ 57

/-- decimal value of a digit string -/
def decNat : Bytes → Nat → Nat
  | [], acc => acc
  | c :: r, acc => decNat r (acc * 10 + (c.toNat - 48))

/-- the bytes before the first '/' and what follows it; none: no '/' -/
def splitSlash : Bytes → Option (Bytes × Bytes)
  | [] => none
  | c :: r => if c = 47 then some ([], r) else (splitSlash r).map (fun p => (c :: p.1, p.2))

/-- supla_esp_mqtt_parse_int_with_prefix: (number, rest behind its '/'); none = err -/
def parseIntWithPrefix (pre t : Bytes) : Option (Nat × Bytes) :=
  if pre.isPrefixOf t then
    match splitSlash (t.drop pre.length) with
    | some (ds, rest) =>
      if ds = [] then none
      else if !ds.all isDigB then none
      else if ds.length > 9 then none
      else if decNat ds 0 > 255 then none
      else some (decNat ds 0, rest)
    | none => none
  else none

def lower (c : UInt8) : UInt8 := if 65 ≤ c ∧ c ≤ 90 then c + 32 else c
def lcEq (s m : Bytes) : Bool := s.length == m.length && (s.zip m).all (fun p => lower p.1 == lower p.2)

def sChannels : Bytes := [99, 104, 97, 110, 110, 101, 108, 115, 47]                       -- "channels/"
def sSetOn : Bytes := [115, 101, 116, 47, 111, 110]                                      -- "set/on"
def sExec : Bytes := [101, 120, 101, 99, 117, 116, 101, 95, 97, 99, 116, 105, 111, 110]  -- "execute_action"

/-- the value of a "set/on" payload -/
def setOnValue (m : Bytes) : Option Nat :=
  if m = [49] || lcEq [121, 101, 115] m || lcEq [116, 114, 117, 101] m then some 1
  else if m = [48] || lcEq [110, 111] m || lcEq [102, 97, 108, 115, 101] m then some 0
  else none

/-- the value of an "execute_action" payload -/
def execValue (m : Bytes) : Option Nat :=
  if lcEq [116, 117, 114, 110, 95, 111, 110] m then some 1
  else if lcEq [116, 117, 114, 110, 95, 111, 102, 102] m then some 0
  else if lcEq [116, 111, 103, 103, 108, 101] m then some 255
  else none

/-- supla_esp_mqtt_parser_set_on: (channel, on) or nothing -/
def parserSetOn (dev topic msg : Bytes) : Option (Nat × Nat) :=
  if topic = [] ∨ msg = [] ∨ dev = [] ∨ dev.length + 1 ≥ topic.length then none
  else if dev.isPrefixOf topic && (topic.drop dev.length).head? == some 47 then
    match parseIntWithPrefix sChannels (topic.drop (dev.length + 1)) with
    | some (ch, rest) =>
      if rest = sSetOn then (setOnValue msg).map (fun v => (ch, v))
      else if rest = sExec then (execValue msg).map (fun v => (ch, v))
      else none
    | none => none
  else none

end SuplaVerif
