/-
  Model/MqttTopic — command topics of the MQTT client (supla_esp_mqtt.c): supla_esp_mqtt_parse_int_with_prefix (the channel
  number) and supla_esp_mqtt_parser_set_on (relay commands).  `dev` is the device prefix (supla_esp_mqtt_vars->prefix).
-/
import SuplaVerif.Base.Bytes
namespace SuplaVerif

def isDigB (c : UInt8) : Bool := 48 ≤ c && c ≤ 57

/-- decimal value of a digit string -/
def decNat : Bytes → Nat → Nat
  | [], acc => acc
  | c :: r, acc => decNat r (acc * 10 + (c.toNat - 48))

/-- the bytes before the first '/' and what follows it; none: no '/' -/
def splitSlash : Bytes → Option (Bytes × Bytes)
  | [] => none
  | c :: r => if c = 47 then some ([], r) else (splitSlash r).map (fun p => (c :: p.1, p.2))

/-- supla_esp_mqtt_parse_int_with_prefix: (number, rest behind its '/'); none = err -/
def parseIntWithPrefix (pre t : Bytes) : Option (Nat × Bytes) :=
  if pre.isPrefixOf t then
    match splitSlash (t.drop pre.length) with
    | some (ds, rest) =>
      if ds = [] then none
      else if !ds.all isDigB then none
      else if ds.length > 9 then none
      else if decNat ds 0 > 255 then none
      else some (decNat ds 0, rest)
    | none => none
  else none

def lower (c : UInt8) : UInt8 := if 65 ≤ c ∧ c ≤ 90 then c + 32 else c
def lcEq (s m : Bytes) : Bool := s.length == m.length && (s.zip m).all (fun p => lower p.1 == lower p.2)

def sChannels : Bytes := [99, 104, 97, 110, 110, 101, 108, 115, 47]                       -- "channels/"
def sSetOn : Bytes := [115, 101, 116, 47, 111, 110]                                      -- "set/on"
def sExec : Bytes := [101, 120, 101, 99, 117, 116, 101, 95, 97, 99, 116, 105, 111, 110]  -- "execute_action"

/-- the value of a "set/on" payload -/
def setOnValue (m : Bytes) : Option Nat :=
  if m = [49] || lcEq [121, 101, 115] m || lcEq [116, 114, 117, 101] m then some 1
  else if m = [48] || lcEq [110, 111] m || lcEq [102, 97, 108, 115, 101] m then some 0
  else none

/-- the value of an "execute_action" payload -/
def execValue (m : Bytes) : Option Nat :=
  if lcEq [116, 117, 114, 110, 95, 111, 110] m then some 1
  else if lcEq [116, 117, 114, 110, 95, 111, 102, 102] m then some 0
  else if lcEq [116, 111, 103, 103, 108, 101] m then some 255
  else none

/-- supla_esp_mqtt_parser_set_on: (channel, on) or nothing -/
def parserSetOn (dev topic msg : Bytes) : Option (Nat × Nat) :=
  if topic = [] ∨ msg = [] ∨ dev = [] ∨ dev.length + 1 ≥ topic.length then none
  else if dev.isPrefixOf topic && (topic.drop dev.length).head? == some 47 then
    match parseIntWithPrefix sChannels (topic.drop (dev.length + 1)) with
    | some (ch, rest) =>
      if rest = sSetOn then (setOnValue msg).map (fun v => (ch, v))
      else if rest = sExec then (execValue msg).map (fun v => (ch, v))
      else none
    | none => none
  else none

/-- supla_esp_mqtt_str2int restricted to what its callers use: the integer part of an optionally signed decimal number with an
    optional fraction; none = err.  (minus, value of the integer part) -/
def str2intParts (m : Bytes) : Option (Bool × Nat) :=
  let minus := m.head? == some 45
  let body := if minus then m.drop 1 else m
  -- the integer part ends at the first '.' that is not the first character of the whole string
  let ip := body.takeWhile (fun c => c != 46)
  let rest := body.drop ip.length            -- [] or '.' :: fraction
  let dotOk := rest = [] ∨ (rest.head? == some 46 && (minus || ip != []) && (rest.drop 1).all isDigB)
  if ip.all isDigB ∧ dotOk ∧ ip ≠ [] then some (minus, decNat ip 0) else none

/-- a percentage payload: 0..100 ("-0" counts as 0) -/
def percentOf (m : Bytes) : Option Nat :=
  match str2intParts m with
  | some (minus, v) => if (minus ∧ v = 0) ∨ (¬ minus ∧ v ≤ 100) then some v else none
  | none => none

def sClosing : Bytes := [115, 101, 116, 47, 99, 108, 111, 115, 105, 110, 103, 95, 112, 101, 114, 99, 101, 110, 116, 97, 103, 101]  -- "set/closing_percentage"
def sTilt : Bytes := [115, 101, 116, 47, 116, 105, 108, 116]                                                                      -- "set/tilt"

/-- the action of an "execute_action" payload for a shutter -/
def rsAction (m : Bytes) : Option Nat :=
  if lcEq [115, 104, 117, 116] m then some 4
  else if lcEq [114, 101, 118, 101, 97, 108] m then some 6
  else if lcEq [115, 116, 111, 112] m then some 7
  else if lcEq [114, 101, 99, 97, 108, 105, 98, 114, 97, 116, 101] m then some 8
  else if lcEq [99, 97, 108, 105, 98, 114, 97, 116, 101] m then some 8
  else none

/-- supla_esp_mqtt_parser_rs_fb_action: (channel, action, percentage, tilt) -/
def parserRs (dev topic msg : Bytes) : Option (Nat × Nat × Nat × Nat) :=
  if topic = [] ∨ msg = [] ∨ dev = [] ∨ dev.length + 1 ≥ topic.length then none
  else if dev.isPrefixOf topic && (topic.drop dev.length).head? == some 47 then
    match parseIntWithPrefix sChannels (topic.drop (dev.length + 1)) with
    | some (ch, rest) =>
      if rest = sClosing then (percentOf msg).map (fun p => (ch, 5, p, 0))
      else if rest = sTilt then (percentOf msg).map (fun p => (ch, 9, 0, p))
      else if rest = sExec then (rsAction msg).map (fun a => (ch, a, 0, 0))
      else none
    | none => none
  else none

end SuplaVerif
