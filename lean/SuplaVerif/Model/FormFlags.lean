/-
  Model/FormFlags — the flag word of the configuration record under a submitted form: which field owns which bit
  (supla_esp_parse_proto_var, supla_esp_parse_vars in supla_esp_cfgmode.c, MQTT build).
-/
namespace SuplaVerif

/-- the flag bits of the configuration record that the form handler writes (CFG_FLAG_MQTT_ENABLED 1, _NO_RETAIN 2, _TLS 4,
    _NO_AUTH 8; DEVICE_LOCKED 16 has no field) -/
def setBit (w bit : Nat) (on : Bool) : Nat := if on then w ||| bit else w - (w &&& bit)

/-- one field of the request: absent (`none`) or present with its first character being '1' or not -/
def applyField (w bit : Nat) (v : Option Bool) (inverted : Bool := false) : Nat :=
  match v with
  | none => w
  | some b => setBit w bit (if inverted then !b else b)

/-- supla_esp_parse_proto_var / supla_esp_parse_vars on the flag word: pro -> bit 1, ret -> bit 2, tls -> bit 4,
    mau -> bit 8 inverted (mau=1 means authentication ON, i.e. the NO_AUTH bit cleared) -/
def flagsAfter (w : Nat) (pro ret tls mau : Option Bool) : Nat :=
  applyField (applyField (applyField (applyField w 1 pro) 2 ret) 4 tls) 8 mau true

end SuplaVerif
