/-
  Model/FormScan — the field scanner of the configuration form (supla_esp_cfgmode.c): request type, the header skip of
  supla_esp_parse_request, the protocol pre-pass (supla_esp_parse_proto_var) and the loop of supla_esp_parse_vars over ONE
  segment that starts with no field pending.  The table of field names (name, VAR id, buffer size, target, protocol
  condition) is regenerated from the source (Gen/FormTable.lean).  An event is what the loop hands to the per-variable
  assignment: (VAR id, buffer content after the terminator rule).
-/
import SuplaVerif.Base.Bytes
import SuplaVerif.Model.Form
namespace SuplaVerif

structure Row where
  name : Bytes        -- three characters
  var : Nat           -- VAR_xxx
  size : Nat          -- buff_size
  target : Nat        -- 0 = pVars->intval; otherwise an id of the destination buffer (a settings field, tempPassword, user_cmd)
  cond : Nat          -- 0 always; 1 only while the MQTT flag is clear; 2 only while it is set
  deriving Repr, DecidableEq

abbrev FormEv := Nat × Bytes

def condOk (r : Row) (mqtt : Bool) : Bool :=
  r.cond == 0 || (r.cond == 1 && !mqtt) || (r.cond == 2 && mqtt)

/-- the else-if chain: the first row with that name decides; its condition may leave the scanner without a field -/
def lookup (T : List Row) (mqtt : Bool) (nm : Bytes) : Option Row :=
  match T.find? (fun r => r.name == nm) with
  | some r => if condOk r mqtt then some r else none
  | none => none

/-- name position: at least four bytes left and the fourth is '=' -/
def atName (l : Bytes) : Bool := l.length ≥ 4 && l.getD 3 0 == 61

/-- the copy step of one loop iteration: (buffer, rest of the segment from the index `a` after the step) -/
def copyStep (size : Nat) (buf l : Bytes) : Bytes × Bytes :=
  if buf.length < size ∧ l ≠ [] ∧ l.headD 0 ≠ 38 then
    if l.headD 0 = 37 ∧ l.length ≥ 3 then (buf ++ [hexByte (l.getD 1 0) (l.getD 2 0)], l.drop 2)
    else (buf ++ [plain (l.headD 0)], l)
  else (buf, l)

/-- end of the value: buffer full, last byte of the segment, or '&' -/
def valueEnds (size : Nat) (buf l : Bytes) : Bool :=
  buf.length ≥ size || l.length ≤ 1 || l.headD 0 == 38

/-- one iteration of the loop of supla_esp_parse_vars at the rest `l` (not empty) of the segment -/
structure Iter where
  ev : Option FormEv
  cur : Option (Row × Bytes)
  rest : Bytes

def iter (T : List Row) (mqtt : Bool) (l : Bytes) (cur : Option (Row × Bytes)) : Iter :=
  let cur1 : Option (Row × Bytes) :=
    if cur.isNone && atName l then (lookup T mqtt (l.take 3)).map (fun r => (r, [])) else cur
  let l1 : Bytes := if cur.isNone && atName l then l.drop 4 else l
  match cur1 with
  | none => { ev := none, cur := none, rest := l1.drop 1 }
  | some (row, buf) =>
    if valueEnds row.size (copyStep row.size buf l1).1 (copyStep row.size buf l1).2 then
      { ev := some (row.var, stored row.size (copyStep row.size buf l1).1), cur := none, rest := (copyStep row.size buf l1).2.drop 1 }
    else { ev := none, cur := some (row, (copyStep row.size buf l1).1), rest := (copyStep row.size buf l1).2.drop 1 }

theorem copyStep_rest (size : Nat) (buf l : Bytes) : (copyStep size buf l).2 = l ∨ (copyStep size buf l).2 = l.drop 2 := by
  unfold copyStep
  split
  · split
    · right; rfl
    · left; rfl
  · left; rfl

/-- every iteration moves on: the rest is a proper suffix -/
theorem iter_rest (T : List Row) (mqtt : Bool) (l : Bytes) (cur : Option (Row × Bytes)) :
    ∃ k, 0 < k ∧ (iter T mqtt l cur).rest = l.drop k := by
  have h1 : ∃ k0, (if (cur.isNone && atName l) = true then l.drop 4 else l) = l.drop k0 := by
    split
    · exact ⟨4, rfl⟩
    · exact ⟨0, rfl⟩
  obtain ⟨k0, hk0⟩ := h1
  unfold iter
  simp only
  rw [hk0]
  split
  · exact ⟨k0 + 1, by omega, by simp [List.drop_drop]⟩
  · rename_i row buf _
    have h := copyStep_rest row.size buf (l.drop k0)
    split <;> rcases h with h | h
    · exact ⟨k0 + 1, by omega, by simp only [h, List.drop_drop]⟩
    · exact ⟨k0 + 3, by omega, by simp only [h, List.drop_drop]⟩
    · exact ⟨k0 + 1, by omega, by simp only [h, List.drop_drop]⟩
    · exact ⟨k0 + 3, by omega, by simp only [h, List.drop_drop]⟩

/-- the loop of supla_esp_parse_vars over the rest `l` of the segment; `cur` = the pending field and its buffer content.
    Result: the events in order and the field left pending at the end of the segment.  (`fuel` bounds the iterations; every
    iteration consumes at least one byte - `iter_rest` - so the length of the rest is enough.) -/
def scanF (T : List Row) (mqtt : Bool) : Nat → Bytes → Option (Row × Bytes) → List FormEv × Option (Row × Bytes)
  | 0, _, cur => ([], cur)
  | fuel + 1, l, cur =>
    if l = [] then ([], cur)
    else
      ((iter T mqtt l cur).ev.toList ++ (scanF T mqtt fuel (iter T mqtt l cur).rest (iter T mqtt l cur).cur).1,
       (scanF T mqtt fuel (iter T mqtt l cur).rest (iter T mqtt l cur).cur).2)

def scan (T : List Row) (mqtt : Bool) (l : Bytes) (cur : Option (Row × Bytes)) : List FormEv × Option (Row × Bytes) :=
  scanF T mqtt l.length l cur

/-- more fuel than bytes changes nothing -/
theorem scanF_fuel (T : List Row) (mqtt : Bool) (n : Nat) : ∀ (l : Bytes) (cur : Option (Row × Bytes)), l.length ≤ n →
    scanF T mqtt n l cur = scanF T mqtt l.length l cur := by
  induction n using Nat.strongRecOn with
  | _ n ih =>
    intro l cur h
    cases n with
    | zero =>
      have : l.length = 0 := by omega
      rw [this]
    | succ n =>
      cases hl : l with
      | nil => simp [scanF]
      | cons c rest =>
        obtain ⟨k, hk, he⟩ := iter_rest T mqtt (c :: rest) cur
        have hlen : (iter T mqtt (c :: rest) cur).rest.length ≤ rest.length := by
          rw [he, List.length_drop]; simp; omega
        have h1 : rest.length ≤ n := by rw [hl] at h; simp at h; omega
        simp only [scanF, List.length_cons]
        rw [ih n (by omega) _ _ (Nat.le_trans hlen h1), ih rest.length (by omega) _ _ hlen]

/-- supla_esp_parse_proto_var over one segment with no field pending: the first character behind the first "pro="
    that has at least one byte behind the '=' (none: no such position in the segment) -/
def protoScanF (pro : Bytes) : Nat → Bytes → Option UInt8
  | 0, _ => none
  | _, [] => none
  | fuel + 1, c :: rest =>
    if atName (c :: rest) then
      if (c :: rest).take 3 == pro && (c :: rest).length ≥ 5 then some (rest.getD 3 0)
      else protoScanF pro fuel (rest.drop 4)
    else protoScanF pro fuel rest

def protoScan (pro : Bytes) (l : Bytes) : Option UInt8 := protoScanF pro l.length l

/-- request type of supla_esp_parse_request: 0 unknown, 1 GET, 2 POST (only " / HTTP" follows the method) -/
def reqType (l : Bytes) : Nat :=
  if l.take 3 == [71, 69, 84] && l.length ≥ 10 && (l.drop 3).take 7 == [32, 47, 32, 72, 84, 84, 80] then 1
  else if l.take 4 == [80, 79, 83, 84] && l.length ≥ 11 && (l.drop 4).take 7 == [32, 47, 32, 72, 84, 84, 80] then 2
  else 0

/-- number of positions where CR LF CR LF starts -/
def countHeadEnds : Bytes → Nat
  | [] => 0
  | c :: rest => (if (c :: rest).take 4 == [13, 10, 13, 10] then 1 else 0) + countHeadEnds rest

/-- a whole POST in one segment: (fields counted, events, MQTT flag after the pre-pass); `none`: not a POST to "/" or no
    end of the head in the segment -/
def postScan (T : List Row) (pro : Bytes) (mqtt0 : Bool) (seg : Bytes) : Option (Nat × List FormEv × Bool) :=
  if reqType seg = 2 ∧ countHeadEnds seg > 0 then
    let body := seg.drop (3 * countHeadEnds seg)
    let p := protoScan pro body
    let mqtt := match p with
      | some ch => ch == 49
      | none => mqtt0
    let r := scan T mqtt body none
    some ((if p.isSome then 1 else 0) + r.1.length, r.1, mqtt)
  else none

end SuplaVerif
