/-
  Model/MqttRecv — the MQTT receive path of one broker connection:
    * `parse`      mqtt_unpack_response for every control type (how many bytes a packet takes, or
                   "need more", or a protocol error) — src/user/mqtt.c
    * `drain`      the loop of __mqtt_recv: parse the bytes kept at the start of the receive buffer, hand
                   each complete packet to the handler, remove it, stop at an incomplete packet / an error
    * `feedLoop`   supla_esp_mqtt_conn_recv_cb: a TCP segment is stored behind the kept bytes, in parts if it
                   does not fit, mqtt_sync() after every part; once part of a segment had to be dropped the
                   connection parses nothing more (`gap`) — src/user/supla_esp_mqtt.c
  The handler (the switch in __mqtt_recv: acknowledgement bookkeeping, the publish callback) is a parameter
  `hok`: given the packets handled so far on this connection and the next packet it says whether handling
  succeeds; the client is deterministic, so this covers every handler state.
-/
import SuplaVerif.Model.Mqtt
namespace SuplaVerif.MqttRecv
open Bytes

inductive Parsed
  | need                 -- 0: wait for more bytes
  | bad                  -- negative: protocol error
  | pkt (n : Nat)        -- a complete packet of n bytes
  deriving Repr, DecidableEq

/-- required flags of a non-PUBLISH control type -/
def reqFlags (ty : Nat) : Nat := if ty = 6 ∨ ty = 8 ∨ ty = 10 then 2 else 0

/-- the part of mqtt_unpack_response after the fixed header is known -/
def parseBody (b : Bytes) (ty flags rem hdr : Nat) : Parsed :=
  if ty = 0 ∨ ty = 15 then .bad
  else if ty ≠ 3 ∧ flags ≠ reqFlags ty then .bad
  else if b.length - hdr < rem then .need
  else if ty = 2 then
    (if rem ≠ 2 then .bad
     else if (b.getD hdr 0).toNat / 2 ≠ 0 then .bad
     else if (b.getD (hdr + 1) 0).toNat > 5 then .bad
     else .pkt (hdr + 2))
  else if ty = 3 then
    (if rem < 4 then .bad
     else if be16 (b.drop hdr) + 2 + pidLen (flags / 2 % 4) > rem then .bad
     else .pkt (hdr + rem))
  else if ty = 4 ∨ ty = 5 ∨ ty = 6 ∨ ty = 7 ∨ ty = 11 then
    (if rem ≠ 2 then .bad else .pkt (hdr + 2))
  else if ty = 9 then
    (if rem < 3 then .bad else .pkt (hdr + rem))
  else if ty = 13 then .pkt hdr
  else .bad

/-- mqtt_unpack_response: fixed header (type, flags, remaining length), then the type's own checks -/
def parse (b : Bytes) : Parsed :=
  if b.length < 2 then .need
  else match remLen b 5 1 0 0 with
    | none => .need
    | some none => .bad
    | some (some (rem, hdr)) =>
      parseBody b ((b.getD 0 0).toNat / 16) ((b.getD 0 0).toNat % 16) rem hdr

/-- what the proofs about the stream need to know about a parser -/
structure ParserOK (p : Bytes → Parsed) : Prop where
  empty : p [] = .need
  size : ∀ b n, p b = .pkt n → 0 < n ∧ n ≤ b.length
  pktStable : ∀ b x n, p b = .pkt n → p (b ++ x) = .pkt n
  badStable : ∀ b x, p b = .bad → p (b ++ x) = .bad

section Generic
variable (p : Bytes → Parsed) (hok : List Bytes → Bytes → Bool) (cap : Nat)

/-- the loop of __mqtt_recv over the kept bytes: (handled packets, bytes kept, an error was raised) -/
def drain (hs : List Bytes) (buf : Bytes) : List Bytes × Bytes × Bool :=
  match p buf with
  | .need => (hs, buf, decide (cap ≤ buf.length))          -- curr_sz = 0: RECV_BUFFER_TOO_SMALL
  | .bad => (hs, buf, true)
  | .pkt n =>
    if h : 0 < n ∧ n ≤ buf.length then
      if hok hs (buf.take n) then drain (hs ++ [buf.take n]) (buf.drop n)
      else (hs ++ [buf.take n], buf.drop n, true)            -- handled, removed, error reported
    else (hs, buf, true)
termination_by buf.length
decreasing_by simp [List.length_drop]; omega

structure RState where
  buf : Bytes := []          -- recvbuf[0 .. curr)
  hs : List Bytes := []      -- packets taken out of the buffer and handed to the handler, oldest first
  err : Bool := false        -- client.error ≠ MQTT_OK (stays until the reconnect)
  gap : Bool := false        -- recv_gap
  deriving Repr, DecidableEq

/-- one mqtt_sync() as far as receiving goes -/
def syncStep (s : RState) : RState :=
  let r := drain p hok cap s.hs s.buf
  { s with hs := r.1, buf := r.2.1, err := s.err || r.2.2 }

/-- the while loop of supla_esp_mqtt_conn_recv_cb -/
def feedLoop (s : RState) (seg : Bytes) : RState :=
  if hnil : seg = [] then s
  else
    if hp : min seg.length (cap - s.buf.length) = 0 then { s with gap := true, err := true }
    else
      let part := min seg.length (cap - s.buf.length)
      let s' := syncStep p hok cap { s with buf := s.buf ++ seg.take part }
      if s'.err then { s' with gap := decide (part < seg.length) }
      else feedLoop s' (seg.drop part)
termination_by seg.length
decreasing_by
  simp only [List.length_drop]
  have : 0 < seg.length := List.length_pos_iff.mpr hnil
  omega

inductive REv
  | seg (d : Bytes)      -- a TCP segment
  | sync                 -- mqtt_sync from the 50 ms timer
  | extErr               -- client.error set by something else (send path, publish on a full buffer)
  deriving Repr, DecidableEq

def step (s : RState) : REv → RState
  | .seg d => if s.gap then s else feedLoop p hok cap s d
  | .sync => syncStep p hok cap s
  | .extErr => { s with err := true }

def run (s : RState) : List REv → RState
  | [] => s
  | e :: es => run (step p hok cap s e) es

/-- `hs` are the successive packets at the start of the stream `A` -/
def Chain : List Bytes → Bytes → Prop
  | [], _ => True
  | q :: qs, A => p A = .pkt q.length ∧ q = A.take q.length ∧ Chain qs (A.drop q.length)

end Generic

/-- bytes a segment contributes to the stream the client parses -/
def offered : List REv → Bytes
  | [] => []
  | .seg d :: es => d ++ offered es
  | _ :: es => offered es

end SuplaVerif.MqttRecv
