/-
  Model/Cred — how a password longer than the Password field is stored by the config form
  (supla_esp_cfgmode.c, end of supla_esp_parse_vars) and re-assembled for the MQTT CONNECT packet
  (supla_esp_mqtt.c, supla_esp_mqtt_conn_on_connect).  `L` = SUPLA_LOCATION_PWD_MAXSIZE,
  `T` = size of the area behind the user name's terminator (SUPLA_EMAIL_MAXSIZE - userLen - 1).
-/
import SuplaVerif.Base.Bytes
namespace SuplaVerif
open Bytes

def NoNul (b : Bytes) : Prop := ∀ x ∈ b, x ≠ 0

/-- the stored representation: (Password field of L bytes, area of T bytes behind the user name).
    `oldPass`/`oldTail` are the previous contents (only overwritten as far as the C writes).
    Long case: memcpy(Password, pw, L); strncpy(tail, pw + L, T) (copy, then NUL padding to T
    bytes, truncated at T); last byte of the area forced to NUL. -/
def storePassword (L T : Nat) (pw oldPass oldTail : Bytes) : Bytes × Bytes :=
  if pw.length < L then
    (pw ++ 0 :: oldPass.drop (pw.length + 1), oldTail)
  else
    (pw.take L,
     (pw.drop L).take (T - 1) ++ 0 :: List.replicate (T - 1 - ((pw.drop L).take (T - 1)).length) 0)

/-- credentials assembly in conn_on_connect (after the `<=` repair) -/
def assemblePassword (L T : Nat) (pass tail : Bytes) : Bytes :=
  let p := cstr (pass.take L)
  if p.length < L then p
  else
    let part := cstr (tail.take T)
    if 0 < T ∧ part.length ≤ T - 1 then p ++ part else p

end SuplaVerif
