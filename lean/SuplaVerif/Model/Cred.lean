/-
  Model/Cred — how a password longer than the Password field is stored by the config form
  (supla_esp_cfgmode.c, end of supla_esp_parse_vars) and re-assembled for the MQTT CONNECT packet
  (supla_esp_mqtt.c, supla_esp_mqtt_conn_on_connect).  `L` = SUPLA_LOCATION_PWD_MAXSIZE,
  `T` = size of the area behind the user name's terminator (SUPLA_EMAIL_MAXSIZE - userLen - 1).
-/
import SuplaVerif.Base.Bytes
namespace SuplaVerif
open Bytes

def NoNul (b : Bytes) : Prop := ∀ x ∈ b, x ≠ 0

/-- the stored representation: (Password field of L bytes, area of T bytes behind the user name).
    `oldPass`/`oldTail` are the previous contents (only overwritten as far as the C writes).
    Long case: memcpy(Password, pw, L); strncpy(tail, pw + L, T) (copy, then NUL padding to T
    bytes, truncated at T); last byte of the area forced to NUL. -/
def storePassword (L T : Nat) (pw oldPass oldTail : Bytes) : Bytes × Bytes :=
  if pw.length < L then
    (pw ++ 0 :: oldPass.drop (pw.length + 1), oldTail)
  else
    (pw.take L,
     (pw.drop L).take (T - 1) ++ 0 :: List.replicate (T - 1 - ((pw.drop L).take (T - 1)).length) 0)

/-- credentials assembly in conn_on_connect (after the `<=` repair) -/
def assemblePassword (L T : Nat) (pass tail : Bytes) : Bytes :=
  let p := cstr (pass.take L)
  if p.length < L then p
  else
    let part := cstr (tail.take T)
    if 0 < T ∧ part.length ≤ T - 1 then p ++ part else p

/-- strnlen(b, n) -/
def strnlen (b : Bytes) (n : Nat) : Nat := (cstr (b.take n)).length

/-- memcpy of `data` to offset `off` of `dst` -/
def poke (dst : Bytes) (off : Nat) (data : Bytes) : Bytes := dst.take off ++ data ++ dst.drop (off + data.length)

/-- supla_esp_recv_callback, "the form left the password empty: keep the stored one", for a stored long password: the
    overflow part behind the old e-mail's terminator is copied behind the new e-mail's terminator (cut to what fits; if
    there is no room for a terminated e-mail at all the password is cut to its field).  `L`, `E`: sizes of the Password
    and Email fields.  Returns the new Password and Email fields. -/
def keepLongPassword (L E : Nat) (oldPwd oldMail newMail : Bytes) : Bytes × Bytes :=
  if strnlen oldPwd L = L then
    if strnlen oldMail E < E ∧ strnlen newMail E < E then
      let src := oldMail.drop (strnlen oldMail E + 1)
      let part := strnlen src (E - strnlen oldMail E - 1)
      if part < E - strnlen oldMail E - 1 ∧ strnlen newMail E < E - 1 then
        -- the part and its terminator have to fit behind the new e-mail
        let part' := if part > E - strnlen newMail E - 2 then E - strnlen newMail E - 2 else part
        (oldPwd, (poke newMail (strnlen newMail E + 1) (src.take part' ++ [0])).take E)
      else (oldPwd, newMail)
    else (oldPwd.take (L - 1) ++ [0], newMail)
  else (oldPwd, newMail)

end SuplaVerif
