/-
  Model/Relay — a plain relay channel: supla_esp_gpio_relay_hi (polarity), the read-back and report of
  _supla_esp_channel_set_value / supla_esp_gpio_relay_switch, the set-value answer of
  supla_esp_channel_set_value, and the capacity of the out-queue the reports go through.
-/
namespace SuplaVerif

structure RelayCfg where
  loLevel : Bool        -- RELAY_FLAG_LO_LEVEL_TRIGGER
  deriving Repr, DecidableEq

/-- physical pin level -/
structure RelaySt where
  out : Bool
  deriving Repr, DecidableEq

/-- supla_esp_gpio_relay_is_hi: the logical state read back from the pin -/
def RelaySt.logical (c : RelayCfg) (s : RelaySt) : Bool := if c.loLevel then !s.out else s.out

/-- what a relay_hi request asks for: 255 = toggle, HI_VALUE = on, anything else = off -/
def wantOf (c : RelayCfg) (s : RelaySt) (hi : Nat) : Bool :=
  if hi = 255 then !(s.logical c) else decide (hi = 1)

/-- supla_esp_gpio_relay_hi: the pin gets the requested logical level, inverted for active-low wiring -/
def relayHiReq (c : RelayCfg) (s : RelaySt) (hi : Nat) : RelaySt :=
  { out := if c.loLevel then !(wantOf c s hi) else wantOf c s hi }

inductive RelayEv
  | value (v : Bool)                                  -- CHANNEL_VALUE_CHANGED with value[0] = v
  | result (sender : Int) (success : Bool)            -- SET_VALUE_RESULT
  deriving Repr, DecidableEq

inductive RelayCmd
  /-- server set-value: value[0] = v (1 = on, everything else = off) -/
  | server (sender : Int) (v : Int)
  /-- local switch request (button, sensor, countdown expiry): relay_hi argument -/
  | local (hi : Nat)
  deriving Repr, DecidableEq

/-- one command: new state and the reports the device originates -/
def relayStep (c : RelayCfg) (s : RelaySt) : RelayCmd → RelaySt × List RelayEv
  | .server sender v =>
    (relayHiReq c s (if v = 1 then 1 else 0),
     [.value ((relayHiReq c s (if v = 1 then 1 else 0)).logical c),
      .result sender (decide ((relayHiReq c s (if v = 1 then 1 else 0)).logical c = decide (v = 1)))])
  | .local hi =>
    (relayHiReq c s hi, [.value ((relayHiReq c s hi).logical c)])

def relayRun (c : RelayCfg) : RelaySt → List RelayCmd → RelaySt × List RelayEv
  | s, [] => (s, [])
  | s, cmd :: cmds =>
    ((relayRun c (relayStep c s cmd).1 cmds).1, (relayStep c s cmd).2 ++ (relayRun c (relayStep c s cmd).1 cmds).2)

/-- the level the command asks for, given the logical level before it -/
def requested (before : Bool) : RelayCmd → Bool
  | .server _ v => decide (v = 1)
  | .local hi => if hi = 255 then !before else decide (hi = 1)

def lastValue : List RelayEv → Option Bool
  | [] => none
  | .value v :: es => (lastValue es).orElse (fun _ => some v)
  | .result _ _ :: es => lastValue es

/-- out-queue: of a burst of `k` calls made while `queued` items wait, this many are accepted -/
def burstAccepted (cap queued k : Nat) : Nat := min k (cap - queued)

/-- supla_esp_gpio_relay_switch: the level handed to relay_hi for a local switch request `hi` (255 = toggle) on a relay
    whose logical state is `isOn`; `stair` = the channel has a staircase time, `stype` = StaircaseButtonType (0 reset, 1 toggle) -/
def switchHi (stair : Bool) (stype : Nat) (hi : Nat) (isOn : Bool) : Nat :=
  let hi1 := if stair ∧ hi ≠ 0 ∧ stype = 0 then 1 else hi
  if hi1 = 255 then (if isOn then 0 else 1) else hi1

/-! ### what a relay remembers for a restart (C07) -/

/-- what supla_esp_gpio_relay_hi remembers for a restart (supla_esp_state.Relay[i], only for relays with a restore flag): the
    logical level that was asked for - not the level of the pin -/
def relaySaved (restore : Bool) (want : Bool) : Option Bool := if restore then some want else none

/-- supla_esp_gpio_init for a relay that is restored: relay_hi with the remembered state -/
def relayRestore (c : RelayCfg) (saved : Bool) : RelaySt := { out := if c.loLevel then !saved else saved }

/-- which relays are restored: 'restore always' in every case, plain 'restore' only after a power cycle (reset reason 0) -/
def restores (force plain : Bool) (reason : Nat) : Bool := force || (plain && reason == 0)

/-- the logical state a relay has after the boot: the remembered one if it is restored, otherwise what the idle pin (low) means -/
def logicalAfterBoot (c : RelayCfg) (force plain : Bool) (reason : Nat) (saved : Bool) : Bool :=
  if restores force plain reason then (relayRestore c saved).logical c else ({ out := false } : RelaySt).logical c

end SuplaVerif
