/-
  Model/Srpc — srpc.c `srpc_iterate` / `srpc_async__call` over Model/Proto, together with
  the devconn I/O shim (supla_esp_devconn.c: `recv_cb`, `data_read`, `data_write`,
  `data_write_append_buffer`, `supla_esp_devconn_iterate` with `registered = 1`).

  The state is split into the IN half (staging buffer + proto in-buffer) and the OUT half
  (out queue, proto out-buffer, send shim): `srpc_iterate` runs the IN half, then the OUT half,
  and the two share nothing but the scratch packet `srpc->sdp` (a parameter here).
-/
import SuplaVerif.Model.Proto

namespace SuplaVerif
open Bytes

/-- observations of the OUT half (they never carry a delivered frame) -/
inductive OObs
  | sent (code : Int) (bytes : Bytes)
  | log (cls : String)
  | callret (rr : Nat)
  deriving Repr, DecidableEq

/-- observable events, one canonical line each in the correspondence protocol -/
inductive Obs
  | deliver (f : Frame)
  | out (o : OObs)
  | log (cls : String)
  | restart
  deriving Repr, DecidableEq

structure IoIn where
  staging : Bytes := []          -- devconn->recvbuff[0..recvbuff_size)
  inb     : AccBuf := {}         -- proto in buffer
  deriving Repr

structure IoOut where
  outQ    : List Frame := []     -- srpc out_queue (oldest first)
  outb    : AccBuf := {}         -- proto out buffer
  shim    : Bytes := []          -- devconn->esp_send_buffer[0..len)
  nextRr  : Nat := 0
  ver     : Nat := 0             -- proto version stamped on outgoing packets
  esp     : List Int := []       -- scripted results of espconn_sent, then 0 forever
  deriving Repr

structure Io where
  i    : IoIn := {}
  o    : IoOut := {}
  dead : Bool := false           -- after supla_system_restart
  deriving Repr

inductive Ev
  | recv (d : Bytes)             -- espconn recv callback with one TCP segment
  | tick                          -- 100 ms iterate timer
  | call (callId : Nat) (payload : Bytes)  -- srpc_async_call from device code
  | esp (codes : List Int)       -- append to the espconn_sent result script
  deriving Repr

namespace IoOut

/-- espconn_sent: consume one scripted result -/
def espSent (s : IoOut) (bytes : Bytes) : Int × IoOut × List OObs :=
  match s.esp with
  | [] => (0, s, [.sent 0 bytes])
  | c :: cs => (c, { s with esp := cs }, [.sent c bytes])

/-- supla_esp_data_write_append_buffer -/
def shimAppend (P : ProtoParams) (s : IoOut) (d : Bytes) : IoOut × List OObs :=
  if d.length > 0 then
    if s.shim.length + d.length > P.sendBuf then (s, [.log "SENDOVF"])
    else ({ s with shim := s.shim ++ d }, [])
  else (s, [])

/-- first block of supla_esp_data_write: retry what is buffered -/
def retry (s : IoOut) : IoOut × List OObs :=
  if s.shim.length > 0 then
    match s.espSent s.shim with
    | (r, s', o) => (if r = 0 then { s' with shim := [] } else s', o)
  else (s, [])

/-- rest of supla_esp_data_write: append if still pending, else send directly -/
def sendOrBuffer (P : ProtoParams) (s : IoOut) (d : Bytes) : IoOut × List OObs :=
  if s.shim.length > 0 then shimAppend P s d
  else if d.length > 0 then
    match s.espSent d with
    | (r, s, o2) =>
      if r = Io_INPROGRESS ∨ r = Io_MAXNUM then
        match shimAppend P s d with
        | (s, o3) => (s, o2 ++ o3)
      else (s, o2)
  else (s, [])

/-- supla_esp_data_write -/
def dataWrite (P : ProtoParams) (s : IoOut) (d : Bytes) : IoOut × List OObs :=
  match retry s with
  | (s1, o1) =>
    match sendOrBuffer P s1 d with
    | (s2, o2) => (s2, o1 ++ o2)

/-- sproto_out_buffer_append on the out buffer -/
def outAppend (P : ProtoParams) (b : AccBuf) (f : Frame) : PRes × AccBuf :=
  if P.hdr + f.payload.length > P.hdr + P.maxData then (.dataTooLarge, b)
  else
    match b.append P (f.header ++ f.payload) with
    | (.ok, b1) => b1.append P TAG
    | (r, b1) => (r, b1)

/-- sproto_pop_out_data -/
def popOut (P : ProtoParams) (b : AccBuf) (n : Nat) : Bytes × AccBuf :=
  if b.data.length = 0 ∨ n = 0 then ([], b)
  else
    let n' := if b.data.length < n then b.data.length else n
    let rest := b.data.drop n'
    let size' := if rest.length < b.size
                 then (if rest.length < P.bufMin then P.bufMin else rest.length) else b.size
    (b.data.take n', { b with data := rest, size := size' })

/-- first part of the OUT half: one queued packet goes to the out buffer -/
def queueToBuf (P : ProtoParams) (s : IoOut) : Bool × IoOut × List OObs :=
  match s.outQ with
  | [] => (true, s, [])
  | f :: q =>
    match outAppend P s.outb f with
    | (ar, ob) =>
      if ar ≠ .ok ∧ ar ≠ .false_ then (false, { s with outQ := q, outb := ob }, [OObs.log "OUTAPPERR"])
      else (true, { s with outQ := q, outb := ob }, [])

/-- second part: one chunk of the out buffer goes to data_write -/
def bufToWire (P : ProtoParams) (s : IoOut) : IoOut × List OObs :=
  match popOut P s.outb P.chunk with
  | (d, ob) =>
    if d.length ≠ 0 then dataWrite P { s with outb := ob } d
    else ({ s with outb := ob }, [])

/-- OUT half of srpc_iterate.  `false` = srpc_iterate returns FALSE. -/
def outHalf (P : ProtoParams) (s : IoOut) : Bool × IoOut × List OObs :=
  match queueToBuf P s with
  | (false, s1, o1) => (false, s1, o1)
  | (true, s1, o1) =>
    match bufToWire P s1 with
    | (s2, o2) => (true, s2, o1 ++ o2)

/-- request id assigned by sproto_sdp_init -/
def nextId (n : Nat) : Nat := if (n + 1) % U32 = 0 then 1 else (n + 1) % U32

/-- the frame queued by an accepted call -/
def accepted (P : ProtoParams) (allowed : Nat → Bool) (s : IoOut) (callId : Nat) (payload : Bytes) :
    Option Frame :=
  if !allowed callId then none
  else if payload.length > P.maxData then none
  else if s.outQ.length ≥ P.queue then none
  else some { ver := s.ver, rrId := nextId s.nextRr, callId := callId, payload := payload }

/-- sproto_sdp_init + sproto_set_data + srpc_out_queue_push -/
def asyncCall (P : ProtoParams) (allowed : Nat → Bool) (s : IoOut) (callId : Nat) (payload : Bytes) :
    IoOut × List OObs :=
  if !allowed callId then (s, [.callret 0])
  else
    match accepted P allowed s callId payload with
    | none => ({ s with nextRr := nextId s.nextRr }, [.callret 0])
    | some f => ({ s with nextRr := nextId s.nextRr, outQ := s.outQ ++ [f] }, [.callret f.rrId])

end IoOut

namespace IoIn

/-- IN half of srpc_iterate: data_read(SRPC_BUFFER_SIZE), append, one pop.
    `false` = srpc_iterate returns FALSE. -/
def inHalf (P : ProtoParams) (scratch : Bytes) (s : IoIn) : Bool × IoIn × List Obs :=
  let chunk := s.staging.take P.chunk
  let staging := s.staging.drop P.chunk
  let ra : PRes × AccBuf := if chunk.length > 0 then s.inb.append P chunk else (PRes.ok, s.inb)
  if ra.1 ≠ .ok then (false, { staging := staging, inb := ra.2 }, [.log "INAPPERR"])
  else
    match popInSdp P ra.2 scratch with
    | (.ok, inb, sdp) => (true, { staging := staging, inb := inb }, [.deliver (decodeSdp P sdp)])
    | (.false_, inb, _) => (true, { staging := staging, inb := inb }, [])
    | (.versionError, inb, _) => (false, { staging := staging, inb := inb }, [])
    | (_, inb, _) => (false, { staging := staging, inb := inb }, [.log "POPERR"])

end IoIn

namespace Io

/-- srpc_iterate -/
def srpcIterate (P : ProtoParams) (scratch : Bytes) (s : Io) : Bool × Io × List Obs :=
  match s.i.inHalf P scratch with
  | (false, i, o1) => (false, { s with i := i }, o1)
  | (true, i, o1) =>
    match s.o.outHalf P with
    | (ok, o, o2) => (ok, { s with i := i, o := o }, o1 ++ o2.map Obs.out)

/-- supla_esp_devconn_iterate with srpc present and registered = 1 -/
def devIterate (P : ProtoParams) (scratch : Bytes) (s : Io) : Io × List Obs :=
  match s.o.dataWrite P [] with
  | (o, o0) =>
    match srpcIterate P scratch { s with o := o } with
    | (true, s, o1) => (s, o0.map Obs.out ++ o1)
    | (false, s, o1) => ({ s with dead := true }, o0.map Obs.out ++ o1 ++ [.log "ITERFAIL", .restart])

/-- does supla_esp_devconn_recv_cb accept this segment? -/
def accepts (P : ProtoParams) (s : Io) (d : Bytes) : Bool :=
  !s.dead && decide (d.length ≤ P.stage - s.i.staging.length)

/-- supla_esp_devconn_recv_cb -/
def recvCb (P : ProtoParams) (scratch : Bytes) (s : Io) (d : Bytes) : Io × List Obs :=
  if d.length = 0 then (s, [])
  else if d.length ≤ P.stage - s.i.staging.length then
    devIterate P scratch { s with i := { s.i with staging := s.i.staging ++ d } }
  else ({ s with dead := true }, [.log "RECVOVF", .restart])      -- the stream has a hole: restart

/-- one event; `scratch` is the content of `srpc->sdp` before the event (arbitrary: the
    OUT path and `srpc_async__call` share it) -/
def step (P : ProtoParams) (allowed : Nat → Bool) (scratch : Bytes) (s : Io) (e : Ev) :
    Io × List Obs :=
  if s.dead then (s, [])
  else match e with
    | .recv d => recvCb P scratch s d
    | .tick => devIterate P scratch s
    | .call c p =>
      match s.o.asyncCall P allowed c p with
      | (o, obs) => ({ s with o := o }, obs.map Obs.out)
    | .esp cs => ({ s with o := { s.o with esp := s.o.esp ++ cs } }, [])

/-- run a history; each event carries the scratch content that was current for it -/
def run (P : ProtoParams) (allowed : Nat → Bool) (s : Io) : List (Bytes × Ev) → Io × List Obs
  | [] => (s, [])
  | (sc, e) :: es =>
    match step P allowed sc s e with
    | (s1, o1) =>
      match run P allowed s1 es with
      | (s2, o2) => (s2, o1 ++ o2)

end Io
end SuplaVerif
