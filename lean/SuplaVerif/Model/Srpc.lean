/-
  Model/Srpc — srpc.c `srpc_iterate` / `srpc_async__call` over Model/Proto, together with
  the devconn I/O shim (supla_esp_devconn.c: `recv_cb`, `data_read`, `data_write`,
  `data_write_append_buffer`, `supla_esp_devconn_iterate` with `registered = 1`).
-/
import SuplaVerif.Model.Proto

namespace SuplaVerif
open Bytes

/-- observable events, one canonical line each in the correspondence protocol -/
inductive Obs
  | deliver (f : Frame)
  | sent (code : Int) (bytes : Bytes)
  | log (cls : String)
  | callret (rr : Nat)
  | restart
  deriving Repr, DecidableEq

structure Io where
  staging : Bytes := []          -- devconn->recvbuff[0..recvbuff_size)
  inb     : AccBuf := {}         -- proto in buffer
  outQ    : List Frame := []     -- srpc out_queue (oldest first)
  outb    : AccBuf := {}         -- proto out buffer
  shim    : Bytes := []          -- devconn->esp_send_buffer[0..len)
  nextRr  : Nat := 0
  ver     : Nat := 0             -- proto version stamped on outgoing packets
  esp     : List Int := []       -- scripted results of espconn_sent, then 0 forever
  dead    : Bool := false        -- after supla_system_restart
  deriving Repr

inductive Ev
  | recv (d : Bytes)             -- espconn recv callback with one TCP segment
  | tick                          -- 100 ms iterate timer
  | call (callId : Nat) (payload : Bytes)  -- srpc_async_call from device code
  | esp (codes : List Int)       -- append to the espconn_sent result script
  deriving Repr

namespace Io

abbrev ESPCONN_INPROGRESS : Int := Io_INPROGRESS
abbrev ESPCONN_MAXNUM : Int := Io_MAXNUM

/-- espconn_sent: consume one scripted result -/
def espSent (s : Io) (bytes : Bytes) : Int × Io × List Obs :=
  match s.esp with
  | [] => (0, s, [.sent 0 bytes])
  | c :: cs => (c, { s with esp := cs }, [.sent c bytes])

/-- supla_esp_data_write_append_buffer -/
def shimAppend (P : ProtoParams) (s : Io) (d : Bytes) : Io × List Obs :=
  if d.length > 0 then
    if s.shim.length + d.length > P.sendBuf then (s, [.log "SENDOVF"])
    else ({ s with shim := s.shim ++ d }, [])
  else (s, [])

/-- supla_esp_data_write -/
def dataWrite (P : ProtoParams) (s : Io) (d : Bytes) : Io × List Obs :=
  let (s, o1) :=
    if s.shim.length > 0 then
      let (r, s', o) := s.espSent s.shim
      (if r = 0 then { s' with shim := [] } else s', o)
    else (s, [])
  if s.shim.length > 0 then
    let (s, o2) := shimAppend P s d
    (s, o1 ++ o2)
  else if d.length > 0 then
    let (r, s, o2) := s.espSent d
    if r = ESPCONN_INPROGRESS ∨ r = ESPCONN_MAXNUM then
      let (s, o3) := shimAppend P s d
      (s, o1 ++ o2 ++ o3)
    else (s, o1 ++ o2)
  else (s, o1)

/-- sproto_out_buffer_append on the out buffer -/
def outAppend (P : ProtoParams) (b : AccBuf) (f : Frame) : PRes × AccBuf :=
  if P.hdr + f.payload.length > P.hdr + P.maxData then (.dataTooLarge, b)
  else
    match b.append P (f.header ++ f.payload) with
    | (.ok, b1) => b1.append P TAG
    | (_, b1) => (.false_, b1)

/-- sproto_pop_out_data -/
def popOut (P : ProtoParams) (b : AccBuf) (n : Nat) : Bytes × AccBuf :=
  if b.data.length = 0 ∨ n = 0 then ([], b)
  else
    let n' := if b.data.length < n then b.data.length else n
    let rest := b.data.drop n'
    let size' := if rest.length < b.size
                 then (if rest.length < P.bufMin then P.bufMin else rest.length) else b.size
    (b.data.take n', { b with data := rest, size := size' })

/-- srpc_iterate; returns FALSE (→ `none`) or TRUE -/
def srpcIterate (P : ProtoParams) (scratch : Bytes) (s : Io) : Bool × Io × List Obs :=
  -- IN: data_read(SRPC_BUFFER_SIZE)
  let chunk := s.staging.take P.chunk
  let s := { s with staging := s.staging.drop P.chunk }
  let (r, inb) := if chunk.length > 0 then s.inb.append P chunk else (PRes.ok, s.inb)
  if r ≠ .ok then (false, s, [.log "INAPPERR"])
  else
    let s := { s with inb := inb }
    let (pr, inb, sdp) := popInSdp P s.inb scratch
    let s := { s with inb := inb }
    let inRes : Option (List Obs) :=
      match pr with
      | .ok => some [.deliver (decodeSdp P sdp)]
      | .false_ => some []
      | .versionError => none
      | _ => none
    match inRes with
    | none => (false, s, if pr = .versionError then [] else [.log "POPERR"])
    | some o1 =>
      -- OUT: one queued packet to the out buffer
      let (ok, s, o2) :=
        match s.outQ with
        | [] => (true, s, [])
        | f :: q =>
          let (ar, ob) := outAppend P s.outb f
          let s := { s with outQ := q, outb := ob }
          if ar ≠ .ok ∧ ar ≠ .false_ then (false, s, [Obs.log "OUTAPPERR"]) else (true, s, [])
      if !ok then (false, s, o1 ++ o2)
      else
        let (d, ob) := popOut P s.outb P.chunk
        let s := { s with outb := ob }
        if d.length ≠ 0 then
          let (s, o3) := dataWrite P s d
          (true, s, o1 ++ o2 ++ o3)
        else (true, s, o1 ++ o2)

/-- supla_esp_devconn_iterate with srpc present and registered = 1 -/
def devIterate (P : ProtoParams) (scratch : Bytes) (s : Io) : Io × List Obs :=
  let (s, o0) := dataWrite P s []
  let (ok, s, o1) := srpcIterate P scratch s
  if ok then (s, o0 ++ o1)
  else ({ s with dead := true }, o0 ++ o1 ++ [.log "ITERFAIL", .restart])

/-- supla_esp_devconn_recv_cb -/
def recvCb (P : ProtoParams) (scratch : Bytes) (s : Io) (d : Bytes) : Io × List Obs :=
  if d.length = 0 then (s, [])
  else if d.length ≤ P.stage - s.staging.length then
    devIterate P scratch { s with staging := s.staging ++ d }
  else (s, [.log "RECVOVF"])

/-- sproto_sdp_init + sproto_set_data + srpc_out_queue_push -/
def asyncCall (P : ProtoParams) (allowed : Nat → Bool) (s : Io) (callId : Nat) (payload : Bytes) :
    Io × List Obs :=
  if !allowed callId then (s, [.callret 0]) else
  let rr0 := (s.nextRr + 1) % U32
  let rr := if rr0 = 0 then 1 else rr0
  let s := { s with nextRr := rr }
  if payload.length > P.maxData then (s, [.callret 0])
  else if s.outQ.length ≥ P.queue then (s, [.callret 0])
  else
    ({ s with outQ := s.outQ ++ [{ ver := s.ver, rrId := rr, callId := callId, payload := payload }] },
     [.callret rr])

/-- one event; `scratch` is the content of `srpc->sdp` before the event (arbitrary: the
    OUT path and `srpc_async__call` share it) -/
def step (P : ProtoParams) (allowed : Nat → Bool) (scratch : Bytes) (s : Io) (e : Ev) :
    Io × List Obs :=
  if s.dead then (s, [])
  else match e with
    | .recv d => recvCb P scratch s d
    | .tick => devIterate P scratch s
    | .call c p => asyncCall P allowed s c p
    | .esp cs => ({ s with esp := s.esp ++ cs }, [])

/-- run a history; each event carries the scratch content that was current for it -/
def run (P : ProtoParams) (allowed : Nat → Bool) (s : Io) : List (Bytes × Ev) → Io × List Obs
  | [] => (s, [])
  | (sc, e) :: es =>
    let (s1, o1) := step P allowed sc s e
    let (s2, o2) := run P allowed s1 es
    (s2, o1 ++ o2)

end Io
end SuplaVerif
