/-
  Model/MqttAck — the bookkeeping of __mqtt_recv in src/user/mqtt.c (MQTT-C) for packets that answer, or are answered by,
  entries of the client's message queue: acknowledgements of the client's own requests and the inbound QoS 1/2 flows.
  The queue holds one entry per packed message (control type, packet id, complete or not), oldest first.
  `complete` is mqtt_mq_find by packet id followed by `msg->state = MQTT_QUEUED_COMPLETE`: the search prefers an entry that is
  not complete yet (complete entries linger until mqtt_mq_clean drops them from the old end of the queue).
-/
namespace SuplaVerif.MqttAck

structure QMsg where
  ty : Nat          -- MQTT control type: 3 PUBLISH, 4 PUBACK, 5 PUBREC, 6 PUBREL, 7 PUBCOMP, 8 SUBSCRIBE, 10 UNSUBSCRIBE
  pid : Nat
  done : Bool       -- MQTT_QUEUED_COMPLETE
  deriving Repr, DecidableEq

abbrev MQ := List QMsg

def isPending (ty pid : Nat) (m : QMsg) : Bool := m.ty == ty && m.pid == pid && !m.done
def isAny (ty pid : Nat) (m : QMsg) : Bool := m.ty == ty && m.pid == pid

/-- mqtt_mq_find by packet id finds something -/
def found (q : MQ) (ty pid : Nat) : Bool := q.any (isAny ty pid)
/-- ... that is not yet complete -/
def pending (q : MQ) (ty pid : Nat) : Bool := q.any (isPending ty pid)

/-- mark the oldest entry satisfying `p` complete -/
def markFirst (p : QMsg → Bool) : MQ → MQ
  | [] => []
  | m :: q => if p m then { m with done := true } :: q else m :: markFirst p q

/-- `msg = mqtt_mq_find(mq, ty, &pid); msg->state = COMPLETE`: the entry found is the oldest one that is not complete,
    otherwise the oldest complete one (whose state does not change) -/
def complete (q : MQ) (ty pid : Nat) : Option MQ :=
  if pending q ty pid then some (markFirst (isPending ty pid) q)
  else if found q ty pid then some q
  else none

inductive Pkt
  | publish (qos pid : Nat)
  | puback (pid : Nat) | pubrec (pid : Nat) | pubrel (pid : Nat) | pubcomp (pid : Nat)
  | suback (pid : Nat) | unsuback (pid : Nat)
  deriving Repr, DecidableEq

structure Out where
  err : Bool := false            -- MQTT_ERROR_ACK_OF_UNKNOWN
  delivered : Bool := false      -- publish_response_callback called
  staged : Option (Nat × Nat) := none   -- acknowledgement put into the queue (type, packet id)
  deriving Repr, DecidableEq

def ackOf (q : MQ) (ty pid : Nat) (stage : Option Nat) : MQ × Out :=
  match complete q ty pid with
  | none => (q, { err := true })
  | some q' => match stage with
    | none => (q', {})
    | some t => (q' ++ [⟨t, pid, false⟩], { staged := some (t, pid) })

/-- one unpacked packet from the broker -/
def handle (q : MQ) : Pkt → MQ × Out
  | .publish qos pid =>
    if qos = 1 then (q ++ [⟨4, pid, false⟩], { delivered := true, staged := some (4, pid) })
    else if qos = 2 then
      (if pending q 5 pid then (q, {})       -- a PUBREC of this id still waits for its PUBREL: a retransmission
       else (q ++ [⟨5, pid, false⟩], { delivered := true, staged := some (5, pid) }))
    else (q, { delivered := true })
  | .puback pid => ackOf q 3 pid none
  | .pubrec pid => if found q 6 pid then (q, {}) else ackOf q 3 pid (some 6)
  | .pubrel pid => ackOf q 5 pid (some 7)
  | .pubcomp pid => ackOf q 6 pid none
  | .suback pid => ackOf q 8 pid none
  | .unsuback pid => ackOf q 10 pid none

/-- what else happens to the queue between two packets -/
inductive Ev
  | pkt (p : Pkt)
  | own (ty pid : Nat)      -- the client packs a request of its own (PUBLISH QoS 1/2, SUBSCRIBE, ...)
  | flush                   -- __mqtt_send: PUBACK and PUBCOMP are complete once sent
  | clean                   -- mqtt_mq_clean: complete entries at the old end are dropped
  deriving Repr, DecidableEq

def step (q : MQ) : Ev → MQ × Out
  | .pkt p => handle q p
  | .own ty pid => (q ++ [⟨ty, pid, false⟩], {})
  | .flush => (q.map (fun m => if m.ty = 4 ∨ m.ty = 7 then { m with done := true } else m), {})
  | .clean => (q.dropWhile (·.done), {})

/-- deliveries of a history, stopping at the first error -/
def run : MQ → List Ev → List (Nat × Nat)    -- (qos, pid) of the delivered publishes
  | _, [] => []
  | q, e :: es =>
    let r := step q e
    if r.2.err then []
    else (match e with
          | .pkt (.publish qos pid) => if r.2.delivered then [(qos, pid)] else []
          | _ => []) ++ run r.1 es

/-! the specification: which inbound QoS 2 flows are open -/
def specStep (o : List Nat) : Ev → List Nat × Bool     -- open ids, delivered
  | .pkt (.publish qos pid) =>
    if qos = 2 then (if pid ∈ o then (o, false) else (pid :: o, true)) else (o, true)
  | .pkt (.pubrel pid) => (o.filter (· ≠ pid), false)
  | _ => (o, false)

/-! ## what the theorems of Props/C16 speak about -/

/-- entries of this type and id that are not complete -/
def cnt (q : MQ) (ty pid : Nat) : Nat := q.countP (isPending ty pid)


/-- inbound QoS 2 flows: at most one PUBREC per packet id waits for its PUBREL -/
def Inv (q : MQ) : Prop := ∀ pid, cnt q 5 pid ≤ 1
/-- the open flows of the specification are the ids with a waiting PUBREC -/
def Abs (q : MQ) (o : List Nat) : Prop := ∀ pid, (0 < cnt q 5 pid ↔ pid ∈ o)

def Ev.wf : Ev → Prop
  | .own ty _ => ty ≠ 5      -- a PUBREC is only ever packed in answer to a PUBLISH
  | _ => True


/-- the request an acknowledgement answers: (control type, packet id) -/
def Pkt.answers : Pkt → Option (Nat × Nat)
  | .puback pid => some (3, pid)
  | .pubrec pid => some (3, pid)
  | .pubrel pid => some (5, pid)
  | .pubcomp pid => some (6, pid)
  | .suback pid => some (8, pid)
  | .unsuback pid => some (10, pid)
  | .publish _ _ => none


/-- the publishes handed to the callback over a history -/
def deliveries : MQ → List Ev → List (Nat × Nat)
  | _, [] => []
  | q, e :: es =>
    (match e with
     | .pkt (.publish qos pid) => if (step q e).2.delivered then [(qos, pid)] else []
     | _ => []) ++ deliveries (step q e).1 es

/-- the specification: a QoS 0/1 PUBLISH is always handed over; a QoS 2 PUBLISH is handed over unless a flow with its packet
    id is open (it is a retransmission); PUBREL closes the flow -/
def specDeliveries : List Nat → List Ev → List (Nat × Nat)
  | _, [] => []
  | o, e :: es =>
    (match e with
     | .pkt (.publish qos pid) => if (specStep o e).2 then [(qos, pid)] else []
     | _ => []) ++ specDeliveries (specStep o e).1 es


end SuplaVerif.MqttAck
