/-
  Model/InputAt — src/user/supla_esp_input.c, the "advanced" (action-trigger) handling of a monostable or bistable
  button once the debounce has notified a state change:
    * `setActive`   supla_esp_input_set_active_triggers (active set, highest detectable click count, whether the
                    single click keeps its local relay action)
    * `change`      supla_esp_input_advanced_state_change_handling
    * `tick`        supla_esp_input_advanced_timer_cb (every 20 ms while armed), with δ = time since the last change
    * `sendAt`      supla_esp_input_send_action_trigger
  Not modelled: motion sensors, the hold handling of facade-blind buttons, configuration mode afterwards (the
  handling switches to the legacy path once configuration mode has started).
-/
namespace SuplaVerif

/-- SUPLA_ACTION_CAP_* -/
def capTurnOn : Nat := 1
def capTurnOff : Nat := 2
def capToggle (k : Nat) : Nat := 2 ^ (1 + k)     -- k = 1..5
def capHold : Nat := 1024
def capPress (k : Nat) : Nat := 2 ^ (10 + k)     -- k = 1..5

/-- bit `b` (a power of two) is set in the mask `m` -/
def hasBit (m b : Nat) : Bool := m / b % 2 == 1

structure AtCfg where
  typ : Nat            -- INPUT_TYPE_BTN_MONOSTABLE = 2, INPUT_TYPE_BTN_BISTABLE = 4
  cap : Nat            -- action_trigger_cap
  channel : Nat        -- 255 = no action-trigger channel
  hasRelay : Bool      -- the board connects the input to a relay
  isRs : Bool          -- ... which belongs to a roller shutter
  cfgHold : Bool       -- supla_esp_input_is_cfg_on_hold_enabled
  cfgToggle : Bool     -- supla_esp_input_is_cfg_on_toggle_enabled
  holdUs : Nat         -- btn_hold_time_ms * 1000
  multiUs : Nat        -- btn_multiclick_time_ms * 1000
  cfgPressUs : Nat     -- GET_CFG_PRESS_TIME * 1000
  deriving Repr, DecidableEq

structure AtSt where
  active : Nat := 0          -- active_triggers
  maxClicks : Nat := 0
  relayConn : Bool := true   -- relay_gpio_id ≠ 255
  last : Bool := false       -- last_state = INPUT_STATE_ACTIVE
  click : Int := 0           -- click_counter (-1: the burst has been resolved, further clicks are swallowed)
  armed : Bool := false      -- input_cfg->timer
  lastChange : Nat := 0
  deriving Repr, DecidableEq

inductive AtOut
  | trig (action : Nat)      -- supla_esp_devconn_send_action_trigger
  | localAct                 -- supla_esp_gpio_on_input_active
  | localInact               -- supla_esp_gpio_on_input_inactive
  | cfgMode                  -- supla_esp_input_start_cfg_mode
  deriving Repr, DecidableEq

/-- the highest click count for which a press or toggle trigger is active (the if-chain of set_active_triggers) -/
def maxFromActions (a : Nat) : Nat :=
  if hasBit a (capPress 5) || hasBit a (capToggle 5) then 5
  else if hasBit a (capPress 4) || hasBit a (capToggle 4) then 4
  else if hasBit a (capPress 3) || hasBit a (capToggle 3) then 3
  else if hasBit a (capPress 2) || hasBit a (capToggle 2) then 2
  else if hasBit a (capPress 1) || hasBit a (capToggle 1) then 1
  else 0

/-- supla_esp_input_set_active_triggers -/
def setActive (c : AtCfg) (s : AtSt) (req : Nat) : AtSt :=
  let act := Nat.land c.cap req
  let m := max (if c.cfgToggle then 10 else 0) (maxFromActions act)
  let disable := (c.typ == 2 && hasBit act (capPress 1)) || (c.typ == 4 && hasBit act (capToggle 1))
  let s1 : AtSt := if act ≠ s.active then { s with armed := false, click := 0 } else s
  { s1 with active := act, maxClicks := m, relayConn := c.hasRelay && !disable }

/-- the trigger that stands for the current click count -/
def countAction (c : AtCfg) (click : Int) : Nat :=
  if click < 1 ∨ click > 5 then 0
  else if c.typ = 2 then capPress click.toNat
  else if c.typ = 4 then capToggle click.toNat
  else 0

/-- the tail of send_action_trigger: only active actions reach the server -/
def emit (c : AtCfg) (s : AtSt) (a : Nat) : List AtOut :=
  if a = 0 ∨ Nat.land a s.active = 0 ∨ c.channel = 255 then [] else [.trig a]

/-- supla_esp_input_send_action_trigger; `action = 0`: resolve the click count -/
def sendAt (c : AtCfg) (s : AtSt) (action : Nat) : List AtOut :=
  if action = 0 then
    if s.click = -1 then []
    else if s.click = 1 ∧ s.relayConn then
      (if c.isRs then (if s.last ∨ c.typ = 2 then [.localAct] else [.localInact]) else [.localAct])
    else emit c s (countAction c s.click)
  else emit c s action

/-- supla_esp_input_advanced_state_change_handling for a real change to `ns` at time `now` -/
def change (c : AtCfg) (s : AtSt) (ns : Bool) (now : Nat) : AtSt × List AtOut :=
  let s0 : AtSt := { s with last := ns, armed := false }
  let r1 : AtSt × List AtOut :=
    if s0.click ≠ -1 ∧ (ns ∨ c.typ = 4) then
      let s' : AtSt := { s0 with click := s0.click + 1 }
      let oOn := if c.typ = 4 ∧ ns then sendAt c s' capTurnOn else []
      if c.cfgToggle ∧ s'.click ≥ 10 then ({ s' with click := 0 }, oOn ++ [.cfgMode]) else (s', oOn)
    else (s0, [])
  let o2 := if ns then [] else sendAt c r1.1 capTurnOff
  ({ r1.1 with lastChange := now, armed := true }, r1.2 ++ o2)

/-- supla_esp_input_advanced_timer_cb with δ = system_get_time() - last_state_change -/
def tickD (c : AtCfg) (s : AtSt) (δ : Nat) : AtSt × List AtOut :=
  if !s.armed then (s, [])
  else
    let r1 : AtSt × List AtOut :=
      if c.typ = 2 ∧ s.last ∧ s.click ≠ -1 then
        let ra : AtSt × List AtOut :=
          if c.cfgHold ∧ δ ≥ c.cfgPressUs then ({ s with armed := false, click := 0 }, [.cfgMode]) else (s, [])
        if ra.1.click = 1 ∧ δ ≥ c.holdUs then
          ({ ra.1 with click := 0, armed := if c.cfgHold then ra.1.armed else false }, ra.2 ++ sendAt c ra.1 capHold)
        else ra
      else (s, [])
    if !r1.1.last ∨ c.typ = 4 then
      if δ ≥ c.multiUs then ({ r1.1 with armed := false, click := 0 }, r1.2 ++ sendAt c r1.1 0)
      else if r1.1.click ≥ (r1.1.maxClicks : Int) then
        if r1.1.maxClicks ≤ 1 then ({ r1.1 with click := 0, armed := false }, r1.2 ++ sendAt c r1.1 0)
        else ({ r1.1 with click := -1 }, r1.2 ++ sendAt c r1.1 0)
      else r1
    else r1

def tick (c : AtCfg) (s : AtSt) (now : Nat) : AtSt × List AtOut := tickD c s (now - s.lastChange)

/-- what a user does, seen after the debounce: a press, a release, or 20 ms passing (δ since the last change) -/
inductive AtStep
  | press
  | release
  | wait (δ : Nat)
  deriving Repr, DecidableEq

def stepAt (c : AtCfg) (s : AtSt) : AtStep → AtSt × List AtOut
  | .press => change c s true 0
  | .release => change c s false 0
  | .wait δ => tickD c s δ

def runAt (c : AtCfg) : AtSt → List AtStep → AtSt × List AtOut
  | s, [] => (s, [])
  | s, e :: es =>
    let r := stepAt c s e
    let r2 := runAt c r.1 es
    (r2.1, r.2 ++ r2.2)

end SuplaVerif
