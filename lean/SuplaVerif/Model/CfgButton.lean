/-
  Model/CfgButton — the configuration-button gestures of the legacy (no action trigger) input handling in
  src/user/supla_esp_input.c while the device is in normal operation:
    * `cbChange`  supla_esp_input_legacy_state_change_handling: the toggle counter (reset to 1 when the change
                  comes 2 s or more after the last activation, ten counted changes start configuration mode)
    * `cbTick`    supla_esp_input_legacy_timer_cb: configuration mode after the button has been held for the
                  configured time
  Times are true time in µs (the firmware subtracts 32-bit counter readings; wrap-arounds are C19's subject).
-/
namespace SuplaVerif

structure CbCfg where
  typ : Nat          -- INPUT_TYPE_BTN_MONOSTABLE 2, BISTABLE 4, MOTION_SENSOR 8
  onHold : Bool      -- supla_esp_input_is_cfg_on_hold_enabled
  onToggle : Bool    -- supla_esp_input_is_cfg_on_toggle_enabled
  pressUs : Nat      -- GET_CFG_PRESS_TIME * 1000
  count : Nat        -- CFG_BTN_PRESS_COUNT
  windowUs : Nat     -- 2000 * 1000
  deriving Repr, DecidableEq

structure CbSt where
  last : Bool := false     -- last_state = ACTIVE
  click : Nat := 0         -- click_counter
  lastAct : Nat := 0       -- last_state_change: time of the last activation
  armed : Bool := false    -- the 20 ms timer of the input
  streak : Nat := 0        -- ghost: recognised changes since (and including) the last one that came after a 2 s gap
  chgT : Nat := 0          -- ghost: time of the last recognised change
  chgLvl : Bool := false   -- ghost: its level
  deriving Repr, DecidableEq

/-- does this change count as a toggle -/
def cbCounts (c : CbCfg) (ns : Bool) : Bool := (c.typ == 2 && ns) || c.typ == 4 || c.typ == 8

/-- the toggle counter after a change at `now` -/
def cbClick (c : CbCfg) (s : CbSt) (ns : Bool) (now : Nat) : Nat :=
  if now - s.lastAct ≥ c.windowUs then 1 else if cbCounts c ns then s.click + 1 else s.click

def cbStreak (c : CbCfg) (s : CbSt) (now : Nat) : Nat :=
  if now - s.lastAct ≥ c.windowUs then 1 else s.streak + 1

/-- a recognised state change at time `now`; the Bool: configuration mode is started -/
def cbChange (c : CbCfg) (s : CbSt) (ns : Bool) (now : Nat) : CbSt × Bool :=
  if c.onToggle ∧ cbClick c s ns now ≥ c.count then
    ({ s with last := ns, click := 0, armed := false, streak := cbStreak c s now, chgT := now, chgLvl := ns }, true)
  else
    ({ last := ns, click := cbClick c s ns now, lastAct := if ns then now else s.lastAct, armed := ns && c.onHold,
       streak := cbStreak c s now, chgT := now, chgLvl := ns }, false)

/-- a callback of the 20 ms timer at time `now` -/
def cbTick (c : CbCfg) (s : CbSt) (now : Nat) : CbSt × Bool :=
  if s.armed ∧ s.last ∧ c.onHold ∧ now - s.lastAct ≥ c.pressUs then ({ s with armed := false, click := 0 }, true)
  else (s, false)

inductive CbEv
  | chg (ns : Bool) (now : Nat)
  | tick (now : Nat)
  deriving Repr, DecidableEq

def CbEv.time : CbEv → Nat
  | .chg _ t => t
  | .tick t => t

def cbStep (c : CbCfg) (s : CbSt) : CbEv → CbSt × Bool
  | .chg ns now => cbChange c s ns now
  | .tick now => cbTick c s now

/-- events until configuration mode starts; returns the state, whether it started and the events consumed before it -/
def cbRun (c : CbCfg) : CbSt → List CbEv → CbSt × Bool
  | s, [] => (s, false)
  | s, e :: es =>
    let r := cbStep c s e
    if r.2 then (r.1, true) else cbRun c r.1 es

end SuplaVerif
