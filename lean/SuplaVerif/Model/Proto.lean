/-
  Model/Proto — supla-common/proto.c: the accumulate buffers, `sproto_pop_in_sdp`,
  `sproto_out_buffer_append`, `sproto_pop_out_data`.

  Hand-written; tied to the C by the correspondence runs (tools/props/c01.py, c02.py)
  and by Gen/Consts (all numeric parameters come from the compiled source).
  32-bit `unsigned int` arithmetic is written out (`% 2^32`) wherever the C adds
  attacker-controlled values.
-/
import SuplaVerif.Base.Bytes

namespace SuplaVerif
open Bytes

/-- numeric parameters of proto.c / srpc.c / the devconn I/O shim, extracted from the
    compiled source by tools/extract.py (Gen/Consts.lean instantiates this). -/
structure ProtoParams where
  hdr     : Nat   -- sizeof(TSuplaDataPacket) - SUPLA_MAX_DATA_SIZE
  maxData : Nat   -- SUPLA_MAX_DATA_SIZE
  ver     : Nat   -- SUPLA_PROTO_VERSION
  verMin  : Nat   -- SUPLA_PROTO_VERSION_MIN
  bufMin  : Nat   -- BUFFER_MIN_SIZE
  bufMax  : Nat   -- BUFFER_MAX_SIZE
  chunk   : Nat   -- SRPC_BUFFER_SIZE
  stage   : Nat   -- RECVBUFF_MAXSIZE
  sendBuf : Nat   -- SEND_BUFFER_SIZE
  queue   : Nat   -- SRPC_QUEUE_SIZE
  deriving Repr, DecidableEq

/-- the begin/end tag "SUPLA" -/
def TAG : Bytes := [83, 85, 80, 76, 65]

theorem TAG_length : TAG.length = 5 := rfl

def U32 : Nat := 4294967296

/-- espconn result codes the send shim treats as transient -/
def Io_INPROGRESS : Int := -5
def Io_MAXNUM : Int := -7

/-- side conditions under which the theorems are proved; discharged for the extracted
    values in Gen/Consts.lean by `decide` -/
structure ProtoParams.WF (P : ProtoParams) : Prop where
  hdr18   : P.hdr = 18
  maxLt   : P.hdr + P.maxData + 5 < U32
  chunkPos: 0 < P.chunk

/-- result codes of proto.c (SUPLA_RESULT_*) -/
inductive PRes | ok | false_ | versionError | dataError | bufferOverflow | dataTooLarge
  deriving Repr, DecidableEq

def PRes.code : PRes → Int
  | .ok => 1 | .false_ => 0 | .versionError => -1 | .dataError => -2
  | .bufferOverflow => -3 | .dataTooLarge => -4

/-- TSuplaProtoInBuffer / TSuplaProtoOutBuffer: `data` is the first `data_size` bytes of
    `buffer`, `size` the allocated size. -/
structure AccBuf where
  data     : Bytes := []
  size     : Nat := 0
  beginTag : Bool := false
  deriving Repr, DecidableEq

/-- new allocated size computed by sproto_buffer_append for `n` more bytes -/
def AccBuf.appendSize (P : ProtoParams) (b : AccBuf) (n : Nat) : Nat :=
  if n > (if b.size < P.bufMin then P.bufMin else b.size) - b.data.length
  then (if b.size < P.bufMin then P.bufMin else b.size) +
    (n - ((if b.size < P.bufMin then P.bufMin else b.size) - b.data.length))
  else (if b.size < P.bufMin then P.bufMin else b.size)

/-- sproto_buffer_append (realloc assumed to succeed) -/
def AccBuf.append (P : ProtoParams) (b : AccBuf) (d : Bytes) : PRes × AccBuf :=
  if b.appendSize P d.length ≥ P.bufMax then (.bufferOverflow, b)
  else (.ok, { b with data := b.data ++ d, size := b.appendSize P d.length })

/-- allocated size after the buffer content shrank to `rem` bytes -/
def AccBuf.shrinkSize (P : ProtoParams) (b : AccBuf) (rem : Nat) : Nat :=
  if rem < b.size then (if rem < P.bufMin then P.bufMin else rem) else b.size

/-- sproto_shrink_in_buffer -/
def AccBuf.shrink (P : ProtoParams) (b : AccBuf) (n : Nat) : AccBuf :=
  { data := b.data.drop n, size := b.shrinkSize P (b.data.length - n), beginTag := false }

/-- memcpy(sdp, buffer, n): overlay the first n bytes of the scratch packet -/
def overlay (scratch : Bytes) (src : Bytes) (n : Nat) : Bytes :=
  src.take n ++ scratch.drop n

/-- sproto_pop_in_sdp.  `scratch` is the caller's TSuplaDataPacket as a byte image
    (srpc->sdp, whatever it held before).  Returns result, new buffer, new scratch.
    Written as one if-chain: block 1 of the C (begin-tag search) either fails with
    DATA_ERROR or leaves `begin_tag = begin_tag || data_size >= 5`. -/
def popInSdp (P : ProtoParams) (b : AccBuf) (scratch : Bytes) : PRes × AccBuf × Bytes :=
  if b.beginTag = false ∧ 5 ≤ b.data.length ∧ b.data.take 5 ≠ TAG then
    (.dataError, b.shrink P b.data.length, scratch)
  else if b.beginTag = false ∧ b.data.length < 5 then (.false_, b, scratch)
  else if b.data.length - 5 < P.hdr then (.false_, { b with beginTag := true }, scratch)
  else if (b.data.getD 5 0).toNat > P.ver ∨ (b.data.getD 5 0).toNat < P.verMin then
    -- sdp->version = _sdp->version
    (.versionError, b.shrink P b.data.length,
      scratch.take 5 ++ [b.data.getD 5 0] ++ scratch.drop 6)
  else if le32 (b.data.drop 14) > P.maxData ∨
      (P.hdr + le32 (b.data.drop 14)) % U32 > P.hdr + P.maxData then   -- unsigned int addition
    (.dataError, b.shrink P b.data.length, scratch)
  else if ((P.hdr + le32 (b.data.drop 14)) % U32 + 5) % U32 > b.data.length then
    (.false_, { b with beginTag := true }, scratch)
  else if (P.hdr + le32 (b.data.drop 14)) % U32 ≥ b.size ∨
      (b.data.drop ((P.hdr + le32 (b.data.drop 14)) % U32)).take 5 ≠ TAG then
    (.dataError, b.shrink P b.data.length, scratch)
  else
    (.ok, b.shrink P ((P.hdr + le32 (b.data.drop 14)) % U32 + 5),
      overlay scratch b.data ((P.hdr + le32 (b.data.drop 14)) % U32))

/-- the frame a well-formed packet image denotes -/
structure Frame where
  ver     : Nat
  rrId    : Nat
  callId  : Nat
  payload : Bytes
  deriving Repr, DecidableEq

/-- what the handler sees in a TSuplaDataPacket image: version, rr_id, call_id and the
    first `data_size` bytes of `data` -/
def decodeSdp (P : ProtoParams) (sdp : Bytes) : Frame :=
  { ver := (sdp.getD 5 0).toNat
    rrId := le32 (sdp.drop 6)
    callId := le32 (sdp.drop 10)
    payload := (sdp.drop P.hdr).take (le32 (sdp.drop 14)) }

/-- wire image of a frame: tag, version, rr_id, call_id, data_size, data, tag -/
def Frame.header (f : Frame) : Bytes :=
  TAG ++ [UInt8.ofNat f.ver] ++ toLe32 f.rrId ++ toLe32 f.callId ++ toLe32 f.payload.length

def Frame.bytes (f : Frame) : Bytes := f.header ++ f.payload ++ TAG

def Frame.Valid (P : ProtoParams) (f : Frame) : Prop :=
  P.verMin ≤ f.ver ∧ f.ver ≤ P.ver ∧ f.ver < 256 ∧ f.rrId < U32 ∧ f.callId < U32 ∧
  f.payload.length ≤ P.maxData

instance (P : ProtoParams) (f : Frame) : Decidable (f.Valid P) := by
  unfold Frame.Valid; infer_instance

end SuplaVerif
