/-
  Model/Migrate — the 5 -> 6 -> 7 migration of the stored configuration in supla_esp_cfg_init (supla_esp_cfg.c), as
  field-to-field copies.  A record is a function from field names to their bytes; the copy lists are regenerated from the
  source (Gen/MigrateTable.lean).  `src` 0 = the sector read as SuplaEspCfg_old_v5A, 1 = read as SuplaEspCfg_old_v5B.
-/
import SuplaVerif.Base.Bytes
namespace SuplaVerif

structure FieldCopy where
  dst : String
  src : Nat
  fld : String
  len : Nat           -- bytes copied
  dstLen : Nat        -- size of the destination field
  srcLen : Nat        -- size of the source field
  deriving Repr, DecidableEq

abbrev Rec := String → Bytes

/-- apply the copies in order to a record that starts zeroed (memset) -/
def applyCopies (oldA oldB : Rec) : List FieldCopy → Rec → Rec
  | [], r => r
  | c :: cs, r =>
    applyCopies oldA oldB cs (fun f =>
      if f = c.dst then ((if c.src = 0 then oldA else oldB) c.fld).take c.len ++ (r f).drop c.len else r f)

/-- the 5 -> 6 step: the common copies, then the branch taken (`useA`: the record looks like layout 5A) -/
def migrate56 (common brA brB : List FieldCopy) (useA : Bool) (oldA oldB : Rec) : Rec :=
  applyCopies oldA oldB (common ++ (if useA then brA else brB)) (fun _ => [])

/-- the copy that writes `f`, if exactly one does -/
def soleCopy (cs : List FieldCopy) (f : String) : Option FieldCopy :=
  match cs.filter (fun c => c.dst == f) with
  | [c] => some c
  | _ => none

/-- `dst` is written once, from field `fld` of layout `src`, in its whole length `n` (= both field sizes) -/
def wholeFrom (cs : List FieldCopy) (dst : String) (src : Nat) (fld : String) (n : Nat) : Bool :=
  match soleCopy cs dst with
  | some c => c.src == src && c.fld == fld && c.len == n && c.dstLen == n && c.srcLen == n
  | none => false

def copiedLen (cs : List FieldCopy) (dst : String) : Nat :=
  match soleCopy cs dst with
  | some c => c.len
  | none => 0

end SuplaVerif
