/-
  Model/AutoCal — the step machine of supla_esp_gpio_rs_autocalibrate (supla_esp_rs_fb.c), called from the 10 ms accounting
  callback while an output is energised: steps 1 (run up), 2 (run down, measure the closing time), 3 (run up, measure the
  opening time).  Times in microseconds as the C keeps them (up_time / down_time of the running direction).
-/
namespace SuplaVerif

structure AcParams where
  filterMs : Nat       -- RS_AUTOCAL_FILTERING_TIME_MS
  minMs : Nat          -- RS_AUTOCAL_MIN_TIME_MS
  maxMs : Nat          -- RS_AUTOCAL_MAX_TIME_MS
  deriving Repr, DecidableEq

/-- what one call does to the shutter -/
inductive AcAct
  | none
  | relay (dir : Nat)     -- supla_esp_gpio_rs_set_relay(dir): 2 = up, 1 = down, 0 = off
  | failed                -- supla_esp_gpio_rs_calibration_failed: times zeroed, position unknown, failure flag, off + task cancelled
  deriving Repr, DecidableEq

structure AcSt where
  step : Nat            -- autoCal_step
  closing : Nat         -- *auto_closing_time (ms)
  opening : Nat         -- *auto_opening_time (ms)
  done : Bool := false  -- finished with stored times, position := fully open (a failure sets the position to 'unknown')
  fail : Bool := false  -- RS_VALUE_FLAG_CALIBRATION_FAILED
  deriving Repr, DecidableEq

def AcSt.failNow (s : AcSt) : AcSt := { s with step := 0, closing := 0, opening := 0, fail := true, done := false }

/-- one call: `upT`/`downT` = up_time/down_time (us), `inMove` = the motor sensor -/
def acStep (P : AcParams) (s : AcSt) (upT downT : Nat) (inMove : Bool) : AcSt × AcAct × Bool :=
  if s.step = 0 then (s, .none, false)
  else if upT < P.filterMs * 1000 ∧ downT < P.filterMs * 1000 then (s, .none, false)
  else if s.step = 1 then
    if !inMove then ({ s with step := 2 }, .relay 1, false)
    else if upT > P.maxMs * 1000 then (s.failNow, .failed, false)
    else (s, .none, false)
  else if s.step = 2 then
    if !inMove then
      if downT < P.minMs * 1000 then (s.failNow, .failed, false)
      else ({ s with step := 3, closing := downT / 1000 }, .relay 2, true)
    else if downT > P.maxMs * 1000 then (s.failNow, .failed, false)
    else (s, .none, false)
  else if s.step = 3 then
    if !inMove then
      if upT < P.minMs * 1000 then (s.failNow, .failed, false)
      else ({ s with step := 0, opening := upT / 1000, done := true }, .relay 0, true)
    else if upT > P.maxMs * 1000 then (s.failNow, .failed, false)
    else (s, .none, false)
  else (s, .none, false)

/-- a run of the callback while ONE direction is energised: run times grow by the callback periods `dts` (us) from `t0`;
    the sensor reading of each callback is given.  The run ends when the step machine acts (the relay request changes the
    direction or switches off).  Result: state, the action that ended the run (none: samples exhausted), run time at the end. -/
def acRun (P : AcParams) (up : Bool) (s : AcSt) (t0 : Nat) : List (Nat × Bool) → AcSt × AcAct × Nat
  | [] => (s, .none, t0)
  | (dt, mv) :: rest =>
    let t := t0 + dt
    let r := if up then acStep P s t 0 mv else acStep P s 0 t mv
    if r.2.1 = .none then acRun P up r.1 t rest else (r.1, r.2.1, t)

end SuplaVerif
