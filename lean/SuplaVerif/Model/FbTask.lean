/-
  Model/FbTask — one accounting callback of supla_esp_gpio_rs_timer_cb for a facade blind (tilt modes 1, 2, 3; mode 0 is
  the roller shutter of Model/RsTask): run-time accounting, move_position for position and tilt (Model/RsPos), the
  end-stop margin of plain moves, the positioning task with its tilt phase (supla_esp_gpio_rs_task_processing incl. the
  position correction of mode 2), add_task with position / tilt "keep" (-1), set_relay with the zero-margin guard and the
  hand-over to the delayed trigger, the 10-minute limit.  Auto-calibration is not part of this model.
-/
import SuplaVerif.Model.RsPos
import SuplaVerif.Model.RsTask
namespace SuplaVerif

structure FbP where
  fo : Nat            -- full opening time (ms)
  fc : Nat            -- full closing time (ms)
  margin : Nat        -- rs_time_margin: 110 (default) or the configured 0..100
  inMove : Bool       -- what the motor sensor reports
  ttype : Nat         -- tilt_type 1, 2, 3 (0: none)
  tiltMs : Nat        -- tilt_change_time (ms)
  deriving Repr, DecidableEq

structure FbT where
  pos : Nat := 0
  tilt : Nat := 0
  upT : Nat := 0
  downT : Nat := 0
  rel : Nat := 0        -- 0 off, 1 down, 2 up
  tstate : Nat := 0     -- 0 inactive, 1 active, 2 setting position, 3 setting tilt
  target : Int := 0     -- task.position (-1: keep)
  ttarget : Int := 0    -- task.tilt (-1: keep)
  dir : Nat := 0        -- 0 none, 1 down, 2 up
  comm : Nat := 0
  pend : Nat := 0
  sinceStop : Nat := 2000000
  lag : Nat := 0
  deriving Repr, DecidableEq

def FbP.mv (P : FbP) (up : Bool) : MvCfg := { fullMs := if up then P.fo else P.fc, tiltMs := P.tiltMs, ttype := P.ttype, up := up }
def FbP.tiltSupported (P : FbP) : Bool := P.tiltMs ≠ 0 && P.ttype ≠ 0

/-- supla_esp_gpio_rs_get_current_tilt -/
def reportedTilt (P : FbP) (t : Nat) : Int :=
  if !P.tiltSupported then -1 else if 100 ≤ t ∧ t ≤ 10100 then ((t - 100 + 50) / 100 : Nat) else 0

/-- supla_esp_gpio_rs_calibrate for a blind: position and tilt jump to the end once the run is long enough -/
def fbCalibrate (P : FbP) (full t endPos : Nat) (s : FbT) : FbT :=
  if !known s.pos && full > 0 then
    (if t / 1000 ≥ full * 11 / 10 then { s with pos := endPos, tilt := if P.tiltSupported then endPos else 0 }
     else { s with pos := 0, tilt := 0 })
  else s

/-- accounting + move_position + the end-stop margin of a plain move -/
def fbAccount (P : FbP) (s : FbT) (dt : Nat) : FbT :=
  if s.rel = 2 then
    let t := s.upT + dt
    let s0 := fbCalibrate P P.fo t 100 s
    let m := movePos (P.mv true) { pos := s0.pos, tilt := s0.tilt, time := t }
    let atEnd := m.pos = 100 ∧ (m.tilt = 0 ∨ m.tilt = 100)
    let off := decide (known s0.pos ∧ P.fo ≠ 0 ∧ atEnd ∧ s.tstate = 0 ∧ m.time / 1000 ≥ P.fo * P.margin / 100)
    { s with pos := m.pos, tilt := m.tilt, upT := m.time, downT := 0, rel := if off then 0 else 2,
             sinceStop := if off then 0 else s.sinceStop, pend := if off then 0 else s.pend, lag := if off then 0 else s.lag }
  else if s.rel = 1 then
    let t := s.downT + dt
    let s0 := fbCalibrate P P.fc t 10100 s
    let m := movePos (P.mv false) { pos := s0.pos, tilt := s0.tilt, time := t }
    let atEnd := m.pos = 10100 ∧ (m.tilt = 0 ∨ m.tilt = 10100)
    let off := decide (known s0.pos ∧ P.fc ≠ 0 ∧ atEnd ∧ s.tstate = 0 ∧ m.time / 1000 ≥ P.fc * P.margin / 100)
    { s with pos := m.pos, tilt := m.tilt, downT := m.time, upT := 0, rel := if off then 0 else 1,
             sinceStop := if off then 0 else s.sinceStop, pend := if off then 0 else s.pend, lag := if off then relayHiUs else s.lag }
  else { s with upT := 0, downT := 0, sinceStop := s.sinceStop + dt }

/-- the zero-margin guard of set_relay for a blind: at the end stop only the tilt can still be changed -/
def fbGuardOn (P : FbP) (s : FbT) (want : Nat) : Nat :=
  if P.margin = 0 ∧
      ((want = 2 ∧ reportedPos s.pos = 0 ∧ (!P.tiltSupported ∨ reportedTilt P s.tilt = 0)) ∨
       (want = 1 ∧ reportedPos s.pos = 100 ∧ (!P.tiltSupported ∨ reportedTilt P s.tilt = 100))) then s.rel else want

def fbRelReq (P : FbP) (s : FbT) (want : Nat) : FbT :=
  let s0 : FbT := { s with pend := 0 }
  let s1 : FbT := if s0.rel ≠ 0 ∧ s0.rel ≠ want then { s0 with rel := 0, sinceStop := 0, lag := 0 } else s0
  if s1.rel = 0 ∧ s1.sinceStop < startGate + s1.lag then { s1 with pend := want }
  else { s1 with rel := fbGuardOn P s1 want }

def fbRelOff (s : FbT) : FbT :=
  { s with pend := 0, rel := 0, sinceStop := if s.rel ≠ 0 then 0 else s.sinceStop,
           lag := if s.rel = 1 then relayHiUs else if s.rel = 2 then 0 else s.lag }

def fbFireTrig (P : FbP) (s : FbT) : FbT :=
  if s.pend = 0 then s else { s with pend := 0, rel := fbGuardOn P { s with pend := 0 } s.pend }

def fbTaskMargin (P : FbP) : Nat :=
  if P.margin < 110 then (if P.inMove ∧ P.margin < 50 then 50 else P.margin) else 5

/-- mode 2: (position after the tilt has been set first, δ up, δ down), all in 0.01 % -/
def fbPreTilt (P : FbP) (s : FbT) (raw rawTilt tp tt : Int) : Int × Int × Int :=
  if tt ≥ 0 ∧ P.ttype = 2 ∧ (s.tstate = 2 ∨ (tp ≠ -100 ∧ tt ≠ -100)) then
    let down := tt > rawTilt
    let dTilt := if down then tt - rawTilt else rawTilt - tt
    let tiltingTime : Int := (P.tiltMs : Int) * dTilt / 10000
    let after : Int :=
      if down then (raw * P.fc + 10000 * tiltingTime) / (P.fc : Int)
      else Int.tdiv (raw * P.fo - 10000 * tiltingTime) (P.fo : Int)
    let dDown0 : Int := (10000 - tt) * P.tiltMs / (P.fo : Int)
    let dDown := if tp + dDown0 > 10000 then 10000 - tp else dDown0
    let dUp0 : Int := tt * P.tiltMs / (P.fc : Int)
    let dUp := if tp < dUp0 then tp else dUp0
    (after, dUp, dDown)
  else (raw, 0, 0)

/-- stage 1 of task_processing: ACTIVE -> SETTING_POSITION, the direction towards the (tilt-corrected) position -/
def fbS1 (P : FbP) (s : FbT) (tp after : Int) : FbT :=
  if s.tstate = 1 then
    if tp ≠ -100 then
      if after > tp then fbRelReq P { s with tstate := 2, dir := 2 } 2
      else if after < tp then fbRelReq P { s with tstate := 2, dir := 1 } 1
      else { s with tstate := 2 }
    else { s with tstate := 2 }
  else s

/-- stage 2: the position is done (or not needed): start the tilt phase, or finish -/
def fbS2 (P : FbP) (s : FbT) (rawTilt tt : Int) : FbT :=
  if s.tstate = 2 ∧ s.dir = 0 then
    if rawTilt > tt ∧ tt ≠ -100 then fbRelReq P { s with tstate := 3, dir := 2 } 2
    else if rawTilt < tt ∧ tt ≠ -100 then fbRelReq P { s with tstate := 3, dir := 1 } 1
    else fbRelOff { s with tstate := 0, dir := 0 }
  else s

/-- stage 3: the (corrected) position has been reached: wait out the end-stop margin, then hand over to the tilt phase -/
def fbS3 (P : FbP) (s : FbT) (raw rawTilt tp dUp dDown : Int) : FbT :=
  if s.tstate = 2 ∧ ((s.dir = 2 ∧ raw ≤ tp - dUp) ∨ (s.dir = 1 ∧ raw ≥ tp + dDown)) then
    if raw = 0 ∧ inMargin P.fo s.upT (fbTaskMargin P) then s
    else if raw = 10000 ∧ (P.ttype = 2 ∨ P.ttype = 0 ∨ rawTilt = 10000) ∧ inMargin P.fc s.downT (fbTaskMargin P) then s
    else if P.tiltSupported then { s with dir := 0 } else fbRelOff { s with dir := 0 }
  else s

/-- stage 4: the tilt has been reached -/
def fbS4 (s : FbT) (rawTilt tt : Int) : FbT :=
  if s.tstate = 3 ∧ ((s.dir = 2 ∧ rawTilt ≤ tt) ∨ (s.dir = 1 ∧ rawTilt ≥ tt)) then fbRelOff { s with tstate := 0, dir := 0 }
  else s

def fbRawTilt (s : FbT) : Int := if (s.tilt : Int) - 100 < 0 then 0 else (s.tilt : Int) - 100

/-- supla_esp_gpio_rs_task_processing for a calibrated blind -/
def fbTaskStep (P : FbP) (s : FbT) : FbT :=
  if s.tstate = 0 then s
  else if !known s.pos then
    (if s.rel = 0 ∧ P.fo > 0 ∧ P.fc > 0 then fbRelReq P s (if s.target < 50 then 2 else 1) else s)
  else
    let raw : Int := (s.pos : Int) - 100
    let tp : Int := s.target * 100
    let tt : Int := s.ttarget * 100
    let pre := fbPreTilt P s raw (fbRawTilt s) tp tt
    fbS4 (fbS3 P (fbS2 P (fbS1 P s tp pre.1) (fbRawTilt s) tt) raw (fbRawTilt s) tp pre.2.1 pre.2.2) (fbRawTilt s) tt

def fbCommStep (s : FbT) (dt : Nat) : FbT :=
  if s.comm + dt ≥ 200000 then
    if s.upT > 600000000 ∨ s.downT > 600000000 then { fbRelOff s with comm := 0 } else { s with comm := 0 }
  else { s with comm := s.comm + dt }

/-- supla_esp_gpio_rs_add_task for a blind (position / tilt -1 = keep) -/
def fbAddTask (P : FbP) (s : FbT) (g gt : Int) : FbT :=
  let g := if g > 100 then 100 else g
  let gt := if gt > 100 then 100 else gt
  let atTarget := (reportedPos s.pos = g ∨ g = -1) ∧ (!P.tiltSupported ∨ reportedTilt P s.tilt = gt ∨ gt = -1)
  if atTarget ∧ ((g = -1 ∧ gt = -1) ∨ (s.tstate = 0 ∧ s.rel = 0)) then s
  else
    let g1 := if s.tstate ≠ 0 ∧ s.tstate ≠ 3 ∧ g = -1 then s.target else g
    let gt1 := if s.tstate ≠ 0 ∧ gt = -1 then s.ttarget else gt
    let g2 := if P.ttype = 3 ∧ g1 = -1 ∧ gt1 ≥ 0 then 100 else g1
    let gt2 := if P.ttype = 3 ∧ g2 ≠ 100 ∧ ¬ (g2 = -1 ∧ s.pos = 10100) then 0 else gt1
    { s with tstate := 1, target := g2, ttarget := gt2, dir := 0 }

def fbMoveCmd (P : FbP) (s : FbT) (want : Nat) : FbT :=
  if want = 0 then fbRelOff { s with tstate := 0, target := 0, ttarget := 0, dir := 0 }
  else fbRelReq P { s with tstate := 0, target := 0, ttarget := 0, dir := 0 } want

def fbTick (P : FbP) (s : FbT) (dt : Nat) : FbT := fbCommStep (fbTaskStep P (fbAccount P s dt)) dt

def fbRun (P : FbP) : FbT → List Nat → FbT
  | s, [] => s
  | s, dt :: dts => fbRun P (fbTick P s dt) dts

end SuplaVerif
