/-
  Model/RsPos — position/tilt bookkeeping of supla_esp_gpio_rs_move_position (supla_esp_rs_fb.c) in
  exact integer arithmetic.  Positions and tilts are in 0.01 % units offset by 100 (100 = 0 %, 10100 =
  100 %, 0 = unknown); times in µs.  The C code computes the same quantities in IEEE doubles and
  truncates; for the magnitudes involved (products below 2^53, quotients by 10000 or by a time below
  2^32) truncation of the double equals the integer floor — this is the modelling assumption the
  correspondence check validates.
-/
namespace SuplaVerif

structure MvCfg where
  fullMs : Nat       -- full opening/closing time of the direction of travel (ms)
  tiltMs : Nat       -- tilt_change_time (ms)
  ttype : Nat        -- FB_TILT_TYPE_*: 0 none, 1 keep position while tilting, 2 change position while
                     -- tilting, 3 tilting only at fully closed
  up : Bool
  deriving Repr, DecidableEq

structure Mv where
  pos : Nat
  tilt : Nat
  time : Nat         -- run time not yet converted (µs)
  deriving Repr, DecidableEq

def MvCfg.full (c : MvCfg) : Nat := c.fullMs * 1000
def MvCfg.fullTilt (c : MvCfg) : Nat := c.tiltMs * 1000
def MvCfg.tiltSupported (c : MvCfg) : Bool := c.tiltMs ≠ 0 && c.ttype ≠ 0
def MvCfg.fullPos (c : MvCfg) : Nat := if c.ttype = 1 ∨ c.ttype = 3 then c.full - c.fullTilt else c.full

/-- distance to the end stop in the direction of travel -/
def remaining (up : Bool) (x : Nat) : Nat := if up then x - 100 else 10100 - x

/-- tilt after the "unknown tilt becomes 0 %" and "tilting only at fully closed" adjustments -/
def tiltIn (c : MvCfg) (s : Mv) : Nat :=
  if c.ttype = 3 ∧ s.pos < 10100 then 100
  else if c.tiltSupported ∧ (s.tilt < 100 ∨ s.tilt > 10100) then 100 else s.tilt

def remTiltTime (c : MvCfg) (s : Mv) : Nat :=
  if c.ttype = 3 ∧ s.pos < 10100 then 0
  else if c.tiltSupported then remaining c.up (tiltIn c s) * c.fullTilt / 10000 else 0

/-- tilt step: new tilt and the time it consumed -/
def tiltStep (c : MvCfg) (s : Mv) : Nat × Nat :=
  if remTiltTime c s > 0 then
    if remTiltTime c s ≤ s.time then
      (if c.up then 100 else 10100, remaining c.up (tiltIn c s) * c.fullTilt / 10000)
    else
      (if c.up then tiltIn c s - 10000 * s.time / c.fullTilt else tiltIn c s + 10000 * s.time / c.fullTilt,
       (10000 * s.time / c.fullTilt) * c.fullTilt / 10000)
  else (tiltIn c s, 0)

def remPosTime (c : MvCfg) (s : Mv) : Nat :=
  if (tiltStep c s).2 > 0 ∧ (c.ttype = 1 ∨ c.ttype = 3) then 0
  else remaining c.up s.pos * c.fullPos / 10000

/-- position step: new position and the time it consumed (none: the tilt step's consumption stands) -/
def posStep (c : MvCfg) (s : Mv) : Nat × Option Nat :=
  if remPosTime c s > 0 then
    if remPosTime c s ≤ s.time then
      (if c.up then 100 else 10100, some (remaining c.up s.pos * c.fullPos / 10000))
    else
      (if c.up then s.pos - 10000 * s.time / c.fullPos else s.pos + 10000 * s.time / c.fullPos,
       some ((10000 * s.time / c.fullPos) * c.fullPos / 10000))
  else (s.pos, none)

/-- supla_esp_gpio_rs_move_position (bookkeeping part) -/
def movePos (c : MvCfg) (s : Mv) : Mv :=
  if s.pos < 100 ∨ s.pos > 10100 ∨ c.fullMs = 0 then s
  else
    { pos := (posStep c s).1,
      tilt := (tiltStep c s).1,
      time := s.time - ((posStep c s).2.getD (tiltStep c s).2) }

/-- one accounting callback `dt` µs after the previous one -/
def mvTick (c : MvCfg) (s : Mv) (dt : Nat) : Mv := movePos c { s with time := s.time + dt }

def mvRun (c : MvCfg) : Mv → List Nat → Mv
  | s, [] => s
  | s, dt :: dts => mvRun c (mvTick c s dt) dts

/-- supla_esp_gpio_rs_get_current_position: -1 (unknown) or 0..100 -/
def reportedPos (p : Nat) : Int := if 100 ≤ p ∧ p ≤ 10100 then ((p - 100 + 50) / 100 : Nat) else -1

end SuplaVerif
