/-
  Model/Debounce — supla_esp_input_debounce_timer_cb / supla_esp_input_start_debounce_timer
  (supla_esp_input.c): the sampling state machine that turns a raw input level into state-change
  notifications.  `minCycle` = INPUT_MIN_CYCLE_COUNT; samples are INPUT_CYCLE_TIME apart.
-/
namespace SuplaVerif

structure Deb where
  step  : Nat := 0      -- debounce_step (0 = idle, timer stopped)
  value : Bool := false -- debounce_value
  deriving Repr, DecidableEq

/-- edge interrupt: (re)start sampling only when idle -/
def Deb.edge (d : Deb) : Deb := if d.step = 0 then { d with step := 1 } else d

/-- one timer callback reading level `v`; returns the notification, if any -/
def Deb.sample (minCycle : Nat) (d : Deb) (v : Bool) : Deb × Option Bool :=
  if d.step = 0 then (d, none)                       -- timer not armed
  else if d.step = 1 ∨ d.value ≠ v then ({ step := 2, value := v }, none)
  else if d.step > minCycle then ({ step := 0, value := d.value }, some v)
  else ({ d with step := d.step + 1 }, none)

/-- run over a list of sampled levels (oldest first); notifications with their sample index -/
def Deb.run (minCycle : Nat) : Deb → Nat → List Bool → Deb × List (Nat × Bool)
  | d, _, [] => (d, [])
  | d, k, v :: vs =>
    let r := d.sample minCycle v
    let rest := Deb.run minCycle r.1 (k + 1) vs
    (rest.1, (match r.2 with | some n => [(k, n)] | none => []) ++ rest.2)

end SuplaVerif
