/-
  Model/UpdHdr — the HTTP response head as supla_esp_update_recv_cb reads it: bytes are collected until the
  first CR LF CR LF (at most maxHdr-1 of them), the three literals are searched with strstr (that is, up to
  the first NUL), and the decimal digits that follow the first "Content-Length: " are accumulated in a 32-bit
  int until the end of that line; only there the size gate is applied.
-/
import SuplaVerif.Base.Bytes
import SuplaVerif.Model.Update
namespace SuplaVerif
open Bytes

structure HdrParams where
  ok200 : Bytes        -- "HTTP/1.1 200 OK"
  ctype : Bytes        -- "Content-Type: application/octet-stream"
  clen : Bytes         -- "Content-Length: "
  maxHdr : Nat         -- MAX_HTTP_HEADER_SIZE
  deriving Repr, DecidableEq

/-- strstr on an already NUL-cut string: index of the first occurrence -/
def findSub (pat : Bytes) : Bytes → Option Nat
  | [] => if pat.isEmpty then some 0 else none
  | b :: bs => if pat.isPrefixOf (b :: bs) then some 0 else (findSub pat bs).map (· + 1)

def isEol (b : UInt8) : Bool := b == 13 || b == 10
def isDigit (b : UInt8) : Bool := 48 ≤ b && b ≤ 57

/-- the digit loop: (expected_file_size as a 32-bit pattern, the line end was reached) -/
def digitsLoop : Bytes → Nat → Nat × Bool
  | [], acc => (acc, false)
  | b :: rest, acc =>
    if isEol b then (acc, true)
    else if isDigit b then digitsLoop rest ((acc * 10 + (b.toNat - 48)) % 2 ^ 32)
    else (acc, false)

/-- the decision taken when the head is complete: (expected_file_size, update_step = DOWNLOADING) -/
def hdrScan (H : HdrParams) (P : UpdParams) (map : Nat) (h : Bytes) : Nat × Bool :=
  let s := cstr h
  if (findSub H.ok200 s).isSome && (findSub H.ctype s).isSome then
    match findSub H.clen s with
    | some i =>
      let r := digitsLoop (h.drop (i + H.clen.length)) 0
      (r.1, r.2 && decide (r.1 < 2 ^ 31) && sizeAccepted P map r.1)
    | none => (0, false)
  else (0, false)

def endsHead (acc : Bytes) : Bool := acc.drop (acc.length - 4) == [13, 10, 13, 10]

/-- collecting the head byte by byte: (collected bytes, status 0 = go on / 1 = complete / 2 = too long, bytes of the
    segment consumed) -/
def collect (maxHdr : Nat) : Bytes → Bytes → Nat → Bytes × Nat × Nat
  | acc, [], k => (acc, 0, k)
  | acc, b :: rest, k =>
    if acc.length ≥ maxHdr - 1 then (acc, 2, k)
    else if endsHead (acc ++ [b]) then (acc ++ [b], 1, k + 1)
    else collect maxHdr (acc ++ [b]) rest (k + 1)

end SuplaVerif
