/-
  Model/Countdown — src/user/supla_esp_countdown_timer.c: the per-channel items, the periodic
  callback (remaining-time bookkeeping on uptime_msec) and the adaptive period of the one shared
  timer (`time_left/10` clamped to [minP, maxP], re-armed only when it changes).
-/
namespace SuplaVerif

structure CdParams where
  minP : Nat    -- 50
  maxP : Nat    -- 1000
  div  : Nat    -- 10
  deriving Repr, DecidableEq

structure CdItem where
  channel  : Nat          -- 255 = free
  left     : Nat          -- time_left_ms
  last     : Nat          -- last_time (uptime ms)
  deriving Repr, DecidableEq

/-- period wanted by one running item -/
def cdPeriod (P : CdParams) (left : Nat) : Nat :=
  if left / P.div < P.minP then P.minP else if left / P.div > P.maxP then P.maxP else left / P.div

/-- one item in the callback at uptime `now`: (item', finished?) -/
def CdItem.tick (i : CdItem) (now : Nat) : CdItem × Bool :=
  if i.channel ≠ 255 ∧ i.left > 0 then
    if now - i.last ≥ i.left then ({ channel := 255, left := 0, last := now }, true)
    else ({ i with left := i.left - (now - i.last), last := now }, false)
  else (i, false)

/-- supla_esp_countdown_timer_startstop: the new delay (0 = timer stopped) -/
def cdDelay (P : CdParams) (items : List CdItem) : Nat :=
  items.foldl (fun d i =>
    if i.channel ≠ 255 ∧ i.left > 0 then
      (if d = 0 ∨ cdPeriod P i.left < d then cdPeriod P i.left else d)
    else d) 0

/-- the item is counting down -/
def CdItem.running (i : CdItem) : Prop := i.channel ≠ 255 ∧ i.left > 0

instance (i : CdItem) : Decidable i.running := by unfold CdItem.running; exact inferInstance

/-- the whole callback over the item table; `pub` = supla_esp_state.Time2Left, the remaining time published (and saved
    for a restart) per channel: a running item writes its new remaining time to the entry of its own channel -/
def cdTickAll (now : Nat) : List CdItem → List Nat → List CdItem × List Nat
  | [], pub => ([], pub)
  | i :: is, pub =>
    let r := i.tick now
    let pub' := if i.running ∧ i.channel < pub.length then pub.set i.channel r.1.left else pub
    let rest := cdTickAll now is pub'
    (r.1 :: rest.1, rest.2)

/-- the decision of supla_esp_gpio_relay_set_duration_timer for one channel -/
structure DurIn where
  time2 : Nat        -- supla_esp_cfg.Time2[channel]; 0 = no staircase time (or a channel outside the tables)
  newValue : Nat     -- the requested relay value
  dur : Nat          -- the requested duration (ms)
  left : Nat         -- supla_esp_state.Time2Left[channel] at the call
  cdFlag : Bool      -- SUPLA_CHANNEL_FLAG_COUNTDOWN_TIMER_SUPPORTED of the relay's channel
  deriving Repr, DecidableEq

/-- the duration after the staircase rule: OFF cancels, ON runs the configured time unless the request repeats the published
    remaining time (that is how the restore after a restart asks for the rest of a staircase run) -/
def DurIn.eff (i : DurIn) : Nat :=
  if i.time2 > 0 then
    if i.newValue = 0 then 0
    else if i.dur = 0 ∨ i.left ≠ i.dur then i.time2 else i.dur
  else i.dur

/-- a countdown item is armed -/
def DurIn.arms (i : DurIn) : Bool := decide (i.eff > 0) && (i.newValue == 1 || i.cdFlag)

/-- the value the item switches to -/
def DurIn.target (i : DurIn) : Nat := if i.newValue ≠ 0 then 0 else 1

end SuplaVerif
