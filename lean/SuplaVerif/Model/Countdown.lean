/-
  Model/Countdown — src/user/supla_esp_countdown_timer.c: the per-channel items, the periodic
  callback (remaining-time bookkeeping on uptime_msec) and the adaptive period of the one shared
  timer (`time_left/10` clamped to [minP, maxP], re-armed only when it changes).
-/
namespace SuplaVerif

structure CdParams where
  minP : Nat    -- 50
  maxP : Nat    -- 1000
  div  : Nat    -- 10
  deriving Repr, DecidableEq

structure CdItem where
  channel  : Nat          -- 255 = free
  left     : Nat          -- time_left_ms
  last     : Nat          -- last_time (uptime ms)
  deriving Repr, DecidableEq

/-- period wanted by one running item -/
def cdPeriod (P : CdParams) (left : Nat) : Nat :=
  if left / P.div < P.minP then P.minP else if left / P.div > P.maxP then P.maxP else left / P.div

/-- one item in the callback at uptime `now`: (item', finished?) -/
def CdItem.tick (i : CdItem) (now : Nat) : CdItem × Bool :=
  if i.channel ≠ 255 ∧ i.left > 0 then
    if now - i.last ≥ i.left then ({ channel := 255, left := 0, last := now }, true)
    else ({ i with left := i.left - (now - i.last), last := now }, false)
  else (i, false)

/-- supla_esp_countdown_timer_startstop: the new delay (0 = timer stopped) -/
def cdDelay (P : CdParams) (items : List CdItem) : Nat :=
  items.foldl (fun d i =>
    if i.channel ≠ 255 ∧ i.left > 0 then
      (if d = 0 ∨ cdPeriod P i.left < d then cdPeriod P i.left else d)
    else d) 0

end SuplaVerif
