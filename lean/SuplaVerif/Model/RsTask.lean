/-
  Model/RsTask — one accounting callback of supla_esp_gpio_rs_timer_cb for a roller shutter (no tilt,
  auto-calibration not enabled): run-time accounting, calibration by a full run, position bookkeeping
  (Model/RsPos), the end-stop margin of plain moves, the positioning task state machine
  (supla_esp_gpio_rs_task_processing) and the 10-minute limit inside the 200 ms reporting block.
  Relay switching is immediate here (the start/stop delays of set_relay are C08's subject: the
  scenarios keep the shutter at rest before a command).
-/
import SuplaVerif.Model.RsPos
namespace SuplaVerif

structure RsP where
  fo : Nat            -- full opening time (ms), 0 = not configured
  fc : Nat            -- full closing time (ms)
  margin : Nat        -- rs_time_margin: 110 (default) or the configured 0..100
  inMove : Bool       -- what the motor sensor reports (constant per run here)
  deriving Repr, DecidableEq

structure RsT where
  pos : Nat := 0      -- 0 unknown, 100..10100
  upT : Nat := 0      -- run time up not yet converted (µs)
  downT : Nat := 0
  rel : Nat := 0      -- 0 off, 1 down, 2 up
  tstate : Nat := 0   -- RS_TASK_*: 0 inactive, 1 active, 2 setting position, 3 setting tilt
  target : Nat := 0   -- task.position in percent
  dir : Nat := 0      -- task.direction: 0 none, 1 down, 2 up
  comm : Nat := 0     -- µs since the reporting block last ran
  pend : Nat := 0     -- armed delayed trigger: 0 none, 1 down, 2 up (supla_esp_gpio_rs_set_relay_delayed)
  sinceStop : Nat := 2000000  -- µs from the start of the callback/command that switched both outputs off
  lag : Nat := 0              -- µs from that instant to the stop stamp: the `down` relay is written second, one relay_hi later
  deriving Repr, DecidableEq

def known (p : Nat) : Bool := 100 ≤ p && p ≤ 10100

/-- a start is postponed when `RS_START_DELAY - elapsed_ms + 1 > 100`, i.e. while less than 901 ms have passed since the stop
    stamp (RS_START_DELAY 1000) -/
def startGate : Nat := 901000

/-- duration of one supla_esp_gpio_relay_hi (10 µs + RELAY_DOUBLE_TRY + 10 µs): set_relay(OFF) writes `up` first, then `down` -/
def relayHiUs : Nat := 10020


/-- supla_esp_gpio_rs_calibrate: an unknown position becomes the end position once the motor has run
    110 % of the full time in one direction -/
def calibrateStep (full : Nat) (t : Nat) (endPos : Nat) (p : Nat) : Nat :=
  if !known p && full > 0 then (if t / 1000 ≥ full * 11 / 10 then endPos else 0) else p

/-- the bookkeeping and the end-stop margin of a plain move for one direction -/
def account (P : RsP) (s : RsT) (dt : Nat) : RsT :=
  if s.rel = 2 then
    let t := s.upT + dt
    let p0 := calibrateStep P.fo t 100 s.pos
    let m := movePos { fullMs := P.fo, tiltMs := 0, ttype := 0, up := true } { pos := p0, tilt := 0, time := t }
    let off := decide (known m.pos ∧ P.fo ≠ 0 ∧ m.pos = 100 ∧ s.tstate = 0 ∧ m.time / 1000 ≥ P.fo * P.margin / 100)
    { s with pos := m.pos, upT := m.time, downT := 0, rel := if off then 0 else 2, sinceStop := if off then 0 else s.sinceStop,
             pend := if off then 0 else s.pend, lag := if off then 0 else s.lag }
  else if s.rel = 1 then
    let t := s.downT + dt
    let p0 := calibrateStep P.fc t 10100 s.pos
    let m := movePos { fullMs := P.fc, tiltMs := 0, ttype := 0, up := false } { pos := p0, tilt := 0, time := t }
    let off := decide (known m.pos ∧ P.fc ≠ 0 ∧ m.pos = 10100 ∧ s.tstate = 0 ∧ m.time / 1000 ≥ P.fc * P.margin / 100)
    { s with pos := m.pos, downT := m.time, upT := 0, rel := if off then 0 else 1, sinceStop := if off then 0 else s.sinceStop,
             pend := if off then 0 else s.pend, lag := if off then relayHiUs else s.lag }
  else { s with upT := 0, downT := 0, sinceStop := s.sinceStop + dt }

/-- the zero-margin guard at the moment an output would be energised -/
def guardOn (P : RsP) (s : RsT) (want : Nat) : Nat :=
  if P.margin = 0 ∧ ((want = 2 ∧ reportedPos s.pos = 0) ∨ (want = 1 ∧ reportedPos s.pos = 100)) then s.rel else want

/-- supla_esp_gpio_rs_set_relay for a direction: a pending trigger is dropped, the opposite output is
    switched off first; if the shutter stopped less than 0.9 s ago (start delay above 100 ms) the request is
    handed to the delayed trigger, otherwise the guarded output is energised now -/
def relReq (P : RsP) (s : RsT) (want : Nat) : RsT :=
  let s0 : RsT := { s with pend := 0 }
  let s1 : RsT := if s0.rel ≠ 0 ∧ s0.rel ≠ want then { s0 with rel := 0, sinceStop := 0, lag := 0 } else s0
  if s1.rel = 0 ∧ s1.sinceStop < startGate + s1.lag then { s1 with pend := want }
  else { s1 with rel := guardOn P s1 want }

/-- switching both outputs off -/
def relOff (s : RsT) : RsT :=
  { s with pend := 0, rel := 0, sinceStop := if s.rel ≠ 0 then 0 else s.sinceStop,
           lag := if s.rel = 1 then relayHiUs else if s.rel = 2 then 0 else s.lag }

/-- the delayed trigger fires: the stored request is executed (the start delay has passed) -/
def fireTrig (P : RsP) (s : RsT) : RsT :=
  if s.pend = 0 then s else { s with pend := 0, rel := guardOn P { s with pend := 0 } s.pend }

/-- margin used by a task at an end stop -/
def taskMargin (P : RsP) : Nat :=
  if P.margin < 110 then (if P.inMove ∧ P.margin < 50 then 50 else P.margin) else 5

/-- supla_esp_gpio_rs_time_margin: still inside the margin? -/
def inMargin (full t m : Nat) : Bool := full > 0 && t / 10 / full < m

def taskStep (P : RsP) (s : RsT) : RsT :=
  if s.tstate = 0 then s
  else if !known s.pos then
    -- calibration run towards the nearer end
    if s.rel = 0 ∧ P.fo > 0 ∧ P.fc > 0 then relReq P s (if s.target < 50 then 2 else 1) else s
  else
    let raw := s.pos - 100
    let tp := s.target * 100
    -- ACTIVE -> SETTING_POSITION, choose the direction
    let s1 : RsT :=
      if s.tstate = 1 then
        if raw > tp then relReq P { s with tstate := 2, dir := 2 } 2
        else if raw < tp then relReq P { s with tstate := 2, dir := 1 } 1
        else { s with tstate := 2 }
      else s
    -- no (more) position change needed: tilt phase; nothing to tilt -> finished
    let s2 : RsT :=
      if s1.tstate = 2 ∧ s1.dir = 0 then relOff { s1 with tstate := 0, dir := 0 } else s1
    -- position reached?
    if s2.tstate = 2 ∧ ((s2.dir = 2 ∧ raw ≤ tp) ∨ (s2.dir = 1 ∧ raw ≥ tp)) then
      if raw = 0 ∧ inMargin P.fo s2.upT (taskMargin P) then s2
      else if raw = 10000 ∧ inMargin P.fc s2.downT (taskMargin P) then s2
      else relOff { s2 with dir := 0 }
    else s2

/-- reporting block every 200 ms: the 10-minute limit -/
def commStep (s : RsT) (dt : Nat) : RsT :=
  if s.comm + dt ≥ 200000 then
    if s.upT > 600000000 ∨ s.downT > 600000000 then { relOff s with comm := 0 } else { s with comm := 0 }
  else { s with comm := s.comm + dt }

/-- supla_esp_gpio_rs_add_task for a roller shutter: nothing to do when the reported position already is
    the target and the shutter is at rest; otherwise the task becomes active (a running task or move is replaced) -/
def addTask (s : RsT) (g : Nat) : RsT :=
  if reportedPos s.pos = (g : Int) ∧ s.tstate = 0 ∧ s.rel = 0 then s else { s with tstate := 1, target := g, dir := 0 }

/-- a plain move / stop command from the server or a button: cancels the task -/
def moveCmd (P : RsP) (s : RsT) (want : Nat) : RsT :=
  if want = 0 then relOff { s with tstate := 0, target := 0, dir := 0 }
  else relReq P { s with tstate := 0, target := 0, dir := 0 } want

def rsTick (P : RsP) (s : RsT) (dt : Nat) : RsT := commStep (taskStep P (account P s dt)) dt

def rsRun (P : RsP) : RsT → List Nat → RsT
  | s, [] => s
  | s, dt :: dts => rsRun P (rsTick P s dt) dts

end SuplaVerif
