/-
  Model/Mqtt — src/user/mqtt.c (MQTT-C): fixed header and PUBLISH unpacking at byte level;
  src/user/supla_esp_mqtt.c: decimal rendering `supla_esp_mqtt_prepare_val`.
-/
import SuplaVerif.Base.Bytes
namespace SuplaVerif
open Bytes

/-- result of unpacking: negative error class, 0 = need more bytes, or a packet -/
inductive MqttErr | forbiddenType | invalidFlags | invalidRemLen | malformed | otherType
  deriving Repr, DecidableEq

structure Publish where
  qos : Nat
  dup : Nat
  retain : Nat
  pid : Nat
  topicOff : Nat               -- offsets are relative to the start of the packet
  topicLen : Nat
  payloadOff : Nat
  payloadLen : Nat
  consumed : Nat
  deriving Repr, DecidableEq

inductive MqttRes
  | err (e : MqttErr)
  | needMore
  | publish (p : Publish)
  deriving Repr, DecidableEq

/-- the variable-length "remaining length": returns (value, bytes used) or none = need more /
    some none = invalid.  `i` = index of the current length byte, `k` = bytes decoded so far. -/
def remLen (b : Bytes) : Nat → Nat → Nat → Nat → Option (Option (Nat × Nat))
  | 0, _, _, _ => some none
  | fuel + 1, i, shift, acc =>
    if shift = 28 then some none
    else if i ≥ b.length then none
    else
      let x := (b.getD i 0).toNat
      let acc' := acc + (x % 128) * 2 ^ shift
      if x ≥ 128 then remLen b fuel (i + 1) (shift + 7) acc' else some (some (acc', i + 1))

/-- the length bytes mqtt_pack_fixed_header writes for a remaining length (`fuel` = at most that many bytes) -/
def encRem : Nat → Nat → Bytes
  | 0, _ => []
  | fuel + 1, n =>
    if n > 127 then UInt8.ofNat (n % 128 + 128) :: encRem fuel (n / 128) else [UInt8.ofNat (n % 128)]

/-- mqtt_pack_fixed_header: first byte and length bytes; lengths of 2^28 and more are refused -/
def packHeader (ty flags rem : Nat) : Option Bytes :=
  if rem ≥ 268435456 then none else some (UInt8.ofNat (ty % 16 * 16 + flags % 16) :: encRem 4 rem)

/-- bytes of the packet id in the variable header -/
def pidLen (qos : Nat) : Nat := if qos > 0 then 2 else 0

/-- mqtt_unpack_publish_response on `body` = the packet after the fixed header of `hdr` bytes -/
def unpackPublish (flags rem hdr : Nat) (body : Bytes) : MqttRes :=
  if rem < 4 then .err .malformed
  else if be16 body + 2 + pidLen (flags / 2 % 4) > rem then .err .malformed
  else
    .publish { qos := flags / 2 % 4, dup := flags / 8 % 2, retain := flags % 2,
               pid := if flags / 2 % 4 > 0 then be16 (body.drop (2 + be16 body)) else 0,
               topicOff := hdr + 2, topicLen := be16 body,
               payloadOff := hdr + 2 + be16 body + pidLen (flags / 2 % 4),
               payloadLen := rem - (2 + be16 body + pidLen (flags / 2 % 4)),
               consumed := hdr + rem }

/-- valid type/flags of a non-PUBLISH packet: its flags must be 2 for PUBREL/SUBSCRIBE/UNSUBSCRIBE
    and 0 otherwise -/
def otherPacket (ty flags rem hdr len : Nat) : MqttRes :=
  if flags ≠ (if ty = 6 ∨ ty = 8 ∨ ty = 10 then 2 else 0) then .err .invalidFlags
  else if len - hdr < rem then .needMore else .err .otherType

/-- mqtt_unpack_response restricted to PUBLISH packets (other valid types: `otherType`) -/
def unpackResponse (b : Bytes) : MqttRes :=
  if b.length = 0 then .needMore
  else
    let ty := (b.getD 0 0).toNat / 16
    let flags := (b.getD 0 0).toNat % 16
    -- the do-while consumes the type byte first; a 1-byte buffer needs more
    if b.length = 1 then .needMore
    else match remLen b 5 1 0 0 with
      | none => .needMore
      | some none => .err .invalidRemLen
      | some (some (rem, hdr)) =>
        if ty = 0 ∨ ty = 15 then .err .forbiddenType
        else if ty ≠ 3 then otherPacket ty flags rem hdr b.length
        else if b.length - hdr < rem then .needMore
        else unpackPublish flags rem hdr (b.drop hdr)

/-! ### decimal rendering -/

/-- digits of n, most significant first ("" for 0) -/
def digitsAux : Nat → Nat → List Nat → List Nat
  | 0, _, acc => acc
  | fuel + 1, n, acc => if n = 0 then acc else digitsAux fuel (n / 10) (n % 10 :: acc)

def digits (n : Nat) : List Nat := digitsAux 25 n []

/-- strip up to `p` trailing zeros (the first loop of prepare_val): returns (value', p') -/
def stripZeros : Nat → Nat → Nat → Nat × Nat
  | 0, v, p => (v, p)
  | fuel + 1, v, p => if p > 0 ∧ v ≠ 0 ∧ v % 10 = 0 then stripZeros fuel (v / 10) (p - 1) else (v, p)

/-- supla_esp_mqtt_prepare_val: `raw` is the 64-bit pattern of the argument -/
def prepareVal (isUnsigned : Bool) (raw : Nat) (precision : Nat) : String :=
  let neg := !isUnsigned && raw ≥ 2 ^ 63
  let mag := if neg then 2 ^ 64 - raw else raw
  let (v, p) := stripZeros 25 mag (precision % 256)
  let ds := digits v
  let body :=
    if v = 0 then "0"
    else if p = 0 then String.join (ds.map toString)
    else if p ≥ ds.length then
      "0." ++ String.join ((List.replicate (p - ds.length) 0 ++ ds).map toString)
    else
      String.join ((ds.take (ds.length - p)).map toString) ++ "." ++
        String.join ((ds.drop (ds.length - p)).map toString)
  (if neg then "-" else "") ++ body

end SuplaVerif
