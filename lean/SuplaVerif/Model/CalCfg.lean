/-
  Model/CalCfg — the decision logic of supla_esp_calcfg_request (supla_esp_devconn.c):
  which CALCFG requests start configuration mode or discard a shutter's calibration.
-/
namespace SuplaVerif

structure CalConsts where
  cmdEnterCfg    : Nat   -- SUPLA_CALCFG_CMD_ENTER_CFG_MODE
  cmdRecalibrate : Nat   -- SUPLA_CALCFG_CMD_RECALIBRATE
  dtRsSettings   : Nat   -- SUPLA_CALCFG_DATATYPE_RS_SETTINGS
  rsSettingsSize : Nat   -- sizeof(TCalCfg_RollerShutterSettings)
  resDone        : Nat   -- SUPLA_CALCFG_RESULT_DONE
  resUnauth      : Nat   -- SUPLA_CALCFG_RESULT_UNAUTHORIZED
  resNotSupp     : Nat   -- SUPLA_CALCFG_RESULT_NOT_SUPPORTED
  deriving Repr, DecidableEq

structure CalReq where
  channel  : Int         -- _supla_int_t ChannelNumber
  command  : Int
  auth     : Nat         -- char SuperUserAuthorized (0..255)
  dataType : Int
  dataSize : Nat
  deriving Repr, DecidableEq

/-- a shutter as the handler sees it: its channel and whether the channel carries
    SUPLA_CHANNEL_FLAG_CALCFG_RECALIBRATE -/
structure RsChan where
  channel : Nat
  recalFlag : Bool
  deriving Repr, DecidableEq

structure CalOut where
  result : Nat
  enterCfg : Bool := false
  recalibrated : List Nat := []      -- indices of shutters whose calibration is discarded
  deriving Repr, DecidableEq

/-- shutters matched by a recalibrate request -/
def matching (req : CalReq) (rs : List RsChan) : List Nat :=
  (List.range rs.length).filter (fun i =>
    match rs[i]? with
    | some r => (r.channel : Int) == req.channel && r.recalFlag
    | none => false)

def calcfg (K : CalConsts) (req : CalReq) (rs : List RsChan) : CalOut :=
  if req.command = K.cmdEnterCfg then
    if req.auth = 1 then { result := K.resDone, enterCfg := true }
    else { result := K.resUnauth }
  else if req.command = K.cmdRecalibrate ∧
      ((req.dataType = K.dtRsSettings ∧ req.dataSize = K.rsSettingsSize) ∨ req.dataType = 0) then
    if matching req rs = [] then { result := K.resNotSupp }
    else if req.auth = 0 then { result := K.resUnauth }
    else { result := K.resDone, recalibrated := matching req rs }
  else { result := K.resNotSupp }

end SuplaVerif

namespace SuplaVerif

/-- what user_init (user_main.c) looks at when it decides between normal operation and the open configuration mode -/
structure BootCfg where
  locId0 : Bool     -- LocationID == 0
  locPwd0 : Bool    -- LocationPwd[0] == 0 (the MQTT password shares the field)
  email0 : Bool     -- Email[0] == 0 (the MQTT user name shares the field)
  server0 : Bool
  wifiPwd0 : Bool
  ssid0 : Bool
  mqttEnabled : Bool := false   -- CFG_FLAG_MQTT_ENABLED
  mqttNoAuth : Bool := false    -- CFG_FLAG_MQTT_NO_AUTH
  locked : Bool := false        -- CFG_FLAG_DEVICE_LOCKED
  deriving Repr, DecidableEq

/-- build without MQTT support: configuration mode at boot -/
def bootCfgModeBase (c : BootCfg) : Bool :=
  ((c.locId0 || c.locPwd0) && c.email0) || c.server0 || c.wifiPwd0 || c.ssid0

/-- build with MQTT support -/
def bootCfgModeMqtt (c : BootCfg) : Bool :=
  (c.ssid0 || c.wifiPwd0 ||
    (c.mqttEnabled && (c.server0 || (!c.mqttNoAuth && (c.email0 || c.locPwd0)))) ||
    (!c.mqttEnabled && (c.server0 || c.email0))) ||
  (c.mqttEnabled && c.locked)

end SuplaVerif
