/-
  Model/GetData — the size validation of srpc_getdata as data: one entry per `case` of its
  switch (Gen/GetData.lean is regenerated from the preprocessed source on every run).
-/
import SuplaVerif.Base.Bytes
namespace SuplaVerif
open Bytes

/-- how a case validates `data_size` -/
inductive GdCheck
  | exact (sizes : List Nat)                 -- data_size == sizeof(T) [|| == sizeof(T')]
  | valid (main item max fieldOff fieldW : Nat) (fieldSigned : Bool)   -- VALID_SIZE(...)
  | noData                                   -- call_with_no_data = 1
  | other                                    -- a shape the translator does not model
  deriving Repr, DecidableEq

structure GdEntry where
  callId : Nat
  check  : GdCheck
  alloc  : Nat            -- bytes allocated for the copy
  deriving Repr, DecidableEq

/-- little-endian unsigned read of `w` bytes at `off` -/
def readField (p : Bytes) (off w : Nat) : Nat :=
  ((p.drop off).take w).foldr (fun b acc => b.toNat + 256 * acc) 0

/-- the value of the size field as converted to size_t by the C comparison; a negative signed
    field becomes a huge number (2^64 - k on the LP64 harness, 2^32 - k on the device): in both
    cases larger than any data_size, so it is represented by `none` = never equal -/
def fieldVal (p : Bytes) (off w : Nat) (signed : Bool) : Option Nat :=
  let v := readField p off w
  if signed ∧ v ≥ 2 ^ (8 * w - 1) then none else some v

/-- does this case accept a packet with `ds` payload bytes `p`?  (`some true` = pointer set,
    data copied; `some false` = DATA_ERROR; `none` = shape not modelled) -/
def GdCheck.accepts (c : GdCheck) (ds : Nat) (p : Bytes) : Option Bool :=
  match c with
  | .exact sizes => some (sizes.contains ds)
  | .valid main item max fieldOff fieldW sg =>
    some (decide (main - item * max ≤ ds) && decide (ds ≤ main) &&
      (match fieldVal p fieldOff fieldW sg with
       | none => false
       | some v => v * item == ds - (main - item * max)))
  | .noData => some true
  | .other => none

/-- srpc_getdata's verdict for a popped packet: TRUE (1) or DATA_ERROR (-2) -/
def getdataResult (tbl : List GdEntry) (callId ds : Nat) (p : Bytes) : Option Int :=
  match tbl.find? (fun e => e.callId == callId) with
  | none => some (-2)                       -- no case: pointer stays NULL
  | some e => (e.check.accepts ds p).map (fun b => if b then 1 else -2)

/-- well-formedness of one table row: everything the copy needs -/
def GdEntry.Safe (e : GdEntry) : Prop :=
  match e.check with
  | .exact sizes => e.alloc ∈ sizes ∧ ∀ n ∈ sizes, n ≤ e.alloc   -- the full structure is accepted, nothing longer is
  | .valid main item max fieldOff fieldW _ =>
      main ≤ e.alloc ∧ item * max ≤ main ∧ fieldOff + fieldW ≤ main - item * max ∧ 0 < item
  | .noData => True
  | .other => True

instance (e : GdEntry) : Decidable e.Safe := by
  unfold GdEntry.Safe; cases e.check <;> infer_instance

end SuplaVerif
