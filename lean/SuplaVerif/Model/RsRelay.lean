/-
  Model/RsRelay — the only code that energises roller-shutter outputs:
  `supla_esp_gpio_rs_set_relay` (supla_esp_rs_fb.c), the delayed trigger, and the stamp
  bookkeeping of `supla_esp_gpio_relay_hi` (supla_esp_gpio.c) for the two relays of one shutter.
  True time `now` is in µs; the hardware counter is `cnt boot now`.
-/
import SuplaVerif.Model.Uptime
namespace SuplaVerif

structure RsParams where
  startDelay : Nat   -- RS_START_DELAY (ms)
  stopDelay  : Nat   -- RS_STOP_DELAY (ms)
  thresh     : Nat   -- literal 100 (ms): shorter delays are not scheduled
  oppUs      : Nat   -- os_delay_us(10000) after forcing the opposite output off
  preUs      : Nat   -- os_delay_us(10) before the GPIO write in relay_hi
  dblUs      : Nat   -- RELAY_DOUBLE_TRY
  postUs     : Nat   -- os_delay_us(10) at the end of relay_hi
  deriving Repr, DecidableEq

inductive RsObs
  /-- GPIO level change of `pin` at true time `t`; `offSince` is a ghost: the instant the shutter
      last became all-off (entry time of that relay_hi), recorded when an output is energised -/
  | gpio (pin : Nat) (level : Bool) (t : Nat) (offSince : Option Nat)
  | mismatch (what : String)
  deriving Repr, DecidableEq

structure Rs where
  up       : Bool := false        -- level of the `up` relay
  down     : Bool := false
  startT   : Nat := 0             -- rs_cfg->start_time (0 = unset)
  stopT    : Nat := 0             -- rs_cfg->stop_time
  trig     : Option (Nat × Nat) := none   -- armed delayed trigger: (value, due true time)
  now      : Nat := 0
  boot     : Nat := 0
  offSince : Option Nat := none   -- ghost
  deriving Repr, DecidableEq

/-- the counter value relay_hi stores as start/stop stamp: 0 means "not set", so a reading of 0 is stored as 1 -/
def stamp (c : Nat) : Nat := if c = 0 then 1 else c

namespace Rs

/-- supla_esp_gpio_relay_hi for relay `isUp` of this shutter; `pin` only labels the observation -/
def relayHi (P : RsParams) (s : Rs) (isUp : Bool) (pin : Nat) (hi : Bool) : Rs × List RsObs :=
  let t := stamp (cnt s.boot s.now)
  let entry := s.now
  let wt := s.now + P.preUs
  let old := if isUp then s.up else s.down
  let obs := if old ≠ hi then [RsObs.gpio pin hi wt (if hi then s.offSince else none)] else []
  let up' := if isUp then hi else s.up
  let down' := if isUp then s.down else hi
  let wasOn := s.up || s.down
  let s1 := { s with up := up', down := down', now := s.now + P.preUs + P.dblUs + P.postUs }
  if !up' && !down' then
    ({ s1 with startT := 0, stopT := if s.stopT = 0 then t else s.stopT,
               offSince := if wasOn then some entry else s.offSince }, obs)
  else
    ({ s1 with startT := if s.startT = 0 then t else s.startT, stopT := 0 }, obs)

/-- first step of a direction command: the opposite output (`value == RS_RELAY_UP ? down : up`)
    is forced off, followed by os_delay_us(10000) -/
def forceOpp (P : RsParams) (s : Rs) (value : Nat) (pinUp pinDown : Nat) : Rs × List RsObs :=
  if value = 2 then
    if s.down then
      let r := relayHi P s false pinDown false
      ({ r.1 with now := r.1.now + P.oppUs }, r.2)
    else (s, [])
  else
    if s.up then
      let r := relayHi P s true pinUp false
      ({ r.1 with now := r.1.now + P.oppUs }, r.2)
    else (s, [])

/-- delay (ms) before a start, from the stop stamp; 0 = none -/
def startDelayOf (P : RsParams) (s : Rs) : Nat :=
  if P.startDelay ≠ 0 ∧ s.startT = 0 ∧ s.stopT > 0 ∧
      subw (cnt s.boot s.now) s.stopT / 1000 < P.startDelay
  then P.startDelay - subw (cnt s.boot s.now) s.stopT / 1000 + 1 else 0

/-- delay (ms) before a stop requested with stop_delay = 1, from the start stamp -/
def stopDelayOf (P : RsParams) (s : Rs) (stopDelay : Bool) : Nat :=
  if P.stopDelay ≠ 0 ∧ stopDelay = true ∧ s.startT > 0 ∧ s.stopT = 0 ∧
      subw (cnt s.boot s.now) s.startT / 1000 < P.stopDelay
  then P.stopDelay - subw (cnt s.boot s.now) s.startT / 1000 + 1 else 0

/-- last block of set_relay: energise one output or switch both off -/
def act (P : RsParams) (s : Rs) (value : Nat) (blockUp blockDown : Bool) (pinUp pinDown : Nat) :
    Rs × List RsObs :=
  if value = 2 then
    if blockUp then (s, []) else relayHi P s true pinUp true
  else if value = 1 then
    if blockDown then (s, []) else relayHi P s false pinDown true
  else
    let r1 := relayHi P s true pinUp false
    let r2 := relayHi P r1.1 false pinDown false
    (r2.1, r1.2 ++ r2.2)

/-- supla_esp_gpio_rs_set_relay (the part that concerns the outputs).  `blockUp/blockDown`: the
    "already fully open/closed with zero margin" guard evaluated by the caller's state. -/
def setRelay (P : RsParams) (s : Rs) (value : Nat) (stopDelay : Bool) (blockUp blockDown : Bool)
    (pinUp pinDown : Nat) : Rs × List RsObs :=
  if value = 0 then
    if stopDelayOf P s stopDelay > P.thresh then
      ({ s with trig := some (value, s.now + stopDelayOf P s stopDelay * 1000) }, [])
    else act P { s with trig := none } value blockUp blockDown pinUp pinDown
  else
    let r0 := forceOpp P { s with trig := none } value pinUp pinDown
    if startDelayOf P r0.1 > P.thresh then
      ({ r0.1 with trig := some (value, r0.1.now + startDelayOf P r0.1 * 1000) }, r0.2)
    else
      let r := act P r0.1 value blockUp blockDown pinUp pinDown
      (r.1, r0.2 ++ r.2)

/-- the delayed trigger fires (supla_esp_gpio_rs_set_relay_delayed) -/
def fireTrigger (P : RsParams) (s : Rs) (blockUp blockDown : Bool) (pinUp pinDown : Nat) :
    Rs × List RsObs :=
  match s.trig with
  | none => (s, [.mismatch "trigger not armed"])
  | some (v, _) => setRelay P s v false blockUp blockDown pinUp pinDown

/-- motor direction swap by channel config: the `up`/`down` roles are exchanged -/
def swap (s : Rs) : Rs := { s with up := s.down, down := s.up }

end Rs
end SuplaVerif
