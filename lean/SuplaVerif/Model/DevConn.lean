/-
  Model/DevConn — connection life cycle of supla_esp_devconn.c as the SDK drives it:
  start/stop, wifi status callback, DNS result, connect/disconnect callbacks, the delayed reconnect and
  stop timers, the 100 ms iterate (registration request), received register results and
  device-originated traffic.  `epoch` is a ghost: the frames handed to the connection since its
  connect callback.
-/
namespace SuplaVerif

inductive DcFrame
  | reg
  | other
  deriving Repr, DecidableEq

structure Dc where
  started : Bool := false
  srpc : Bool := false            -- devconn->srpc != NULL
  registered : Int := 0           -- 0 not sent, -1 request sent, 1 accepted
  resolving : Bool := false       -- devconn->resolving_started
  pending : Bool := false         -- espconn_connect requested, connect callback not yet delivered
  up : Bool := false              -- connection established (SDK side)
  reconTimer : Bool := false      -- reconnect_delay_timer armed
  stopTimer : Bool := false       -- stop_delay_timer armed
  closing : Bool := false         -- an established connection was closed by the device (espconn_disconnect): until the SDK
                                  -- reports the close (disconnect callback) the server's last segments may still arrive
  stale : Bool := false           -- ghost: bytes of a closed connection sit in the receive staging buffer
  epoch : List DcFrame := []      -- ghost
  deriving Repr, DecidableEq

inductive DcEv
  | start                 -- supla_esp_devconn_start
  | gotIp                 -- wifi status callback with STATION_GOT_IP
  | dnsFound (ok : Bool)  -- final DNS outcome (supla_esp_devconn_dns__found)
  | connectCb             -- SDK: the requested connection is established
  | iterate               -- 100 ms timer
  | regOk                 -- a REGISTER_DEVICE_RESULT "true" arrives (recv callback)
  | regRefused            -- any other result code arrives
  | otherMsg              -- any other server message arrives
  | disconnectCb          -- SDK: connection closed
  | reconFire             -- reconnect_delay_timer fires: stop + start
  | stopFire              -- stop_delay_timer fires: stop
  | localEv               -- input/relay/timer event that makes the device want to talk
  | lateData              -- SDK: data arrives on a connection the device has asked to close (no protocol instance reads it)
  deriving Repr, DecidableEq

/-- first half of supla_esp_devconn_iterate: send the registration request once -/
def Dc.sendReg (s : Dc) : Dc :=
  if s.srpc ∧ s.registered = 0 then
    { s with registered := -1, epoch := if s.up then s.epoch ++ [DcFrame.reg] else s.epoch }
  else s

def Dc.stop (s : Dc) : Dc :=
  { s with registered := 0, started := false, srpc := false, up := false, closing := s.up || s.closing }

/-- `none`: the SDK cannot deliver this event in this state (callback without a request, timer not
    armed, data on a closed connection) -/
def Dc.step (s : Dc) : DcEv → Option Dc
  | .start => some { s with started := true, reconTimer := false }
  | .gotIp =>
    if s.started ∧ ¬ s.srpc ∧ ¬ s.resolving then some { s with resolving := true, up := false, closing := s.up || s.closing }
    else some s
  | .dnsFound ok =>
    if s.resolving then
      if ok then some { s with resolving := false, up := false, pending := true, closing := s.up || s.closing }
      else some { s with resolving := false }
    else none
  | .connectCb =>
    -- (SDK contract: the close of the previous connection is reported before the next one is established)
    if s.pending ∧ ¬ s.closing then some { s with pending := false, up := true, srpc := true, registered := 0, epoch := [] }
    else none
  | .iterate => if s.srpc then some s.sendReg else none      -- the iterate timer runs only with a protocol instance
  -- (a message is read by the protocol instance as long as there is one: on the established connection, or - where the device
  -- closed the connection without freeing the instance, the second DNS answer - until the close is reported)
  | .regOk =>
    if (s.up ∨ s.closing) ∧ s.srpc then some { s.sendReg with registered := 1 } else none
  | .regRefused =>
    if (s.up ∨ s.closing) ∧ s.srpc then some { s.sendReg with stopTimer := true } else none
  | .otherMsg =>
    if (s.up ∨ s.closing) ∧ s.srpc then some s.sendReg else none
  | .disconnectCb =>
    -- supla_esp_devconn_disconnect_cb clears both staging buffers
    if s.up ∨ s.closing then some { s with up := false, closing := false, stale := false, reconTimer := s.started || s.reconTimer }
    else none
  | .reconFire =>
    if s.reconTimer then some { s.stop with started := true, reconTimer := false } else none
  | .stopFire =>
    if s.stopTimer then some { s.stop with stopTimer := false } else none
  | .localEv =>
    if s.srpc ∧ s.registered = 1 ∧ s.up then some { s with epoch := s.epoch ++ [DcFrame.other] } else some s
  | .lateData =>
    if s.closing ∧ ¬ s.up ∧ ¬ s.srpc then some { s with stale := true } else none

def Dc.run : Dc → List DcEv → Option Dc
  | s, [] => some s
  | s, e :: es => match s.step e with
    | some s' => s'.run es
    | none => none

end SuplaVerif
