/-
  Model/Dns — src/user/supla_esp_dns_client.c: the reply parser `supla_esp_dns_recv_cb` at byte
  level (with the list of indices it reads, so that "stays inside the received buffer" is a
  theorem about the model), and the request state machine (resolve / result / retry / timeout).
  Timers are abstracted to "armed" flags; the environment decides when an armed timer fires.
-/
import SuplaVerif.Base.Bytes
namespace SuplaVerif
open Bytes

structure DnsParams where
  servers   : Nat   -- DNS_SERVER_COUNT
  minLen    : Nat   -- DOMAIN_MIN_LEN
  maxLen    : Nat   -- DOMAIN_MAX_LEN
  hdrLen    : Nat   -- sizeof(unsigned short) + sizeof(_t_dns_header) = 14
  qSuffix   : Nat   -- sizeof(_t_dns_question_suffix) = 4
  aSuffix   : Nat   -- sizeof(_t_dns_answer_suffix) = 10
  deriving Repr, DecidableEq

inductive DnsVerdict
  | fail                      -- supla_esp_dns_result() (retry or failure)
  | ignore                    -- silent return; the timeout timer will end the attempt
  | ok (ip : Bytes)           -- address taken, success := 1, disconnect
  deriving Repr, DecidableEq

/-- the name-skipping loop: first index `a` at which a compression pointer (top two bits set;
    a := a + 2) or the root label (a := a + 1) is found, else `len` -/
def skipName (p : Bytes) (base len : Nat) : Nat → Nat → Nat
  | 0, a => a
  | fuel + 1, a =>
    if a < len then
      if (p.getD (base + a) 0).toNat / 64 = 3 then a + 2
      else if p.getD (base + a) 0 = 0 then a + 1
      else skipName p base len fuel (a + 1)
    else a

/-- indices (into the received buffer) read by the loop -/
def skipReads (p : Bytes) (base len : Nat) : Nat → Nat → List Nat
  | 0, _ => []
  | fuel + 1, a =>
    if a < len then
      (base + a) ::
        (if (p.getD (base + a) 0).toNat / 64 = 3 then []
         else if p.getD (base + a) 0 = 0 then []
         else skipReads p base len fuel (a + 1))
    else []

/-- supla_esp_dns_recv_cb; `R` = request.data_len.  Returns the verdict and every index of
    `p` that is read or written (the in-place ntohs writes touch the same indices). -/
def dnsRecv (P : DnsParams) (R : Nat) (p : Bytes) : DnsVerdict × List Nat :=
  if p.length < R ∨ be16 p ≠ p.length - 2 then (.fail, if p.length < R then [] else [0, 1])
  else
    let an := be16 (p.drop 8)
    let rcode := (p.getD 5 0).toNat % 16
    if rcode ≠ 0 ∨ an < 1 then (.fail, [0, 1, 5, 8, 9])
    else
      let len := p.length - R
      let a := skipName p R len len 0
      let rd := [0, 1, 5, 8, 9] ++ skipReads p R len len 0
      if a + P.aSuffix ≥ len then (.fail, rd)
      else
        let s := p.drop (R + a)
        let rd := rd ++ (List.range P.aSuffix).map (R + a + ·)
        if be16 s ≠ 1 ∨ be16 (s.drop 2) ≠ 1 ∨ be16 (s.drop 8) ≠ 4 ∨
            a + P.aSuffix + be16 (s.drop 8) > len then (.ignore, rd)
        else (.ok ((s.drop P.aSuffix).take 4), rd ++ (List.range 4).map (R + a + P.aSuffix + ·))

/-- request state -/
structure Dns where
  success    : Bool := false
  ip         : Bytes := [0, 0, 0, 0]
  tries      : Nat := 0
  pending    : Bool := false      -- dns_query_result_cb != NULL
  hasReq     : Bool := false      -- request.data != NULL
  reqLen     : Nat := 0           -- request.data_len (stale after release, as in C)
  timeoutArmed : Bool := false
  retryArmed : Bool := false
  connOpen   : Bool := false      -- environment: a connect was requested and not yet closed
  closing    : Bool := false      -- environment: the firmware closed a requested connection; the SDK may still
                                  -- deliver its disconnect callback (until the next connect)
  connScript : List Bool := []    -- environment: will the SDK accept the next connection requests (espconn_connect = 0)?
  deriving Repr, DecidableEq

inductive DnsEv
  | resolve (name : Option Bytes) (mallocOk : Bool)
  | connected (sentOk : Bool)      -- connect callback; result of espconn_sent
  | reply (p : Bytes)
  | disconnected                   -- disconnect callback
  | fireTimeout
  | fireRetry
  deriving Repr

inductive DnsObs
  | callback (ip : Option Bytes)
  | connect (server : Nat)
  | connectRefused
  | sent (hasReq : Bool) (len : Nat)
  | disconnect
  | notArmed
  | noConn
  deriving Repr, DecidableEq

namespace Dns

/-- supla_esp_dns_result -/
def result (P : DnsParams) (s : Dns) : Dns × List DnsObs :=
  if s.success = false ∧ s.tries < P.servers then ({ s with retryArmed := true }, [])
  else
    let s := { s with hasReq := false, retryArmed := false }
    if s.pending then
      ({ s with pending := false }, [.callback (if s.success then some s.ip else none)])
    else (s, [])

/-- supla_esp_dns__resolve -/
def doResolve (P : DnsParams) (s : Dns) : Dns × List DnsObs :=
  if s.connScript.head? = some false then
    -- espconn_connect fails at once: nothing is pending and no callback will come; the timeout timer (armed before) goes on
    ({ s with success := false, ip := [0, 0, 0, 0], timeoutArmed := true, tries := s.tries + 1,
              connOpen := false, closing := s.connOpen || s.closing, connScript := s.connScript.tail },
     [.disconnect, .connectRefused])
  else
    ({ s with success := false, ip := [0, 0, 0, 0], timeoutArmed := true, tries := s.tries + 1,
              connOpen := true, closing := false, connScript := s.connScript.tail },
     [.disconnect, .connect (s.tries % P.servers)])

def step (P : DnsParams) (s : Dns) : DnsEv → Dns × List DnsObs
  | .resolve name mallocOk =>
    let s := { s with timeoutArmed := false, retryArmed := false, hasReq := false, pending := true,
                      success := false, tries := P.servers }
    match name with
    | none => result P s
    | some n =>
      if Nat.min (cstr n).length P.maxLen < P.minLen then result P s
      else
        let s := { s with reqLen := P.hdrLen + Nat.min (cstr n).length P.maxLen + 2 + P.qSuffix }
        if !mallocOk then result P s
        else doResolve P { s with hasReq := true, tries := 0 }
  | .connected sentOk =>
    if !s.connOpen then (s, [.noConn])
    else if sentOk then (s, [.sent s.hasReq s.reqLen])
    else
      let (s', o) := result P { s with connOpen := false, closing := true }
      (s', [.sent s.hasReq s.reqLen, .disconnect] ++ o)
  | .reply p =>
    if !s.connOpen then (s, [.noConn])
    else match (dnsRecv P s.reqLen p).1 with
    | .fail => result P s
    | .ignore => (s, [])
    | .ok ip => ({ s with success := true, ip := ip, connOpen := false, closing := true }, [.disconnect])
  | .disconnected =>
    if !s.connOpen && !s.closing then (s, [.noConn]) else result P { s with connOpen := false, closing := false }
  | .fireTimeout =>
    if s.timeoutArmed then
      let (s', o) := result P { s with timeoutArmed := false, connOpen := false, closing := s.connOpen || s.closing }
      (s', [.disconnect] ++ o)
    else (s, [.notArmed])
  | .fireRetry =>
    if s.retryArmed then doResolve P { s with retryArmed := false }
    else (s, [.notArmed])

def run (P : DnsParams) (s : Dns) : List DnsEv → Dns × List DnsObs
  | [] => (s, [])
  | e :: es =>
    let r1 := step P s e
    let r2 := run P r1.1 es
    (r2.1, r1.2 ++ r2.2)

end Dns
end SuplaVerif
