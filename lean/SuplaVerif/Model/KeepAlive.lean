/-
  Model/KeepAlive — the once-per-second decisions of supla_esp_devconn_timer1_cb (ping /
  reconnect) and supla_esp_devconn_watchdog_cb (restart / soft reconnect) in supla_esp_devconn.c.
  All second stamps are `uint32` values of uptime_sec(); differences are computed in unsigned
  32-bit arithmetic as the C does; `T - 5` is an `int` converted to unsigned in the comparison.
-/
import SuplaVerif.Model.Uptime
namespace SuplaVerif

structure KaConsts where
  pingWindow   : Nat   -- literal 5 in `timeout-5`
  reconnectAdd : Nat   -- literal 10 in `timeout+10`
  wdTimeout    : Nat   -- WATCHDOG_TIMEOUT_SEC
  wdSoft       : Nat   -- WATCHDOG_SOFT_TIMEOUT_SEC
  deriving Repr, DecidableEq

inductive KaDecision | none | ping | reconnect | restart
  deriving Repr, DecidableEq

/-- an `int` converted to `unsigned int` -/
def toU32 (i : Int) : Nat := (i % (W32 : Int)).toNat

/-- timer1: registered, srpc present; `T` = server_activity_timeout (an int, here ≥ 1) -/
def timer1 (K : KaConsts) (T : Int) (now lastSent lastResp : Nat) : KaDecision :=
  if T ≤ 0 then .none
  else
    let t1 := subw now lastSent
    let t2 := subw now lastResp
    if t2 ≥ toU32 (T + K.reconnectAdd) then .reconnect
    else if (t1 ≥ toU32 (T - K.pingWindow) ∧ t1 ≤ toU32 T) ∨ (t2 ≥ toU32 (T - K.pingWindow) ∧ t2 ≤ toU32 T)
    then .ping else .none

/-- watchdog: not in cfg mode and not updating -/
def watchdog (K : KaConsts) (T : Int) (now lastResp nextChallenge : Nat) : KaDecision :=
  if now > lastResp then
    if now - lastResp > K.wdTimeout then .restart
    else if now - lastResp ≥ K.wdSoft ∧ (now - lastResp : Int) > T ∧ now > nextChallenge then .reconnect
    else .none
  else .none

/-- what happens to the connection between two looks of the watchdog. `last_response` has one writer in the source
    (supla_esp_on_remote_call_received, checked on every run): a received call stamps it, nothing else does - not a
    new TCP connection, not a disconnect, not the device's own transmissions. -/
inductive KaEv | tick | recv | connect | disconnect | sent
  deriving Repr, DecidableEq

structure KaClock where
  now : Nat         -- uptime seconds
  lastResp : Nat    -- devconn->last_response
  deriving Repr, DecidableEq

def kaStep (s : KaClock) : KaEv → KaClock
  | .tick => { s with now := s.now + 1 }
  | .recv => { s with lastResp := s.now }
  | _ => s

def kaRun (s : KaClock) (es : List KaEv) : KaClock := es.foldl kaStep s

end SuplaVerif
