/-
  Model/Update — the firmware download bookkeeping of supla_update.c:
  slot selection (supla_esp_update_url_result), size gate (supla_esp_update_recv_cb),
  sector-wise buffered writes (supal_esp_update_download / supla_esp_update_flash_write, flash
  operations succeeding) and the boot-mark decision (supla_esp_update_verify_and_reboot).
-/
namespace SuplaVerif

structure UpdParams where
  sec : Nat          -- SPI_FLASH_SEC_SIZE
  rsa : Nat          -- RSA_NUM_BYTES
  lim512 : Nat       -- size limit on 512+512 maps
  lim1024 : Nat      -- size limit on 1024+1024 maps
  hi512 : Nat        -- slot when running from user1 (UPGRADE_FW_BIN1), 512+512
  lo512 : Nat
  hi1024 : Nat
  lo1024 : Nat
  maps512 : List Nat
  maps1024 : List Nat
  bin1 : Nat
  clamp : Bool       -- the chunk clamp is present in the source
  deriving Repr, DecidableEq

/-- slot base chosen by supla_esp_update_url_result; none = update not supported on this map -/
def slotOf (P : UpdParams) (map ubin : Nat) : Option Nat :=
  if map ∈ P.maps512 then some (if ubin = P.bin1 then P.hi512 else P.lo512)
  else if map ∈ P.maps1024 then some (if ubin = P.bin1 then P.hi1024 else P.lo1024)
  else none

/-- announced-size gate of supla_esp_update_recv_cb -/
def limitOf (P : UpdParams) (map : Nat) : Option Nat :=
  if map ∈ P.maps512 then some P.lim512
  else if map ∈ P.maps1024 then some P.lim1024
  else none

def sizeAccepted (P : UpdParams) (map expected : Nat) : Bool :=
  match limitOf P map with
  | some l => decide (0 < expected ∧ expected ≤ l)
  | none => false

structure Upd where
  addr : Nat        -- flash_addr
  awo : Nat         -- flash_awo
  buffPos : Nat
  downloaded : Nat
  expected : Nat
  deriving Repr, DecidableEq

/-- one flash write: (address, length) -/
abbrev Wr := Nat × Nat

/-- the while loop of supal_esp_update_download over `n` content bytes (fuel = n) -/
def feedLoop (S : Nat) : Nat → Upd → Nat → Upd × List Wr
  | 0, u, _ => (u, [])
  | fuel + 1, u, n =>
    if n = 0 then (u, [])
    else if n + u.buffPos > S then
      -- len = S - buffPos: the buffer fills up and is written
      ((feedLoop S fuel { u with awo := u.awo + S, buffPos := 0, downloaded := u.downloaded + (S - u.buffPos) }
          (n - (S - u.buffPos))).1,
       (u.awo, S) :: (feedLoop S fuel { u with awo := u.awo + S, buffPos := 0, downloaded := u.downloaded + (S - u.buffPos) }
          (n - (S - u.buffPos))).2)
    else if n + u.buffPos = S then
      ({ u with awo := u.awo + S, buffPos := 0, downloaded := u.downloaded + n }, [(u.awo, S)])
    else ({ u with buffPos := u.buffPos + n, downloaded := u.downloaded + n }, [])

def chunk (P : UpdParams) (u : Upd) (n : Nat) : Nat :=
  if P.clamp then min n (u.expected - u.downloaded) else n

/-- the partial last sector is written once everything announced has arrived -/
def finish (r : Upd × List Wr) : Upd × List Wr :=
  if r.1.buffPos > 0 ∧ r.1.downloaded = r.1.expected then
    ({ r.1 with awo := r.1.awo + r.1.buffPos, buffPos := 0 }, r.2 ++ [(r.1.awo, r.1.buffPos)])
  else r

/-- supal_esp_update_download for a chunk of `n` bytes: optional clamp, loop, final partial write -/
def feed (P : UpdParams) (u : Upd) (n : Nat) : Upd × List Wr :=
  finish (feedLoop P.sec (chunk P u n) u (chunk P u n))

/-- boot-mark decision of supla_esp_update_verify_and_reboot: `footer` = the 16 bytes read at
    awo-16 (zeros when downloaded ≤ 16+rsa), `sigOk` = result of rsa_sha256_verify -/
def keyBytes (P : UpdParams) (footer : List Nat) : Nat :=
  if footer.take 6 = [186, 190, 43, 237, 0, 1] then (footer.getD 6 0) * 256 - (footer.getD 7 0) else P.rsa - 1

def markBoot (P : UpdParams) (footer : List Nat) (sigOk : Bool) : Bool :=
  keyBytes P footer = P.rsa && sigOk

/-- bytes hashed: [addr, addr + (awo - addr - 16 - rsa)) ; signature read right behind -/
def hashedLen (P : UpdParams) (u : Upd) : Nat := u.awo - u.addr - 16 - P.rsa

end SuplaVerif
