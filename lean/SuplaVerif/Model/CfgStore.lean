/-
  Model/CfgStore — supla_esp_cfg_save / the acceptance test of supla_esp_cfg_init
  (supla_esp_cfg.c) over a NOR flash sector: erase sets every byte to 0xFF, a write can only clear
  bits (new = old AND data).  Records are byte strings of the record length; TAG occupies bytes
  0..6, GUID 6..6+g, AuthKey the next a bytes (offsets checked against the compiled layout).
-/
import SuplaVerif.Base.Bytes
namespace SuplaVerif
open Bytes

structure CfgLayout where
  recLen  : Nat
  guidLen : Nat
  authLen : Nat
  tag     : Bytes        -- "SUPLA" ++ [7]
  deriving Repr, DecidableEq

/-- outcome of one flash operation as the environment decides it -/
inductive FlashOutcome
  | ok              -- performed, returns OK
  | failNoEffect    -- returns an error, flash unchanged
  | failWithEffect  -- performed but returns an error
  deriving Repr, DecidableEq

def norWrite (old data : Bytes) : Bytes := List.zipWith (· &&& ·) old data

def erased (n : Nat) : Bytes := List.replicate n 0xFF

/-- supla_esp_cfg_save: returns (reported success, new sector content) -/
def cfgSave (L : CfgLayout) (sector rec : Bytes) (eraseOut writeOut : FlashOutcome) : Bool × Bytes :=
  let s1 := match eraseOut with
    | .ok | .failWithEffect => erased L.recLen
    | .failNoEffect => sector
  if eraseOut ≠ .ok then (false, s1)            -- the erase result is checked (repair F8)
  else
    let s2 := match writeOut with
      | .ok | .failWithEffect => norWrite s1 rec
      | .failNoEffect => s1
    (writeOut = .ok, s2)

def allZero (b : Bytes) : Bool := b.all (· == 0)

/-- the acceptance test at boot: TAG v7 and non-zero GUID and AuthKey -/
def cfgAccept (L : CfgLayout) (sector : Bytes) : Bool :=
  sector.take 6 == L.tag &&
  !allZero ((sector.drop (6 + L.guidLen)).take L.authLen) &&
  !allZero ((sector.drop 6).take L.guidLen)

/-- the commit step of the config-mode form handler (supla_esp_recv_callback): the candidate record `new`
    replaces the configuration in RAM; `guarded` = the copy sits inside `if (1 == supla_esp_cfg_save(&new_cfg))` -/
def formCommit (guarded : Bool) (ram new : Bytes) (saveOk : Bool) : Bytes :=
  if guarded then (if saveOk then new else ram) else new

end SuplaVerif
