/-
  Model/Page — what a configuration page can depend on.  A page is built by one (or a few)
  ets_snprintf calls; its content is a function of the template (a literal), device name, MAC,
  last-state text, the saved flag, and the *values of the arguments* - the configuration enters only
  through the fields named in the argument lists (Gen/Html.lean, regenerated from the source).
  A `%s` argument reads its field only up to the first NUL (`view`).
-/
import SuplaVerif.Base.Bytes
namespace SuplaVerif
open Bytes

/-- the members of SuplaEspCfg (incl. the union aliases) -/
inductive CfgField
  | TAG | GUID | AuthKey | Server | Email | Username | LocationID | Port | LocationPwd | Password
  | WIFI_SSID | WIFI_PWD | CfgButtonType | Button1Type | Button2Type | StatusLedOff | InputCfgTriggerOff
  | FirmwareUpdate | Test | UpsideDown | MotorUpsideDown | Time1 | Time2 | Trigger | Flags
  | MqttTopicPrefix | MqttQoS | OvercurrentThreshold1 | OvercurrentThreshold2 | MqttPoolPublicationDelay
  | AutoCalOpenTime | AutoCalCloseTime | StaircaseButtonType | ButtonType | ButtonMode
  | CleanConfigSignature | Time3 | ButtonsUpsideDown | Tilt0Angle | Tilt100Angle | TiltControlType
  | AdditionalTimeMargin | zero
  deriving Repr, DecidableEq

/-- fields whose content is a secret: the Wi-Fi password, the location/MQTT password (both union
    names), the AuthKey -/
def CfgField.secret : CfgField → Bool
  | .WIFI_PWD | .Password | .LocationPwd | .AuthKey => true
  | _ => false

/-- text fields printed with `%s` -/
def CfgField.isText : CfgField → Bool
  | .Server | .Email | .Username | .WIFI_SSID | .MqttTopicPrefix | .LocationPwd | .Password | .WIFI_PWD => true
  | _ => false

/-- a configuration record as the raw bytes of each member -/
abbrev Cfg := CfgField → Bytes

/-- what an argument expression can observe of a field: a text field only up to its terminator -/
def view (c : Cfg) (f : CfgField) : Bytes := if f.isText then cstr (c f) else c f

/-- a page: any function of the argument values (the template, device name, MAC, state text and
    the formatting itself are fixed parameters of that function) -/
def renderPage (fmt : List Bytes → Bytes) (args : List CfgField) (c : Cfg) : Bytes :=
  fmt (args.map (view c))

end SuplaVerif
