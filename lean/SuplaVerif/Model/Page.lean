/-
  Model/Page — what a configuration page can depend on.  A page is built by one (or a few)
  ets_snprintf calls; its content is a function of the template (a literal), device name, MAC,
  last-state text, the saved flag, and the *values of the arguments* - the configuration enters only
  through the fields named in the argument lists (Gen/Html.lean, regenerated from the source).
  A `%s` argument reads its field only up to the first NUL (`view`).
-/
import SuplaVerif.Base.Bytes
namespace SuplaVerif
open Bytes

/-- the members of SuplaEspCfg (incl. the union aliases) -/
inductive CfgField
  | TAG | GUID | AuthKey | Server | Email | Username | LocationID | Port | LocationPwd | Password
  | WIFI_SSID | WIFI_PWD | CfgButtonType | Button1Type | Button2Type | StatusLedOff | InputCfgTriggerOff
  | FirmwareUpdate | Test | UpsideDown | MotorUpsideDown | Time1 | Time2 | Trigger | Flags
  | MqttTopicPrefix | MqttQoS | OvercurrentThreshold1 | OvercurrentThreshold2 | MqttPoolPublicationDelay
  | AutoCalOpenTime | AutoCalCloseTime | StaircaseButtonType | ButtonType | ButtonMode
  | CleanConfigSignature | Time3 | ButtonsUpsideDown | Tilt0Angle | Tilt100Angle | TiltControlType
  | AdditionalTimeMargin | zero
  deriving Repr, DecidableEq

/-- fields whose content is a secret: the Wi-Fi password, the location/MQTT password (both union
    names), the AuthKey -/
def CfgField.secret : CfgField → Bool
  | .WIFI_PWD | .Password | .LocationPwd | .AuthKey => true
  | _ => false

/-- text fields printed with `%s` -/
def CfgField.isText : CfgField → Bool
  | .Server | .Email | .Username | .WIFI_SSID | .MqttTopicPrefix | .LocationPwd | .Password | .WIFI_PWD => true
  | _ => false

/-- a configuration record as the raw bytes of each member -/
abbrev Cfg := CfgField → Bytes

/-- what an argument expression can observe of a field: a text field only up to its terminator -/
def view (c : Cfg) (f : CfgField) : Bytes := if f.isText then cstr (c f) else c f

/-- a page: any function of the argument values (the template, device name, MAC, state text and
    the formatting itself are fixed parameters of that function) -/
def renderPage (fmt : List Bytes → Bytes) (args : List CfgField) (c : Cfg) : Bytes :=
  fmt (args.map (view c))

/-- the arithmetic of one `ets_snprintf(buffer, bufflen, html_template, ...)` page (regenerated per variant) -/
structure PageFit where
  name : String
  fmtLen : Nat          -- strlen(html_template), directives included
  hdrLen : Nat          -- strlen(html_template_header)
  litOut : Nat          -- characters of the template that are copied as they are
  nHex : Nat            -- %02X directives, each printing an unsigned char
  constMax : Nat        -- the constant string arguments ("selected" / "" ...), longest alternatives added up
  slack : Nat           -- the constant in bufflen
  vars : List String    -- the string variables involved (the header, device name, state text, version, config fields)
  printed : List Nat    -- how often each is printed with %s
  summed : List Nat     -- how often strlen of each is a term of bufflen
  deriving Repr, DecidableEq

/-- Σ count_i * len_i -/
def weighted : List Nat → List Nat → Nat
  | c :: cs, l :: ls => c * l + weighted cs ls
  | _, _ => 0

/-- pointwise ≤ on lists of equal length -/
def leAll : List Nat → List Nat → Bool
  | [], [] => true
  | a :: as, b :: bs => a ≤ b && leAll as bs
  | _, _ => false

/-- the decidable condition checked on the regenerated numbers -/
def PageFit.ok (p : PageFit) : Bool :=
  leAll p.printed p.summed && p.litOut + 2 * p.nHex + p.constMax + 1 ≤ p.fmtLen + p.slack

/-- length of the rendered page for string lengths `ls` (in the order of `vars`) and constant arguments of total
    length `k` -/
def PageFit.pageLen (p : PageFit) (ls : List Nat) (k : Nat) : Nat := p.litOut + 2 * p.nHex + k + weighted p.printed ls

/-- bufflen as the page builder computes it -/
def PageFit.buffLen (p : PageFit) (ls : List Nat) : Nat := p.fmtLen + p.slack + weighted p.summed ls

end SuplaVerif
