CHECKS["C01"] = (
 "Lean 4 theorems (invariant + prefix-stability of the frame grammar) + differential correspondence against proto.c/srpc.c/devconn.c",
 "Theorems over the hand-written model of sproto_pop_in_sdp/srpc_iterate/recv_cb (Model/Proto, Model/Srpc): every delivered packet is the next good frame of the accepted byte stream for every stream, chunking and tick interleaving; errors kill the connection; buffer bounds. Tie: constants regenerated from the source, model and real code run on the same ops, direct monitor.",
 "trusted: Lean kernel, extractor probes, harness SDK model; realloc success assumed; staging-drop case (F20) excluded by hypothesis and monitored",
 "DESIGN.md 4/C01")
CHECKS["C02"] = (
 "Lean 4 theorems (conservation invariant through queue/out buffer/send shim; encode-decode round trip) + differential correspondence",
 "Theorems over the model of srpc_async__call/srpc_iterate OUT half/sproto_out_buffer_append/sproto_pop_out_data/supla_esp_data_write: wire ++ shim ++ out buffer ++ queue = frames of the accepted calls in issue order for every history without a reported loss event; goodFrames (enc fs) = fs; request ids non-zero successor; overflow reported. Tie: constants regenerated, model and real code run on the same ops (calls, ticks, espconn result scripts), wire reassembled by a direct monitor.",
 "trusted: Lean kernel, extractor probes, harness SDK (espconn_sent result semantics: 0 = taken, -5/-7 = nothing taken); hard espconn errors and reported overflows end the compared stream (NoLoss hypothesis)",
 "DESIGN.md 4/C02")
