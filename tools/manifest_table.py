CHECKS["C01"] = (
 "Lean 4 theorems (invariant + prefix-stability of the frame grammar) + differential correspondence against proto.c/srpc.c/devconn.c",
 "Theorems over the hand-written model of sproto_pop_in_sdp/srpc_iterate/recv_cb (Model/Proto, Model/Srpc): every delivered packet is the next good frame of the accepted byte stream for every stream, chunking and tick interleaving; errors kill the connection; buffer bounds. Tie: constants regenerated from the source, model and real code run on the same ops, direct monitor.",
 "trusted: Lean kernel, extractor probes, harness SDK model; realloc success assumed; staging-drop case (F20) excluded by hypothesis and monitored",
 "DESIGN.md 4/C01")
CHECKS["C02"] = (
 "Lean 4 theorems (conservation invariant through queue/out buffer/send shim; encode-decode round trip) + differential correspondence",
 "Theorems over the model of srpc_async__call/srpc_iterate OUT half/sproto_out_buffer_append/sproto_pop_out_data/supla_esp_data_write: wire ++ shim ++ out buffer ++ queue = frames of the accepted calls in issue order for every history without a reported loss event; goodFrames (enc fs) = fs; request ids non-zero successor; overflow reported. Tie: constants regenerated, model and real code run on the same ops (calls, ticks, espconn result scripts), wire reassembled by a direct monitor.",
 "trusted: Lean kernel, extractor probes, harness SDK (espconn_sent result semantics: 0 = taken, -5/-7 = nothing taken); hard espconn errors and reported overflows end the compared stream (NoLoss hypothesis)",
 "DESIGN.md 4/C02")
CHECKS["C03"] = (
 "Lean 4 theorems over the srpc_getdata size table regenerated from the preprocessed source (translator) + kernel-decided table check + differential correspondence + sanitizer/slot-ownership monitor on the real handlers",
 "srpc_getdata's switch is translated on every run into a Lean table (one row per case: exact sizes or VALID_SIZE parameters, allocation size); generic theorems show an accepted packet has exactly the required length and is copied inside its allocation, and `decide` checks every row and every dispatched call id of the current table. The real srpc_getdata verdict is compared with the table's for generated messages; the real handlers run under ASan/UBSan with a monitor that rejects any effect of a rejected message and any change to a slot not owned by the named channel.",
 "trusted: Lean kernel, the regex translator over gcc -E output (fails closed on unknown shapes for dispatched ids), sizeof/offsetof probe, harness SDK. The handlers' index guards are NOT modelled in Lean: they are checked on the implementation only (partial: proof for size validation, exploration for handler side effects).",
 "DESIGN.md 4/C03")
CHECKS["C20"] = (
 "Lean 4 theorems (read-index bound for every reply, decision iff, request state-machine invariants) + differential correspondence under ASan",
 "Byte-level model of supla_esp_dns_recv_cb that also returns every index it touches: theorem that all of them are inside the buffer for every reply and request length; the accept decision is characterised exactly (length prefix, RCODE, ANCOUNT, name skip, TYPE/CLASS/RDLENGTH, the 4 address bytes); the request machine is proved to call back at most once per request, never to hang (a pending request always has a timer armed), to bound the tries by the server count and to fail unsendable requests at once. Tie: constants/offsets from a probe, model vs real code on the same op sequences with replies in exact-size heap buffers under ASan, independent python reference for the reported address.",
 "trusted: Lean kernel, probes, harness SDK (callbacks delivered only for a requested connection; timers fire when the ops file says); the SDK's own timer durations (5 s / 200 ms) enter only through 'armed timers eventually fire'",
 "DESIGN.md 4/C20")
CHECKS["C19"] = (
 "Lean 4 theorems (exactness of unsigned 32-bit stamp differences for every boot value; uptime monotone across wraps) + differential correspondence + boot-shift replay of device scenarios",
 "Theorems: for every boot value, every instant and every gap < 2^32 us the C's unsigned difference of two counter readings equals the true elapsed time, and uptime_usec/msec/sec never decrease (they lose exactly 1 us per wrap). uptime.c is run against the model with the wrap placed anywhere; device scenarios (relay timers, shutter moves, buttons) are replayed with boot values placing the wrap before/inside/after each timed interval and their timestamped GPIO/frame traces compared.",
 "trusted: Lean kernel, harness SDK counter model (cnt = (boot + t) mod 2^32); stamps equal to the reserved value 0 are excluded as in the property; the per-module state machines are compared by replay (exploration), not proved boot-invariant in Lean",
 "DESIGN.md 4/C19")
