CHECKS["C01"] = (
 "Lean 4 theorems (invariant + prefix-stability of the frame grammar) + differential correspondence against proto.c/srpc.c/devconn.c",
 "Theorems over the hand-written model of sproto_pop_in_sdp/srpc_iterate/recv_cb (Model/Proto, Model/Srpc): every delivered packet is the next good frame of the accepted byte stream for every stream, chunking and tick interleaving; errors kill the connection; buffer bounds. Tie: constants regenerated from the source, model and real code run on the same ops, direct monitor.",
 "trusted: Lean kernel, extractor probes, harness SDK model; realloc success assumed; staging-drop case (F20) excluded by hypothesis and monitored",
 "DESIGN.md 4/C01")
