#!/usr/bin/env python3
"""check.py <property-id> [--tier quick|thorough] [--replay <ops file>]

One entry point for every property: regenerate Gen/*.lean from /repo, re-check the property
theorems (lake build + axiom audit), build the native harness from /repo's working tree, run
corpus + generated cases through implementation and model, evaluate the direct monitors,
write evidence/<id>.json and print the verdict lines required by the interface."""
import importlib
import os
import sys
import time
import traceback

sys.path.insert(0, os.path.dirname(os.path.abspath(__file__)))
import common as C  # noqa: E402
import framework as F  # noqa: E402


def main():
    if len(sys.argv) < 2:
        print(__doc__)
        return 2
    pid = sys.argv[1].upper()
    tier = C.tier_from_argv(sys.argv)
    replay = None
    if "--replay" in sys.argv:
        replay = sys.argv[sys.argv.index("--replay") + 1]
    try:
        mod = importlib.import_module("props." + pid.lower())
    except ImportError as e:
        print("no check for %s: %s" % (pid, e))
        return 2
    t0 = time.time()
    try:
        return F.run_property(mod.SPEC, tier, C.seed(), replay, t0)
    except Exception:
        traceback.print_exc()
        # machinery failure: not a verdict about the property, but never exit 0 silently
        p = C.write_replay(pid, "machinery-error.txt", traceback.format_exc())
        print("VIOLATION property=%s replay=%s no-failing-input-found" % (pid, p))
        return 1


if __name__ == "__main__":
    sys.exit(main())
