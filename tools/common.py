"""Shared machinery for the property checks: builds (firmware objects, C drivers, Lean
library, svdrv), line-protocol differential runs, shrinking, evidence, verdicts."""
import hashlib
import json
import os
import random
import shutil
import subprocess
import sys
import time
from concurrent.futures import ThreadPoolExecutor

VERIF = os.path.dirname(os.path.dirname(os.path.abspath(__file__)))
REPO = os.environ.get("VERIF_REPO", "/repo")
BUILD = os.path.join(VERIF, "build")
LEAN = os.path.join(VERIF, "lean")
HARNESS = os.path.join(VERIF, "harness")
EVID = os.path.join(VERIF, "evidence")
CORPUS = os.path.join(VERIF, "corpus")
NCPU = os.cpu_count() or 4

FW_UNITS = [
    "src/user/supla_esp_gpio.c", "src/user/supla_esp_input.c", "src/user/supla_esp_cfg.c",
    "src/user/supla_esp_cfgmode.c", "src/user/supla_esp_devconn.c",
    "src/user/supla_esp_cfgmode_html.c", "src/user/supla_esp_state.c", "src/user/supla_update.c",
    "src/user/supla_esp_countdown_timer.c", "src/user/supla_esp_dns_client.c",
    "src/user/supla_esp_wifi.c", "src/user/uptime.c", "src/user/supla_esp_rs_fb.c",
    "supla-common/proto.c", "supla-common/srpc.c", "supla-common/lck.c",
]
MQTT_UNITS = ["src/user/supla_esp_mqtt.c", "src/user/mqtt.c", "src/user/supla_esp_cfgmode_mqtt_html.c"]


def fw_flags(variant="base"):
    board = os.path.join(HARNESS, "board_" + variant)
    f = [
        "-DESP8266", "-DICACHE_FLASH_ATTR=", "-DICACHE_RODATA_ATTR=", "-funsigned-char",
        "-DESPMISSINGINCLUDES_H", "-D__BOARD_ut_testing", "-DGPIO_PORT_INIT=", "-DRELAY_MAX_COUNT=8",
        "-D_ROLLERSHUTTER_SUPPORT", "-DRS_AUTOCALIBRATION_SUPPORTED", "-D__FOTA", "-DBOARD_CALCFG",
        "-DCFG_SECTOR=0x3C", "-DSUPLA_VERIF_HOOKS", "-include", "sys/types.h", "-include", "user_interface.h",
        "-I" + board, "-I" + HARNESS, "-I" + REPO + "/test/doubles", "-I" + REPO + "/supla-common",
        "-I" + REPO + "/src/include", "-I" + REPO + "/src/nettle/include", "-I" + REPO + "/src/user",
    ]
    return f


SAN = ["-O1", "-g", "-fsanitize=address,undefined", "-fno-sanitize-recover=all", "-fno-sanitize=shift", "-fno-omit-frame-pointer", "-w"]


def sh(cmd, cwd=None, timeout=None, env=None, check=False, input=None):
    p = subprocess.run(cmd, cwd=cwd, timeout=timeout, env=env, input=input,
                       stdout=subprocess.PIPE, stderr=subprocess.PIPE, text=True)
    if check and p.returncode != 0:
        raise RuntimeError("command failed: %s\n%s\n%s" % (" ".join(cmd), p.stdout[-4000:], p.stderr[-4000:]))
    return p


def tree_hash(paths):
    h = hashlib.sha256()
    for root in paths:
        if os.path.isfile(root):
            files = [root]
        else:
            files = []
            for d, dn, fn in os.walk(root):
                dn[:] = [x for x in dn if x not in ("_build", ".git", "build", ".lake")]
                for f in fn:
                    if f.endswith((".c", ".h", ".cpp", ".inc")):
                        files.append(os.path.join(d, f))
        for f in sorted(files):
            h.update(f.encode())
            try:
                with open(f, "rb") as fh:
                    h.update(fh.read())
            except OSError:
                pass
    return h.hexdigest()


class BuildError(Exception):
    pass


def build_driver(name, variant="base", extra_units=(), cc="gcc", san=SAN, extra_flags=()):
    """Compile harness/<name>.c with the real firmware units from REPO's working tree and the
    SDK model.  Units that the driver #includes itself (marker VERIF-INCLUDES) are left out.
    Always rebuilt when any source under REPO or harness changed (content hash)."""
    src = os.path.join(HARNESS, name + ".c")
    with open(src) as f:
        txt = f.read()
    inc = []
    for line in txt.splitlines():
        if "VERIF-INCLUDES:" in line:
            inc += line.split("VERIF-INCLUDES:")[1].replace("*/", "").split()
    nolink = []
    for line in txt.splitlines():
        if "VERIF-NOLINK:" in line:
            nolink += line.split("VERIF-NOLINK:")[1].replace("*/", "").split()
    units = [u for u in FW_UNITS + list(extra_units)
             if os.path.basename(u) not in inc and os.path.basename(u) not in nolink]
    flags = fw_flags(variant) + list(extra_flags)
    key = hashlib.sha256((tree_hash([REPO + "/src", REPO + "/supla-common", REPO + "/test/doubles", HARNESS])
                          + " ".join(flags + san + [cc, name] + units)).encode()).hexdigest()[:16]
    out = os.path.join(BUILD, "drv", name + "-" + variant + ("-" + cc if cc != "gcc" else "") +
                       ("-" + hashlib.sha256(" ".join(list(san) + list(extra_flags)).encode()).hexdigest()[:6]))
    exe = os.path.join(out, name)
    stamp = os.path.join(out, "stamp")
    if os.path.exists(exe) and os.path.exists(stamp) and open(stamp).read() == key:
        return exe
    shutil.rmtree(out, ignore_errors=True)
    os.makedirs(out)
    jobs = []
    for u in units:
        jobs.append((os.path.join(REPO, u), os.path.join(out, os.path.basename(u) + ".o")))
    jobs.append((os.path.join(HARNESS, "sdk", "sdk.c"), os.path.join(out, "sdk.o")))
    jobs.append((os.path.join(HARNESS, "sdk", "fwglue.c"), os.path.join(out, "fwglue.o")))
    jobs.append((src, os.path.join(out, name + ".o")))

    def comp(j):
        return sh([cc, "-c"] + list(san) + flags + [j[0], "-o", j[1]])

    with ThreadPoolExecutor(NCPU) as ex:
        res = list(ex.map(comp, jobs))
    for j, r in zip(jobs, res):
        if r.returncode != 0:
            raise BuildError("compile failed: %s\n%s" % (j[0], r.stderr[-3000:]))
    r = sh([cc] + [x for x in san if x.startswith("-fsan") or x == "-g"] + [j[1] for j in jobs] +
           ["-lpthread", "-lm", "-o", exe])
    if r.returncode != 0:
        raise BuildError("link failed: %s\n%s" % (name, r.stderr[-3000:]))
    with open(stamp, "w") as f:
        f.write(key)
    return exe


def lake(args, timeout=3600):
    env = dict(os.environ)
    return sh(["lake"] + args, cwd=LEAN, timeout=timeout, env=env)


def build_lean(targets):
    """lake build of the given module targets; returns (ok, log)"""
    r = lake(["build"] + targets)
    return r.returncode == 0, r.stdout + r.stderr


def svdrv():
    r = lake(["build", "svdrv"])
    if r.returncode != 0:
        raise BuildError("svdrv build failed:\n" + (r.stdout + r.stderr)[-4000:])
    return os.path.join(LEAN, ".lake", "build", "bin", "svdrv")


def run_lines(cmd, text, timeout=600):
    """feed an ops text, return (returncode, stdout lines, stderr)"""
    env = dict(os.environ)
    env["ASAN_OPTIONS"] = "detect_leaks=0:abort_on_error=0:exitcode=99"
    env["UBSAN_OPTIONS"] = "print_stacktrace=1:exitcode=98"
    try:
        p = subprocess.run(cmd, input=text, stdout=subprocess.PIPE, stderr=subprocess.PIPE, text=True,
                           timeout=timeout, env=env)
    except subprocess.TimeoutExpired:
        return -9, [], "timeout"
    return p.returncode, p.stdout.split("\n"), p.stderr


def split_by_op(lines):
    """group observation lines per op (terminated by '.')"""
    groups, cur = [], []
    for ln in lines:
        if ln == ".":
            groups.append(cur)
            cur = []
        elif ln != "":
            cur.append(ln)
    return groups, cur


def first_diff(a_groups, b_groups):
    n = max(len(a_groups), len(b_groups))
    for i in range(n):
        a = a_groups[i] if i < len(a_groups) else None
        b = b_groups[i] if i < len(b_groups) else None
        if a != b:
            return i, a, b
    return None


def ddmin(ops, fails, max_tests=400):
    """delta-debugging over a list of op lines; `fails(ops)` -> bool"""
    tests = [0]

    def t(x):
        tests[0] += 1
        return fails(x)

    n = 2
    while len(ops) >= 2 and tests[0] < max_tests:
        chunk = max(1, len(ops) // n)
        reduced = False
        for i in range(0, len(ops), chunk):
            cand = ops[:i] + ops[i + chunk:]
            if cand and t(cand):
                ops = cand
                n = max(n - 1, 2)
                reduced = True
                break
        if not reduced:
            if chunk == 1:
                break
            n = min(n * 2, len(ops))
    return ops


class Rng(random.Random):
    pass


def seed():
    try:
        return int(os.environ.get("VERIF_SEED", "1"))
    except ValueError:
        return 1


def tier_from_argv(argv):
    t = os.environ.get("VERIF_TIER", "quick")
    if "--tier" in argv:
        t = argv[argv.index("--tier") + 1]
    return t if t in ("quick", "thorough") else "quick"


def load_known():
    p = os.path.join(VERIF, "known_findings.json")
    if not os.path.exists(p):
        return []
    with open(p) as f:
        return json.load(f).get("findings", [])


def write_replay(pid, name, text):
    d = os.path.join(BUILD, "replay", pid)
    os.makedirs(d, exist_ok=True)
    p = os.path.join(d, name)
    with open(p, "w") as f:
        f.write(text)
    return p


TRUSTED = [
    "Lean 4.33.0 kernel; axioms allowed in property theorems: propext, Classical.choice, Quot.sound "
    "(audited with #print axioms on every run; no sorry/admit/native_decide/bv_decide/own axioms)",
    "tools/extract.py: constants/layouts/tables are what a C probe compiled under the device flags prints",
    "correspondence harness: real translation units from /repo linked against harness/sdk (our NONOS model: "
    "run-to-completion callbacks, timer expiry arithmetic, espconn result codes, NOR flash) - modelled, not verified",
    "LP64 host build with -funsigned-char instead of the ILP32 Xtensa target",
]


def write_evidence(pid, tier, sd, coverage, wall, violations, assumptions=None, level="proof"):
    os.makedirs(EVID, exist_ok=True)
    ev = {
        "property_id": pid, "tier": tier, "seed": sd, "level": level, "coverage": coverage,
        "assumptions": assumptions or [], "wall_s": round(wall, 2), "violations": violations,
    }
    tmp = os.path.join(EVID, pid + ".json.tmp")
    with open(tmp, "w") as f:
        json.dump(ev, f, indent=1, sort_keys=True)
    os.replace(tmp, os.path.join(EVID, pid + ".json"))
