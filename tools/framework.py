"""Property-check skeleton shared by all props/cXX.py modules (DESIGN.md §2.3, §2.4)."""
import json
import os
import re
import sys
import time
from concurrent.futures import ThreadPoolExecutor

import common as C
import extract as X

FORBIDDEN = re.compile(r"\b(sorry|admit|native_decide|bv_decide|implemented_by|unsafe)\b|^\s*axiom\s|maxHeartbeats 0")
ALLOWED_AXIOMS = {"propext", "Classical.choice", "Quot.sound"}


class Case:
    def __init__(self, name, ops, meta=None):
        self.name = name
        self.ops = ops
        self.meta = meta or {}

    def text(self):
        return "\n".join(self.ops) + "\n"


class Finding:
    def __init__(self, cls, msg):
        self.cls = cls
        self.msg = msg


class Spec:
    pid = None
    lean_module = None          # e.g. "SuplaVerif.Props.C01"
    namespace = None            # e.g. "SuplaVerif.C01"
    driver = None               # harness driver name, e.g. "drv_io"
    variant = "base"
    extra_units = ()
    model_args = None           # svdrv arguments, e.g. ["io"]; None = no model run
    level_text = ""
    assumptions = []
    rule = ""
    needs_extract = True

    def cases(self, rng, tier):
        return []

    def corpus(self):
        d = os.path.join(C.CORPUS, self.pid)
        out = []
        if os.path.isdir(d):
            for f in sorted(os.listdir(d)):
                if f.endswith(".ops"):
                    with open(os.path.join(d, f)) as fh:
                        ops = [ln.rstrip("\n") for ln in fh if ln.strip() and not ln.startswith("#")]
                    out.append(Case("corpus/" + f, ops, {"corpus": True}))
        return out

    def monitor(self, case, impl_groups, impl_rc, impl_err):
        return []

    def nontrivial_key(self, case, impl_groups):
        return None

    def canon_impl(self, groups):
        return groups

    def canon_model(self, groups):
        return groups

    def extra_static(self, tier):
        """additional static obligations (returns list of (name, ok, detail))"""
        return []

    def driver_build(self):
        return C.build_driver(self.driver, self.variant, self.extra_units)

    def extra_findings(self, tier, rng):
        """additional implementation-level exploration with its own driver; returns
        (evaluations, distinct_nontrivial, [(Finding, ops_lines)])"""
        return 0, 0, []


def strip_comments(txt):
    txt = re.sub(r"/-.*?-/", "", txt, flags=re.S)
    txt = re.sub(r"--.*", "", txt)
    return txt


def lean_sources():
    out = []
    for d, dn, fn in os.walk(C.LEAN):
        dn[:] = [x for x in dn if x != ".lake"]
        for f in fn:
            if f.endswith(".lean"):
                out.append(os.path.join(d, f))
    return out


def forbidden_scan():
    hits = []
    for f in lean_sources():
        with open(f) as fh:
            txt = strip_comments(fh.read())
        for i, ln in enumerate(txt.splitlines()):
            if FORBIDDEN.search(ln):
                hits.append("%s: %s" % (os.path.relpath(f, C.LEAN), ln.strip()[:120]))
    return hits


def property_theorems(spec):
    path = os.path.join(C.LEAN, *spec.lean_module.split(".")) + ".lean"
    with open(path) as f:
        txt = strip_comments(f.read())
    names = re.findall(r"^\s*theorem\s+([A-Za-z0-9_'.]+)", txt, flags=re.M)
    return [spec.namespace + "." + n for n in names]


def lean_phase(spec, tier):
    """returns dict(ok, obligations[list of names], discharged[int], detail)"""
    res = {"ok": True, "theorems": [], "discharged": 0, "detail": "", "axioms": {}}
    hits = forbidden_scan()
    if hits:
        res["ok"] = False
        res["detail"] = "forbidden tokens in Lean sources:\n" + "\n".join(hits)
        return res
    ok, log = C.build_lean([spec.lean_module])
    if not ok:
        res["ok"] = False
        errs = [ln for ln in log.splitlines() if "error" in ln.lower()]
        res["detail"] = "lake build %s failed:\n%s" % (spec.lean_module, "\n".join(errs[:40]) or log[-3000:])
        res["theorems"] = []
        return res
    thms = property_theorems(spec)
    res["theorems"] = thms
    audit = os.path.join(C.BUILD, "audit_%s.lean" % spec.pid)
    os.makedirs(C.BUILD, exist_ok=True)
    with open(audit, "w") as f:
        f.write("import %s\n" % spec.lean_module)
        for t in thms:
            f.write("#print axioms %s\n" % t)
    r = C.lake(["env", "lean", audit])
    out = r.stdout + r.stderr
    if r.returncode != 0:
        res["ok"] = False
        res["detail"] = "axiom audit failed:\n" + out[-3000:]
        return res
    cur = None
    ax = {}
    for m in re.finditer(r"'(\S+)' (depends on axioms: \[([^\]]*)\]|does not depend on any axioms)", out.replace("\n", " ")):
        name = m.group(1)
        axs = [a.strip() for a in (m.group(3) or "").split(",") if a.strip()]
        ax[name] = axs
    bad = []
    for t in thms:
        if t not in ax:
            bad.append("%s: no axiom report" % t)
        elif not set(ax[t]) <= ALLOWED_AXIOMS:
            bad.append("%s: axioms %s" % (t, ax[t]))
    res["axioms"] = ax
    if bad:
        res["ok"] = False
        res["detail"] = "axiom audit:\n" + "\n".join(bad)
        return res
    res["discharged"] = len(thms)
    if tier == "thorough":
        r = C.lake(["env", "leanchecker", spec.lean_module], timeout=1800)
        res["leanchecker"] = r.returncode
        if r.returncode != 0:
            res["ok"] = False
            res["detail"] = "leanchecker rejected %s:\n%s" % (spec.lean_module, (r.stdout + r.stderr)[-2000:])
    return res


def run_case(spec, impl_exe, model_cmd, case):
    text = case.text()
    rc, lines, err = C.run_lines([impl_exe], text)
    ig, itail = C.split_by_op(lines)
    case.meta["raw_impl"] = ig
    ig = spec.canon_impl(ig)
    out = {"impl_rc": rc, "impl": ig, "impl_err": err, "impl_tail": itail, "diff": None}
    if model_cmd:
        mtext = text
        derive = getattr(spec, "derive_model", None)
        if derive is not None and rc == 0:
            # the model is driven by what was observed on the implementation (hook lines); the
            # expected model output is computed from the same trace
            mtext, ig = derive(case, case.meta["raw_impl"])
            out["impl"] = ig
        mrc, mlines, merr = C.run_lines(model_cmd, mtext)
        mg, mtail = C.split_by_op(mlines)
        mg = spec.canon_model(mg)
        out["model"] = mg
        out["model_rc"] = mrc
        if mrc != 0:
            out["diff"] = (-1, None, ["model driver failed rc=%s %s" % (mrc, merr[-300:])])
        elif rc != 0:
            out["diff"] = (len(ig), ["impl rc=%s %s" % (rc, err[-1500:])], None)
        else:
            out["diff"] = C.first_diff(ig, mg)
    out["findings"] = spec.monitor(case, ig, rc, err)
    return out


def known_match(pid, cls, known):
    for k in known:
        if k.get("property") == pid and k.get("class") == cls and k.get("status", "open") == "open":
            return k
    return None


PROTECTED = ("board", "init", "boot", "rslog", "inflags", "motor", "rstimes", "rspos", "cfg", "start", "sentbytes",
             "connected", "resolve", "calllog", "rscancel", "rsmargin", "physpos", "rsmanual", "inlevel", "relflags", "intype", "staircase", "relstate", "map", "sign", "stack", "conn", "flashfill", "flashset", "reboot")


def shrink_case(spec, impl_exe, model_cmd, case, pred):
    """ddmin over the removable ops; set-up ops stay so that the replay remains meaningful"""
    keep = [i for i, o in enumerate(case.ops) if o.split()[0] in PROTECTED]
    removable = [i for i in range(len(case.ops)) if i not in keep]

    def build(idx):
        chosen = sorted(set(keep) | set(idx))
        return [case.ops[i] for i in chosen]

    def fails(idx):
        r = run_case(spec, impl_exe, model_cmd, Case("shrink", build(idx), dict(case.meta)))
        return pred(r)

    try:
        idx = C.ddmin(list(removable), fails, max_tests=150)
    except Exception:
        idx = removable
    return build(idx)


def replay_meta(case):
    """the generator's annotations of a case, for the replay file (run-time data is left out)"""
    m = {k: v for k, v in case.meta.items() if not k.startswith("raw_") and k not in ("corpus",)}
    try:
        return json.dumps(m, default=repr, sort_keys=True)
    except (TypeError, ValueError):
        return "{}"


def run_property(spec, tier, sd, replay, t0):
    pid = spec.pid
    known = C.load_known()
    tie_broken = []   # (what, detail)
    # 1. translator
    if spec.needs_extract:
        try:
            X.main_quiet(pid)
        except X.ExtractError as e:
            tie_broken.append(("extract", str(e)))
    # 2. theorems
    lp = {"ok": False, "theorems": [], "discharged": 0, "detail": "skipped (extraction broken)", "axioms": {}}
    if not tie_broken:
        lp = lean_phase(spec, tier)
        if not lp["ok"]:
            tie_broken.append(("lean", lp["detail"]))
    static = spec.extra_static(tier) if not tie_broken else []
    for name, ok, detail in static:
        if not ok:
            tie_broken.append(("static:" + name, detail))
    # 3. harness + model driver
    impl_exe = None
    model_cmd = None
    try:
        if spec.driver:
            impl_exe = spec.driver_build()
    except C.BuildError as e:
        tie_broken.append(("harness-build", str(e)))
    if spec.model_args is not None and not [t for t in tie_broken if t[0] in ("extract", "lean")]:
        try:
            model_cmd = [C.svdrv()] + list(spec.model_args)
        except C.BuildError as e:
            tie_broken.append(("svdrv-build", str(e)))
    # 4. cases
    rng = C.Rng(sd * 1000003 + sum(ord(c) for c in pid))
    stats = {"evaluations": 0, "nontrivial": set(), "dist": {}, "samples": [], "diffs": 0}
    violations = []     # (cls, msg, case)
    knowns_seen = {}
    first_diff = None

    def consume(case, r):
        stats["evaluations"] += 1
        k = spec.nontrivial_key(case, r["impl"])
        if k is not None:
            stats["nontrivial"].add(k)
        for key in case.meta.get("tags", []):
            stats["dist"][key] = stats["dist"].get(key, 0) + 1
        if len(stats["samples"]) < 3 and not case.meta.get("corpus"):
            stats["samples"].append({"name": case.name, "ops": [o[:160] for o in case.ops[:12]],
                                     "impl": [" | ".join(g)[:200] for g in r["impl"][:12]]})
        for f in r["findings"]:
            km = known_match(pid, f.cls, known)
            if km:
                knowns_seen.setdefault(f.cls, (km, f.msg))
            else:
                violations.append((f.cls, f.msg, case))
        nonlocal first_diff
        # a case whose only findings are recorded ones (e.g. a recorded crash) cannot be compared further
        all_known = bool(r["findings"]) and all(known_match(pid, f.cls, known) for f in r["findings"])
        if r["diff"] is not None and not all_known:
            stats["diffs"] += 1
            if first_diff is None:
                first_diff = (case, r["diff"])

    def run_batch(cases):
        if impl_exe is None:
            return
        with ThreadPoolExecutor(C.NCPU) as ex:
            for case, r in zip(cases, ex.map(lambda c: run_case(spec, impl_exe, model_cmd, c), cases)):
                consume(case, r)

    if replay:
        with open(replay) as fh:
            lines = [ln.rstrip("\n") for ln in fh]
        ops = [ln for ln in lines if ln.strip() and not ln.lstrip().startswith("#")]
        meta = {}
        for ln in lines:
            if ln.startswith("#meta "):      # generator annotations the monitor needs (kind of case, expectations)
                try:
                    meta = json.loads(ln[6:])
                except ValueError:
                    meta = {}
        case = Case("replay", ops, meta)
        if meta.get("extra") and hasattr(spec, "extra_replay"):
            # a finding of the property's second harness (extra_findings): its own driver and oracle
            r = {"impl": [], "model": [], "diff": None, "findings": spec.extra_replay(ops)}
        else:
            r = run_case(spec, impl_exe, model_cmd, case)
        for g in r["impl"]:
            for ln in g:
                print("impl: " + ln)
        if r["diff"] is not None:
            print("correspondence differs at op %s: impl=%s model=%s" % r["diff"])
        consume(case, r)
    else:
        run_batch(spec.corpus())
        run_batch(list(spec.cases(rng, tier)))
        # escalate when the tie is broken and nothing concrete was found yet
        if (tie_broken or first_diff) and not violations and tier != "thorough":
            # (the very sequence of the thorough tier at this seed, so that the thorough runs on the unchanged tree have
            # judged exactly these cases)
            run_batch(list(spec.cases(C.Rng(sd * 1000003 + sum(ord(c) for c in pid)), "thorough")))

    if not replay:
        try:
            ev, nt, extra = spec.extra_findings(tier, C.Rng(sd * 7 + 13))
        except C.BuildError as e:
            ev, nt, extra = 0, 0, []
            tie_broken.append(("harness-build", str(e)))
        stats["evaluations"] += ev
        for k in range(nt):
            stats["nontrivial"].add(("extra", k))
        for f, ops in extra:
            km = known_match(pid, f.cls, known)
            if km:
                knowns_seen.setdefault(f.cls, (km, f.msg))
            else:
                violations.append((f.cls, f.msg, Case("extra", ops, {"noshrink": True, "extra": True})))

    if first_diff is not None:
        case, d = first_diff
        tie_broken.append(("correspondence", "case %s: first difference at op %s\n impl : %s\n model: %s" % (
            case.name, d[0], d[1], d[2])))

    # 5. verdict
    rc = 0
    for cls, (km, msg) in knowns_seen.items():
        print("KNOWN-FINDING: property=%s %s [%s]" % (pid, km.get("what", cls), msg[:160]))
    if violations:
        cls, msg, case = violations[0]
        ops = case.ops
        # Shrinking is off unless a spec opts in (`shrink = True`): a subsequence of a generated case is in general not a
        # scenario the monitors' expectations were written for (set-up ops, drains, answered pings ... disappear), and a replay
        # that also fails on the unchanged tree is no witness.  The replay is the generated case as it ran.
        if getattr(spec, "shrink", False) and impl_exe is not None and len(ops) > 1 and not case.meta.get("noshrink"):
            ops = shrink_case(spec, impl_exe, None, case,
                              lambda r: any(f.cls == cls for f in r["findings"]))
        p = C.write_replay(pid, "violation-%s.ops" % re.sub(r"[^A-Za-z0-9]+", "-", cls),
                           "# %s: %s\n# case %s\n#meta %s\n" % (cls, " | ".join(x.strip() for x in msg.splitlines())[:1500], case.name, replay_meta(case)) + "\n".join(ops) + "\n")
        print("VIOLATION property=%s replay=%s" % (pid, p))
        print("  " + msg[:400])
        rc = 1
    elif tie_broken:
        txt = "# no failing input found; what no longer checks:\n"
        for what, detail in tie_broken:
            txt += "## %s\n%s\n" % (what, detail)
        if first_diff is not None:
            txt += "## ops of the first differing case\n" + first_diff[0].text()
        p = C.write_replay(pid, "tie-broken.txt", txt)
        print("VIOLATION property=%s replay=%s no-failing-input-found" % (pid, p))
        print("  " + tie_broken[0][0] + ": " + tie_broken[0][1][:600].replace("\n", "\n  "))
        rc = 1
    # 6. evidence
    n_obl = len(lp["theorems"]) + len(static)
    n_dis = lp["discharged"] + sum(1 for s in static if s[1])
    cov = {
        "obligations": max(n_obl, 1), "discharged": n_dis,
        "checker_cmd": "cd lean && lake build %s && lake env lean build/audit_%s.lean  (#print axioms)%s" % (
            spec.lean_module, pid, "; lake env leanchecker " + spec.lean_module if tier == "thorough" else ""),
        "trusted_base": C.TRUSTED,
        "theorems": lp["theorems"],
        "axioms": {k: v for k, v in lp.get("axioms", {}).items()},
        "static_obligations": [{"name": s[0], "ok": s[1]} for s in static],
        "evaluations": stats["evaluations"],
        "distinct_nontrivial": len(stats["nontrivial"]),
        "rule": spec.rule,
        "samples": stats["samples"] or [{"note": "no generated cases in this run"}],
        "distribution": stats["dist"],
        "correspondence_disagreements": stats["diffs"],
        "traces_validated_against_impl": stats["evaluations"] - stats["diffs"] if model_cmd else 0,
        "known_findings_seen": sorted(knowns_seen.keys()),
        "tie_broken": [t[0] for t in tie_broken],
    }
    C.write_evidence(pid, tier, sd, cov, time.time() - t0, len(violations) + (1 if (tie_broken and not violations) else 0),
                     assumptions=spec.assumptions)
    print("%s %s: theorems %d/%d, cases %d (distinct non-trivial %d), correspondence disagreements %d, %.1fs -> %s" % (
        pid, tier, n_dis, n_obl, stats["evaluations"], len(stats["nontrivial"]), stats["diffs"],
        time.time() - t0, "OK" if rc == 0 else "FAIL"))
    return rc
