#!/usr/bin/env python3
"""Translator: regenerates lean/SuplaVerif/Gen/*.lean from /repo's working tree.

Only things that can be translated soundly are translated: numeric constants, sizes and
offsets (by compiling and running C probes under the firmware flags), and a few tables
(see the gen_* functions).  Fails closed: any probe that does not compile or any shape
that is not recognised raises ExtractError, which the checks treat as "tie broken".
Generated files are rewritten only when their content changes (keeps lake incremental).
"""
import hashlib
import json
import os
import re
import subprocess
import sys

sys.path.insert(0, os.path.dirname(os.path.abspath(__file__)))
import common as C  # noqa: E402

GEN = os.path.join(C.LEAN, "SuplaVerif", "Gen")


class ExtractError(Exception):
    pass


def run_probe(name, body, variant="base", includes_c=None, extra_flags=()):
    """compile+run a C probe; body is C code of main() printing `key value` lines"""
    d = os.path.join(C.BUILD, "probe")
    os.makedirs(d, exist_ok=True)
    src = os.path.join(d, name + ".c")
    exe = os.path.join(d, name)
    with open(src, "w") as f:
        f.write("#include <stdio.h>\n#include <stddef.h>\n#include <string.h>\n")
        for inc in includes_c or []:
            f.write('#include "%s"\n' % inc)
        f.write("#define P(k, v) printf(\"%s %lld\\n\", k, (long long)(v))\n")
        f.write("int main(void) {\n" + body + "\nreturn 0; }\n")
    flags = C.fw_flags(variant) + list(extra_flags)
    r = C.sh(["gcc", "-w", "-O0"] + flags + [src, "-o", exe, "-no-pie", "-Wl,--unresolved-symbols=ignore-all", "-lpthread"])
    if r.returncode != 0:
        raise ExtractError("probe %s does not compile:\n%s" % (name, r.stderr[-3000:]))
    r = C.sh([exe])
    if r.returncode != 0:
        raise ExtractError("probe %s failed to run: %s" % (name, r.stderr[-1000:]))
    out = {}
    for ln in r.stdout.splitlines():
        k, v = ln.split(" ", 1)
        out[k] = v
    return out


def write_if_changed(path, text):
    os.makedirs(os.path.dirname(path), exist_ok=True)
    if os.path.exists(path) and open(path).read() == text:
        return False
    with open(path, "w") as f:
        f.write(text)
    return True


def src_hash(files):
    h = hashlib.sha256()
    for f in files:
        with open(os.path.join(C.REPO, f), "rb") as fh:
            h.update(fh.read())
    return h.hexdigest()[:16]


def gen_proto_consts():
    a = run_probe("p_proto", """
P("hdr", sizeof(TSuplaDataPacket) - SUPLA_MAX_DATA_SIZE);
P("maxData", SUPLA_MAX_DATA_SIZE);
P("ver", SUPLA_PROTO_VERSION);
P("verMin", SUPLA_PROTO_VERSION_MIN);
P("bufMin", BUFFER_MIN_SIZE);
P("bufMax", BUFFER_MAX_SIZE);
P("tagSize", SUPLA_TAG_SIZE);
P("off_version", offsetof(TSuplaDataPacket, version));
P("off_rr", offsetof(TSuplaDataPacket, rr_id));
P("off_call", offsetof(TSuplaDataPacket, call_id));
P("off_ds", offsetof(TSuplaDataPacket, data_size));
P("off_data", offsetof(TSuplaDataPacket, data));
P("tag0", sproto_tag[0]); P("tag1", sproto_tag[1]); P("tag2", sproto_tag[2]);
P("tag3", sproto_tag[3]); P("tag4", sproto_tag[4]);
P("sizeof_uint", sizeof(unsigned _supla_int_t));
""", includes_c=[C.REPO + "/supla-common/proto.c"])
    b = run_probe("p_srpc", """
P("chunk", SRPC_BUFFER_SIZE);
P("queue", SRPC_QUEUE_SIZE);
P("minAlloc", SRPC_QUEUE_MIN_ALLOC_COUNT);
{ unsigned id; Tsrpc s; memset(&s,0,sizeof(s)); unsigned char dflt = srpc_call_min_version_required(&s, 2999);
  P("minVerDefault", dflt);
  printf("minVerTable ");
  for (id = 0; id < 3000; id++) { unsigned char v = srpc_call_min_version_required(&s, id);
    if (v != dflt) printf("(%u,%u),", id, (unsigned)v); }
  putchar(10); }
""", includes_c=[C.REPO + "/supla-common/srpc.c"])
    c = run_probe("p_devconn", """
P("stage", RECVBUFF_MAXSIZE);
P("sendBuf", SEND_BUFFER_SIZE);
P("espProtoVer", ESP8266_SUPLA_PROTO_VERSION);
P("inprogress", ESPCONN_INPROGRESS);
P("maxnum", ESPCONN_MAXNUM);
P("activityTimeout", ACTIVITY_TIMEOUT);
""", includes_c=["supla_esp.h", "supla_esp_devconn.h", "espconn.h"])
    d = run_probe("p_dns", """
P("dns_servers", DNS_SERVER_COUNT); P("dns_minLen", DOMAIN_MIN_LEN); P("dns_maxLen", DOMAIN_MAX_LEN);
P("dns_hdrLen", sizeof(unsigned short) + sizeof(_t_dns_header));
P("dns_qSuffix", sizeof(_t_dns_question_suffix)); P("dns_aSuffix", sizeof(_t_dns_answer_suffix));
P("dns_off_ancount", sizeof(unsigned short) + offsetof(_t_dns_header, ANCOUNT));
P("dns_off_type", offsetof(_t_dns_answer_suffix, TYPE)); P("dns_off_class", offsetof(_t_dns_answer_suffix, CLASS));
P("dns_off_rdlen", offsetof(_t_dns_answer_suffix, RDLENGTH));
P("dns_typeA", TYPE_A); P("dns_classIN", CLASS_IN); P("dns_timeout", DNS_TIMEOUT_PER_REQUEST_MS); P("dns_retry", RETRY_DELAY_MS);
{ _t_dns_header h; memset(&h, 0, sizeof(h)); h.RCODE = 15; P("dns_rcode_byte", ((unsigned char*)&h)[3]); }
""", includes_c=[C.REPO + "/src/user/supla_esp_dns_client.c"])
    e = run_probe("p_rs", """
P("rs_start", RS_START_DELAY); P("rs_stop", RS_STOP_DELAY); P("rs_dbl", RELAY_DOUBLE_TRY);
P("rs_up", RS_RELAY_UP); P("rs_down", RS_RELAY_DOWN); P("rs_off", RS_RELAY_OFF);
P("ac_filter", RS_AUTOCAL_FILTERING_TIME_MS); P("ac_min", RS_AUTOCAL_MIN_TIME_MS); P("ac_max", RS_AUTOCAL_MAX_TIME_MS);
P("rs_max", RS_MAX_COUNT); P("input_max", INPUT_MAX_COUNT); P("relay_max", RELAY_MAX_COUNT);
P("in_mincycle", INPUT_MIN_CYCLE_COUNT); P("in_cycle", INPUT_CYCLE_TIME); P("in_silent", INPUT_SILENT_STARTUP_TIME_MS);
""", includes_c=["supla_esp.h", "supla_esp_gpio.h", "supla_esp_rs_fb.h"])
    # literals inside supla_esp_gpio_rs_set_relay / supla_esp_gpio_relay_hi (fail closed if the text changes shape)
    rs = open(os.path.join(C.REPO, "src/user/supla_esp_rs_fb.c")).read()
    m1 = re.search(r"if \(delay_time > (\d+)\) \{", rs)
    m2 = re.search(r"supla_esp_gpio_relay_hi\(rel->gpio_id, 0\);\s*os_delay_us\((\d+)\);", rs)
    gp = open(os.path.join(C.REPO, "src/user/supla_esp_gpio.c")).read()
    m3 = re.search(r"supla_esp_gpio_btn_irq_lock\(1\);\s*os_delay_us\((\d+)\);", gp)
    m4 = re.search(r"os_delay_us\((\d+)\);\s*supla_esp_gpio_btn_irq_lock\(0\);", gp)
    if not (m1 and m2 and m3 and m4):
        raise ExtractError("rs_set_relay / relay_hi: delay literals not recognised")
    e.update({"rs_thresh": m1.group(1), "rs_oppUs": m2.group(1), "rs_preUs": m3.group(1), "rs_postUs": m4.group(1)})
    f = run_probe("p_calcfg", """
P("cal_enter", SUPLA_CALCFG_CMD_ENTER_CFG_MODE); P("cal_recal", SUPLA_CALCFG_CMD_RECALIBRATE);
P("cal_dt_rs", SUPLA_CALCFG_DATATYPE_RS_SETTINGS); P("cal_rs_size", sizeof(TCalCfg_RollerShutterSettings));
P("cal_done", SUPLA_CALCFG_RESULT_DONE); P("cal_unauth", SUPLA_CALCFG_RESULT_UNAUTHORIZED);
P("cal_notsupp", SUPLA_CALCFG_RESULT_NOT_SUPPORTED); P("cfg_btn_press_time", CFG_BTN_PRESS_TIME);
P("cfg_btn_press_count", CFG_BTN_PRESS_COUNT);
""", includes_c=["supla_esp.h", "proto.h", "supla_esp_input.h"])
    dv = open(os.path.join(C.REPO, "src/user/supla_esp_devconn.c")).read()
    m1 = re.search(r"t2 >= \(devconn->server_activity_timeout\+(\d+)\)", dv)
    m2 = re.findall(r"devconn->server_activity_timeout-(\d+)\)", dv)
    if not m1 or len(m2) != 2 or m2[0] != m2[1]:
        raise ExtractError("timer1_cb: window literals not recognised")
    g = run_probe("p_wd", 'P("wd_timeout", WATCHDOG_TIMEOUT_SEC); P("wd_soft", WATCHDOG_SOFT_TIMEOUT_SEC); P("mqtt_recvbuf", MQTT_RECVBUF_SIZE); P("cd_t2count", STATE_CFG_TIME2_COUNT); P("at_hold", BTN_HOLD_TIME_MS); P("at_multi", BTN_MULTICLICK_TIME_MS); P("at_caps", SUPLA_ACTION_CAP_TURN_ON + 3 * SUPLA_ACTION_CAP_TURN_OFF + 5 * SUPLA_ACTION_CAP_TOGGLE_x1 + 7 * SUPLA_ACTION_CAP_TOGGLE_x5 + 11 * SUPLA_ACTION_CAP_HOLD + 13 * SUPLA_ACTION_CAP_SHORT_PRESS_x1 + 17 * SUPLA_ACTION_CAP_SHORT_PRESS_x5); P("at_types", INPUT_TYPE_BTN_MONOSTABLE * 100 + INPUT_TYPE_BTN_BISTABLE);',
                  includes_c=["supla_esp.h"])
    g.update({"ka_reconnect": m1.group(1), "ka_window": m2[0]})
    cd = open(os.path.join(C.REPO, "src/user/supla_esp_countdown_timer.c")).read()
    mm = re.search(r"time_left_ms / (\d+);\s*if \(dms < (\d+)\) \{\s*dms = (\d+);\s*\} else if \(dms > (\d+)\) \{\s*dms = (\d+);", cd)
    if not mm or mm.group(2) != mm.group(3) or mm.group(4) != mm.group(5):
        raise ExtractError("countdown startstop: period rule not recognised")
    a.update({"cd_div": mm.group(1), "cd_min": mm.group(2), "cd_max": mm.group(4)})
    h = run_probe("p_cfg", """
P("cfg_len", sizeof(SuplaEspCfg)); P("cfg_guid", SUPLA_GUID_SIZE); P("cfg_auth", SUPLA_AUTHKEY_SIZE);
P("cfg_off_guid", offsetof(SuplaEspCfg, GUID)); P("cfg_off_auth", offsetof(SuplaEspCfg, AuthKey));
P("cfg_off_server", offsetof(SuplaEspCfg, Server)); P("cfg_state_len", sizeof(SuplaEspState));
P("cfg_sector", CFG_SECTOR); P("cfg_state_off", STATE_SECTOR_OFFSET);
""", includes_c=["supla_esp.h", "supla_esp_cfg.h"])
    # supla_update.c: slot addresses, size limits per flash map, sector size, footer and key size
    up = open(os.path.join(C.REPO, "src/user/supla_update.c")).read()
    un = re.sub(r"\s+", " ", up)
    ma = re.findall(r"update->flash_addr = ubin == UPGRADE_FW_BIN1 \? (0x[0-9a-fA-F]+) : (0x[0-9a-fA-F]+);", un)
    ml = re.findall(r"if \( update->expected_file_size <= (\d+)\*(\d+) \) update_step = FUPDT_STEP_DOWNLOADING;", un)
    mf = re.search(r"footer\[0\] != 0x([0-9A-F]+) \|\| footer\[1\] != 0x([0-9A-F]+) \|\| footer\[2\] != 0x([0-9A-F]+) \|\| "
                   r"footer\[3\] != 0x([0-9A-F]+) \|\| footer\[4\] != (\d+) \|\| footer\[5\] != (\d+)\)", un)
    mk = re.search(r"key_bytes = \(footer\[6\] << 8\) - footer\[7\];", un)
    mb = re.search(r"int bytes_left = update->flash_awo-update->flash_addr-16-key_bytes;", un)
    mc = re.search(r"if \( update->downloaded_data_size \+ content_len > update->expected_file_size \) "
                   r"content_len = update->expected_file_size - update->downloaded_data_size;", un)
    if len(ma) != 2 or len(ml) != 2 or not (mf and mk and mb):
        raise ExtractError("supla_update.c: slot/limit/footer literals not recognised")
    if "if ( key_bytes == RSA_NUM_BYTES ) {" not in un:
        raise ExtractError("supla_update.c: the key-size test of supla_esp_update_verify_and_reboot is not 'key_bytes == RSA_NUM_BYTES'")
    # the response head: the three strstr literals, the offset behind "Content-Length: ", the head buffer size and the
    # shape of the digit loop (digits accumulate with <<3 + <<1, the size gate sits at the line end, the loop ends there)
    lit = r'"((?:[^"\\]|\\.)*)"'
    mh = re.search(r"if \( NULL != strstr\(update->http_header_data, " + lit + r"\) && NULL != strstr\(update->http_header_data, "
                   + lit + r"\) && NULL != \(str = strstr\(update->http_header_data, " + lit + r"\)\) \) \{ "
                   r"int pos = \(int\)str - \(int\)update->http_header_data; pos\+=(\d+);", un)
    mmax = re.search(r"#define MAX_HTTP_HEADER_SIZE (\d+)", up)
    if not mh or not mmax:
        raise ExtractError("supla_update.c: response head literals not recognised")
    hl = [c_literal_bytes(['"%s"' % mh.group(i)]) for i in (1, 2, 3)]
    if int(mh.group(4)) != len(hl[2]):
        raise ExtractError("supla_update.c: pos+=%s is not the length of %r" % (mh.group(4), hl[2]))
    shape = [
        "for(a=pos;a<update->http_header_data_len;a++) { if ( update->http_header_data[a] != '\\r' && update->http_header_data[a] != '\\n' ) { "
        "if ( update->http_header_data[a] < '0' || update->http_header_data[a] > '9' ) break; "
        "update->expected_file_size = (update->expected_file_size<<3) +(update->expected_file_size<<1)+update->http_header_data[a] -'0'; } "
        "if ( update->http_header_data[a] == '\\r' || update->http_header_data[a] == '\\n' ) { if ( update->expected_file_size > 0 ) { "
        "update->downloaded_data_size = 0; switch(system_get_flash_size_map()) {",
        "default: break; } } break; } } } break; } }",
        "if ( update->http_header_data_len >= MAX_HTTP_HEADER_SIZE-1 ) { update->http_header_matched = -1; break; }",
    ]
    for sh in shape:
        if sh not in un:
            raise ExtractError("supla_update.c: response head scanner shape not recognised near: " + sh[:70])
    u = run_probe("p_upd", """
P("upd_sec", SPI_FLASH_SEC_SIZE); P("upd_rsa", RSA_NUM_BYTES); P("upd_bin1", UPGRADE_FW_BIN1);
P("upd_m2", FLASH_SIZE_8M_MAP_512_512); P("upd_m3", FLASH_SIZE_16M_MAP_512_512); P("upd_m4", FLASH_SIZE_32M_MAP_512_512);
P("upd_m5", FLASH_SIZE_16M_MAP_1024_1024); P("upd_m6", FLASH_SIZE_32M_MAP_1024_1024);
P("upd_attempts", 5);
""", includes_c=["supla_esp.h", "spi_flash.h", "upgrade.h", "user_interface.h"])
    u.update({"upd_a512_hi": str(int(ma[0][0], 16)), "upd_a512_lo": str(int(ma[0][1], 16)),
              "upd_a1024_hi": str(int(ma[1][0], 16)), "upd_a1024_lo": str(int(ma[1][1], 16)),
              "upd_l512": str(int(ml[0][0]) * int(ml[0][1])), "upd_l1024": str(int(ml[1][0]) * int(ml[1][1])),
              "upd_footer": "[%s]" % ", ".join(str(int(x, 16)) for x in mf.groups()[:4]) ,
              "upd_f45": "(%s, %s)" % (mf.group(5), mf.group(6)),
              "upd_clamp": "true" if mc else "false",
              "upd_hdr": "{ ok200 := %s, ctype := %s, clen := %s, maxHdr := %s }" % (
                  list(hl[0]), list(hl[1]), list(hl[2]), mmax.group(1))})
    # supla_esp_devconn_connect_cb: the registration state is reset together with the protocol instance
    mconn = re.search(r"supla_esp_devconn_connect_cb\(void \*arg\) \{([^}]*)\}", re.sub(r"\s+", " ", dv))
    if not mconn or "supla_esp_srpc_init();" not in mconn.group(1):
        raise ExtractError("supla_esp_devconn_connect_cb: body not recognised")
    # the form handler commits the candidate record to RAM only inside the success branch of the save
    fm = re.sub(r"\s+", " ", open(os.path.join(C.REPO, "src/user/supla_esp_cfgmode.c")).read())
    ncopy = len(re.findall(r"memcpy\(&supla_esp_cfg, &new_cfg, sizeof\(SuplaEspCfg\)\);", fm))
    if ncopy != 1:
        raise ExtractError("supla_esp_recv_callback: expected exactly one copy of new_cfg into supla_esp_cfg, found %d" % ncopy)
    a["form_commit_guarded"] = "true" if re.search(
        r"if \(1 == supla_esp_cfg_save\(&new_cfg\)\) \{ memcpy\(&supla_esp_cfg, &new_cfg, sizeof\(SuplaEspCfg\)\);", fm) else "false"
    mq = re.sub(r"\s+", " ", open(os.path.join(C.REPO, "src/user/supla_esp_mqtt.c")).read())
    for needle in ("unsigned short part = len < room ? len : (unsigned short)room;", "if (supla_esp_mqtt_vars->recv_gap) {",
                   "if (len > 0) { supla_esp_mqtt_vars->recv_gap = 1; }", "size_t room = used < MQTT_RECVBUF_SIZE ? MQTT_RECVBUF_SIZE - used : 0;"):
        if needle not in mq:
            raise ExtractError("supla_esp_mqtt_conn_recv_cb: shape not recognised (missing: %s)" % needle)
    a["dc_connect_resets"] = "true" if re.search(r"devconn->registered = 0;.*supla_esp_srpc_init\(\);", mconn.group(1)) else "false"
    a.update(u)
    a.update(h)
    a.update(b)
    a.update(c)
    a.update(d)
    a.update(e)
    a.update(f)
    a.update(g)
    return a


def emit_consts():
    k = gen_proto_consts()
    lines = [
        "/- GENERATED by tools/extract.py from /repo (proto.c, srpc.c, supla_esp.h) - do not edit -/",
        "import SuplaVerif.Model.Proto",
        "import SuplaVerif.Model.Dns",
        "import SuplaVerif.Model.RsRelay",
        "import SuplaVerif.Model.CalCfg",
        "import SuplaVerif.Model.KeepAlive",
        "import SuplaVerif.Model.Countdown",
        "import SuplaVerif.Model.CfgStore",
        "import SuplaVerif.Model.Update",
        "import SuplaVerif.Model.UpdHdr",
        "import SuplaVerif.Model.AutoCal",
        "namespace SuplaVerif.Gen",
        "",
        "def protoParams : ProtoParams :=",
        "  { hdr := %s, maxData := %s, ver := %s, verMin := %s, bufMin := %s, bufMax := %s," % (
            k["hdr"], k["maxData"], k["ver"], k["verMin"], k["bufMin"], k["bufMax"]),
        "    chunk := %s, stage := %s, sendBuf := %s, queue := %s }" % (
            k["chunk"], k["stage"], k["sendBuf"], k["queue"]),
        "",
        "def espProtoVer : Nat := %s" % k["espProtoVer"],
        "",
        "/-- layout and literal facts the hand-written model relies on; if the source changes one of",
        "    them this file stops compiling (tie broken) -/",
        "theorem layout_ok :",
        "    (%s, %s, %s, %s, %s, %s, %s) = (5, 5, 6, 10, 14, 18, 4) := by decide" % (
            k["tagSize"], k["off_version"], k["off_rr"], k["off_call"], k["off_ds"], k["off_data"],
            k["sizeof_uint"]),
        "theorem tag_ok : ([%s, %s, %s, %s, %s] : List UInt8) = TAG := by decide" % (
            k["tag0"], k["tag1"], k["tag2"], k["tag3"], k["tag4"]),
        "theorem esp_codes_ok : ((%s : Int), (%s : Int)) = (Io_INPROGRESS, Io_MAXNUM) := by decide" % (
            k["inprogress"], k["maxnum"]),
        "/-- srpc_call_min_version_required for call ids 0..2999 (other ids: the default) -/",
        "def minVerDefault : Nat := %s" % k["minVerDefault"],
        "def minVerTable : List (Nat × Nat) := [%s]" % k["minVerTable"].rstrip(","),
        "def minVer (id : Nat) : Nat := ((minVerTable.find? (fun p => p.1 == id)).map (·.2)).getD minVerDefault",
        "/-- srpc_call_allowed at the protocol version the firmware sets -/",
        "def callAllowed (id : Nat) : Bool := minVer id == 0 || decide (espProtoVer ≥ minVer id)",
        "theorem esp_uses_max_version : espProtoVer = protoParams.ver := by decide",
        "theorem protoParams_wf : protoParams.WF := ⟨by decide, by decide, by decide⟩",
        "",
        "def dnsParams : DnsParams :=",
        "  { servers := %s, minLen := %s, maxLen := %s, hdrLen := %s, qSuffix := %s, aSuffix := %s }" % (
            k["dns_servers"], k["dns_minLen"], k["dns_maxLen"], k["dns_hdrLen"], k["dns_qSuffix"], k["dns_aSuffix"]),
        "def rsParams : RsParams :=",
        "  { startDelay := %s, stopDelay := %s, thresh := %s, oppUs := %s, preUs := %s, dblUs := %s, postUs := %s }" % (
            k["rs_start"], k["rs_stop"], k["rs_thresh"], k["rs_oppUs"], k["rs_preUs"], k["rs_dbl"], k["rs_postUs"]),
        "theorem rs_values_ok : (%s, %s, %s) = (2, 1, 0) := by decide" % (k["rs_up"], k["rs_down"], k["rs_off"]),
        "def acParams : AcParams := { filterMs := %s, minMs := %s, maxMs := %s }" % (k["ac_filter"], k["ac_min"], k["ac_max"]),
        "def rsMaxCount : Nat := %s" % k["rs_max"],
        "def inputMaxCount : Nat := %s" % k["input_max"],
        "def relayMaxCount : Nat := %s" % k["relay_max"],
        "def inputMinCycle : Nat := %s" % k["in_mincycle"],
        "def inputCycleMs : Nat := %s" % k["in_cycle"],
        "def inputSilentMs : Nat := %s" % k["in_silent"],
        "def calConsts : CalConsts :=",
        "  { cmdEnterCfg := %s, cmdRecalibrate := %s, dtRsSettings := %s, rsSettingsSize := %s," % (
            k["cal_enter"], k["cal_recal"], k["cal_dt_rs"], k["cal_rs_size"]),
        "    resDone := %s, resUnauth := %s, resNotSupp := %s }" % (k["cal_done"], k["cal_unauth"], k["cal_notsupp"]),
        "def cfgBtnPressTimeMs : Nat := %s" % k["cfg_btn_press_time"],
        "def cfgBtnPressCount : Nat := %s" % k["cfg_btn_press_count"],
        "def kaConsts : KaConsts :=",
        "  { pingWindow := %s, reconnectAdd := %s, wdTimeout := %s, wdSoft := %s }" % (
            k["ka_window"], k["ka_reconnect"], k["wd_timeout"], k["wd_soft"]),
        "/-- MQTT_RECVBUF_SIZE: the receive buffer of the MQTT client -/",
        "def mqttRecvBuf : Nat := %s" % k["mqtt_recvbuf"],
        "/-- BTN_HOLD_TIME_MS, BTN_MULTICLICK_TIME_MS -/",
        "def atHoldMs : Nat := %s" % k["at_hold"],
        "def atMultiMs : Nat := %s" % k["at_multi"],
        "/-- the SUPLA_ACTION_CAP_* bits and input type codes Model/InputAt hard-codes -/",
        "theorem at_caps_ok : (%s, %s) = (1 + 3 * 2 + 5 * 4 + 7 * 64 + 11 * 1024 + 13 * 2048 + 17 * 32768, 204) := by decide" % (k["at_caps"], k["at_types"]),
        "/-- STATE_CFG_TIME2_COUNT: entries of supla_esp_state.Time2Left -/",
        "def cdT2Count : Nat := %s" % k["cd_t2count"],
        "def cdParams : CdParams := { minP := %s, maxP := %s, div := %s }" % (k["cd_min"], k["cd_max"], k["cd_div"]),
        "def cfgLayout : CfgLayout := { recLen := %s, guidLen := %s, authLen := %s, tag := [83, 85, 80, 76, 65, 7] }" % (
            k["cfg_len"], k["cfg_guid"], k["cfg_auth"]),
        "theorem cfg_offsets_ok : (%s, %s, %s) = (6, 6 + %s, 6 + %s + %s) := by decide" % (
            k["cfg_off_guid"], k["cfg_off_auth"], k["cfg_off_server"], k["cfg_guid"], k["cfg_guid"], k["cfg_auth"]),
        "/-- supla_esp_devconn_connect_cb resets devconn->registered before creating the protocol instance -/",
        "def dcConnectResets : Bool := %s" % k["dc_connect_resets"],
        "/-- supla_esp_recv_callback copies the submitted record over supla_esp_cfg only when supla_esp_cfg_save returned 1 -/",
        "def formCommitGuarded : Bool := %s" % k["form_commit_guarded"],
        "def updParams : UpdParams :=",
        "  { sec := %s, rsa := %s, lim512 := %s, lim1024 := %s, hi512 := %s, lo512 := %s, hi1024 := %s, lo1024 := %s," % (
            k["upd_sec"], k["upd_rsa"], k["upd_l512"], k["upd_l1024"], k["upd_a512_hi"], k["upd_a512_lo"],
            k["upd_a1024_hi"], k["upd_a1024_lo"]),
        "    maps512 := [%s, %s, %s], maps1024 := [%s, %s], bin1 := %s, clamp := %s }" % (
            k["upd_m2"], k["upd_m3"], k["upd_m4"], k["upd_m5"], k["upd_m6"], k["upd_bin1"], k["upd_clamp"]),
        "def hdrParams : HdrParams := %s" % k["upd_hdr"],
        "theorem upd_footer_ok : ((%s : List Nat), %s) = ([186, 190, 43, 237], (0, 1)) := by decide" % (k["upd_footer"], k["upd_f45"]),
        "def dnsTimeoutMs : Nat := %s" % k["dns_timeout"],
        "def dnsRetryMs : Nat := %s" % k["dns_retry"],
        "/-- field offsets / literals of the reply parser the model hard-codes -/",
        "theorem dns_layout_ok : (%s, %s, %s, %s, %s, %s, %s) = (8, 0, 2, 8, 1, 1, 15) := by decide" % (
            k["dns_off_ancount"], k["dns_off_type"], k["dns_off_class"], k["dns_off_rdlen"], k["dns_typeA"],
            k["dns_classIN"], k["dns_rcode_byte"]),
        "",
        "end SuplaVerif.Gen",
        "",
    ]
    return write_if_changed(os.path.join(GEN, "Consts.lean"), "\n".join(lines))


def preprocess(rel, variant="base"):
    r = C.sh(["gcc", "-E", "-P", "-w"] + C.fw_flags(variant) + [os.path.join(C.REPO, rel)])
    if r.returncode != 0:
        raise ExtractError("cannot preprocess %s: %s" % (rel, r.stderr[-2000:]))
    return r.stdout


def split_cases(sw):
    """split the text of a switch body into [(labels, body)] groups; nested switches not expected"""
    parts = re.split(r"(\bcase\s+[-0-9A-Za-z_x]+\s*:|\bdefault\s*:)", sw)
    groups, labels, body = [], [], ""
    for tok in parts[1:]:
        m = re.match(r"case\s+([-0-9A-Za-z_x]+)\s*:", tok)
        if m or tok.startswith("default"):
            if body.strip():
                groups.append((labels, body))
                labels, body = [], ""
            labels.append(m.group(1) if m else "default")
        else:
            body += tok
    if labels:
        groups.append((labels, body))
    return groups


RE_EXACT = re.compile(r"srpc->sdp\.data_size\s*==\s*sizeof\((\w+)\)")
RE_ALLOC = re.compile(r"(?:calloc\(\s*1\s*,\s*sizeof\((\w+)\)\)|malloc\(\s*sizeof\((\w+)\)\))")
RE_VALID = re.compile(
    r"srpc->sdp\.data_size\s*>=\s*\(sizeof\((\w+)\)\s*-\s*sizeof\((\w+)\)\s*\*\s*(\(?[^&]+?\)?)\)\s*&&\s*"
    r"srpc->sdp\.data_size\s*<=\s*sizeof\(\1\)\s*&&\s*"
    r"\(\(\(\1\s*\*\)&\(srpc->sdp\.data\[0\]\)\)->([\w.]+)\)\s*\*\s*sizeof\(\2\)\s*==\s*"
    r"srpc->sdp\.data_size\s*-\s*\(sizeof\(\1\)\s*-\s*sizeof\(\2\)\s*\*\s*(\(?[^)]+?\)?)\)", re.S)


def gen_getdata():
    t = preprocess("supla-common/srpc.c")
    m = re.search(r"srpc_getdata\([^)]*\)\s*\{", t)
    if not m:
        raise ExtractError("srpc_getdata definition not found")
    body = t[m.end():t.index("srpc_rd_free(TsrpcReceivedData *rd) {")]
    k = body.find("switch (srpc->sdp.call_id) {")
    e = body.find("if (call_with_no_data == 1)")
    if k < 0 or e < 0:
        raise ExtractError("srpc_getdata: switch or epilogue not recognised")
    # the epilogue must be the copy guarded only by the non-NULL pointer
    epi = re.sub(r"\s+", " ", body[e:])
    if "memcpy(rd->data.dcs_ping, srpc->sdp.data, srpc->sdp.data_size)" not in epi:
        raise ExtractError("srpc_getdata: copy statement not recognised")
    groups = split_cases(body[k + len("switch (srpc->sdp.call_id) {"):e])
    entries = []
    probe = ""
    for labels, gb in groups:
        ids = []
        for lb in labels:
            if not re.fullmatch(r"\d+", lb):
                raise ExtractError("srpc_getdata: non-numeric case label %s" % lb)
            ids.append(int(lb))
        flat = re.sub(r"\s+", " ", gb).strip()
        allocs = [a or b for a, b in RE_ALLOC.findall(flat)]
        mv = RE_VALID.search(flat)
        exact = RE_EXACT.findall(flat)
        kind = None
        if re.fullmatch(r"call_with_no_data = 1; break;", flat):
            kind = ("nodata",)
        elif mv and len(allocs) == 1 and flat.count("srpc->sdp.data_size") == 3 and \
                flat.startswith("if (" + mv.group(0)) and \
                re.fullmatch(r"\)? \{ rd->data\.\w+ = \(\w+ \*\)(?:calloc|malloc)\([^;]*\); \} break;",
                             flat[len("if (" + mv.group(0)):]) and \
                flat.count("(") == flat.count(")") and mv.group(0).count("(") - mv.group(0).count(")") in (0, -1):
            norm = lambda x: re.sub(r"[()\s]", "", x)
            if norm(mv.group(3)) != norm(mv.group(5)) or not re.fullmatch(r"[0-9+*\-]+", norm(mv.group(3))):
                kind = ("other",)
            else:
                kind = ("valid", mv.group(1), mv.group(2), "(" + norm(mv.group(3)) + ")", mv.group(4), allocs[0])
        elif exact and len(allocs) == 1 and not mv and \
                re.fullmatch(r"if \((?:srpc->sdp\.data_size == sizeof\(\w+\)(?: \|\| )?)+\) \{? ?rd->data\.\w+ = "
                             r"\(\w+ \*\) ?(?:calloc|malloc)\([^;]*\); "
                             r"(?:if \(srpc->sdp\.data_size == sizeof\(\w+\) && rd->data\.\w+ != \(\(void \*\)0\)\) "
                             r"memset\(rd->data\.\w+, 0, sizeof\(\w+\)\); )?\}? ?break;", flat):
            kind = ("exact", RE_EXACT.findall(flat[:flat.index("rd->data")]), allocs[0])
        else:
            kind = ("other",)
        for cid in ids:
            entries.append((cid, kind))
    # probe for the numbers
    lines = []
    for cid, kind in entries:
        if kind[0] == "exact":
            lines.append('printf("E %d", %d);' % (cid, cid))
            for ty in kind[1]:
                lines.append('printf(" %%lld", (long long)sizeof(%s));' % ty)
            lines.append('printf(" A %%lld\\n", (long long)sizeof(%s));' % kind[2])
        elif kind[0] == "valid":
            M, I, MAX, FIELD, AL = kind[1:]
            lines.append('printf("V %d %%lld %%lld %%lld %%lld %%lld %%d A %%lld\\n", (long long)sizeof(%s), (long long)sizeof(%s), '
                         '(long long)(%s), (long long)offsetof(%s, %s), (long long)sizeof(((%s*)0)->%s), '
                         '(int)(((__typeof__(((%s*)0)->%s))-1) < 0), (long long)sizeof(%s));'
                         % (cid, M, I, MAX, M, FIELD, M, FIELD, M, FIELD, AL))
        elif kind[0] == "nodata":
            lines.append('printf("N %d\\n");' % cid)
        else:
            lines.append('printf("O %d\\n");' % cid)
    d = os.path.join(C.BUILD, "probe")
    os.makedirs(d, exist_ok=True)
    src = os.path.join(d, "p_getdata.c")
    with open(src, "w") as f:
        f.write('#include <stdio.h>\n#include <stddef.h>\n#include "proto.h"\n#include "srpc.h"\nint main(void){\n' + "\n".join(lines) + "\nreturn 0;}\n")
    exe = os.path.join(d, "p_getdata")
    r = C.sh(["gcc", "-w", "-O0"] + C.fw_flags() + [src, "-o", exe])
    if r.returncode != 0:
        raise ExtractError("getdata probe does not compile:\n" + r.stderr[-3000:])
    out = C.sh([exe]).stdout.splitlines()
    rows = []
    for ln in out:
        p = ln.split()
        if p[0] == "E":
            a = p.index("A")
            rows.append("  { callId := %s, check := .exact [%s], alloc := %s }" % (p[1], ", ".join(p[2:a]), p[a + 1]))
        elif p[0] == "V":
            rows.append("  { callId := %s, check := .valid %s %s %s %s %s %s, alloc := %s }" % (
                p[1], p[2], p[3], p[4], p[5], p[6], "true" if p[7] == "1" else "false", p[9]))
        elif p[0] == "N":
            rows.append("  { callId := %s, check := .noData, alloc := 0 }" % p[1])
        else:
            rows.append("  { callId := %s, check := .other, alloc := 0 }" % p[1])
    # device dispatch
    dv = preprocess("src/user/supla_esp_devconn.c", "cfg")
    m = re.search(r"supla_esp_on_remote_call_received\([^)]*\)\s*\{", dv)
    if not m:
        raise ExtractError("dispatcher not found")
    db = dv[m.end():]
    k = db.find("switch (rd.call_id) {")
    e = db.find("srpc_rd_free(&rd);")
    if k < 0 or e < 0:
        raise ExtractError("dispatcher switch not recognised")
    disp = sorted(set(int(x) for x in re.findall(r"\bcase\s+(\d+)\s*:", db[k:e])))
    text = "\n".join([
        "/- GENERATED by tools/extract.py from supla-common/srpc.c (srpc_getdata) and",
        "   src/user/supla_esp_devconn.c (supla_esp_on_remote_call_received) - do not edit -/",
        "import SuplaVerif.Model.GetData",
        "namespace SuplaVerif.Gen",
        "",
        "def getDataTable : List GdEntry := [",
        ",\n".join(rows),
        "]",
        "",
        "/-- call ids the device dispatches to a handler -/",
        "def dispatched : List Nat := [%s]" % ", ".join(str(x) for x in disp),
        "",
        "end SuplaVerif.Gen", ""])
    return write_if_changed(os.path.join(GEN, "GetData.lean"), text)


def emit_root():
    """lean/SuplaVerif.lean: the library root importing every module (so `lake build SuplaVerif` works)"""
    mods = []
    base = os.path.join(C.LEAN, "SuplaVerif")
    for d, dn, fn in os.walk(base):
        for f in fn:
            if f.endswith(".lean"):
                rel = os.path.relpath(os.path.join(d, f), C.LEAN)[:-5].replace(os.sep, ".")
                mods.append(rel)
    write_if_changed(os.path.join(C.LEAN, "SuplaVerif.lean"), "".join("import %s\n" % m for m in sorted(mods)))


def split_args(txt):
    """split a C argument list at top-level commas"""
    out, depth, cur, instr = [], 0, "", False
    i = 0
    while i < len(txt):
        ch = txt[i]
        if instr:
            cur += ch
            if ch == "\\":
                cur += txt[i + 1]
                i += 1
            elif ch == '"':
                instr = False
        elif ch == '"':
            instr = True
            cur += ch
        elif ch in "([{":
            depth += 1
            cur += ch
        elif ch in ")]}":
            depth -= 1
            cur += ch
        elif ch == "," and depth == 0:
            out.append(cur.strip())
            cur = ""
        else:
            cur += ch
        i += 1
    if cur.strip():
        out.append(cur.strip())
    return out


PAGE_VARIANTS = [
    ("supla_default", "src/user/supla_esp_cfgmode_html.c", "base", []),
    ("supla_default_nofota", "src/user/supla_esp_cfgmode_html.c", "base", ["-U__FOTA"]),
    ("supla_cfgbtn", "src/user/supla_esp_cfgmode_html.c", "base", ["-DCFGBTN_TYPE_SELECTION"]),
    ("supla_cfgbtn_nofota", "src/user/supla_esp_cfgmode_html.c", "base", ["-DCFGBTN_TYPE_SELECTION", "-U__FOTA"]),
    ("supla_btn12", "src/user/supla_esp_cfgmode_html.c", "base", ["-DBTN1_2_TYPE_SELECTION"]),
    ("supla_btn12_nofota", "src/user/supla_esp_cfgmode_html.c", "base", ["-DBTN1_2_TYPE_SELECTION", "-U__FOTA"]),
    ("mqtt", "src/user/supla_esp_cfgmode_mqtt_html.c", "mqtt", ["-DMQTT_SUPPORT_ENABLED"]),
]
CFG_FIELDS = ["TAG", "GUID", "AuthKey", "Server", "Email", "Username", "LocationID", "Port", "LocationPwd", "Password",
              "WIFI_SSID", "WIFI_PWD", "CfgButtonType", "Button1Type", "Button2Type", "StatusLedOff", "InputCfgTriggerOff",
              "FirmwareUpdate", "Test", "UpsideDown", "MotorUpsideDown", "Time1", "Time2", "Trigger", "Flags",
              "MqttTopicPrefix", "MqttQoS", "OvercurrentThreshold1", "OvercurrentThreshold2", "MqttPoolPublicationDelay",
              "AutoCalOpenTime", "AutoCalCloseTime", "StaircaseButtonType", "ButtonType", "ButtonMode",
              "CleanConfigSignature", "Time3", "ButtonsUpsideDown", "Tilt0Angle", "Tilt100Angle", "TiltControlType",
              "AdditionalTimeMargin", "zero"]


def c_literal_bytes(lits):
    """the bytes of a sequence of adjacent C string literals"""
    out = bytearray()
    for lit in lits:
        body = lit[1:-1]
        i = 0
        while i < len(body):
            ch = body[i]
            if ch == "\\":
                nx = body[i + 1]
                simple = {"n": 10, "r": 13, "t": 9, "\\": 92, '"': 34, "'": 39, "0": 0}
                if nx in simple:
                    out.append(simple[nx])
                    i += 2
                else:
                    raise ExtractError("page template: escape \\%s not handled" % nx)
            else:
                out += ch.encode("utf-8")
                i += 1
    return bytes(out)


def page_fit(name, t):
    """the numbers that decide whether the page of a SUPLA variant fits the buffer allocated for it:
    bufflen = sum of strlen(...) + constant; the page = html_template with its directives expanded"""
    lit = r'"(?:\\.|[^"\\])*"'
    m1 = re.search(r"char html_template_header\[\] =((?:\s*%s)+)\s*;" % lit, t)
    m2 = re.search(r"char html_template\[\] =((?:\s*%s)+)\s*;" % lit, t)
    mb = re.search(r"int bufflen =([^;]*);", t)
    if not (m1 and m2 and mb):
        raise ExtractError("page variant %s: template / bufflen not recognised" % name)
    header = c_literal_bytes(re.findall(lit, m1.group(1)))
    tmpl = c_literal_bytes(re.findall(lit, m2.group(1)))
    # bufflen terms
    terms = [x.strip() for x in mb.group(1).split("+")]
    slack, summed, has_fmt = 0, [], False
    for x in terms:
        if re.fullmatch(r"\d+", x):
            slack += int(x)
        else:
            mm = re.fullmatch(r"strlen\((.*)\)", x, re.S)
            if not mm:
                raise ExtractError("page variant %s: bufflen term not recognised: %s" % (name, x))
            term = re.sub(r"\s+", "", mm.group(1))
            if term == "html_template":      # that term is fmtLen
                has_fmt = True
            else:
                summed.append(term)
    if not has_fmt:
        raise ExtractError("page variant %s: strlen(html_template) is not part of bufflen" % name)
    # the snprintf call that prints html_template
    mc = None
    for m in re.finditer(r"ets_snprintf\s*\(", t):
        depth, j = 1, m.end()
        while depth and j < len(t):
            depth += t[j] == "("
            depth -= t[j] == ")"
            j += 1
        a = split_args(t[m.end():j - 1])
        if len(a) >= 3 and a[0] == "buffer" and a[1] == "bufflen" and a[2] == "html_template":
            mc = a[3:]
    if mc is None:
        raise ExtractError("page variant %s: the call printing html_template into buffer/bufflen was not found" % name)
    # directives of the template
    dirs, lit_out, i = [], 0, 0
    while i < len(tmpl):
        if tmpl[i:i + 1] == b"%":
            mm = re.match(rb"%(%|s|02X|i|d|u)", tmpl[i:])
            if not mm:
                raise ExtractError("page variant %s: directive not handled at %r" % (name, tmpl[i:i + 6]))
            if mm.group(1) == b"%":
                lit_out += 1
            else:
                dirs.append(mm.group(1).decode())
            i += len(mm.group(0))
        else:
            lit_out += 1
            i += 1
    if len(dirs) != len(mc):
        raise ExtractError("page variant %s: %d directives but %d arguments" % (name, len(dirs), len(mc)))
    n_hex, const_max, printed = 0, 0, []
    for d, a in zip(dirs, mc):
        a1 = re.sub(r"\s+", "", a)
        if d == "02X":
            if not a1.startswith("(unsignedchar)"):
                raise ExtractError("page variant %s: %%02X argument is not cast to unsigned char: %s" % (name, a))
            n_hex += 1
        elif d == "s":
            tern = re.fullmatch(r'.*\?\s*(%s)\s*:\s*(%s)' % (lit, lit), a.strip(), re.S)
            if tern:
                const_max += max(len(c_literal_bytes([tern.group(1)])), len(c_literal_bytes([tern.group(2)])))
            elif re.fullmatch(lit, a.strip()):
                const_max += len(c_literal_bytes([a.strip()]))
            else:
                printed.append(a1)
        else:
            raise ExtractError("page variant %s: numeric directive %%%s not expected in this page" % (name, d))
    vars_ = sorted(set(printed) | set(summed))
    return {"name": name, "fmtLen": len(tmpl), "hdrLen": len(header), "litOut": lit_out, "nHex": n_hex, "constMax": const_max,
            "slack": slack, "vars": vars_, "printed": [printed.count(v) for v in vars_], "summed": [summed.count(v) for v in vars_]}


def gen_html():
    rows = []
    fits = []
    for name, rel, variant, extra in PAGE_VARIANTS:
        r = C.sh(["gcc", "-E", "-P", "-w"] + C.fw_flags(variant) + extra + [os.path.join(C.REPO, rel)])
        if r.returncode != 0:
            raise ExtractError("cannot preprocess %s (%s): %s" % (rel, name, r.stderr[-1500:]))
        t = r.stdout
        calls = []
        for m in re.finditer(r"ets_snprintf\s*\(", t):
            depth, j = 1, m.end()
            while depth and j < len(t):
                depth += t[j] == "("
                depth -= t[j] == ")"
                j += 1
            calls.append(t[m.end():j - 1])
        if not calls:
            raise ExtractError("page variant %s: no ets_snprintf call found" % name)
        fields, others = [], []
        for c in calls:
            args = split_args(c)[2:]      # buffer, size, then template + arguments
            for a in args:
                refs = re.findall(r"supla_esp_cfg\.(\w+)", a)
                if refs:
                    for f in refs:
                        if f not in CFG_FIELDS:
                            raise ExtractError("page variant %s: unknown config field %s" % (name, f))
                        fields.append(f)
                elif "supla_esp_cfg" in a or "supla_esp_state" in a and "laststate" not in a:
                    raise ExtractError("page variant %s: argument reads the whole config: %s" % (name, a[:80]))
                else:
                    others.append(re.sub(r"\s+", " ", a)[:40])
        # any other access to the config record in the page builder file (e.g. the buffer-length sum)
        inside = sum(len(re.findall(r"supla_esp_cfg\.(\w+)", c)) for c in calls)
        allrefs = re.findall(r"supla_esp_cfg\.(\w+)", t)
        other = [f for f in allrefs if f in CFG_FIELDS]
        for f in allrefs:
            if f not in CFG_FIELDS:
                raise ExtractError("page variant %s: unknown config field %s" % (name, f))
        rows.append((name, fields, sorted(set(other))))
        if name != "mqtt":
            fits.append(page_fit(name, t))
    L = ["/- GENERATED by tools/extract.py from supla_esp_cfgmode_html.c / supla_esp_cfgmode_mqtt_html.c:",
         "   for every page variant, the configuration fields that appear in the argument lists of the",
         "   ets_snprintf calls that build the page - do not edit -/",
         "import SuplaVerif.Model.Page",
         "namespace SuplaVerif.Gen",
         "",
         "def pageArgs : List (String × List CfgField) := ["]
    L.append(",\n".join("  (\"%s\", [%s])" % (n, ", ".join(".%s" % f for f in fs)) for n, fs, _ in rows))
    L += ["]", "", "/-- every configuration field the page-builder file reads anywhere (also outside argument lists) -/",
          "def pageAllRefs : List (String × List CfgField) := ["]
    L.append(",\n".join("  (\"%s\", [%s])" % (n, ", ".join(".%s" % f for f in o)) for n, _, o in rows))
    L += ["]", "", "/-- per SUPLA page variant: length of html_template (fmtLen) and of html_template_header, literal output characters of",
          "    the template, number of %02X directives (arguments cast to unsigned char), total maximum length of the constant",
          "    string arguments, the constant added to bufflen, and per string variable (`vars`) how often it is printed and how",
          "    often its strlen is part of bufflen -/",
          "def pageFit : List PageFit := ["]
    L.append(",\n".join('  { name := "%s", fmtLen := %d, hdrLen := %d, litOut := %d, nHex := %d, constMax := %d, slack := %d,\n    vars := [%s],\n    printed := %s, summed := %s }' % (
        f["name"], f["fmtLen"], f["hdrLen"], f["litOut"], f["nHex"], f["constMax"], f["slack"],
        ", ".join('"%s"' % v.replace('"', "'") for v in f["vars"]), f["printed"], f["summed"]) for f in fits))
    L += ["]", "", "end SuplaVerif.Gen", ""]
    write_if_changed(os.path.join(GEN, "Html.lean"), "\n".join(L))
    json.dump(fits, open(os.path.join(C.BUILD, "page_fit.json"), "w"))
    # the field enumeration used by Model/Page.lean is fixed; check it is what the struct has
    k = run_probe("p_cfgfields", "\n".join('P("f_%s", sizeof(((SuplaEspCfg*)0)->%s));' % (f, f) for f in CFG_FIELDS),
                  variant="mqtt", includes_c=["supla_esp.h", "supla_esp_cfg.h"], extra_flags=["-DMQTT_SUPPORT_ENABLED"])
    return rows


FORM_TARGETS = {"pVars->intval": 0, "cfg->WIFI_SSID": 1, "cfg->WIFI_PWD": 2, "cfg->Server": 3, "cfg->Email": 4, "cfg->Username": 4,
                "tempPassword": 5, "cfg->MqttTopicPrefix": 6, "user_cmd": 7}


def gen_form_table():
    """supla_esp_parse_vars: the else-if chain of field names -> Gen/FormTable.lean (name, VAR id, buffer size, destination,
    protocol condition), plus the protocol field's name and the minimum number of counted fields.  Fails closed on any statement
    in the chain that is not one of the recognised forms, and on a changed loop body."""
    t = preprocess("src/user/supla_esp_cfgmode.c")
    try:
        body = t[t.index("supla_esp_parse_vars(TrivialHttpParserVars *pVars"):t.index("void supla_esp_parse_request(")]
        proto = t[t.index("supla_esp_parse_proto_var(TrivialHttpParserVars *pVars"):t.index("supla_esp_parse_vars(TrivialHttpParserVars *pVars")]
        recv = t[t.index("void supla_esp_recv_callback("):]
    except ValueError:
        raise ExtractError("cfgmode.c: form parser functions not found")
    n = re.sub(r"\s+", " ", body)
    names = {m.group(1): bytes(ord(m.group(k)) for k in (2, 3, 4))
             for m in re.finditer(r"char (\w+)\[3\] = \{'(.)', '(.)', '(.)'\};", n)}
    try:
        chain = n[n.index("if (len - a >= 4 && pdata[a + 3] == '=') {") + len("if (len - a >= 4 && pdata[a + 3] == '=') {"):]
        chain = chain[:chain.index("a += 4; pVars->offset = 0; }")]
    except ValueError:
        raise ExtractError("cfgmode.c: name dispatch of supla_esp_parse_vars not recognised")
    parts = re.split(r"(?:\} else )?if \(memcmp\((\w+), &pdata\[a\], 3\) == 0\) \{", chain)
    if parts[0].strip():
        raise ExtractError("cfgmode.c: unexpected text before the name chain: " + parts[0][:60])
    rows = []
    for nm, txt in zip(parts[1::2], parts[2::2]):
        if nm not in names:
            raise ExtractError("cfgmode.c: name array %s not found" % nm)
        cond = 0
        mc = re.search(r"if \((!?)\(?cfg->Flags & (0x[0-9a-fA-F]+|\d+)\)?\) \{", txt)
        if mc:
            cond = 1 if mc.group(1) == "!" else 2
            if int(mc.group(2), 0) != 1:
                raise ExtractError("cfgmode.c: protocol condition of %s tests another flag" % nm)
            txt = txt.replace(mc.group(0), "", 1)
        mv = re.search(r"pVars->current_var = (\d+);", txt)
        ms = re.search(r"pVars->buff_size = ([0-9()+*\- ]+);", txt)
        mp = re.search(r"pVars->pbuff = ([\w>\-]+);", txt)
        if not (mv and ms and mp) or mp.group(1) not in FORM_TARGETS:
            raise ExtractError("cfgmode.c: assignment of field %s not recognised: %s" % (nm, txt[:80]))
        rest = txt
        for m_ in (mv, ms, mp):
            rest = rest.replace(m_.group(0), "", 1)
        rest = rest.replace("if (user_cmd == ((void *)0)) { user_cmd = malloc(1024); }", "")
        rest = re.sub(r"if \(user_cmd == \(\(void \*\)0\)\) \{ user_cmd = malloc\(\d+\); \}", "", rest)
        if rest.replace("}", "").strip():
            raise ExtractError("cfgmode.c: unrecognised statement in the branch of %s: %s" % (nm, rest.strip()[:80]))
        rows.append((names[nm], int(mv.group(1)), int(eval(ms.group(1), {"__builtins__": {}})), FORM_TARGETS[mp.group(1)], cond))
    if len(rows) < 10 or len(set(r[0] for r in rows)) != len(rows):
        raise ExtractError("cfgmode.c: %d rows, names not distinct" % len(rows))
    # the loop body behind the dispatch: copy step, end of value, terminator, (hook), counting
    tail = n[n.index("a += 4; pVars->offset = 0; }"):]
    shape = [
        "a += 4; pVars->offset = 0; } } if (pVars->current_var != 0) { if (pVars->offset < pVars->buff_size && a < len && pdata[a] != '&') { "
        "if (pdata[a] == '%' && a + 2 < len) { pVars->pbuff[pVars->offset] = HexToInt(&pdata[a + 1], 2); pVars->offset++; a += 2; } "
        "else if (pdata[a] == '+') { pVars->pbuff[pVars->offset] = ' '; pVars->offset++; } else { pVars->pbuff[pVars->offset] = pdata[a]; "
        "pVars->offset++; } } if (pVars->offset >= pVars->buff_size || a >= len - 1 || pdata[a] == '&') { if (pVars->offset < pVars->buff_size) "
        "pVars->pbuff[pVars->offset] = 0; else pVars->pbuff[pVars->buff_size - 1] = 0;",
        "pVars->matched++; pVars->current_var = 0; } } }",
    ]
    for sh in shape:
        if sh not in tail:
            raise ExtractError("cfgmode.c: loop body of supla_esp_parse_vars not recognised near: " + sh[:60])
    if "for (int a = 0; a < len; a++) { if (pVars->current_var == 0) {" not in n:
        raise ExtractError("cfgmode.c: loop head of supla_esp_parse_vars not recognised")
    pn = re.sub(r"\s+", " ", proto)
    mpro = re.search(r"char pro\[3\] = \{'(.)', '(.)', '(.)'\};", pn)
    pshape = ("if (len - a >= 4 && pdata[a + 3] == '=') { if (memcmp(pro, &pdata[a], 3) == 0 && len - a >= 5) { pVars->current_var = ",
              "a += 4; pVars->offset = 0; } }",
              "pVars->matched++; pVars->current_var = 0; if (pVars->intval[0] - '0' == 1) { cfg->Flags |= 0x01; } else { cfg->Flags &= ~0x01; } return;")
    if not mpro or any(x not in pn for x in pshape):
        raise ExtractError("cfgmode.c: supla_esp_parse_proto_var not recognised")
    rn = re.sub(r"\s+", " ", recv)
    mmin = re.search(r"if \(pVars->matched < (\d+)\) \{ return; \}", rn)
    rq = re.sub(r"\s+", " ", t[t.index("void supla_esp_parse_request("):t.index("void supla_esp_recv_callback(")])
    if not mmin or "pVars->step = 4; p += 3;" not in rq.replace("STEP_PARSE_VARS", "4") and "p += 3;" not in rq:
        raise ExtractError("cfgmode.c: save threshold / head skip not recognised")
    def lb(b):
        return "[" + ", ".join(str(x) for x in b) + "]"
    out = ["/- GENERATED by tools/extract.py from /repo/src/user/supla_esp_cfgmode.c (supla_esp_parse_vars) - do not edit -/",
           "import SuplaVerif.Model.FormScan", "namespace SuplaVerif.Gen", "",
           "/-- the else-if chain of field names, in source order -/", "def formTable : List Row := ["]
    out += ["  { name := %s, var := %d, size := %d, target := %d, cond := %d }%s" % (lb(r[0]), r[1], r[2], r[3], r[4], "," if i < len(rows) - 1 else "")
            for i, r in enumerate(rows)]
    out += ["]", "", "/-- name of the protocol field of supla_esp_parse_proto_var -/",
            "def formPro : Bytes := %s" % lb(bytes(ord(mpro.group(k)) for k in (1, 2, 3))),
            "/-- supla_esp_recv_callback returns before saving while fewer fields were counted -/",
            "def formMinFields : Nat := %s" % mmin.group(1), "", "end SuplaVerif.Gen", ""]
    write_if_changed(os.path.join(C.LEAN, "SuplaVerif", "Gen", "FormTable.lean"), "\n".join(out))
    return rows


def gen_migrate_table():
    """supla_esp_cfg_init: the field copies of the 5 -> 6 migration (common part, 5A branch, 5B branch) and the fields the 6 -> 7
    step carries over -> Gen/MigrateTable.lean.  Fails closed on statements it does not recognise inside the migration block."""
    src = open(os.path.join(C.REPO, "src/user/supla_esp_cfg.c")).read()
    src = re.sub(r"//[^\n]*", "", src)
    n = re.sub(r"\s+", " ", src)
    try:
        blk = n[n.index("SuplaEspCfg_old_v6 new; memset(&new, 0, sizeof(SuplaEspCfg_old_v6));"):]
        blk = blk[:blk.index("memset(&supla_esp_cfg, 0, sizeof(SuplaEspCfg)); memcpy(&supla_esp_cfg, &new, sizeof(SuplaEspCfg_old_v6));")]
        head, rest = blk.split("if (memcmp(oldB->AuthKey, AuthKey, SUPLA_AUTHKEY_SIZE) == 0", 1)
        cond, rest = rest.split(") ) ) {", 1)
        brA, brB = rest.split("} else {", 1)
        brB = brB.rsplit("}", 1)[0]
    except ValueError:
        raise ExtractError("supla_esp_cfg.c: 5->6 migration block not recognised")
    if "strchr(oldA->Email, '@') && strchr(oldA->Email, '.')" not in cond:
        raise ExtractError("supla_esp_cfg.c: 5A/5B discrimination not recognised")

    def copies(txt, what):
        out = []
        t = txt
        for m in re.finditer(r"memcpy\(&?new\.(\w+), &?old([AB])->(\w+), ([^;]+)\);", txt):
            out.append((m.group(1), 0 if m.group(2) == "A" else 1, m.group(3), m.group(4)))
            t = t.replace(m.group(0), "", 1)
        for m in re.finditer(r"new\.(\w+) = old([AB])->(\w+) ?;", txt):
            out.append((m.group(1), 0 if m.group(2) == "A" else 1, m.group(3), "sizeof(((SuplaEspCfg_old_v6*)0)->%s)" % m.group(1)))
            t = t.replace(m.group(0), "", 1)
        t = re.sub(r"supla_log\([^;]*\);", "", t)
        t = re.sub(r"new\.Trigger = 0;", "", t)
        t = t.replace("SuplaEspCfg_old_v6 new; memset(&new, 0, sizeof(SuplaEspCfg_old_v6)); memcpy(new.TAG, TAG, 6); new.TAG[5] = 6;", "")
        if t.strip():
            raise ExtractError("supla_esp_cfg.c: unrecognised statement in the %s part of the migration: %s" % (what, t.strip()[:80]))
        return out
    common, a, b = copies(head, "common"), copies(brA, "5A"), copies(brB, "5B")
    try:
        s67 = n[n.index("SuplaEspCfg new; memcpy(&new, old, sizeof(SuplaEspCfg_old_v6)); new.TAG[5] = 7;"):]
        s67 = s67[:s67.index("memcpy(&supla_esp_cfg, &new, sizeof(SuplaEspCfg));")]
    except ValueError:
        raise ExtractError("supla_esp_cfg.c: 6->7 migration block not recognised")
    kept = re.findall(r"new\.(\w+\[\d\]) = old->(\w+\[\d\]);", s67)
    zeroed = re.findall(r"memset\(&new\.(\w+), 0,", s67)
    if any(x != y for x, y in kept):
        raise ExtractError("supla_esp_cfg.c: 6->7 step copies a field to another one")

    body = ""
    allc = [("c", common), ("a", a), ("b", b)]
    for tag, cs in allc:
        for k, c in enumerate(cs):
            body += 'P("mg_%s%d_len", %s); P("mg_%s%d_dst", sizeof(((SuplaEspCfg_old_v6*)0)->%s)); P("mg_%s%d_src", sizeof(((SuplaEspCfg_old_v5%s*)0)->%s));\n' % (
                tag, k, c[3], tag, k, c[0], tag, k, "A" if c[1] == 0 else "B", c[2])
    pv = run_probe("p_mig", body, includes_c=["supla_esp.h", "supla_esp_cfg.h"])

    def lst(cs, tag):
        return "[" + ", ".join('{ dst := "%s", src := %d, fld := "%s", len := %s, dstLen := %s, srcLen := %s }' % (
            c[0], c[1], c[2], pv["mg_%s%d_len" % (tag, k)], pv["mg_%s%d_dst" % (tag, k)], pv["mg_%s%d_src" % (tag, k)]) for k, c in enumerate(cs)) + "]"
    # factory_defaults: what is put aside before the record is zeroed and put back afterwards (name, size expression)
    try:
        fd = n[n.index("factory_defaults(char save) {"):]
        fd = fd[:fd.index("supla_esp_cfg.CfgButtonType =")]
        before, after = fd.split("memset(&supla_esp_cfg, 0, sizeof(SuplaEspCfg));", 1)
    except ValueError:
        raise ExtractError("supla_esp_cfg.c: factory_defaults not recognised")
    fsaved = re.findall(r"memcpy\((\w+), supla_esp_cfg\.(\w+), (\w+)\);", before)
    fback = re.findall(r"memcpy\(supla_esp_cfg\.(\w+), (\w+), (\w+)\);", after)
    if any(a != b for a, b, _ in fsaved) or any(a != b for a, b, _ in fback):
        raise ExtractError("supla_esp_cfg.c: factory_defaults keeps a field under another name")
    fkept = [(a, sz) for a, _, sz in fsaved if (a, a, sz) in fback]
    pvf = run_probe("p_fd", "".join('P("fd_%s", %s); P("fd_%s_f", sizeof(supla_esp_cfg.%s));\n' % (a, sz, a, a) for a, sz in fkept),
                    includes_c=["supla_esp.h", "supla_esp_cfg.h"])
    out = ["/- GENERATED by tools/extract.py from /repo/src/user/supla_esp_cfg.c (supla_esp_cfg_init) - do not edit -/",
           "import SuplaVerif.Model.Migrate", "namespace SuplaVerif.Gen", "",
           "def migCommon : List FieldCopy := " + lst(common, "c"),
           "def migA : List FieldCopy := " + lst(a, "a"),
           "def migB : List FieldCopy := " + lst(b, "b"),
           "/-- 6 -> 7: the record is copied whole, these arrays are zeroed ... -/",
           "def mig67Zeroed : List String := [" + ", ".join('"%s"' % z for z in zeroed) + "]",
           "/-- ... and these elements are carried over -/",
           "def mig67Kept : List String := [" + ", ".join('"%s"' % k for k, _ in kept) + "]",
           "/-- factory_defaults: fields copied aside before the record is zeroed and copied back: (name, bytes copied, field size) -/",
           "def factoryKept : List (String × Nat × Nat) := [" + ", ".join('("%s", %s, %s)' % (a, pvf["fd_" + a], pvf["fd_%s_f" % a]) for a, _ in fkept) + "]",
           "", "end SuplaVerif.Gen", ""]
    write_if_changed(os.path.join(C.LEAN, "SuplaVerif", "Gen", "MigrateTable.lean"), "\n".join(out))


# the generators of per-property tables: a shape the translator does not recognise there breaks the tie of those properties
# only (the stale generated file stays in place so that the other properties' models and the model driver still build)
SCOPED = [("gen_getdata", {"C03"}), ("gen_html", {"C15"}), ("gen_form_table", {"C14"}), ("gen_migrate_table", {"C13"})]


def main_quiet(pid=None):
    emit_consts()
    pending = None
    for name, scope in SCOPED:
        try:
            globals()[name]()
        except ExtractError as e:
            if pid is None or pid in scope:
                pending = pending or e
    emit_root()
    if pending is not None:
        raise pending


def main():
    main_quiet()
    print("extract: ok")


if __name__ == "__main__":
    try:
        main()
    except ExtractError as e:
        print("EXTRACT-ERROR: " + str(e))
        sys.exit(2)
