#!/usr/bin/env python3
"""setup_cmd: build the Lean library + svdrv once (cold) so quick checks stay quick."""
import os, sys
sys.path.insert(0, os.path.dirname(os.path.abspath(__file__)))
import common as C, extract as X
X.main_quiet()
r = C.lake(["build", "SuplaVerif", "svdrv"])
print((r.stdout + r.stderr)[-3000:])
sys.exit(r.returncode)
