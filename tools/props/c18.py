"""C18 — firmware update: only a signed complete image boots; writes stay in the spare slot."""
import re

import framework as F

SLOTS = {2: (0x81000, 0x01000, 492 * 1024), 3: (0x81000, 0x01000, 492 * 1024), 4: (0x81000, 0x01000, 492 * 1024),
         5: (0x101000, 0x01000, 1004 * 1024), 6: (0x101000, 0x01000, 1004 * 1024)}
GOOD_FOOTER = bytes([0xBA, 0xBE, 0x2B, 0xED, 0, 1, 2, 0]) + bytes(8)


def rb(rng, n):
    return bytes(rng.getrandbits(8) for _ in range(n))


def parse_header(h):
    """the HTTP reading of the response head: (ok, announced or None)"""
    ok = b"HTTP/1.1 200 OK" in h and b"Content-Type: application/octet-stream" in h
    m = re.search(rb"Content-Length: ([^\r\n]*)[\r\n]", h)
    if not m or not re.fullmatch(rb"[0-9]+", m.group(1)):
        return ok, None
    return ok, int(m.group(1))


def eff(A):
    """the announced length as the device's 32-bit int holds it"""
    if A is None:
        return None
    return A % (1 << 32)


class C18(F.Spec):
    pid = "C18"
    lean_module = "SuplaVerif.Props.C18"
    namespace = "SuplaVerif.C18"
    driver = "drv_upd"
    model_args = ["update"]
    rule = ("HTTP responses built from (status, content type, Content-Length: exact / shorter / longer than the image / 0 / "
            "2^31 / non-numeric / absent), header split at random points over 1-4 segments, body cut at random points, body "
            "shorter than announced followed by disconnect, or continuing after the announced length; images: genuine signed "
            "(signature oracle), bit flipped in body / signature / footer, wrong footer, shorter than footer+key; flash map "
            "0..7 x running image 0/1; flash fault plans (one op, or every op from the k-th). Slot, size gate, every chunk's "
            "flash writes and the boot-mark decision are compared with the Lean model; monitor: containment of every erase and "
            "write, mark-for-boot only for the genuine complete image, IDLE+restart otherwise. Non-trivial: a download started "
            "or was refused for a stated reason; distinct = (map, header kind, image kind, delivery kind, fault, outcome).")
    assumptions = ["RSA-SHA256 is idealised: the signature verifies iff exactly the signed body and signature bytes are presented",
                   "signed overflow of the Content-Length accumulator wraps as on the target (-fwrapv)",
                   "DNS/connect phase of the update is not exercised (the response handler is called directly)"]

    def driver_build(self):
        import common as C
        return C.build_driver(self.driver, self.variant, extra_flags=["-fwrapv"])

    def cases(self, rng, tier):
        n = 150 if tier == "quick" else 1500
        for i in range(n):
            yield self.gen(rng, i, big=(tier == "thorough" and i % 50 == 0))
        for i in range(8 if tier == "quick" else 60):
            yield self.gen_stale(rng, i)

    def gen_stale(self, rng, i):
        """the spare slot still holds the genuine signed image of an earlier update; a copy with one bit changed is downloaded whole
        while the flash refuses to be erased or written (all operations from the k-th, or a single one): what stays in the slot
        would verify - but it is not what was downloaded"""
        m, ub = rng.choice([2, 4, 5, 6]), rng.choice([0, 1])
        L = rng.choice([rng.randint(5000, 9000), 8192 + 528, rng.randint(9000, 20000)])
        slot = SLOTS[m][0] if ub == 0 else SLOTS[m][1]
        ops = ["map %d %d" % (m, ub), "start", "imgfill %d %d" % (L - 528, rng.randint(1, 1 << 30)), "imgadd " + rb(rng, 512).hex(),
               "imgadd " + GOOD_FOOTER.hex(), "sign", "slotload %d" % slot]
        flip = rng.randrange(L - 528) if i % 2 == 0 else L - 528 + rng.randrange(512)
        ops.append("flip %d %02x" % (flip, 1 << rng.randrange(8)))
        hdr = b"HTTP/1.1 200 OK\r\nServer: test\r\nContent-Type: application/octet-stream\r\nContent-Length: %d\r\n\r\n" % L
        fault = "faultall" if i % 4 != 3 else "fault"
        ops.append("faultall %d" % rng.choice([1, 1, 2, 3]) if fault == "faultall" else "fault %d %d" % (rng.randint(1, 4), rng.choice([0, 1])))
        ops.append("seg %s 0 0" % hdr.hex())
        pos = 0
        while pos < L:
            k = min(L - pos, rng.choice([536, 1460, 1460, 2920, 4096]))
            ops.append("seg - %d %d" % (pos, k))
            pos += k
        ops.append("slotfnv %d %d" % (slot, L))
        meta = {"map": m, "ub": ub, "L": L, "ikind": "flipbody" if i % 2 == 0 else "flipsig", "hkind": "ok", "dkind": "exact", "fault": fault,
                "hdr": hdr.hex(), "footer": GOOD_FOOTER.hex(), "flip": flip, "slot": slot,
                "tags": ["map:%d" % m, "img:flip", "hdr:ok", "dl:exact", "fault:%s" % fault, "stale:1"]}
        return F.Case("stale%d" % i, ops, meta)

    def gen(self, rng, i, big=False):
        m = rng.choice([2, 3, 4, 4, 5, 6, 6, 0, 1, 7])
        ub = rng.choice([0, 1])
        ikind = rng.choice(["genuine"] * 4 + ["flipbody", "flipsig", "flipfooter", "badfooter", "tiny", "keysize"])
        L = rng.choice([rng.randint(530, 3000), rng.randint(3000, 9000), 4096 + 528, 8192, 8192 + 1, rng.randint(9000, 30000)])
        if big:
            L = rng.randint(400000, 503808)
        if ikind == "tiny":
            L = rng.randint(1, 528)
        footer = GOOD_FOOTER
        if ikind == "badfooter":
            footer = bytearray(GOOD_FOOTER)
            k = rng.randrange(8)
            footer[k] ^= 1 << rng.randrange(8)
            footer = bytes(footer)
        ops = ["map %d %d" % (m, ub), "start"]
        if L > 528:
            ops += ["imgfill %d %d" % (L - 528, rng.randint(1, 1 << 30)), "imgadd " + rb(rng, 512).hex(), "imgadd " + footer.hex()]
        else:
            ops += ["imgfill %d %d" % (L, rng.randint(1, 1 << 30))]
        ops.append("sign")
        if ikind == "keysize" and L > 528:
            # the genuine body and signature, then filler, then a footer announcing a larger key: with that key size the hashed
            # range would again be exactly the body and the 512 bytes behind it the genuine signature - not the expected footer
            K = rng.choice([768, 1024, 712])
            f6 = (K + 255) // 256
            footer = GOOD_FOOTER[:6] + bytes([f6, f6 * 256 - K]) + GOOD_FOOTER[8:]
            ops += ["imgtrunc 16", "imgfill %d %d" % (K - 512, rng.randint(1, 1 << 30)), "imgadd " + footer.hex()]
            L += K - 512
        stale = False
        if ikind in ("flipbody", "flipsig") and L > 528 and m in SLOTS and rng.random() < .5:
            # the spare slot still holds the genuine signed image of an earlier update; what is downloaded now differs from it
            ops.append("slotload %d" % (SLOTS[m][0] if ub == 0 else SLOTS[m][1]))
            stale = True
        flip = None
        if ikind == "flipbody" and L > 528:
            flip = rng.randrange(L - 528)
        elif ikind == "flipsig":
            flip = L - 528 + rng.randrange(512)
        elif ikind == "flipfooter":
            flip = L - 16 + rng.randrange(8)   # bytes 8..15 of the footer are reserved: neither checked nor signed
        if flip is not None and L > 528:
            ops.append("flip %d %02x" % (flip, 1 << rng.randrange(8)))
        extra = rng.choice([0, 0, 1, 100, 5000, 20000])
        dkind = rng.choice(["exact"] * 4 + ["short", "overrun", "overrun"])
        if dkind != "overrun":
            extra = 0
        if extra:
            ops.append("imgfill %d %d" % (extra, rng.randint(1, 1 << 30)))
        # header
        hkind = rng.choice(["ok"] * 6 + ["limit", "limit", "lenless", "lenmore", "zero", "huge", "huge", "nonnum", "nolen", "404", "notype", "long",
                            "after", "after", "lfonly", "wrap", "dupe", "leadzero", "first"])
        A = {"lenless": max(1, L - rng.choice([1, 16, 528, 600])), "lenmore": L + rng.choice([1, 16, 4096]), "zero": 0,
             "limit": (SLOTS[m][2] if m in SLOTS else 503808) + rng.choice([0, 1, 1, 4096, 4097]),
             "huge": rng.choice([2 ** 31, 2 ** 31 - 1, 2 ** 30 + 7, 1028097, 503809,
                                 2 ** 32 - 65535, 2 ** 32 - 1, 2 ** 31 + 5, 2 ** 32 - 4096]),     # (the last four: negative as a 32-bit int)
             "wrap": L + rng.choice([1, 2, 7]) * 2 ** 32}.get(hkind, L)
        status = b"HTTP/1.1 404 Not Found" if hkind == "404" else b"HTTP/1.1 200 OK"
        lines = [status, b"Server: test", b"Content-Type: " + (b"text/html" if hkind == "notype" else b"application/octet-stream")]
        if hkind == "nonnum":
            lines.append(b"Content-Length: " + rng.choice([b"12ab", b"abc", b"-5", b" 77", b"0x100"]))
        elif hkind == "leadzero":
            lines.append(b"Content-Length: 000%d" % A)
        elif hkind == "first":
            lines.insert(1, b"Content-Length: %d" % A)
        elif hkind != "nolen":
            lines.append(b"Content-Length: %d" % A)
        if hkind in ("after", "lfonly"):
            # header lines behind Content-Length, also ones that begin with digits: they are not part of the length
            for _ in range(rng.randint(1, 3)):
                lines.append(rng.choice([b"Connection: close", b"9999999: x", b"1: y", b"77", b"0", b"8 Accept-Ranges: bytes",
                                         b"Content-Length: 5"]))
        if hkind == "dupe":
            lines.append(b"Content-Length: %d" % rng.choice([5, L + 4096, 99999999]))
        if hkind == "long":
            lines.insert(1, b"X-Pad: " + b"p" * rng.choice([560, 640, 700, 900]))
        rng.shuffle(lines[1:]) if False else None
        hdr = b"\r\n".join(lines) + b"\r\n\r\n"
        if hkind == "lfonly":
            hdr = b"\r\n".join(lines[:3]) + b"\r\n" + b"\n".join(lines[3:]) + b"\r\n\r\n"
        if hkind == "wrap":
            A = L     # what the 32-bit accumulator holds
        # delivery plan
        total = L + extra if dkind == "overrun" else (rng.randint(0, max(0, min(A, L) - 1)) if dkind == "short" else min(L, max(A, 0)) if A <= L else L)
        if dkind == "exact" and A > L:
            total = L
        cuts = sorted(rng.sample(range(1, len(hdr)), min(rng.choice([0, 0, 1, 2, 3]), len(hdr) - 1)))
        hparts = [hdr[a:b] for a, b in zip([0] + cuts, cuts + [len(hdr)])]
        fault = rng.choice([None] * 5 + ["fault", "faultall"])
        if stale:
            fault = rng.choice(["faultall", "faultall", "fault", None])     # (flash that fails: the stale content stays)
        if fault == "fault":
            ops.append("fault %d %d" % (rng.randint(1, 6), rng.choice([0, 1])))
        elif fault == "faultall":
            ops.append("faultall %d" % rng.randint(1, 8))
        pos = 0
        for k, hp in enumerate(hparts):
            n = 0
            if k == len(hparts) - 1:
                n = min(total, rng.choice([0, 0, 1, 40, 700, 1400]))
            ops.append("seg %s %d %d" % (hp.hex(), pos, n))
            pos += n
        while pos < total:
            n = min(total - pos, rng.choice([1, 100, 536, 1460, 1460, 2920, 4096, 5000, 30000 if big else 1460]))
            ops.append("seg - %d %d" % (pos, n))
            pos += n
        if dkind == "short" or rng.random() < 0.2:
            ops.append("disc")
        slot = None
        if m in SLOTS:
            slot = SLOTS[m][0] if ub == 0 else SLOTS[m][1]
            ops.append("slotfnv %d %d" % (slot, L))
        meta = {"map": m, "ub": ub, "L": L, "ikind": ikind, "hkind": hkind, "dkind": dkind, "fault": fault, "hdr": hdr.hex(),
                "footer": footer.hex(), "flip": flip, "slot": slot,
                "tags": ["map:%d" % m, "img:" + ikind, "hdr:" + hkind, "dl:" + dkind, "fault:%s" % fault, "stale:%d" % stale]}
        return F.Case("gen%d" % i, ops, meta)

    # ---- what the ops say (kept valid under shrinking: recomputed from the ops themselves)
    def facts(self, case):
        hdr = b""
        L = 0
        signedL = None
        body_per_seg = []
        flipped = False
        for op in case.ops:
            t = op.split()
            if t[0] == "imgfill":
                L += int(t[1])
            elif t[0] == "imgadd":
                L += len(t[1]) // 2
            elif t[0] == "sign":
                signedL = L
            elif t[0] == "flip":
                flipped = True
        return signedL, flipped

    def derive_model(self, case, raw):
        m, ub = case.meta["map"], case.meta["ub"]
        ops, exp = ["slot %d %d" % (m, ub)], []
        started = False
        hdr = b""
        hdr_done = False
        faulty = any(o.startswith("fault") for o in case.ops)
        slot = None
        for op, g in zip(case.ops, raw):
            t = op.split()
            if t[0] == "start":
                sl = [x for x in g if x.startswith(("SLOT", "NOSLOT"))]
                exp.append(sl[:1])
                if sl and sl[0].startswith("SLOT "):
                    slot = int(sl[0].split()[1])
            elif t[0] == "seg" and slot is not None:
                st = [x for x in g if x.startswith("STATE")]
                hb = bytes.fromhex(t[1]) if t[1] != "-" else b""
                nbody = int(t[3])
                if not hdr_done:
                    hdr += hb
                    if hb:
                        ops.append("hdrseg %d %s" % (m, hb.hex()))
                    cut = hdr.find(b"\r\n\r\n") + 4 if b"\r\n\r\n" in hdr else None
                    if cut is not None and cut <= 699:
                        hdr_done = True
                        began = any(x == "UPGFLAG 1" for x in g)
                        e_impl = int(st[0].split("exp=")[1]) % (1 << 32) if st else 0
                        for x in g:
                            if x.startswith("EXP "):   # printed when the download starts (the state may be gone after the segment)
                                e_impl = int(x.split()[1]) % (1 << 32)
                        # the decision of the real scanner against the Lean model of it (Model/UpdHdr)
                        exp.append(["SCAN %d %d" % (1 if began else 0, e_impl)])
                        ok, A = parse_header(hdr[:cut])
                        A = eff(A)
                        if ok and A is not None and A < 2 ** 31:
                            ops.append("gate %d %d" % (m, A))
                            exp.append(["GATE %d" % (1 if began else 0)])
                        if began:
                            started = True
                            ops.append("start %d %d" % (slot, e_impl))
                            exp.append([])
                    else:
                        if hb:
                            exp.append([])
                        if len(hdr) > 699:
                            hdr_done = True
                    if not started:
                        continue
                if started and not faulty and st:
                    ops.append("feed %d" % nbody)
                    w = ["W %s %s" % (x.split()[2], x.split()[3]) for x in g if x.startswith("FLASH write") and x.endswith(" 0")]
                    exp.append(w + ["DL %s" % st[0].split("dl=")[1].split()[0]])
                    v = [x for x in g if x.startswith("VERIFY")]
                    done = any(x in ("UPGREBOOT", "RESTART") for x in g)
                    if done and case.meta["flip"] is None and case.meta["hkind"] in ("ok", "long") and case.meta["L"] > 528:
                        sig = "1" if v and v[0].endswith("-> 1") else "0"
                        ops.append("mark %s %s" % (case.meta["footer"], sig))
                        exp.append(["MARK %d %d" % (1 if "UPGREBOOT" in g else 0, int(ops[-3].split()[2]) - 528 if False else case.meta["L"] - 528)])
                        started = False
        return "\n".join(ops) + "\n", exp

    def monitor(self, case, groups, rc, err):
        if rc != 0:
            return [F.Finding("crash", "implementation aborted (rc=%s): %s" % (rc, err[-900:]))]
        raw = case.meta.get("raw_impl") or []
        fs = []
        m, ub = case.meta["map"], case.meta["ub"]
        hdr = b""
        hdr_done = False
        A = None
        ok = False
        slot = None
        lastflag = None
        signed_fnv = None
        signedL = None
        delivered = 0
        flags = []
        for op, g in zip(case.ops, raw):
            t = op.split()
            if t[0] == "start":
                for x in g:
                    if x.startswith("SLOT "):
                        slot = int(x.split()[1])
                want = (SLOTS[m][0] if ub == 0 else SLOTS[m][1]) if m in SLOTS else None
                if slot != want:
                    fs.append(F.Finding("wrong-slot", "map %d userbin %d: slot %s, the spare slot is %s" % (m, ub, slot, want)))
                continue
            if t[0] == "sign":
                for x in g:
                    if x.startswith("SIGNED"):
                        signedL, signed_fnv = int(x.split()[1]), x.split()[2]
            if t[0] == "seg":
                hb = bytes.fromhex(t[1]) if t[1] != "-" else b""
                if not hdr_done:
                    hdr += hb
                    if b"\r\n\r\n" in hdr or len(hdr) > 699:
                        hdr_done = True
                        ok, A = parse_header(hdr[:hdr.find(b"\r\n\r\n") + 4] if b"\r\n\r\n" in hdr else hdr)
                        A = eff(A)   # a length beyond 32 bits: what the device holds is smaller, never larger
                        if A is not None and A >= 2 ** 31:
                            A = None
                delivered += int(t[3])
            for x in g:
                if "OOR" in x:
                    fs.append(F.Finding("flash-out-of-range", x))
                if x.startswith(("FLASH erase 60 ", "FLASH erase 61 ", "FLASH write 245760 ", "FLASH write 249856 ")):
                    continue   # configuration/state sectors: state is saved by supla_system_restart (C13)
                if x.startswith("FLASH ") and t[0] != "start":
                    lim = SLOTS[m][2] if m in SLOTS else 0
                    if slot is None or not ok or A is None or A <= 0 or A > lim:
                        fs.append(F.Finding("flash-touched-without-valid-announcement", "%s (header ok=%s announced=%s)" % (x, ok, A)))
                        continue
                    p = x.split()
                    if p[1] == "erase":
                        a0, a1 = int(p[2]) * 4096, int(p[2]) * 4096 + 4096
                        if a0 < slot or a0 >= slot + A:
                            fs.append(F.Finding("erase-outside-announced", "%s outside [%d,%d)" % (x, slot, slot + A)))
                    else:
                        a0, a1 = int(p[2]), int(p[2]) + int(p[3])
                        if a0 < slot or a1 > slot + A:
                            fs.append(F.Finding("write-outside-announced", "%s outside [%d,%d)" % (x, slot, slot + A)))
                if x.startswith("UPGFLAG"):
                    lastflag = int(x.split()[1])
                    flags.append(lastflag)
                if x == "RESTART" and lastflag not in (0, None):
                    fs.append(F.Finding("restart-with-boot-flag", "restart with upgrade flag %s" % lastflag))
                if x == "RESTART" and lastflag is None and slot is not None:
                    fs.append(F.Finding("restart-without-idle", "restart without setting the upgrade flag to IDLE"))
                if x == "UPGREBOOT":
                    v = [y for y in g if y.startswith("VERIFY")]
                    good = (v and v[0].endswith("-> 1") and A == signedL and case.meta["footer"] == GOOD_FOOTER.hex()
                            and case.meta["flip"] is None and signedL is not None and signedL > 528)
                    if not good:
                        fs.append(F.Finding("unverified-image-marked-for-boot",
                                            "marked for boot: announced=%s signed image=%s verify=%s footer=%s flip=%s" % (
                                                A, signedL, v[:1], case.meta["footer"][:16], case.meta["flip"])))
                    case.meta["_finished"] = True
            if t[0] == "slotfnv" and case.meta.get("_finished"):
                for x in g:
                    if x.startswith("SLOTFNV") and x.split()[1] != signed_fnv:
                        fs.append(F.Finding("booted-image-differs", "the image marked for boot is not the signed image in flash"))
        # completeness: everything announced was delivered but it was not the genuine image -> abandoned + restart
        if slot is not None and ok and A is not None and 0 < A <= SLOTS[m][2] and delivered >= A and not case.meta.get("_finished") \
                and b"\r\n\r\n" in hdr and len(hdr[:hdr.find(b"\r\n\r\n") + 4]) <= 699:
            if not any("RESTART" in g for g in raw):
                fs.append(F.Finding("complete-download-not-concluded", "all %d announced bytes arrived; neither boot mark nor restart" % A))
        case.meta.pop("_finished", None)
        return fs

    def nontrivial_key(self, case, groups):
        raw = case.meta.get("raw_impl") or []
        out = "none"
        for g in raw:
            for x in g:
                if x in ("UPGREBOOT", "RESTART"):
                    out = x
        wrote = any(x.startswith("FLASH write") for g in raw[2:] for x in g)
        me = case.meta
        return (me["map"], me["hkind"], me["ikind"], me["dkind"], me["fault"], out, wrote)


SPEC = C18()
