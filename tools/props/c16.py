"""C16 — MQTT receive: exact delivery under any segmentation, no OOB on bad packets."""
import struct

import common as C
import framework as F

PREFIX = b"supla/devices/supla-esp8266-010203"


def varint(n):
    out = b""
    while True:
        b = n % 128
        n //= 128
        out += bytes([b | (0x80 if n else 0)])
        if not n:
            return out


def publish(topic, payload, qos=0, pid=1, dup=0, retain=0, tlen=None, rl=None):
    vh = struct.pack(">H", len(topic) if tlen is None else tlen) + topic + (struct.pack(">H", pid) if qos else b"")
    body = vh + payload
    return bytes([0x30 | (dup << 3) | (qos << 1) | retain]) + varint(len(body) if rl is None else rl) + body


CONNACK = bytes([0x20, 2, 0, 0])
PINGRESP = bytes([0xd0, 0])


def suback(pid):
    return bytes([0x90, 3]) + struct.pack(">H", pid) + b"\x00"


class C16(F.Spec):
    pid = "C16"
    lean_module = "SuplaVerif.Props.C16"
    namespace = "SuplaVerif.C16"
    driver = "drv_mqtt"
    variant = "mqtt"
    extra_units = tuple(C.MQTT_UNITS)
    model_args = ["mqtt"]
    rule = ("(a) mqtt_unpack_response on exact-size buffers: valid PUBLISH (topic/payload 0..200, QoS 0-2, flags), every "
            "length-field corruption (topic length, remaining length incl. multi-byte and 5-byte encodings), truncations, "
            "random bytes; compared with the Lean model. (b) the real client: CONNACK + 1-6 PUBLISH (+PINGRESP) cut into "
            "segments at random points or coalesced; monitor: callbacks = the PUBLISH list, exactly once, in order. "
            "Non-trivial: a PUBLISH was unpacked/delivered or an error raised; distinct = (kind, qos, outcome).")
    assumptions = ["segments are delivered one callback at a time and fit the 1 KiB receive buffer (larger ones are "
                   "dropped with a log line; see DESIGN.md O11)",
                   "QoS 1/2 acknowledgements are checked by decoding the bytes handed to espconn_sent"]

    def driver_build(self):
        return C.build_driver(self.driver, self.variant, self.extra_units, extra_flags=["-DMQTT_SUPPORT_ENABLED"])

    def cases(self, rng, tier):
        n = 150 if tier == "quick" else 2500
        # the recorded finding's witness, every run
        tiny = CONNACK + publish(b"c", b"", 0)
        yield F.Case("witness-tiny-publish", ["start", "connected", "seg " + tiny.hex(), "adv 200"],
                     {"tags": ["stream:witness"], "kind": "stream", "pubs": [(0, b"c".hex(), "", 1)]})
        for i in range(n):
            yield self.gen_unpack(rng, i)
        for i in range(100 if tier == "quick" else 1500):
            yield self.gen_stream(rng, i)
        for i in range(40 if tier == "quick" else 500):
            yield self.gen_big(rng, i)
        for i in range(80 if tier == "quick" else 1200):
            yield self.gen_mixed(rng, i)

    def gen_unpack(self, rng, i):
        ops, tags = [], []
        for _ in range(8):
            k = rng.choice(["ok", "ok", "tlen", "rl", "trunc", "qos3", "random", "type", "long", "empty"])
            t = bytes(rng.choice(b"abc/xyz+#") for _ in range(rng.choice([0, 1, 3, 20, 60, 127])))
            pl = bytes(rng.getrandbits(8) for _ in range(rng.choice([0, 1, 5, 100, 130, 300])))
            qos = rng.choice([0, 0, 1, 2])
            if k == "ok":
                p = publish(t, pl, qos, rng.getrandbits(16), rng.getrandbits(1), rng.getrandbits(1))
            elif k == "tlen":
                p = publish(t, pl, qos, 7, tlen=rng.choice([len(t) + 1, len(t) + len(pl) + 1, 255, 256, 65535, len(t) + len(pl)]))
            elif k == "rl":
                p = publish(t, pl, qos, 7, rl=rng.choice([0, 1, 2, 3, 4, 5, len(t) + 1, len(t) + 3, 127, 128, 16383, 16384, 2097151]))
            elif k == "trunc":
                p = publish(t, pl, qos, 7)
                p = p[:rng.randint(0, len(p))]
            elif k == "qos3":
                p = publish(t, pl, 3, 7)
            elif k == "type":
                p = bytes([rng.choice([0x00, 0x0f, 0xf0, 0xf3]), rng.choice([0, 2, 3])]) + pl[:3]   # reserved types
            elif k == "long":
                p = bytes([0x30, 0x80 | rng.getrandbits(7), 0x80 | rng.getrandbits(7), 0x80, rng.choice([0x80, 0x01, 0x7f]), 1]) + pl
            elif k == "empty":
                p = b""
            else:
                p = bytes(rng.getrandbits(8) for _ in range(rng.randint(1, 40)))
                p = bytes([0x30 | rng.getrandbits(4)]) + p[1:]      # only PUBLISH is modelled in Lean
            ops.append("unpack " + (p.hex() or "-"))
            tags.append("unpack:" + k)
        return F.Case("unpack%d" % i, ops, {"tags": tags, "kind": "unpack"})

    def gen_stream(self, rng, i):
        pubs, stream = [], CONNACK
        for k in range(rng.randint(1, 6)):
            ch = rng.randint(0, 9)
            t = PREFIX + b"/channels/%d/set/on" % ch if rng.random() < .7 else bytes(rng.choice(b"abc/") for _ in range(rng.randint(1, 30)))
            pl = rng.choice([b"1", b"0", b"true", b"FALSE", b"", b"x" * rng.randint(1, 120)])
            qos = rng.choice([0, 0, 1, 2])
            pid = rng.randint(1, 65535)
            pubs.append((qos, t, pl, pid))
            stream += publish(t, pl, qos, pid)
        style = rng.choice(["whole", "split", "split", "byte", "two"])
        segs = []
        if style == "whole":
            segs = [stream]
        elif style == "byte" and len(stream) < 200:
            segs = [stream[j:j + 1] for j in range(len(stream))]
        elif style == "two":
            c = rng.randint(1, len(stream) - 1)
            segs = [stream[:c], stream[c:]]
        else:
            j = 0
            while j < len(stream):
                n = rng.choice([1, 2, 3, 5, 9, 17, 40, 100, 300])
                segs.append(stream[j:j + n])
                j += n
        ops = ["start", "connected", "mqlog 1"]
        for sgm in segs:
            ops.append("seg " + sgm.hex())
            if rng.random() < .3:
                ops.append("adv 60")
        ops.append("adv 200")
        return F.Case("stream%d-%s" % (i, style), ops, {"tags": ["stream:" + style], "kind": "stream",
                                                        "pubs": [(q, t.hex(), p.hex(), pid) for q, t, p, pid in pubs]})

    def gen_mixed(self, rng, i):
        """every packet type the broker may send, acknowledgements of things never sent, malformed packets and
        publishes up to the size of the receive buffer, in segments of 1..1460 bytes (also larger than the free space)"""
        pubs, stream = [], CONNACK
        tags = set()
        for k in range(rng.randint(1, 8)):
            r = rng.random()
            if r < 0.55:
                sz = rng.choice(["s", "s", "m", "l"])
                t = PREFIX + b"/channels/%d/set/on" % rng.randint(0, 9) if rng.random() < .5 else bytes(rng.choice(b"abc/") for _ in range(rng.randint(1, 30)))
                n = {"s": rng.randint(0, 40), "m": rng.randint(100, 500), "l": rng.randint(850, 1010)}[sz]
                pl = bytes(rng.choice(b"01xyz") for _ in range(n))
                qos = rng.choice([0, 0, 1, 2])
                pid = rng.choice([7, 8, rng.randint(1, 65535)])
                pubs.append((qos, t, pl, pid))
                stream += publish(t, pl, qos, pid)
                tags.add("pub" + sz)
            else:
                kind = rng.choice(["pingresp", "puback", "suback", "connack", "pubrel", "pubrec", "pubcomp", "unsuback", "reserved",
                                   "badflags", "badlen", "pinglen", "longrem"])
                tags.add(kind)
                if kind not in ("pingresp", "connack"):
                    tags.add("BAD")
                stream += {"pingresp": PINGRESP, "puback": bytes([0x40, 2, 0, 9]), "suback": suback(rng.randint(1, 9)),
                           "connack": CONNACK, "pubrel": bytes([0x62, 2, 0, 9]), "pubrec": bytes([0x50, 2, 0, 9]),
                           "pubcomp": bytes([0x70, 2, 0, 9]), "unsuback": bytes([0xb0, 2, 0, 9]),
                           "reserved": bytes([rng.choice([0x00, 0xf0]), 0]), "badflags": bytes([0x41, 2, 0, 9]),
                           "badlen": bytes([0x40, 3, 0, 9, 1]), "pinglen": bytes([0xd0, 2, 0x30, 0]),
                           "longrem": bytes([0x30, 0x80, 0x80, 0x80, 0x80, 1])}[kind]
        segs, j = [], 0
        style = rng.choice(["small", "mss", "any"])
        while j < len(stream):
            n = {"small": rng.choice([1, 2, 3, 7, 20, 60]), "mss": rng.choice([536, 1000, 1200, 1460]),
                 "any": rng.randint(1, 1460)}[style]
            segs.append(stream[j:j + n])
            j += n
        ops = ["start", "connected", "mqlog 1"]
        for sgm in segs:
            ops.append("seg " + sgm.hex())
            if rng.random() < .3:
                ops.append("adv %d" % rng.choice([10, 60, 120]))
        ops += ["adv 200"]
        return F.Case("mixed%d-%s" % (i, style), ops, {"tags": ["stream:mixed", "seg:" + style] + sorted("p:" + t for t in tags), "kind": "mixed", "noshrink": True, "has_bad": "BAD" in tags,
                                                       "pubs": [(q, tt.hex(), p.hex(), pid) for q, tt, p, pid in pubs]})

    def gen_big(self, rng, i):
        """packets around and above the size of the receive buffer (1024), in MSS-sized segments"""
        pubs, stream = [], CONNACK
        for k in range(rng.randint(0, 2)):
            t = PREFIX + b"/channels/%d/set/on" % rng.randint(0, 9)
            pl = rng.choice([b"1", b"0", b"x" * rng.randint(1, 60)])
            pubs.append((0, t, pl, 1))
            stream += publish(t, pl, 0, 1)
        total = rng.choice([900, 1000, 1020, 1023, 1024, 1025, 1030, 1100, 1300, 2000])
        t = b"t/" + bytes(rng.choice(b"abc") for _ in range(rng.randint(1, 20)))
        qos = rng.choice([0, 0, 1])
        hdr = 1 + 2 + 2 + len(t) + (2 if qos else 0)      # fixed header with a 2-byte remaining length
        pl = bytes(rng.choice(b"pqrs") for _ in range(max(1, total - hdr)))
        big = publish(t, pl, qos, 77)
        pubs.append((qos, t, pl, 77))
        stream += big
        for k in range(rng.randint(0, 2)):
            t2 = PREFIX + b"/channels/%d/set/on" % rng.randint(0, 9)
            pubs.append((0, t2, b"1", 1))
            stream += publish(t2, b"1", 0, 1)
        segs, j = [], 0
        while j < len(stream):
            n = rng.choice([536, 600, 1000, 1460, 300, rng.randint(1, 700)])
            segs.append(stream[j:j + n])
            j += n
        ops = ["start", "connected", "mqlog 1"]
        for sgm in segs:
            ops.append("seg " + sgm.hex())
            if rng.random() < .3:
                ops.append("adv 60")
        ops += ["adv 200", "adv 35000", "adv 200"]
        after = None
        if rng.random() < .5:
            # the next connection after the error (or after a clean stream): it starts from a clean receive state
            t3 = PREFIX + b"/channels/%d/set/on" % rng.randint(0, 9)
            after = (0, t3.hex(), b"1".hex())
            ops += ["adv 6000", "connected", "seg " + (CONNACK + publish(t3, b"1", 0, 1)).hex(), "adv 200"]
        return F.Case("big%d-%d" % (i, len(big)), ops, {"tags": ["stream:big", "size:%d" % (len(big) // 100 * 100)], "kind": "big", "biglen": len(big), "noshrink": True,
                                                       "after": after,
                                                       "pubs": [(q, tt.hex(), p.hex(), pid) for q, tt, p, pid in pubs]})

    def derive_model(self, case, raw):
        """the model gets the same segments; the handler's verdict for every handled packet and the number of receive
        passes of timer-driven syncs are taken from the hooks in __mqtt_recv; it must reproduce which packets are
        handled (type, length) and what stays in the buffer, the error and gap flags"""
        ops, exp = [], []
        err = "0"
        live = False
        for op, g in zip(case.ops, raw):
            t = op.split()
            if t[0] == "unpack":
                ops.append(op)
                exp.append(self.canon_impl([g])[0])
                want = "PARSE ?"
                for x in g:
                    if x.startswith("UNPACK "):
                        c = int(x.split()[1])
                        want = "PARSE ERR" if c < 0 else "PARSE %d" % c
                ops.append("parse " + t[1])
                exp.append([want])
                continue
            if t[0] == "connected":
                ops.append("reset")
                exp.append([])
                live = True
                continue
            if t[0] == "mqlog":
                for x in g:
                    if x.startswith("RECVSTATE "):
                        err = x.split()[2].split("=")[1]
                continue
            if not live or t[0] not in ("seg", "adv"):
                continue
            if any(x.startswith(("CONNECT ", "DISCONNECT")) for x in g):
                break           # the client gave the connection up and started a new one: the model covers one connection
            mqh = [x for x in g if x.startswith("MQH ")]
            state = [x for x in g if x.startswith("RECVSTATE ")]
            if not state:
                break           # hooks not switched on in this case
            v = "".join(x.split()[3] for x in mqh) or "-"
            if t[0] == "seg":
                ops.append("seg %s %s %s" % (t[1], err, v))
                exp.append(mqh + [state[-1]])
            else:
                k = sum(1 for x in g if x == "MQSYNC")
                ops.append("sync %d %s %s" % (k, err, v))
                p = state[-1].split()
                exp.append(mqh + ["%s %s %s" % (p[0], p[1], p[3])])
            err = state[-1].split()[2].split("=")[1]
        return "\n".join(ops) + "\n", exp

    def canon_impl(self, groups):
        out = []
        for g in groups:
            h = []
            for x in g:
                if x.startswith("UNPACK "):
                    p = x.split()
                    c = int(p[1])
                    if c < 0:
                        # MQTT-C error enum: only the class matters
                        name = {-2147483646: "forbiddenType", -2147483645: "invalidFlags"}.get(c)
                        h.append("UNPACK ERR" if name is None else "UNPACK ERR " + name)
                    elif len(p) > 2 and p[2].startswith("type="):
                        h.append("UNPACK 0" if c == 0 else "UNPACK OTHER")
                    else:
                        h.append(x)
            out.append(h)
        return out

    def canon_model(self, groups):
        out = []
        for g in groups:
            h = []
            for x in g:
                if x.startswith("UNPACK ERR"):
                    p = x.split()
                    h.append("UNPACK ERR " + p[2] if len(p) > 2 and p[2] in ("forbiddenType", "invalidFlags") else "UNPACK ERR")
                elif x.startswith(("UNPACK", "PARSE", "MQH ", "RECVSTATE ")):
                    h.append(x)
            out.append(h)
        return out

    def monitor(self, case, groups, rc, err):
        if rc != 0:
            return [F.Finding("crash", "implementation aborted (rc=%s): %s" % (rc, err[-900:]))]
        raw = case.meta.get("raw_impl") or []
        fs = []
        if case.meta.get("kind") == "stream" or (case.meta.get("kind") is None and any(o.startswith("seg ") for o in case.ops)):
            got, errs, acks = [], [], []
            for g in raw:
                for x in g:
                    if x.startswith("PUB "):
                        p = x.split()
                        got.append((int(p[2]), p[4] if p[4] != "-" else "", p[5] if p[5] != "-" else ""))
                    elif x.startswith("CLIENTERR ") and x != "CLIENTERR 1":
                        errs.append(x)
                    elif x.startswith("SENT 0 "):
                        b = bytes.fromhex(x.split()[2])
                        j = 0
                        while j + 1 < len(b):      # decode the packets handed to TCP
                            ln = b[j + 1]
                            if b[j] in (0x40, 0x50) and ln == 2:
                                acks.append((b[j] >> 4, struct.unpack(">H", b[j + 2:j + 4])[0]))
                            j += 2 + ln if ln < 128 else len(b)
            want = [(q, t, p) for q, t, p, pid in case.meta.get("pubs", [])]
            tiny = [1 for q, t, p, pid in case.meta.get("pubs", []) if 2 + len(t) // 2 + len(p) // 2 + (2 if q else 0) < 4]
            if tiny:
                if got != want:
                    fs.append(F.Finding("publish-3-byte-rejected", "a valid PUBLISH with remaining length 3 (1-byte topic, empty "
                                        "payload, QoS 0) is rejected as malformed by MQTT-C (remaining_length < 4 rule)"))
            elif case.meta.get("pubs") is not None:
                if got != want:
                    fs.append(F.Finding("publish-delivery", "callbacks %s differ from the PUBLISH packets sent %s (client errors %s)"
                                        % ([(q, t[-12:], p[:8]) for q, t, p in got][:4], [(q, t[-12:], p[:8]) for q, t, p in want][:4], errs[:2])))
                for q, t, p, pid in case.meta["pubs"]:
                    if q == 1 and (4, pid) not in acks:
                        fs.append(F.Finding("missing-ack", "QoS 1 publish %d not acknowledged with PUBACK" % pid))
                    if q == 2 and (5, pid) not in acks:
                        fs.append(F.Finding("missing-ack", "QoS 2 publish %d not acknowledged with PUBREC" % pid))
        if case.meta.get("kind") == "mixed":
            got = []
            for g in raw:
                for x in g:
                    if x.startswith("PUB "):
                        p = x.split()
                        got.append((int(p[2]), p[4] if p[4] != "-" else "", p[5] if p[5] != "-" else ""))
            want = [(q, t, p) for q, t, p, pid in case.meta.get("pubs", [])]
            j = 0
            for gq in got:          # callbacks are, in order, publishes the broker sent: none invented, none repeated
                while j < len(want) and want[j] != gq:
                    j += 1
                if j == len(want):
                    fs.append(F.Finding("publish-delivery", "callback %s is not (or not in order) one of the PUBLISH packets sent"
                                        % ((gq[0], gq[1][-12:], gq[2][:8]),)))
                    break
                j += 1
        if case.meta.get("kind") == "mixed" and case.meta.get("has_bad"):
            # the stream contains a malformed packet or an acknowledgement of something never sent (and it is delivered whole, every
            # segment is accepted): the connection ends in a protocol error
            ce = [x for g in raw for x in g if x.startswith("CLIENTERR ")]
            if ce and all(x == "CLIENTERR 1" for x in ce) and not any(x.startswith("DISCONNECT") for g in raw[2:] for x in g):
                fs.append(F.Finding("malformed-packet-no-error", "the broker's stream contains %s, yet the client reports no protocol error"
                                    % [t for t in case.meta.get("tags", []) if t.startswith("p:") and t[2:] in
                                       ("puback", "suback", "pubrel", "pubrec", "pubcomp", "unsuback", "reserved", "badflags", "badlen", "pinglen", "longrem")]))
        if case.meta.get("kind") == "big":
            got = []
            second = [k for k, o in enumerate(case.ops) if o == "connected"][1:]
            if second and case.meta.get("after"):
                late = [(int(x.split()[2]), x.split()[4] if x.split()[4] != "-" else "", x.split()[5] if x.split()[5] != "-" else "")
                        for g in raw[second[0]:] for x in g if x.startswith("PUB ")]
                if late != [tuple(case.meta["after"])]:
                    fs.append(F.Finding("publish-delivery", "on the connection after the reconnect the broker sent one PUBLISH, delivered: %s"
                                        % [(q, t[-12:], p[:8]) for q, t, p in late][:3]))
                raw = raw[:second[0]]
            for g in raw:
                for x in g:
                    if x.startswith("PUB "):
                        p = x.split()
                        tt = p[4] if p[4] != "-" else ""
                        pp = p[5] if p[5] != "-" else ""
                        if pp.startswith("HUGE"):
                            fs.append(F.Finding("oversized-publish-delivered", "a payload of %s bytes was delivered" % pp))
                            continue
                        got.append((int(p[2]), tt, pp))
                    elif x.startswith("SENT 0 "):
                        b = bytes.fromhex(x.split()[2])
                        j = 0
                        while j < len(b):          # what is handed to TCP must be well-formed MQTT packets
                            ty = b[j] >> 4
                            if j + 1 >= len(b):
                                fs.append(F.Finding("malformed-packet-sent", "truncated packet sent: %s" % b[j:j + 8].hex()))
                                break
                            ln, k, mul = 0, j + 1, 1
                            while k < len(b):
                                ln += (b[k] & 127) * mul
                                mul *= 128
                                k += 1
                                if not b[k - 1] & 128:
                                    break
                            fixed = {4: 2, 5: 2, 6: 2, 7: 2, 12: 0, 14: 0}.get(ty)
                            if ty not in (1, 3, 4, 5, 6, 7, 8, 10, 12, 14) or (fixed is not None and ln != fixed) or k + ln > len(b):
                                fs.append(F.Finding("malformed-packet-sent", "not an MQTT packet the client may send: %s" % b[j:j + 8].hex()))
                                break
                            j = k + ln
            want = [(q, t, p) for q, t, p, pid in case.meta.get("pubs", [])]
            LIM = 1024
            for q, t, p in got:
                enc = 1 + 2 + 2 + len(t) // 2 + (2 if q else 0) + len(p) // 2
                if enc > LIM:
                    fs.append(F.Finding("oversized-publish-delivered", "a PUBLISH of %d bytes was delivered although the receive buffer holds %d" % (enc, LIM)))
            # what is delivered is a prefix of what was sent (the oversized packet ends the stream)
            if got != want[:len(got)]:
                fs.append(F.Finding("publish-delivery", "callbacks %s are not a prefix of the PUBLISH packets sent" % [(q, t[-8:], p[:8]) for q, t, p in got][:4]))
            small_before = []
            for q, t, p, pid in case.meta.get("pubs", []):
                if 1 + 2 + 2 + len(t) // 2 + (2 if q else 0) + len(p) // 2 > LIM:
                    break
                small_before.append((q, t, p))
            if got[:len(small_before)] != small_before:
                fs.append(F.Finding("publish-delivery", "packets that fit the receive buffer were not all delivered before the oversized one: "
                                    "%d of %d" % (len(got), len(small_before))))
        for op, g in zip(case.ops, raw):
            if op.startswith("unpack "):
                b = bytes.fromhex(op.split()[1]) if op.split()[1] != "-" else b""
                if len(b) >= 5 and all(v & 0x80 for v in b[1:5]):
                    # impossible length: the remaining-length field has at most four bytes (MQTT 3.1.1, 2.2.3)
                    for x in g:
                        if x.startswith("UNPACK ") and int(x.split()[1]) >= 0:
                            fs.append(F.Finding("five-byte-remaining-length-accepted", "a fixed header whose remaining-length field continues "
                                                "beyond four bytes (%s) is not rejected: %s" % (b[:6].hex(), x)))
                for x in g:
                    if " PUBLISH " in x:
                        p = dict(kv.split("=") for kv in x.split()[3:])
                        to, tl = [int(v) for v in p["topic"].split("+")]
                        po, pl = [int(v) for v in p["payload"].split("+")]
                        if to + tl > len(b) or po + pl > len(b):
                            fs.append(F.Finding("publish-outside-data", "unpacked PUBLISH extends outside the %d received bytes: %s" % (len(b), x)))
        return fs

    @staticmethod
    def sent_packets(lines):
        """(type, flags, packet id or None) of the MQTT packets the client handed to TCP"""
        out = []
        for x in lines:
            if not x.startswith("SENT 0 "):
                continue
            b = bytes.fromhex(x.split()[2])
            j = 0
            while j + 1 < len(b):
                ln, k, mul = 0, j + 1, 1
                while k < len(b):
                    ln += (b[k] & 127) * mul
                    mul *= 128
                    k += 1
                    if not b[k - 1] & 128:
                        break
                ty, fl = b[j] >> 4, b[j] & 15
                pid = None
                if ty in (8, 10) and ln >= 2:
                    pid = struct.unpack(">H", b[k:k + 2])[0]
                elif ty == 3 and (fl >> 1) & 3 and ln >= 4:
                    tl = struct.unpack(">H", b[k:k + 2])[0]
                    if k + 2 + tl + 2 <= len(b):
                        pid = struct.unpack(">H", b[k + 2 + tl:k + 4 + tl])[0]
                out.append((ty, fl, pid))
                j = k + ln
        return out

    ACK_FOR = {9: "sub", 4: "pub1", 5: "pub2"}      # SUBACK / PUBACK / PUBREC answer these outstanding requests
    NAMES = {4: "PUBACK", 5: "PUBREC", 6: "PUBREL", 7: "PUBCOMP", 9: "SUBACK", 11: "UNSUBACK", 3: "PUBLISH"}

    def outstanding(self, lines):
        out = {}
        for ty, fl, pid in self.sent_packets(lines):
            if pid is None:
                continue
            if ty == 8:
                out[pid] = "sub"
            elif ty == 3 and (fl >> 1) & 3 == 1:
                out[pid] = "pub1"
            elif ty == 3 and (fl >> 1) & 3 == 2:
                out[pid] = "pub2"
        return out

    def judge_last(self, exe, ops):
        """the last op is one packet from the broker, the ops before it leave the client with requests outstanding: an
        acknowledgement is accepted iff it is well formed and answers an outstanding request of its own kind; a QoS 1/2
        PUBLISH is delivered and acknowledged whatever its packet id collides with"""
        rc0, base_lines, err0 = C.run_lines([exe], "\n".join(ops[:-1]) + "\n")
        rc, lines, err = C.run_lines([exe], "\n".join(ops) + "\n")
        if rc != 0 or rc0 != 0:
            return [F.Finding("crash", "rc=%s %s" % (rc, (err or err0)[-600:]))], None
        pend = self.outstanding(base_lines)
        pkt = bytes.fromhex(ops[-1].split()[1])
        ty, fl = pkt[0] >> 4, pkt[0] & 15
        new = lines[len(base_lines):] if lines[:len(base_lines)] == base_lines else lines
        ce = [x for x in lines if x.startswith("CLIENTERR ")]
        ok = bool(ce) and ce[-1] == "CLIENTERR 1"
        fs = []
        if ty == 3:
            qos = (fl >> 1) & 3
            tl = struct.unpack(">H", pkt[2:4])[0]
            topic, pid, payload = pkt[4:4 + tl], struct.unpack(">H", pkt[4 + tl:6 + tl])[0], pkt[6 + tl:]
            got = [x.split() for x in new if x.startswith("PUB ")]
            got = [(p[4] if p[4] != "-" else "", p[5] if p[5] != "-" else "") for p in got]
            acks = []
            for x in new:
                if x.startswith("SENT 0 "):
                    b = bytes.fromhex(x.split()[2])
                    j = 0
                    while j + 1 < len(b):
                        ln = b[j + 1]
                        if b[j] in (0x40, 0x50) and ln == 2:
                            acks.append((b[j] >> 4, struct.unpack(">H", b[j + 2:j + 4])[0]))
                        j += 2 + ln if ln < 128 else len(b)
            if got != [(topic.hex(), payload.hex())] or not ok:
                fs.append(F.Finding("publish-with-colliding-id-lost", "a well-formed QoS %d PUBLISH whose packet id %d equals the id of the "
                                    "client's own outstanding %s is not delivered exactly once (callbacks %s, %s)"
                                    % (qos, pid, pend.get(pid), got, ce[-1:])))
            elif (4 if qos == 1 else 5, pid) not in acks:
                fs.append(F.Finding("publish-with-colliding-id-not-acknowledged", "QoS %d PUBLISH with id %d: acknowledgements sent %s" % (qos, pid, acks)))
            return fs, ("PUBLISH", pend.get(pid), ok)
        pid = struct.unpack(">H", pkt[2:4])[0]
        wellformed = fl == (2 if ty == 6 else 0)
        if ty in (4, 5, 6, 7, 11) and pkt[1] != 2:
            # impossible length: these acknowledgements carry a packet id and nothing else
            if ok:
                fs.append(F.Finding("impossible-length-accepted", "a %s with remaining length %d (it is 2 by definition) for an outstanding "
                                    "request is accepted without a protocol error; the bytes behind the packet id are then read as the next "
                                    "packet" % (self.NAMES.get(ty, ty), pkt[1])))
            return fs, (self.NAMES.get(ty, ty), "len", ok)
        # (MQTT-C accepts PUBACK and PUBREC for an outstanding PUBLISH of either QoS: an acknowledgement of the wrong QoS flow, but
        # of something that was sent - the property only excludes acknowledgements of what was never sent)
        kind_of = {"sub": "sub", "pub1": "pub", "pub2": "pub"}
        answers = pend.get(pid) is not None and {9: "sub", 4: "pub", 5: "pub"}.get(ty) == kind_of[pend[pid]]
        name = self.NAMES.get(ty, "type %d" % ty)
        if ok and not wellformed:
            fs.append(F.Finding("wrong-flags-accepted", "a %s for an outstanding request with reserved flag bits %d set is "
                                "accepted without a protocol error" % (name, fl)))
        elif ok and not answers:
            fs.append(F.Finding("ack-of-unknown-accepted", "a %s with packet id %d is accepted without a protocol error although the "
                                "client has no request of that kind outstanding under this id (outstanding: %s)" % (name, pid, pend)))
        elif not ok and wellformed and answers:
            fs.append(F.Finding("valid-ack-rejected", "a well-formed %s for an outstanding request ends in %s" % (name, ce[-1:])))
        return fs, (name, wellformed, answers, ok)

    # ---- acknowledgements and inbound QoS 1/2 flows as histories (Model/MqttAck)
    PKT = {"puback": 0x40, "pubrec": 0x50, "pubrel": 0x62, "pubcomp": 0x70}

    def flow_bytes(self, pk, k):
        if pk[0] == "publish":
            return publish(b"t/x", b"m%d" % k, pk[1], pk[2])
        if pk[0] == "suback":
            return bytes([0x90, 3]) + struct.pack(">H", pk[1]) + b"\0"
        return bytes([self.PKT[pk[0]], 2]) + struct.pack(">H", pk[1])

    def gen_flow(self, rng, pend):
        """broker packets after the CONNACK: QoS 0/1/2 publishes with few packet ids (so that ids are used again after their flow was
        released), retransmissions while a flow is open, PUBREL of open flows, acknowledgements of the client's own outstanding
        requests (each once, in protocol order). Nothing whose outcome depends on when complete queue entries are dropped."""
        ids = rng.choice([[7], [1, 2], [1, 2, 7]])
        open_, closed, seq = set(), set(), []
        own = dict(pend)
        rel = set()        # own QoS 2 publishes whose PUBREC was sent: PUBCOMP may follow
        for _ in range(rng.randint(3, 12)):
            r = rng.random()
            if r < .45:
                seq.append(("publish", 2, rng.choice(ids)))
                open_.add(seq[-1][2])
            elif r < .55:
                seq.append(("publish", 1, rng.choice(ids)))
            elif r < .6:
                seq.append(("publish", 0, 0))
            elif r < .85 and open_:
                pid = rng.choice(sorted(open_))
                seq.append(("pubrel", pid))
                open_.discard(pid)
                closed.add(pid)
            elif r < .95 and (own or rel):
                if rel and rng.random() < .5:
                    pid = rel.pop()
                    seq.append(("pubcomp", pid))
                else:
                    pid = rng.choice(sorted(own)) if own else None
                    if pid is None:
                        continue
                    what = own.pop(pid)
                    if what == "sub":
                        seq.append(("suback", pid))
                    elif what == "pub1":
                        seq.append(("puback", pid))
                    else:
                        seq.append(("pubrec", pid))
                        rel.add(pid)
            elif r >= .97:
                cand = [p for p in (3, 9) if p not in open_ and p not in closed]
                if cand:
                    seq.append(("pubrel", cand[0]))     # a flow that was never opened: acknowledgement of something never sent
        return seq

    def run_flow(self, exe, qos, seq):
        """-> (ops, per-packet observations [(err, [(qos, payload)], )], acks sent, model ops); stops behind the first client error"""
        base = ["cfg qos %d" % qos, "start", "connected", "seg " + CONNACK.hex(), "adv 300"]
        ops = list(base)
        for k, pk in enumerate(seq):
            ops += ["seg " + self.flow_bytes(pk, k).hex(), "adv 100"]
        rc, lines, err = C.run_lines([exe], "\n".join(ops) + "\n")
        if rc != 0:
            return ops, None, None, None, err
        groups = C.split_by_op(lines)[0]
        mops, obs, acks, seen = ["reset"], [], [], set()

        def sent(g):
            n = 0
            for x in g:
                if not x.startswith("SENT 0 "):
                    continue
                n += 1
                b = bytes.fromhex(x.split()[2])
                j = 0
                while j + 1 < len(b):
                    ln, k2, mul = 0, j + 1, 1
                    while k2 < len(b):
                        ln += (b[k2] & 127) * mul
                        mul *= 128
                        k2 += 1
                        if not b[k2 - 1] & 128:
                            break
                    ty, fl = b[j] >> 4, b[j] & 15
                    if ty in (4, 5, 6, 7) and ln == 2:
                        acks.append((ty, struct.unpack(">H", b[k2:k2 + 2])[0]))
                    elif ty in (8, 10) and ln >= 2:
                        pid = struct.unpack(">H", b[k2:k2 + 2])[0]
                        if (ty, pid) not in seen:
                            seen.add((ty, pid)); mops.append("own %d %d" % (ty, pid))
                    elif ty == 3 and (fl >> 1) & 3 and ln >= 4:
                        tl = struct.unpack(">H", b[k2:k2 + 2])[0]
                        pid = struct.unpack(">H", b[k2 + 2 + tl:k2 + 4 + tl])[0]
                        if (3, pid) not in seen:
                            seen.add((3, pid)); mops.append("own 3 %d" % pid)
                    j = k2 + ln
            if n:
                mops.append("flush")

        for g in groups[:len(base)]:
            sent(g)
        acks.clear()
        dead = False
        for k, pk in enumerate(seq):
            g1 = groups[len(base) + 2 * k] if len(base) + 2 * k < len(groups) else []
            g2 = groups[len(base) + 2 * k + 1] if len(base) + 2 * k + 1 < len(groups) else []
            ce = [x for x in g1 if x.startswith("CLIENTERR ")]
            e = bool(ce) and ce[-1] != "CLIENTERR 1"
            pubs = [(int(x.split()[2]), x.split()[5] if x.split()[5] != "-" else "") for x in g1 if x.startswith("PUB ")]
            mops.append("pkt %s %d %d" % (pk[0], pk[1], pk[2] if len(pk) > 2 else 0))
            obs.append((e, pubs))
            if e:
                dead = True
                break
            sent(g1); sent(g2)
        return ops, obs, list(acks), mops, None

    def flows_family(self, tier, rng):
        """histories of broker packets against the real client, the Lean model (Model/MqttAck) and the flow specification"""
        exe = self.driver_build()
        n = 40 if tier == "quick" else 400
        ev, nt, tie, out = 0, set(), [], []
        for i in range(n):
            qos = rng.choice([0, 1, 1, 2, 2])
            rc, lines, err = C.run_lines([exe], "\n".join(["cfg qos %d" % qos, "start", "connected", "seg " + CONNACK.hex(), "adv 300"]) + "\n")
            if rc != 0:
                out.append((F.Finding("crash", "rc=%s %s" % (rc, err[-600:])), []))
                break
            seq = self.gen_flow(rng, self.outstanding(lines))
            if i == 0:
                seq = [("publish", 2, 7), ("pubrel", 7), ("publish", 2, 7), ("pubrel", 7)]     # the id of a released flow used again
            fs, t, key = self.judge_flow(exe, qos, seq)
            ev += 1
            nt.add(key)
            tie += t
            if fs:
                out += fs
                break
        return ev, len(nt), tie, out

    def judge_flow(self, exe, qos, seq):
        ops, obs, acks, mops, err = self.run_flow(exe, qos, seq)
        if obs is None:
            return [(F.Finding("crash", "implementation aborted: %s" % (err or "")[-600:]), ops)], [], ("crash",)
        fs, tie = [], []
        # the flow specification (reference): open inbound QoS 2 flows
        open_, want, wacks = set(), [], []
        for k, (pk, (e, pubs)) in enumerate(zip(seq, obs)):
            exp = []
            if pk[0] == "publish":
                if pk[1] == 2:
                    if pk[2] not in open_:
                        exp = [(2, (b"m%d" % k).hex())]
                        wacks.append((5, pk[2]))
                        open_.add(pk[2])
                else:
                    exp = [(pk[1], (b"m%d" % k).hex())]
                    if pk[1] == 1:
                        wacks.append((4, pk[2]))
                if e:
                    fs.append((F.Finding("valid-publish-rejected", "history %s: the PUBLISH at position %d ends in a client error" % (seq, k)), ops))
                    break
            elif pk[0] == "pubrel" and pk[1] in open_:
                open_.discard(pk[1])
                wacks.append((7, pk[1]))
            elif pk[0] == "pubrec":
                wacks.append((6, pk[1]))
            if pubs != exp:
                cls = "qos2-flow-delivery" if pk[0] == "publish" and pk[1] == 2 else "publish-delivery"
                fs.append((F.Finding(cls, "history %s: packet %d (%s) should hand over %s (a QoS 2 PUBLISH is handed over unless a flow with its "
                                     "packet id is open; PUBREL closes the flow), the client handed over %s" % (seq[:k + 1], k, pk, exp, pubs)), ops))
                break
        if not fs and not any(e for e, _ in obs) and sorted(acks) != sorted(wacks):
            fs.append((F.Finding("flow-acknowledgements", "history %s: acknowledgements expected %s, sent %s" % (seq, wacks, acks)), ops))
        # the Lean model on the same history
        mrc, mlines, merr = C.run_lines([C.svdrv(), "mqttack"], "\n".join(mops) + "\n")
        mg = [g for o, g in zip(mops, C.split_by_op(mlines)[0]) if o.startswith("pkt ")]
        staged = []
        for k, ((e, pubs), g) in enumerate(zip(obs, mg)):
            m = dict(kv.split("=") for kv in g[0].split()[1:]) if g else {}
            if not m or int(m["err"]) != int(e) or int(m["deliv"]) != len(pubs):
                tie.append("history %s, packet %d (%s): implementation err=%d callbacks=%d, model %s" % (seq, k, seq[k], e, len(pubs), g))
                break
            if m["staged"] != "-":
                staged.append(tuple(int(v) for v in m["staged"].split(":")))
        if not tie and not any(e for e, _ in obs) and sorted(staged) != sorted(acks):
            tie.append("history %s: acknowledgements sent %s, staged by the model %s" % (seq, acks, staged))
        key = (qos, tuple(sorted(set((pk[0], pk[1] if pk[0] == "publish" else 0) for pk in seq))), any(e for e, _ in obs))
        return fs, tie, key

    def extra_findings(self, tier, rng):
        """acknowledgements of requests the client really has outstanding (its SUBSCRIBE, its QoS 1/2 state publishes): well
        formed (no error), with a reserved flag bit set (protocol error), of the wrong kind for that packet id (acknowledgement
        of something never sent: protocol error); and QoS 1/2 publishes from the broker that reuse such an id (delivered)"""
        exe = self.driver_build()
        out, ev, nt = [], 0, set()
        fl = getattr(self, "_flows", None)
        if fl is None:
            fl = self.flows_family(tier, C.Rng(C.seed() * 31 + 5))
        ev += fl[0]
        nt |= set(("flow", k) for k in range(fl[1]))
        out += fl[3]
        if out:
            return ev, len(nt), out
        for i in range(6 if tier == "quick" else 40):
            qos = rng.choice([1, 1, 2, 0])
            base = ["cfg qos %d" % qos, "start", "connected", "seg " + CONNACK.hex(), "adv 300"]
            rc, lines, err = C.run_lines([exe], "\n".join(base) + "\n")
            ev += 1
            if rc != 0:
                out.append((F.Finding("crash", "rc=%s %s" % (rc, err[-600:])), base))
                break
            pend = self.outstanding(lines)
            if not pend:
                continue
            right = {"sub": 9, "pub1": 4, "pub2": 5}
            trials = []
            pid, what = rng.choice(sorted(pend.items()))
            def ack(ty, fl, pid):
                return bytes([ty << 4 | fl]) + (bytes([3]) + struct.pack(">H", pid) + b"\0" if ty == 9 else bytes([2]) + struct.pack(">H", pid))
            trials.append(ack(right[what], 0, pid))
            trials.append(ack(right[what], rng.choice([1, 2, 4, 8]), pid))
            if what != "sub":
                # the right acknowledgement with an impossible length: a whole PINGRESP (or a small PUBLISH) rides behind the packet id
                tail = rng.choice([b"\xd0\x00", publish(b"t/x", b"hello", 0, 0)])
                a0 = ack(right[what], 0, pid)
                trials.append(bytes([a0[0], 2 + len(tail)]) + a0[2:] + tail)
            for pid2, what2 in sorted(pend.items()):
                wrong = [t for t in (4, 5, 6, 7, 9, 11) if t != right[what2] and not (what2 != "sub" and t in (4, 5))]
                for ty in (wrong if tier != "quick" else rng.sample(wrong, min(3, len(wrong)))):
                    trials.append(ack(ty, 2 if ty == 6 else 0, pid2))
                for q in (1, 2):
                    trials.append(publish(b"t/x", b"xyz", q, pid2))
            trials.append(ack(rng.choice([4, 5, 7, 9, 11]), 0, rng.choice([p for p in range(1, 200) if p not in pend])))
            for pkt in trials:
                ops = base + ["seg " + pkt.hex()]
                fs, key = self.judge_last(exe, ops)
                ev += 1
                nt.add(key)
                for f in fs:
                    out.append((f, ops))
                if out:
                    break
            if out:
                break
        return ev, len(nt), out

    def extra_static(self, tier):
        """the acknowledgement / QoS flow bookkeeping of the real client equals Model/MqttAck on every history run"""
        try:
            self._flows = self.flows_family(tier, C.Rng(C.seed() * 31 + 5))
        except C.BuildError as e:
            self._flows = (0, 0, [], [])
            return [("flow bookkeeping: __mqtt_recv = Model/MqttAck", False, "driver does not build: " + str(e)[-600:])]
        t = self._flows[2]
        return [("flow bookkeeping: __mqtt_recv = Model/MqttAck (%d histories)" % self._flows[0], not t, t[0] if t else "")]

    def extra_replay(self, ops):
        segs = [o for o in ops if o.startswith("seg ")]
        if any(o.startswith("cfg qos") for o in ops) and len(segs) > 2:
            # a flow history: decode the broker packets back from the segments
            seq = []
            for o in segs[1:]:
                b = bytes.fromhex(o.split()[1])
                ty = b[0] >> 4
                if ty == 3:
                    q = (b[0] >> 1) & 3
                    tl = struct.unpack(">H", b[2:4])[0]
                    seq.append(("publish", q, struct.unpack(">H", b[4 + tl:6 + tl])[0] if q else 0))
                else:
                    seq.append(({4: "puback", 5: "pubrec", 6: "pubrel", 7: "pubcomp", 9: "suback"}[ty], struct.unpack(">H", b[2:4])[0]))
            qos = int(next(o for o in ops if o.startswith("cfg qos")).split()[2])
            fs, t, _ = self.judge_flow(self.driver_build(), qos, seq)
            return [f for f, _ in fs]
        if not any(o.startswith("cfg qos") for o in ops) or not ops[-1].startswith("seg "):
            return []
        fs, _ = self.judge_last(self.driver_build(), ops)
        return fs

    def nontrivial_key(self, case, groups):
        raw = case.meta.get("raw_impl") or []
        k = tuple(sorted(set(x.split()[0] + (":" + x.split()[1] if x.startswith("UNPACK") and not x.split()[1].lstrip("-").isdigit() else "")
                             for g in raw for x in g if x.startswith(("PUB ", "UNPACK")))))
        return (case.meta.get("tags", [""])[0], k) if k else None


SPEC = C16()
