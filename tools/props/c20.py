"""C20 — fallback DNS resolver: safe on any reply, exactly one completion callback."""
import struct

import framework as F


def qname(name):
    return b"".join(bytes([len(l)]) + l for l in name.split(b".")) + b"\0"


def reply(name, ip=b"\x01\x02\x03\x04", rcode=0, an=1, ans_name=b"\xc0\x0c", atype=1, aclass=1, rdlen=4, extra=b"",
          lenfix=0, cname_first=False):
    q = qname(name)
    body = struct.pack(">HBBHHHH", 1, 0x81, 0x80 | (rcode & 15), 1, an, 0, 0) + q + struct.pack(">HH", 1, 1)
    if cname_first:
        cn = qname(b"cdn.example.net")
        body += b"\xc0\x0c" + struct.pack(">HHIH", 5, 1, 60, len(cn)) + cn
    body += ans_name + struct.pack(">HHIH", atype, aclass, 60, rdlen) + ip + extra
    return struct.pack(">H", (len(body) + lenfix) & 0xffff) + body


def spec_report(name_len, p):
    """reference for C20's 'reports an address only if ...' (independent of the Lean model)"""
    R = 14 + name_len + 2 + 4
    if len(p) < R or struct.unpack(">H", p[:2])[0] != len(p) - 2:
        return None
    if p[5] & 15 or struct.unpack(">H", p[8:10])[0] < 1:
        return None
    rest = p[R:]
    a = len(rest)
    for i, b in enumerate(rest):
        if b >> 6 == 3:
            a = i + 2
            break
        if b == 0:
            a = i + 1
            break
    if a + 10 >= len(rest):
        return None
    t, c, ttl, rl = struct.unpack(">HHIH", rest[a:a + 10])
    if t != 1 or c != 1 or rl != 4 or a + 14 > len(rest):
        return None
    return rest[a + 10:a + 14]


DRAIN = ["fire retry", "fire timeout"] * 6 + ["disc"] + ["fire retry", "fire timeout"] * 2


class C20(F.Spec):
    pid = "C20"
    lean_module = "SuplaVerif.Props.C20"
    namespace = "SuplaVerif.C20"
    driver = "drv_dns"
    model_args = ["dns"]
    rule = ("resolve requests (names 0..100 chars, NULL) followed by per-server outcomes {send refused, disconnect, "
            "timeout, reply} with replies: valid A, CNAME-first, uncompressed names, every length/count corruption, "
            "truncations at every offset (thorough), random bytes, lengths 0..1500. Non-trivial: a callback was made; "
            "distinct = (callback kind, tries, reply kinds used).")
    assumptions = ["timers fire only when the ops file says so (arm state compared after every op)",
                   "espconn_disconnect does not synchronously call the disconnect callback (it is a separate op)"]

    def cases(self, rng, tier):
        n = 300 if tier == "quick" else 4000
        for i in range(n):
            yield self.gen(rng, i)
        # systematic family: every truncation point of valid replies, with and without a consistent
        # length prefix (cheap, so it is part of the quick tier too)
        for nm, kw in ((b"supla.org", {}), (b"a.bc", {"ans_name": qname(b"a.bc")}), (b"supla.org", {"cname_first": True})):
            base = reply(nm, b"\x5d\xb8\xd8\xee", **kw)
            for cut in range(len(base) + 1):
                for fix in (True, False):
                    p = base[:cut]
                    if fix and cut >= 2:
                        p = struct.pack(">H", cut - 2) + p[2:]
                    yield F.Case("trunc-%s-%d-%d" % (nm.decode(), cut, fix),
                                 ["resolve " + nm.decode(), "connected 0", "reply " + (p.hex() or "-"), "disc"] +
                                 DRAIN, {"tags": ["kind:trunc"], "names": [len(nm)]})

    def mk_reply(self, rng, name):
        k = rng.choice(["good", "good", "cname", "uncompressed", "rcode", "an0", "type", "class", "rdlen", "lenprefix",
                        "short", "trunc", "random", "noterm", "empty", "big"])
        ip = bytes(rng.getrandbits(8) for _ in range(4))
        if k == "good":
            p = reply(name, ip)
        elif k == "cname":
            p = reply(name, ip, cname_first=True)
        elif k == "uncompressed":
            p = reply(name, ip, ans_name=qname(name))
        elif k == "rcode":
            p = reply(name, ip, rcode=rng.randint(1, 15))
        elif k == "an0":
            p = reply(name, ip, an=0)
        elif k == "type":
            p = reply(name, ip, atype=rng.choice([0, 5, 28, 256, 257]))
        elif k == "class":
            p = reply(name, ip, aclass=rng.choice([0, 2, 255, 256]))
        elif k == "rdlen":
            p = reply(name, ip, rdlen=rng.choice([0, 3, 5, 16, 1024, 65535]))
        elif k == "lenprefix":
            p = reply(name, ip, lenfix=rng.choice([-1, 1, 2, -2, 100]))
        elif k == "short":
            p = reply(name, ip)[:rng.randint(0, 30)]
        elif k == "trunc":
            p = reply(name, ip)
            cut = rng.randint(len(p) - 16, len(p) - 1)
            p = p[:cut]
            if rng.random() < .7:
                p = struct.pack(">H", len(p) - 2) + p[2:]
        elif k == "noterm":
            body = struct.pack(">HBBHHHH", 1, 0x81, 0x80, 1, 1, 0, 0) + qname(name) + struct.pack(">HH", 1, 1) + \
                bytes(rng.choice([1, 7, 63, 65, 127]) for _ in range(rng.randint(0, 40)))
            p = struct.pack(">H", len(body)) + body
        elif k == "empty":
            p = b""
        elif k == "big":
            p = reply(name, ip, extra=bytes(rng.getrandbits(8) for _ in range(rng.choice([100, 1400]))))
            p = struct.pack(">H", len(p) - 2) + p[2:]
        else:
            p = bytes(rng.getrandbits(8) for _ in range(rng.choice([1, 2, 20, 29, 45, 60, 300, 1500])))
            if rng.random() < .5 and len(p) >= 2:
                p = struct.pack(">H", len(p) - 2) + p[2:]
        return k, p

    def gen(self, rng, i):
        ops, tags, names = [], [], []
        for _ in range(rng.randint(1, 3)):
            nk = rng.choice(["ok", "ok", "ok", "short", "null", "empty", "long"])
            if nk == "ok":
                name = rng.choice([b"supla.org", b"a.bc", b"svr1.supla.org", b"x" * 20 + b".pl", b"abcd"])
            elif nk == "short":
                name = rng.choice([b"a", b"ab", b"a.b", b"abc"])
            elif nk == "long":
                name = b"a" * rng.choice([60, 62, 63, 64, 100])
            else:
                name = b""
            if rng.random() < .25:
                # the SDK refuses some of the connection requests at once (route / memory / already connected): no callback follows
                ops.append("connres " + " ".join(str(rng.choice([0, 0, -4, -1, -15])) for _ in range(4)))
                tags.append("connect-refused")
            ops.append("resolve " + ("NULL" if nk == "null" else "EMPTY" if nk == "empty" else name.decode()))
            names.append(len(name[:63]))
            tags.append("name:" + nk)
            for _ in range(rng.randint(0, 7)):
                o = rng.choice(["conn_ok_reply", "conn_ok_reply", "conn_fail", "disc", "timeout", "retry", "reply_only",
                                "conn_ok"])
                if o == "conn_ok_reply":
                    k, p = self.mk_reply(rng, name if len(name) >= 4 else b"supla.org")
                    ops += ["connected 0", "reply " + (p.hex() or "-")]
                    tags.append("reply:" + k)
                    if rng.random() < .6:
                        ops.append("disc")
                elif o == "conn_fail":
                    ops.append("connected %d" % rng.choice([-1, -5, -11]))
                elif o == "disc":
                    ops.append("disc")
                elif o == "timeout":
                    ops.append("fire timeout")
                elif o == "retry":
                    ops.append("fire retry")
                elif o == "conn_ok":
                    ops.append("connected 0")
                else:
                    k, p = self.mk_reply(rng, b"supla.org")
                    ops.append("reply " + (p.hex() or "-"))
                    tags.append("reply:" + k)
            # drain: fire whatever is armed until quiet (bounded); then the disconnect callback of a connection the
            # firmware closed itself arrives late (the SDK delivers it asynchronously), and the timers once more
            ops += DRAIN
        return F.Case("gen%d" % i, ops, {"tags": tags, "names": names})

    def canon_impl(self, groups):
        out = []
        for g in groups:
            h = []
            for x in g:
                if x.startswith("SENT "):
                    p = x.split()
                    if p[2].startswith("NULL:"):
                        h.append("SENT 0 %s" % p[2][5:])
                    else:
                        h.append("SENT 1 %d" % (len(p[2]) // 2 if p[2] != "-" else 0))
                elif x.startswith("CONNECTREFUSED"):
                    h.append("CONNECTREFUSED")
                elif x.startswith("CONNECT "):
                    ip = x.split()[1].split(":")[0]
                    idx = {"8.8.8.8": 0, "1.1.1.1": 1, "8.8.4.4": 2, "1.0.0.1": 3}.get(ip, -1)
                    h.append("CONNECT %d" % idx)
                else:
                    h.append(x)
            out.append(h)
        return out

    def monitor(self, case, groups, rc, err):
        if rc != 0:
            return [F.Finding("crash", "implementation aborted (rc=%s): %s" % (rc, err[-900:]))]
        fs = []
        pending = False
        cur_name_len = None
        ni = 0
        last_reply_expect = None
        for op, g in zip(case.ops, groups):
            t = op.split()
            cbs = [x for x in g if x.startswith("CALLBACK ")]
            if t[0] == "resolve":
                if pending:
                    pass  # superseded request: property speaks about the new one from here on
                pending = True
                cur_name_len = 0 if t[1] in ("NULL", "EMPTY") else min(len(t[1]), 63)
                ni += 1
                last_reply_expect = None
                if (t[1] in ("NULL", "EMPTY") or (cur_name_len is not None and cur_name_len < 4)):
                    if cbs != ["CALLBACK null"]:
                        fs.append(F.Finding("unsendable-request-outcome",
                                            "resolve %s must fail at once with exactly one null callback, got %s" % (t[1], cbs)))
            if t[0] == "reply" and cur_name_len is not None and cur_name_len >= 4 and "NOCONN" not in g:
                p = bytes.fromhex(t[1]) if t[1] != "-" else b""
                exp = spec_report(cur_name_len, p)
                if exp is not None:
                    last_reply_expect = exp
            if not pending and any(x.startswith("CONNECT ") for x in g):
                fs.append(F.Finding("connect-after-completion", "the resolver connects to a server although no request is "
                                    "pending, at op '%s'" % op[:40]))
            for cb in cbs:
                if not pending:
                    fs.append(F.Finding("extra-callback", "callback without a pending request at op '%s'" % op[:40]))
                pending = False
                if cb != "CALLBACK null":
                    ip = bytes(int(x) for x in cb.split()[1].split("."))
                    if last_reply_expect is None or ip != last_reply_expect:
                        fs.append(F.Finding("wrong-address", "reported %s but the last acceptable reply carried %s" % (
                            cb, last_reply_expect.hex() if last_reply_expect else None)))
            for x in g:
                if x.startswith("SENT 0 "):
                    fs.append(F.Finding("send-null-request", "espconn_sent called with a released request: " + x))
        if pending:
            # after the drain (6 x fire retry/timeout) a request must have completed
            fs.append(F.Finding("no-completion", "request still pending after all armed timers fired repeatedly"))
        return fs

    def nontrivial_key(self, case, groups):
        cbs = tuple(x.split()[1] != "null" for g in groups for x in g if x.startswith("CALLBACK "))
        if not cbs:
            return None
        kinds = tuple(sorted(set(t for t in case.meta.get("tags", []) if t.startswith("reply:"))))[:4]
        return (cbs[:4], kinds)


SPEC = C20()
