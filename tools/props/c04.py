"""C04 — each connection starts with one registration and stays quiet until accepted."""
import struct

import common as C
import framework as F
from props.c01 import frame
from props.c03 import set_value

VER = 23
REG_CALL = 69
# answers to server requests (…_RESULT calls): not traffic the device originates
ANSWERS = {120, 470, 510, 692, 695}


def reg_result(code, at=120, rr=1):
    return frame(VER, rr, 70, struct.pack("<iBBB", code, at, VER, 1))


def ping_result(rr=2):
    return frame(VER, rr, 50, bytes(16))


EVS = ["start", "gotip", "gotip", "dnsok", "dnsok", "dnsnone", "connect", "connect", "iterate", "iterate", "iterate", "regok", "regok",
       "regrefused", "othermsg", "disconnect", "disconnect", "recon", "stop", "local", "local", "local", "latedata", "latedown"]


class C04(F.Spec):
    pid = "C04"
    lean_module = "SuplaVerif.Props.C04"
    namespace = "SuplaVerif.C04"
    driver = "drv_dev"
    variant = "cfg"
    model_args = ["devconn"]
    rule = ("event sequences over {start, wifi got-IP, DNS answer ok/none, TCP connected, TCP lost (also mid-frame and with unsent "
            "bytes buffered), iterate, register result ok / each refusal code, other server message, reconnect and stop timers, "
            "local events that make the device want to talk (value, extended value, action trigger, keep-alive tick)} in any order, "
            "delivered to the real supla_esp_devconn.c through the SDK model; events the SDK cannot deliver in a state are "
            "recorded as disabled on both sides. After every event started/srpc/registered and the number of registration frames "
            "begun are compared with the Lean model; the monitor reassembles the byte stream of every connection: first frame = "
            "registration with the configured identity, exactly one, nothing else before an accepted result, nothing after a "
            "refusal, leftovers of the old connection never reach the new one. Timed scenarios (real timers, inputs, wifi polling) "
            "are checked by the monitor only. Non-trivial: a connection was established; distinct = sequence of event kinds.")
    assumptions = ["SDK contract: connect callback only after espconn_connect, data and disconnect callback only on an established "
                   "connection, a local espconn_disconnect does not call the disconnect callback from inside the call: an established connection the "
                   "firmware closes stays 'closing' - data may still arrive, the close is reported by a later disconnect callback, and the next "
                   "connection is not established before that report",
                   "server name is resolved through DNS (not a literal address); TLS is not modelled"]

    def cases(self, rng, tier):
        yield self.scripted("witness-double-dns", ["start", "gotip", "dnsok", "gotip", "connect", "iterate", "regok", "local", "dnsok", "connect",
                                                   "iterate", "local", "regok", "local"])
        yield self.scripted("cycle", ["start", "gotip", "dnsok", "connect", "iterate", "iterate", "iterate", "regok", "local", "disconnect", "local",
                                      "recon", "gotip", "dnsok", "connect", "iterate", "iterate", "iterate", "regrefused", "local", "stop", "local", "gotip"])
        # every result code other than TRUE is a refusal: nothing but the registration on that connection, stop and close
        for code in [c for c in range(0, 46) if c != 3] + [99, 255]:
            yield self.scripted("refusal-code-%d" % code, ["start", "gotip", "dnsok", "connect", "iterate", "iterate", "regrefused:%d" % code, "local", "iterate",
                                                           "local", "stop", "local", "iterate"])
        # the device closes the connection itself (refusal), the server's last segment and then the close report come afterwards; the
        # next connection must not see those bytes (a stale acceptance would let the device talk on a connection nobody accepted)
        for k in range(4):
            yield self.scripted("late-data-%d" % k, ["start", "gotip", "dnsok", "connect", "iterate", "iterate", "regrefused", "iterate", "stop",
                                                    "latedata", "local", "start", "gotip", "dnsok", "connect", "iterate", "iterate", "local",
                                                    "iterate", "local", "regok", "local"], C.Rng(100 + k))
        # account e-mails up to the size of the field (255 characters): the registration carries them whole
        for k, n in enumerate([64, 65, 100, 255]):
            c = self.scripted("long-email-%d" % k, ["start", "gotip", "dnsok", "connect", "iterate", "iterate", "regok", "local"], C.Rng(7 + k))
            c.ops.insert(0, "email " + ("a" * (n - 12) + "@example.org"))
            yield c
        for i in range(150 if tier == "quick" else 1500):
            yield self.scripted("gen%d" % i, self.walk_events(rng, rng.randint(6, 45)), rng)
        for i in range(20 if tier == "quick" else 150):
            yield self.timed(rng, i)
        # an accepted connection (which leaves its activity timeout and stamps behind), a lost connection, the next connection
        # established and its registration sent - and then a silent server: nothing but the registration goes out on it
        for k, (T, silent) in enumerate([(10, 12), (10, 25), (20, 30), (5, 9)]):
            ops = ["board relay2 0", "init -1", "sentbytes 1", "netstart", "wifi 5", "adv 1000", "dnsreply 10.0.0.7", "tcpup", "adv 200",
                   "recv " + reg_result(3, T).hex(), "adv 1000", "tcpdown"] + ["adv 1000"] * 3 + \
                  ["wifi 1", "adv 1000", "wifi 5", "adv 1000", "dnsreply 10.0.0.7", "tcpup", "adv 200"] + ["adv 1000"] * silent
            yield F.Case("pending-silence-%d" % k, ops, {"kind": "timed", "tags": ["kind:timed", "pending-silence"]})

    @staticmethod
    def walk_events(rng, n):
        """random walk that mostly picks events the SDK can deliver in the current state (a rough mirror of the life
        cycle, used for generation only), so that histories reach several connections; 20 % arbitrary events"""
        st = dict(started=0, srpc=0, res=0, pend=0, up=0, recon=0, stop=0, reg=0, closing=0)
        out = []
        for _ in range(n):
            en = ["local", "gotip"]
            if st["closing"]:
                en += ["latedata"] * 3 + ["latedown"] * 2
            if not st["started"]:
                en += ["start"] * 3
            if st["started"] and not st["srpc"] and not st["res"]:
                en += ["gotip"] * 3
            if st["res"]:
                en += ["dnsok"] * 4 + ["dnsnone"]
            if st["pend"]:
                en += ["connect"] * 4
            if st["srpc"]:
                en += ["iterate"] * 3
            if st["up"]:
                en += ["regok"] * 2 + ["regrefused", "othermsg", "disconnect", "disconnect"]
                if st["reg"] == 1:
                    en += ["local"] * 3
            if st["recon"]:
                en += ["recon"] * 3
            if st["stop"]:
                en += ["stop"] * 3
            e = rng.choice(en) if rng.random() < 0.8 else rng.choice(EVS)
            out.append(e)
            if e == "start":
                st["started"] = 1; st["recon"] = 0
            elif e == "gotip" and st["started"] and not st["srpc"] and not st["res"]:
                st["res"] = 1
            elif e in ("dnsok", "dnsnone") and st["res"]:
                st["res"] = 0
                if e == "dnsok":
                    st["pend"] = 1; st["up"] = 0
            elif e == "connect" and st["pend"]:
                st.update(pend=0, up=1, srpc=1, reg=0, closing=0)
            elif e == "regok" and st["up"]:
                st["reg"] = 1
            elif e == "regrefused" and st["up"]:
                st["stop"] = 1
            elif e == "disconnect" and st["up"]:
                st["up"] = 0
                st["recon"] = st["recon"] or st["started"]
            elif e == "recon" and st["recon"]:
                st.update(recon=0, srpc=0, up=0, reg=0, started=1)
            elif e == "stop" and st["stop"]:
                st["closing"] = st["up"]          # the device closes an established connection itself
                st.update(stop=0, srpc=0, up=0, reg=0, started=0)
            elif e in ("latedata", "latedown"):
                st["closing"] = 0
        return out

    def scripted(self, name, evs, rng=None):
        ops = ["board relay2 0", "init -1", "sentbytes 1", "calllog 1"]
        kinds = []
        k = 0
        for e in evs:
            k += 1
            if e == "start":
                ops.append("netstart")
            elif e == "gotip":
                ops.append("gotip")
            elif e == "dnsok":
                ops.append("dnsfound 10.0.0.%d" % (1 + k % 200))
            elif e == "dnsnone":
                ops.append("dnsfound none")
            elif e == "connect":
                ops.append("tcpup")
            elif e == "iterate":
                ops.append("fire iterate")
            elif e == "regok":
                ops.append("recv " + reg_result(3, rng.choice([120, 60, 10]) if rng else 120).hex())
            elif e.startswith("regrefused"):
                code = int(e.split(":")[1]) if ":" in e else (rng.choice([5, 6, 7, 8, 9, 10, 11, 12, 13, 14, 17, 18, 20, 26, 99]) if rng else 5)
                ops.append("recv " + reg_result(code).hex())
            elif e == "othermsg":
                ops.append("recv " + ping_result().hex())
            elif e == "disconnect":
                if rng and rng.random() < 0.3:
                    ops.append("recv " + frame(VER, 9, 110, set_value(5, 0, 0, [1])).hex()[: 2 * rng.randint(1, 30)])   # mid-frame
                    kinds.append("partial")
                if rng and rng.random() < 0.25:
                    # the next sends report INPROGRESS: a frame stays in the device's send buffer when the connection drops
                    ops += ["esp -5 -5 -5", "localev 0", "tcpdown", "espclear"]
                    kinds.append("buffered")
                else:
                    ops.append("tcpdown")
            elif e == "latedata":
                # the server's last segment arrives after the device asked for the close (a complete frame - the acceptance of a
                # registration -, half a frame, or a frame and a half), then the close is reported
                fr = rng.choice([reg_result(3, 10), frame(VER, 9, 110, set_value(5, 0, 0, [1]))]) if rng else reg_result(3, 10)
                cut = rng.choice([len(fr), len(fr), len(fr) // 2, len(fr) + 10]) if rng else len(fr)
                ops += ["recv " + (fr + fr)[:cut].hex(), "tcpdown"]
            elif e == "latedown":
                ops.append("tcpdown")
            elif e == "recon":
                ops.append("fire recon")
            elif e == "stop":
                ops.append("fire stop")
            elif e == "local":
                ops.append("localev %d" % (rng.randrange(3) if rng else 0))
            kinds.append(e)
        return F.Case(name, ops, {"kind": "events", "evs": kinds, "tags": ["kind:events"]})

    def timed(self, rng, i):
        ops = ["board relay2 0", "init -1", "sentbytes 1", "netstart"]
        for _ in range(rng.randint(5, 25)):
            a = rng.choice(["adv", "adv", "adv", "dns", "dns", "tcpup", "tcpup", "tcpdown", "regok", "regok", "regref", "input", "wifi", "msg"])
            if a == "adv":
                ops.append("adv %d" % rng.choice([100, 100, 500, 1000, 5000]))
            elif a == "dns":
                ops.append("dnsreply " + rng.choice(["10.0.0.7", "10.0.0.8"]))   # ("none" would start the own DNS client: C20)
            elif a == "tcpup":
                ops.append("tcpup")
            elif a == "tcpdown":
                ops.append("tcpdown")
            elif a == "regok":
                ops.append("recv " + reg_result(3).hex())
            elif a == "regref":
                ops.append("recv " + reg_result(rng.choice([5, 7, 9, 18])).hex())
            elif a == "input":
                ops += ["input 10 0", "adv 300", "input 10 1", "adv 300"]
            elif a == "wifi":
                ops += ["wifi %d" % rng.choice([1, 5, 5, 2, 3])]
            else:
                ops.append("recv " + frame(VER, 9, 110, set_value(5, 1, 0, [rng.choice([0, 1])])).hex())
        return F.Case("timed%d" % i, ops, {"kind": "timed", "tags": ["kind:timed"]})

    # ---- reassembly of what went onto each connection
    def epochs(self, case, raw):
        """list of epochs: dict(start_op, stream=[(op_idx, bytes)], accepted_at(op idx of regok recv or None), refused_at)"""
        eps, cur = [], None
        for k, (op, g) in enumerate(zip(case.ops, raw)):
            t = op.split()
            for x in g:
                if x == "TCPUP":
                    cur = {"start": k, "chunks": [], "ok": None, "refused": None, "end": None}
                    eps.append(cur)
                elif x in ("TCPDOWN",) or x.startswith("DISCONNECT"):
                    if cur is not None and cur["end"] is None:
                        cur["end"] = k
                    if x == "TCPDOWN":
                        cur = None
                elif x.startswith("SENT 0 ") and cur is not None and cur["end"] is None:
                    cur["chunks"].append((k, bytes.fromhex(x.split()[2])))
                elif x.startswith("SENT 0 ") and (cur is None or cur["end"] is not None):
                    eps.append({"stray": k, "bytes": x.split()[2][:40]})
                elif x.startswith("GETDATA 70 1") and cur is not None:
                    pl = bytes.fromhex(t[1]) if t[0] == "recv" else b""
                    code = struct.unpack("<i", pl[18:22])[0] if len(pl) >= 22 else None
                    if code == 3 and cur["ok"] is None:
                        cur["ok"] = k
                    elif code is not None and code != 3 and cur["refused"] is None:
                        cur["refused"] = k
        return eps

    @staticmethod
    def frames_of(chunks):
        """[(op idx of first byte, call id, payload)] + trailing incomplete flag"""
        data = b"".join(c for _, c in chunks)
        owner = []
        for k, c in chunks:
            owner += [k] * len(c)
        out, pos = [], 0
        while pos + 23 <= len(data):
            if data[pos:pos + 5] != b"SUPLA":
                return out, "garbage at %d: %s" % (pos, data[pos:pos + 12].hex())
            call, ds = struct.unpack("<II", data[pos + 10:pos + 18])
            if pos + 18 + ds + 5 > len(data):
                break
            out.append((owner[pos], call, data[pos + 18:pos + 18 + ds]))
            pos += 18 + ds + 5
        if pos < len(data) and data[pos:pos + min(5, len(data) - pos)] != b"SUPLA"[:min(5, len(data) - pos)]:
            return out, "garbage at %d: %s" % (pos, data[pos:pos + 12].hex())
        # an incomplete frame at the end: report its header if visible
        if pos + 14 <= len(data):
            out.append((owner[pos], struct.unpack("<I", data[pos + 10:pos + 14])[0], None))
        return out, None

    def derive_model(self, case, raw):
        if case.meta.get("kind") != "events":
            return "", []
        ops, exp = [], []
        eps = [e for e in self.epochs(case, raw) if "chunks" in e]
        regstart = set()
        for e in eps:
            fr, _ = self.frames_of(e["chunks"])
            for k, call, _ in fr:
                if call == REG_CALL:
                    regstart.add(k)
        MAP = {"netstart": "start", "gotip": "gotip", "tcpup": "connect", "tcpdown": "disconnect"}
        # per op: had the device closed an established connection itself, the close not yet reported? (read from the trace)
        closing_at, closing, was_up, srpc_before, has_srpc = [], False, False, [], False
        for g in raw:
            closing_at.append(closing)
            srpc_before.append(has_srpc)
            if any(x == "TCPDOWN" for x in g):
                closing = False
            elif any(x.startswith("DISCONNECT") for x in g) and was_up:
                closing = True
            dc = [x for x in g if x.startswith("DCSTATE")]
            if dc:
                was_up = "conn=2" in dc[-1]
                has_srpc = "srpc=1" in dc[-1]
        for k, (op, g) in enumerate(zip(case.ops, raw)):
            t = op.split()
            closing = closing_at[k] if k < len(closing_at) else False
            if t[0] == "localev" and k > 0 and case.ops[k - 1].startswith("esp "):
                continue      # buffered by a scripted INPROGRESS: no protocol state change, judged by the monitor only
            ev = MAP.get(t[0])
            if t[0] == "dnsfound":
                ev = "dnsfound 0" if t[1] == "none" else "dnsfound 1"
            elif t[0] == "fire":
                ev = {"iterate": "iterate", "recon": "recon", "stop": "stop"}.get(t[1])
            elif t[0] == "localev":
                ev = "local"
            elif t[0] == "recv" and closing and not (srpc_before[k] if k < len(srpc_before) else False):
                ev = "latedata"                  # the device has closed this connection itself: nothing reads the bytes
            elif t[0] == "recv":
                pl = bytes.fromhex(t[1])
                tot = 23 + struct.unpack("<I", pl[14:18])[0] if len(pl) >= 23 else 1 << 30
                if len(pl) < tot or pl[tot - 5:tot] != b"SUPLA":
                    ev = "othermsg"              # a partial frame: the receive path runs (registration step), no message yet
                call = struct.unpack("<I", pl[10:14])[0] if ev is None else -1    # (the first frame decides; a partial one may follow)
                if ev is not None:
                    pass
                elif call == 70:
                    ev = "regok" if struct.unpack("<i", pl[18:22])[0] == 3 else "regrefused"
                else:
                    ev = "othermsg"
            if ev is None:
                continue
            st = [x for x in g if x.startswith("DCSTATE")]
            disabled = any(x in ("NOPENDINGCONNECT", "NOTCONNECTED", "NOTARMED", "NOTRESOLVING") for x in g)
            ops.append(ev)
            if disabled:
                exp.append(["DISABLED"])
                continue
            if not st:
                exp.append(["?"])
                continue
            f = dict(p.split("=") for p in st[-1].split()[1:])
            regd = int(f["registered"])
            regd = -1 if regd == 255 else regd
            oth = "-"
            if ev == "local":
                oth = "1" if any(x.startswith("CALL ") for x in g) else "0"
            stale = 1 if (int(f["recvbuf"]) > 0 and f["srpc"] == "0") else 0
            exp.append(["DC started=%s srpc=%s registered=%d reg=%d other=%s stale=%d" % (f["started"], f["srpc"], regd, 1 if k in regstart else 0, oth, stale)])
        return "\n".join(ops) + "\n", exp

    def monitor(self, case, groups, rc, err):
        if rc != 0:
            return [F.Finding("crash", "implementation aborted (rc=%s): %s" % (rc, err[-900:]))]
        raw = case.meta.get("raw_impl") or []
        fs = []
        for g in raw:
            for x in g:
                if x == "RESTART" or "iterate fail" in x:
                    fs.append(F.Finding("restart", "the device restarted: " + x))
        for e in self.epochs(case, raw):
            if "stray" in e:
                fs.append(F.Finding("sent-without-connection", "bytes accepted for sending with no established connection: " + e["bytes"]))
                continue
            fr, bad = self.frames_of(e["chunks"])
            if bad:
                fs.append(F.Finding("stream-not-frames", "connection opened at op %d: %s" % (e["start"], bad)))
            if not fr:
                continue
            k0, call0, pl0 = fr[0]
            if call0 != REG_CALL:
                fs.append(F.Finding("first-frame-not-registration", "connection opened at op %d: first frame is call %d" % (e["start"], call0)))
            elif pl0 is not None:
                # TDS_SuplaRegisterDevice_E: Email[256] AuthKey[16] GUID[16] Name SoftVer ServerName ... channels
                mail = next((o.split()[1].encode() for o in case.ops if o.startswith("email ")), b"user@example.org") + b"\0"
                if pl0[:len(mail)] != mail or pl0[256:272] != bytes(0x40 + i for i in range(16)) \
                        or pl0[272:288] != bytes(0x10 + i for i in range(16)) or b"srv.example\0" not in pl0[288:] \
                        or b"VERIF-BOARD\0" not in pl0[288:]:
                    fs.append(F.Finding("registration-content", "registration does not carry the configured GUID/AuthKey/e-mail/server"))
            nreg = sum(1 for _, c, _ in fr if c == REG_CALL)
            if nreg > 1:
                fs.append(F.Finding("registration-repeated", "connection opened at op %d: %d registration requests" % (e["start"], nreg)))
            for k, c, _ in fr:
                if c != REG_CALL and (e["ok"] is None or k < e["ok"]):
                    if c in ANSWERS:
                        continue     # an answer to a server request is not device-originated traffic
                    fs.append(F.Finding("traffic-before-accepted", "connection opened at op %d: call %d sent at op %d before the server "
                                        "accepted the registration" % (e["start"], c, k)))
                    break
            if e["refused"] is not None:
                late = [(k, c) for k, c, _ in fr if k > e["refused"]]
                # after the refusal: nothing but what was already queued in the same event
                later = [kc for kc in late if not case.ops[kc[0]].startswith("recv")]
                if later and e["ok"] is None:
                    fs.append(F.Finding("traffic-after-refusal", "call %d sent at op %d after the registration was refused" % (later[0][1], later[0][0])))
        # refusal -> the client stops and closes: when the stop timer has run, started=0, no protocol instance, DISCONNECT issued
        refused_open = False
        halted = False          # the registration was refused and the stop has run: the client stays stopped until it is started again
        for op, g in zip(case.ops, raw):
            t = op.split()
            if t[0] == "netstart" or (t[0] == "fire" and t[1] == "recon" and "NOTARMED" not in g) or \
                    any(x.startswith("DCSTATE") and "started=1" in x for x in g):
                halted = False       # started again (also by a reconnect timer that an earlier disconnect had armed)
            if halted and t[0] in ("gotip", "wifi") and any(x.startswith(("GETHOST", "CONNECT ")) for x in g):
                fs.append(F.Finding("reconnect-after-refusal", "the registration was refused and the client stopped, yet at '%s' it resolves / "
                                    "connects again without having been started" % op[:40]))
                halted = False
            if t[0] == "recv" and any(x.startswith("GETDATA 70 1") for x in g):
                pl = bytes.fromhex(t[1])
                if len(pl) >= 22 and struct.unpack("<i", pl[18:22])[0] != 3:
                    refused_open = True
            if t[0] in ("netstart",) or (t[0] == "fire" and t[1] == "recon"):
                refused_open = False
            if refused_open and t[0] == "fire" and t[1] == "stop" and "NOTARMED" in g:
                fs.append(F.Finding("refusal-stop-not-scheduled", "the registration was refused but no stop is scheduled: the connection "
                                    "stays open"))
                refused_open = False
            fired = (t[0] == "fire" and t[1] == "stop" and "NOTARMED" not in g) or (t[0] == "adv" and int(t[1]) >= 10)
            if refused_open and fired:
                halted = any(x.startswith("DCSTATE started=0") for x in g)
                st = [x for x in g if x.startswith("DCSTATE")]
                if not any(x.startswith("DISCONNECT") for x in g):
                    fs.append(F.Finding("refusal-connection-not-closed", "the registration was refused but the connection was not closed"))
                if st and ("started=0" not in st[-1] or "srpc=0" not in st[-1]):
                    fs.append(F.Finding("refusal-client-not-stopped", "after the refusal: " + st[-1]))
                refused_open = False
        return fs

    def nontrivial_key(self, case, groups):
        raw = case.meta.get("raw_impl") or []
        if not any(x == "TCPUP" for g in raw for x in g):
            return None
        sig = []
        for g in raw:
            for x in g:
                if x in ("TCPUP", "TCPDOWN") or x.startswith(("GETDATA 70", "CONNECT")):
                    sig.append(x[:12])
        return (case.meta.get("kind"), tuple(sig[:12]))


SPEC = C04()
