"""C08 — roller-shutter motor outputs are interlocked and restarts/reversals are spaced."""
import struct

import framework as F
from props.c03 import set_value, chan_config, rs_cfg, fb_cfg, calcfg

W = 1 << 32


def sv(ch, v, dur=0):
    return "msg 110 " + set_value(1, ch, dur, bytes([v] + [0] * 7)).hex()


def rs_pins(board):
    n = int(board[2:]) if board.startswith("rs") else 1
    return [(1 + 2 * i, 2 + 2 * i) for i in range(n)]


def rs_inputs(board):
    if board == "mixed":
        return [(10, 11)]
    n = int(board[2:])
    return [(9 + 2 * i, 10 + 2 * i) for i in range(n) if 2 * i + 1 < 7]


def gen_rs_scenario(rng, tier="quick", boot=None):
    board = rng.choice(["rs1", "rs1", "rs2", "rs3", "rs4", "mixed"])
    if boot is None:
        boot = rng.choice([1, 12345, W - 500000, W - 1500000, W - 3000000, W - 20000000, rng.getrandbits(32) | 1])
    ops = ["boot %d" % boot, "board %s" % board, "motor %d %d %d %d" % (rng.choice([0, 0, 0, 1, 2]), rng.choice([0, 100, 300]),
                                                                       rng.choice([1000, 3000]), rng.choice([1000, 3000])), "init"]
    nrs = len(rs_pins(board))
    for k in range(nrs):
        if rng.random() < .6:      # calibrated (a consistent state: times > 0, positions inside their range)
            tt = rng.choice([0, 0, 1, 2, 3])
            ops.append("rstimes %d %d %d %d %d" % (k, rng.choice([2000, 5000]), rng.choice([2000, 5000]),
                                                   800 if tt else 0, tt))
            ops.append("rspos %d %d %d" % (k, rng.choice([100, 5000, 10100]), rng.choice([100, 5000, 10100]) if tt else 0))
    ops.append("rslog 1")
    ins = rs_inputs(board)
    for _ in range(rng.randint(3, 25 if tier == "quick" else 60)):
        k = rng.randrange(nrs)
        r = rng.random()
        if r < .45:
            v = rng.choice([0, 1, 2, 3, 4, 5, 1, 2, 10, 60, 110, 35])
            m = bytes([v, rng.choice([0, 0, 50, 110, 255])] + [0] * 6)
            ops.append("msg 110 " + set_value(1, k, 0, m).hex())
        elif r < .6 and k < len(ins):
            pin = rng.choice(ins[k])
            ops.append("input %d %d" % (pin, 0))
            ops.append("adv %d" % rng.choice([150, 300, 700, 1200]))
            ops.append("input %d %d" % (pin, 1))
        elif r < .7:
            ops.append("msg 460 " + calcfg(1, k, 8000, 1, 0, b"").hex())  # recalibrate, authorised
        elif r < .8:
            cfg = rs_cfg(rng.choice([0, 3000]), rng.choice([0, 3000]), rng.choice([0, 1, 2]), rng.choice([0, 1, 2]),
                         rng.choice([-1, 0, 1, 30]), 0)
            ops.append("msg 690 " + chan_config(k, 110, 0, cfg).hex())
        ops.append("adv %d" % rng.choice([1, 10, 50, 100, 200, 400, 499, 500, 600, 850, 899, 900, 901, 950, 999, 1000, 1001,
                                          1100, 1500, 2500, 6000]))
    ops.append("adv 3000")
    return board, boot, ops


class C08(F.Spec):
    pid = "C08"
    lean_module = "SuplaVerif.Props.C08"
    namespace = "SuplaVerif.C08"
    driver = "drv_dev"
    variant = "cfg"
    model_args = ["rs"]
    rule = ("event sequences over {server up/down/stop/up-or-stop/down-or-stop/step-by-step/target position(+tilt), "
            "button press+release on both inputs, recalibrate, channel-config with motor/buttons upside down, time "
            "advance 1 ms..6 s} on 1-4 shutters with motor models {plausible, always moving, never moving} and boot "
            "values placing the counter wrap inside the scenario. Non-trivial: at least one output was energised; "
            "distinct = (board, energise count, delayed-trigger count, wrap inside).")
    assumptions = ["the model is driven by the set_relay calls observed through the SUPLA_VERIF_HOOKS observation hook; "
                   "callers (tasks, buttons, calibration) are exercised on the implementation and checked by the monitor",
                   "board well-formedness: both relays of a shutter carry the same channel, no RESTORE flags on them"]

    def cases(self, rng, tier):
        n = 200 if tier == "quick" else 2500
        # witness of the repaired zero-stamp defect (ac4d248): the reversal arrives at the microsecond the counter reads 0
        for k, boot in enumerate([4293467296, 4293467296 - 10, 4293467296 - 20, 4293467296 - 10010]):
            yield F.Case("zero-stamp-%d" % k, ["boot %d" % boot, "board rs1", "motor 0 100 1000 1000", "init",
                                                "rstimes 0 5000 2000 800 3", "rspos 0 10100 10100", "rslog 1",
                                                "msg 110 0100000000000000000100000000000000", "adv 1500",
                                                "msg 110 0100000000000000000232000000000000", "adv 1500"],
                         {"tags": ["board:rs1", "wrap:1", "witness:zero-stamp"], "board": "rs1"})
        # the buttons of every shutter that has them (the third one sits on relay table entries 4 and 5): up, then down while it runs,
        # then up again shortly after - routed through the shutter logic, never as plain relay toggles
        for board in ("rs1", "rs2", "rs3", "rs4"):
            for k, (pu, pd) in enumerate(rs_inputs(board)):
                ops = ["boot 12345", "board %s" % board, "motor 0 100 3000 3000", "init", "rstimes %d 5000 5000 0 0" % k,
                       "rspos %d 5000 0" % k, "rslog 1", "adv 1000"]
                for pin, gap in ((pu, 1500), (pd, 400), (pu, 1500), (pd, 1500)):
                    ops += ["input %d 0" % pin, "adv 200", "input %d 1" % pin, "adv %d" % gap]
                ops.append("adv 3000")
                yield F.Case("buttons-%s-%d" % (board, k), ops, {"tags": ["board:" + board, "wrap:0", "buttons-of-each-shutter"], "board": board})
        for i in range(n):
            board, boot, ops = gen_rs_scenario(rng, tier)
            yield F.Case("gen%d-%s" % (i, board), ops, {"tags": ["board:" + board, "wrap:%d" % (boot > W - 40000000)],
                                                        "board": board})

    # --- the model replays the observed set_relay calls
    def derive_model(self, case, raw):
        ops, exp = [], []
        boot = 0
        pins = {}
        cur = None
        order = {}
        for op, g in zip(case.ops, raw):
            t = op.split()
            if t[0] == "boot":
                boot = int(t[1])
                ops.append("boot %d" % boot)
                exp.append([])
                cur = None
            for x in g:
                p = x.split()
                if p[0] == "RSSTAMP":
                    ops.append("stamp %s %s %s %s %s" % (p[1], p[2], p[3], p[4], p[5]))
                    exp.append([])
                    order[p[1]] = (p[6], p[7])
                    pins[p[6]] = pins[p[7]] = 1
                    cur = None
                elif p[0] == "SETRELAY":
                    i, v, sd, bu, bd, gu, gd, tm = p[1:9]
                    if order.get(i) and order[i] == (gd, gu):
                        ops.append("swap %s" % i)
                        exp.append([])
                    order[i] = (gu, gd)
                    if cur is not None and cur[0] == "trig" and cur[1] == i:
                        ops.append("trigfire %s %s %s %s %s %s" % (i, bu, bd, gu, gd, cur[2]))
                        exp.append(["TRIGDUE ok"])
                    else:
                        ops.append("setrelay %s %s %s %s %s %s %s %s" % (i, v, sd, bu, bd, gu, gd, tm))
                        exp.append([])
                    cur = ("set", i)
                elif p[0] == "TRIGFIRE":
                    cur = ("trig", p[1], p[2])
                elif p[0] == "GPIO" and p[1] in pins:
                    if exp and cur is not None and cur[0] == "set":
                        exp[-1].append(x)
                    else:
                        ops.append("unexplained")
                        exp.append([x])   # an RS output changed outside set_relay: model prints BADOP
        return "\n".join(ops) + "\n", exp

    def monitor(self, case, groups, rc, err):
        if rc != 0:
            return [F.Finding("crash", "implementation aborted (rc=%s): %s" % (rc, err[-900:]))]
        raw = case.meta.get("raw_impl") or []
        fs = []
        board = case.meta.get("board") or next((o.split()[1] for o in case.ops if o.startswith("board ")), "rs1")
        pairs = rs_pins(board)
        lvl, last_off, ever_on = {}, {}, {}
        for g in raw:
            for x in g:
                if not x.startswith("GPIO "):
                    continue
                _, pin, l, tm = x.split()
                pin, l, tm = int(pin), int(l), int(tm)
                for k, (a, b) in enumerate(pairs):
                    if pin not in (a, b):
                        continue
                    lvl[pin] = l
                    if lvl.get(a, 0) and lvl.get(b, 0):
                        fs.append(F.Finding("both-outputs-on", "shutter %d: both outputs energised at t=%d us" % (k, tm)))
                    if l == 1:
                        if k in last_off and tm - last_off[k] < 900000:
                            fs.append(F.Finding("restart-too-soon", "shutter %d energised %d us after its outputs were switched off"
                                                % (k, tm - last_off[k])))
                        ever_on[k] = True
                    else:
                        if not lvl.get(a, 0) and not lvl.get(b, 0) and ever_on.get(k):
                            last_off[k] = tm
        return fs

    def nontrivial_key(self, case, groups):
        raw = case.meta.get("raw_impl") or []
        on = sum(1 for g in raw for x in g if x.startswith("GPIO ") and x.split()[2] == "1")
        tr = sum(1 for g in raw for x in g if x.startswith("TRIGFIRE"))
        if on == 0:
            return None
        return (case.meta.get("board"), min(on, 8), min(tr, 6), case.meta["tags"][1] if case.meta.get("tags") else "")


SPEC = C08()
