"""C13 — stored config round-trips; identity survives resets, migration, failed saves."""
import struct

import framework as F

REC = 956           # sizeof(SuplaEspCfg), re-read from the REC lines at run time
TAG7 = b"SUPLA\x07"


def rb(rng, n):
    return bytes(rng.getrandbits(8) for _ in range(n))


class C13(F.Spec):
    pid = "C13"
    lean_module = "SuplaVerif.Props.C13"
    namespace = "SuplaVerif.C13"
    driver = "drv_cfg"
    model_args = ["cfgstore"]
    rule = ("histories over {boot (init), modify fields with random bytes, save, save state, factory reset} on a NOR flash "
            "model with fault plans: each erase/write of a save failing without effect / failing after taking effect, power "
            "loss before each operation or after n bytes of a write; initial sectors: blank, zero, random, foreign tag, "
            "zero identity, v6 and v5A/v5B images. The save result + sector content and the boot acceptance decision are "
            "compared with the Lean model; monitor: load = what was saved, RAM commit only on success, identity kept by "
            "factory reset/migration, rejected sectors yield a fresh identity. Non-trivial: a save or boot happened with "
            "a fault or a non-trivial sector; distinct = (initial sector kind, fault kind, outcome).")
    assumptions = ["flash physics below 'erase -> 0xFF, write = AND, status code' are not modelled",
                   "migration paths (v5A/v5B/v6) are checked by the monitor on the implementation, not modelled in Lean"]

    def cases(self, rng, tier):
        self.offsets()   # probe once, before the worker threads start
        # witness of the recorded finding (power loss inside the record write), every run
        yield F.Case("witness-partial-write", ["init", "set 38 " + b"new.server.example".hex(), "crash 2 60", "save", "init"],
                     {"tags": ["kind:witness"], "kind": "crash"})
        for i in range(120 if tier == "quick" else 1500):
            yield self.gen(rng, i)

    def gen(self, rng, i):
        ops = []
        kind = rng.choice(["blank", "blank", "zero", "random", "foreign", "zeroid", "valid", "valid", "v6", "v5"])
        if kind == "zero":
            ops.append("flashfill 00")
        elif kind == "random":
            ops.append("flashset 0 " + rb(rng, 1000).hex())
        elif kind == "foreign":
            # a tag differing from the current one in any single byte, the layout-version byte included (versions this
            # firmware does not know: older than 5, newer than 7, erased), in front of a non-zero identity
            tag = bytearray(TAG7)
            pos = rng.choice([0, 1, 2, 3, 4, 5, 5, 5])
            tag[pos] = rng.choice([0, 4, 8, 9, 0x37, 0xFF]) if pos == 5 else (tag[pos] ^ (1 << rng.randrange(8)))
            ops.append("flashset 0 " + (bytes(tag) + bytes([1 + rng.getrandbits(7) for _ in range(32)]) + rb(rng, 918)).hex())
        elif kind == "zeroid":
            z = rng.choice(["guid", "auth", "both"])
            guid = b"\0" * 16 if z in ("guid", "both") else rb(rng, 16)
            auth = b"\0" * 16 if z in ("auth", "both") else rb(rng, 16)
            ops.append("flashset 0 " + (TAG7 + guid + auth + rb(rng, 100)).hex())
        elif kind == "valid":
            ident = bytearray(1 + rng.getrandbits(7) for _ in range(32))
            if rng.random() < .5:
                # identities are binary: zero bytes inside (also in front) are part of them
                for _ in range(rng.randint(1, 3)):
                    ident[rng.choice([0, 1, 3, 15, 16, 20, 31])] = 0
            ops.append("flashset 0 " + (TAG7 + bytes(ident) + rb(rng, 918)).hex())
        elif kind == "v6":
            ops.append("flashfill 00")
            ops.append("flashset 0 " + (b"SUPLA\x06" + bytes([1 + rng.getrandbits(7) for _ in range(32)]) + rb(rng, 300)).hex())
        elif kind == "v5":
            # well-formed v5A / v5B images built field by field (offsets probed from the headers)
            lay = rng.choice(["a", "b"])
            kind = "v5" + lay
            o = self.offsets()
            im = bytearray(800)
            im[0:6] = b"SUPLA\x05"
            def put(f, val):
                im[o[lay + "." + f]: o[lay + "." + f] + len(val)] = val
            nz = lambda n: bytes([1 + rng.getrandbits(7) for _ in range(n)])
            put("guid", nz(16)); put("auth", nz(16))
            put("server", b"srv%d.example.org\0" % rng.randint(0, 99))
            # short and long addresses: the two old layouts differ by 16 bytes in front of the e-mail, so a long 5B address
            # also reads as an address ("@" and "." present) 16 characters in
            put("email", rng.choice([b"user%d@example.org\0" % rng.randint(0, 99), b"a@b.pl\0",
                                     b"firstname.lastname%d@example.com\0" % rng.randint(0, 99),
                                     b"a.very.long.mailbox.name%d@mail.example.org\0" % rng.randint(0, 9)]))
            put("ssid", rng.choice([b"net%d\0" % rng.randint(0, 99), b"a-network-name-of-31-characters\0"]))
            # (Wi-Fi passwords up to the 63 characters WPA2 allows: longer than the network-name field)
            put("pwd", rng.choice([b"pw%d\0" % rng.randint(0, 9999), b"p" * rng.choice([31, 32, 33, 40, 63]) + b"\0"]))
            put("t1", rb(rng, 8)); put("t2", rb(rng, 8))
            ops.append("flashfill 00")
            ops.append("flashset 0 " + bytes(im).hex())
        ops += ["sector", "init", "showrec", "showstate", "sector"]
        for _ in range(rng.randint(1, 5)):
            a = rng.choice(["save", "save", "savefault", "savecrash", "reboot", "factory", "state"])
            if a in ("save", "savefault", "savecrash"):
                ops.append("set %d %s" % (rng.choice([38, 103, 359, 500, 700]), rb(rng, rng.choice([1, 8, 40])).hex()))
                if a == "savefault":
                    ops.append("fault %d %d" % (rng.choice([1, 2]), rng.choice([0, 1, 3, 4])))     # error / timeout, without / after effect
                elif a == "savecrash":
                    ops.append("crash %d %d" % (rng.choice([1, 2]), rng.choice([0, 6, 37, 38, 60, 500, 955, 956])))
                ops += ["showrec", "sector", "save", "sector"]
            elif a == "reboot":
                ops += ["sector", "init", "showrec", "showstate", "sector"]
            elif a == "factory":
                ops += ["showrec", "factory", "showrec", "sector"]
            else:
                if rng.random() < 0.3:
                    ops.append("fault %d %d" % (rng.choice([1, 2]), rng.choice([0, 1, 3, 4])))     # error / timeout, without / after effect
                ops += ["setstate %d %s" % (rng.choice([0, 8, 40]), rb(rng, 8).hex()), "showstate", "savestate"]
        ops += ["sector", "init", "showrec", "showstate", "show"]
        return F.Case("gen%d-%s" % (i, kind), ops, {"tags": ["sector:" + kind], "kind": kind})

    def derive_model(self, case, raw):
        ops, exp = [], []
        sector, rec, fault = None, None, None
        for op, g in zip(case.ops, raw):
            t = op.split()
            for x in g:
                if x.startswith("SECTOR "):
                    new = x.split()[1]
                    if t[0] == "sector" and exp and exp[-1] and exp[-1][0].startswith("SAVERET") and len(exp[-1]) == 1:
                        exp[-1].append("SECTOR " + new)
                    sector = new
                elif x.startswith("REC "):
                    rec = x.split()[1]
            if t[0] == "fault":
                fault = (int(t[1]), int(t[2]))
            elif t[0] == "crash":
                fault = ("crash",)
            elif t[0] == "save":
                ret = [x for x in g if x.startswith("SAVERET")]
                if sector and rec and ret and fault != ("crash",):
                    code = {0: "0", 1: "1", 3: "0", 4: "1"}        # a timeout is a failure like an error
                    e = code[fault[1]] if fault and fault[0] == 1 else "ok"
                    w = code[fault[1]] if fault and fault[0] == 2 else "ok"
                    ops.append("save %s %s %s %s" % (sector, rec, e, w))
                    exp.append([ret[0]])
                fault = None
            elif t[0] in ("savestate", "factory"):
                fault = None
            elif t[0] == "init" and sector and sector[10:12] not in ("05", "06"):
                fault = None
                cfg = [x for x in g if x.startswith("CFG ")]
                if cfg:
                    guid = cfg[0].split("guid=")[1].split()[0]
                    erased = any(x.startswith("FLASH erase 60") for x in g)
                    ops.append("accept " + sector)
                    exp.append(["ACCEPT %d" % (0 if erased else 1)])
        # drop expectations without the trailing sector (no `sector` op followed)
        exp = [e if not (e and e[0].startswith("SAVERET") and len(e) == 1) else e for e in exp]
        return "\n".join(ops) + "\n", exp

    def canon_model(self, groups):
        return groups

    def offsets(self):
        if not hasattr(self, "_off"):
            import extract
            body = "\n".join('P("%s", offsetof(%s, %s)); P("%s.n", sizeof(((%s*)0)->%s));' % (k, t, f, k, t, f) for k, t, f in [
                ("v7.guid", "SuplaEspCfg", "GUID"), ("v7.auth", "SuplaEspCfg", "AuthKey"), ("v7.server", "SuplaEspCfg", "Server"),
                ("v7.email", "SuplaEspCfg", "Email"), ("v7.ssid", "SuplaEspCfg", "WIFI_SSID"), ("v7.pwd", "SuplaEspCfg", "WIFI_PWD"),
                ("v7.t1", "SuplaEspCfg", "Time1"), ("v7.t2", "SuplaEspCfg", "Time2"),
                ("v6.guid", "SuplaEspCfg_old_v6", "GUID"), ("v6.auth", "SuplaEspCfg_old_v6", "AuthKey"),
                ("v6.server", "SuplaEspCfg_old_v6", "Server"), ("v6.email", "SuplaEspCfg_old_v6", "Email"),
                ("v6.ssid", "SuplaEspCfg_old_v6", "WIFI_SSID"), ("v6.pwd", "SuplaEspCfg_old_v6", "WIFI_PWD"),
                ("v6.t1", "SuplaEspCfg_old_v6", "Time1"), ("v6.t2", "SuplaEspCfg_old_v6", "Time2"),
                ("a.guid", "SuplaEspCfg_old_v5A", "GUID"), ("a.auth", "SuplaEspCfg_old_v5A", "AuthKey"),
                ("a.server", "SuplaEspCfg_old_v5A", "Server"), ("a.email", "SuplaEspCfg_old_v5A", "Email"),
                ("a.ssid", "SuplaEspCfg_old_v5A", "WIFI_SSID"), ("a.pwd", "SuplaEspCfg_old_v5A", "WIFI_PWD"),
                ("a.t1", "SuplaEspCfg_old_v5A", "FullOpeningTime"), ("a.t2", "SuplaEspCfg_old_v5A", "FullClosingTime"),
                ("b.guid", "SuplaEspCfg_old_v5B", "GUID"), ("b.auth", "SuplaEspCfg_old_v5B", "AuthKey"),
                ("b.server", "SuplaEspCfg_old_v5B", "Server"), ("b.email", "SuplaEspCfg_old_v5B", "Email"),
                ("b.ssid", "SuplaEspCfg_old_v5B", "WIFI_SSID"), ("b.pwd", "SuplaEspCfg_old_v5B", "WIFI_PWD"),
                ("b.t1", "SuplaEspCfg_old_v5B", "Time1"), ("b.t2", "SuplaEspCfg_old_v5B", "Time2")])
            self._off = {k: int(v) for k, v in extract.run_probe("c13_off", body, includes_c=["supla_esp.h", "supla_esp_cfg.h"]).items()}
        return self._off

    def fld(self, hexs, lay, name, n=None):
        o = self.offsets()
        a = o["%s.%s" % (lay, name)]
        n = n if n is not None else o["%s.%s.n" % (lay, name)]
        return hexs[2 * a: 2 * (a + n)]

    def monitor(self, case, groups, rc, err):
        if rc != 0:
            return [F.Finding("crash", "implementation aborted (rc=%s): %s" % (rc, err[-900:]))]
        raw = case.meta.get("raw_impl") or []
        fs = []
        sector = rec = state = None
        expect_rec = None        # record a successful save left; the next boot must load exactly it
        expect_state = None
        after = None             # ("init"|"factory", info) waiting for the following showrec/showstate
        torn = None
        for op, g in zip(case.ops, raw):
            t = op.split()
            crashed = any(x == "POWERLOSS" for x in g)
            if t[0] in ("flashset", "flashfill"):
                expect_rec = expect_state = None
            elif t[0] == "crash" and t[1] == "2" and 38 <= int(t[2]) < REC:
                torn = int(t[2])
            elif t[0] == "save":
                ret = [x for x in g if x.startswith("SAVERET")]
                ok = bool(ret) and ret[0].endswith("1")
                expect_rec = rec if ok and not crashed else None
                if crashed or not ok:
                    expect_state = expect_state  # the state sector is not touched by a config save
                if not crashed:
                    torn = torn if False else None
            elif t[0] == "savestate":
                wr = [x for x in g if x.startswith("FLASH write")]
                ok = bool(wr) and wr[0].endswith(" 0") and not crashed and any(x.startswith("FLASH erase") and x.endswith(" 0") for x in g)
                expect_state = state if ok else None
            elif t[0] == "init":
                cfg = [x for x in g if x.startswith("CFG ")]
                if not cfg:
                    after = None
                    continue
                guid = cfg[0].split("guid=")[1].split()[0]
                auth = cfg[0].split("auth=")[1].split()[0]
                rejected = any(x == "FACTORYHOOK" for x in g)
                if guid == "00" * 16 or auth == "00" * 16:
                    fs.append(F.Finding("zero-identity-after-boot", "boot ended with a zero GUID/AuthKey"))
                if torn is not None and not rejected:
                    fs.append(F.Finding("partial-write-accepted",
                                        "power lost after %d of %d bytes of the record write; the truncated record (identity "
                                        "written, the rest 0xFF) was accepted at the next boot" % (torn, REC)))
                torn = None
                migr = sector is not None and sector[:10] == "5355504c41" and sector[10:12] in ("05", "06")
                if sector is not None and not rejected and not (sector[:10] == "5355504c41" and sector[10:12] in ("05", "06", "07")):
                    fs.append(F.Finding("foreign-sector-accepted", "a sector whose first six bytes are %s (not a known configuration tag) "
                                        "was accepted as the configuration" % sector[:12]))
                after = ("init", {"sector": sector, "rejected": rejected, "expect_rec": expect_rec,
                                  "expect_state": expect_state, "migr": sector[10:12] if migr else None,
                                  "wrote": any(x.startswith("FLASH write") for x in g)})
                if rejected or migr:
                    expect_state = None
                if rejected:
                    expect_rec = None
            elif t[0] == "factory":
                after = ("factory", {"before": rec})
                expect_rec = expect_state = None
            for x in g:
                if x.startswith("SECTOR "):
                    sector = x.split()[1]
                elif x.startswith("STATE "):
                    state = x.split()[1]
                    if after and after[0] == "init":
                        inf = after[1]
                        if inf["expect_state"] is not None and not inf["rejected"] and not inf["migr"] and state != inf["expect_state"]:
                            fs.append(F.Finding("state-not-round-tripped", "the state loaded at boot differs from the state saved"))
                elif x.startswith("REC "):
                    rec = x.split()[1]
                    if after and after[0] == "init":
                        inf = after[1]
                        sec = inf["sector"]
                        if inf["expect_rec"] is not None and rec != inf["expect_rec"]:
                            fs.append(F.Finding("config-not-round-tripped",
                                                "the configuration loaded at boot differs from the one a successful save stored"))
                        if not inf["rejected"] and sec is not None and not inf["migr"] and rec != sec[:len(rec)]:
                            fs.append(F.Finding("accepted-config-altered", "an accepted record was changed while loading"))
                        if inf["rejected"] and sec is not None and sec[12:44] != "00" * 16 and rec[12:44] == sec[12:44] and sec[:12] != "5355504c4107":
                            fs.append(F.Finding("rejected-sector-identity-reused", "a rejected sector's GUID was kept"))
                        if inf["migr"] == "06" and not inf["rejected"] and sec is not None:
                            for f in ("guid", "auth", "server", "email", "ssid", "pwd"):
                                if self.fld(rec, "v7", f) != self.fld(sec, "v6", f):
                                    fs.append(F.Finding("migration-lost-" + f, "v6->v7 migration did not keep " + f))
                            for f in ("t1", "t2"):
                                if self.fld(rec, "v7", f, 8) != self.fld(sec, "v6", f, 8):
                                    fs.append(F.Finding("migration-lost-" + f, "v6->v7 migration did not keep the first two values of " + f))
                        if inf["migr"] == "05" and sec is not None and case.meta.get("kind") in ("v5a", "v5b"):
                            lay = case.meta["kind"][2]
                            if inf["rejected"]:
                                fs.append(F.Finding("migration-rejected", "a well-formed v5%s record was not migrated but replaced "
                                                    "by defaults with a new identity" % lay.upper()))
                            else:
                                for f in ("guid", "auth", "server", "email", "ssid", "pwd"):
                                    if self.fld(rec, "v7", f) != self.fld(sec, lay, f):
                                        fs.append(F.Finding("migration-lost-" + f, "v5%s->v7 migration did not keep %s" % (lay.upper(), f)))
                                for f in ("t1", "t2"):
                                    if self.fld(rec, "v7", f, 8) != self.fld(sec, lay, f, 8):
                                        fs.append(F.Finding("migration-lost-" + f, "v5%s->v7 migration did not keep the first two values of %s" % (lay.upper(), f)))
                        after = ("init-state", inf) if False else after
                    elif after and after[0] == "factory":
                        b = after[1]["before"]
                        if b is not None and (rec[12:76] != b[12:76]):
                            fs.append(F.Finding("factory-reset-lost-identity", "factory_defaults changed GUID/AuthKey"))
                        after = None
            if t[0] == "showstate" and after and after[0] == "init":
                after = None
        return fs

    def extra_findings(self, tier, rng):
        """the submitted configuration (config-mode form, real supla_esp_recv_callback) replaces the one in RAM only if
        the flash write succeeded: POST requests with a flash fault planned for the save they trigger"""
        import common as C
        exe = C.build_driver("drv_form", "base", extra_flags=["-fwrapv"])
        fs, ev, nt = [], 0, 0
        for i in range(40 if tier == "quick" else 400):
            old = bytes(rng.choice(b"abcdefghijklmnop") for _ in range(rng.randint(1, 20)))
            new = bytes(rng.choice(b"QRSTUVWXYZ") for _ in range(rng.randint(1, 20)))
            svr = bytes(rng.choice(b"xyz.") for _ in range(rng.randint(1, 30)))
            fault = rng.choice([None, (1, 0), (1, 1), (2, 0), (2, 1), (3, 0), (1, 3), (2, 3), (2, 4)])
            # (every kind of setting differs between the two forms: texts, the LED switch, a numeric field)
            first = b"POST / HTTP/1.1\r\n\r\nsid=" + old + b"&svr=old.example&eml=a%40b.c&pro=0&led=" + rng.choice([b"0", b"1"])
            second = b"POST / HTTP/1.1\r\n\r\nsid=" + new + b"&svr=" + svr + b"&eml=c%40d.e&pro=0&led=" + rng.choice([b"0", b"1", b"1"]) + \
                rng.choice([b"", b"&upd=1", b"&btn1=1"])
            ops = ["conn", "seg " + first.hex(), "conn", "show"]
            if fault:
                ops.append("fault %d %d" % fault)
            ops += ["seg " + second.hex(), "show", "reload", "show"]
            ev += 1
            f, nontrivial = self.form_oracle(exe, ops, new)
            nt += 1 if nontrivial else 0
            if f is not None:
                fs.append((f, ops))
                break
        return ev, nt, fs

    def form_oracle(self, exe, ops, new=None):
        import common as C
        rc, out, err = C.run_lines([exe], "\n".join(ops) + "\n")
        if rc != 0:
            return F.Finding("crash", "form handler aborted (rc=%s): %s" % (rc, err[-600:])), True
        groups, cur = [], []
        for ln in out:
            if ln == ".":
                groups.append(cur)
                cur = []
            else:
                cur.append(ln)
        recs = [x.split()[1] for g in groups for x in g if x.startswith("CFGREC ")]
        reloaded = None
        if "reload" in ops:
            k = ops.index("reload")
            seg2 = groups[k - 2] if k >= 2 else []
            if len(recs) == 3:
                reloaded = recs.pop()
        else:
            seg2 = groups[-2] if len(groups) >= 2 else []
        flash = [x.split() for x in seg2 if x.startswith("FLASH ")]
        failed = any(f[-1] != "0" for f in flash)
        if len(recs) != 2 or not flash:
            return None, False
        if failed and recs[0] != recs[1]:
            return F.Finding("ram-replaced-after-failed-save", "the save of a submitted form failed (%s) but the configuration in RAM "
                             "was replaced by the submitted one" % " ".join(" ".join(f) for f in flash if f[-1] != "0")), True
        if not failed and new is not None and new.hex() not in recs[1]:
            return F.Finding("saved-form-not-in-ram", "the form was saved but the configuration in RAM does not hold the submitted SSID"), True
        if not failed and reloaded is not None and reloaded != recs[1]:
            return F.Finding("saved-form-not-loaded", "the form was saved (flash result OK) but a restart loads another configuration than the "
                             "one the device holds after the save"), True
        return None, True

    def extra_replay(self, ops):
        import common as C
        exe = C.build_driver("drv_form", "base", extra_flags=["-fwrapv"])
        f, _ = self.form_oracle(exe, ops)
        return [f] if f is not None else []

    def nontrivial_key(self, case, groups):
        raw = case.meta.get("raw_impl") or []
        k = set()
        for op, g in zip(case.ops, raw):
            if op.split()[0] in ("fault", "crash"):
                k.add(op[:9])
            for x in g:
                if x.startswith(("SAVERET", "INITRET", "POWERLOSS")):
                    k.add(x)
        return (case.meta.get("kind"), tuple(sorted(k))) if k else None


SPEC = C13()
