"""C02 — outgoing calls reach the wire intact, in order, exactly once or not at all."""
import struct

import common as C
import framework as F
from props.c01 import frame, good_frames, TAG, MAXD

DS_CALLS = [40, 50, 60, 65, 67, 68, 69, 75, 100, 103, 105, 110, 115, 120, 130, 160, 170, 171, 190, 260,
            400, 600, 610, 640, 710, 820]
HARD = [-1, -3, -4, -8, -9, -10, -11, -12, -14]


class C02(F.Spec):
    pid = "C02"
    lean_module = "SuplaVerif.Props.C02"
    namespace = "SuplaVerif.C02"
    driver = "drv_io"
    model_args = ["io"]
    rule = ("sequences of 1-40 device calls (device->server call ids, payload 0..max+1), iterate ticks and "
            "espconn_sent result scripts over {0,-5,-7} (+ rarely a hard error). Non-trivial: at least one "
            "frame reached the wire; distinct = (accepted calls, rejected calls, transient refusals, overflow kinds).")
    assumptions = ["srpc_call_allowed evaluated at the protocol version the firmware sets (Gen.callAllowed)",
                   "espconn_sent result 0 = bytes handed to TCP; -5/-7 = nothing taken; anything else = hard error"]

    def cases(self, rng, tier):
        n = 300 if tier == "quick" else 5000
        for i in range(n):
            yield self.gen(rng, i)
        # the out buffer filled to within a few bytes of its limit: a frame whose header and data still fit but whose end tag does
        # not (sizes swept byte by byte around that point, behind a first frame of the maximum size that is partly drained)
        first = bytes((7 * k + 3) & 255 for k in range(MAXD))
        for n2 in (range(712, 736) if tier == "quick" else range(690, 760)):
            pl = bytes((11 * k + n2) & 255 for k in range(n2))
            ops = ["call 60 " + first.hex(), "tick", "call 60 " + pl.hex()] + ["tick"] * 14
            yield F.Case("brim%d" % n2, ops, {"mode": "brim", "tags": ["mode:brim"]})

    def gen(self, rng, i):
        ops = []
        mode = rng.choice(["small", "small", "mixed", "big", "refuse", "hard"])
        ncalls = rng.randint(1, 40 if mode == "small" else 12)
        for k in range(ncalls):
            if rng.random() < 0.5:
                codes = []
                for _ in range(rng.randint(1, 6)):
                    r = rng.random()
                    if mode == "refuse":
                        codes.append(rng.choice([0, -5, -5, -7, -7]))
                    elif mode == "hard" and r < 0.05:
                        codes.append(rng.choice(HARD))
                    else:
                        codes.append(rng.choice([0, 0, 0, -5, -7]))
                ops.append("esp " + " ".join(str(c) for c in codes))
            cid = rng.choice(DS_CALLS) if rng.random() < 0.95 else rng.choice([0, 1, 41, 2999, 99999])
            if mode == "small":
                n = rng.choice([0, 1, 2, 8, 9, 20, 60])
            elif mode == "big":
                n = rng.choice([MAXD, MAXD - 1, 1000, 1200, 489, 490, 470, MAXD + 1])
            else:
                n = rng.choice([0, 1, 8, 100, 233, 238, 256, 500, 512, MAXD, MAXD + 1])
            pl = bytes(rng.getrandbits(8) for _ in range(n))
            if rng.random() < .2:
                # a well-formed message of a call the firmware issues through a typed sender (the driver then uses that sender):
                # extended value (channel, type, size, value), channel value (channel + 8 bytes), set-value result
                k = rng.choice(["ext", "ext", "val", "res"])
                if k == "ext":
                    sz = rng.choice([1, 4, 19, 100, 255, 256])
                    cid, pl = 105, bytes([rng.randrange(8), rng.choice([40, 50, 51, 60])]) + struct.pack("<I", sz) + bytes(rng.getrandbits(8) for _ in range(sz))
                elif k == "val":
                    cid, pl = 100, bytes([rng.randrange(8)]) + bytes(rng.getrandbits(8) for _ in range(8))
                else:
                    cid, pl = 120, bytes([rng.randrange(8)]) + struct.pack("<i", rng.randint(1, 1 << 20)) + bytes([rng.choice([0, 1])])
            ops.append("call %d %s" % (cid, pl.hex() if pl else "-"))
            for _ in range(rng.choice([0, 0, 1, 1, 2, 3, 8])):
                ops.append("tick")
        ops.append("esp " + " ".join(["0"] * 8))
        for _ in range(30):
            ops.append("tick")
        return F.Case("gen%d-%s" % (i, mode), ops, {"tags": ["mode:" + mode], "mode": mode})

    def buf_max(self):
        if not hasattr(self, "_bufmax"):
            import os, re
            m = re.search(r"bufMax := (\d+)", open(os.path.join(C.LEAN, "SuplaVerif", "Gen", "Consts.lean")).read())
            self._bufmax = int(m.group(1)) if m else 2048
        return self._bufmax

    def monitor(self, case, groups, rc, err):
        fs = []
        if rc != 0:
            return [F.Finding("crash", "implementation aborted (rc=%s): %s" % (rc, err[-600:]))]
        expected = b""
        wire = b""
        hard = False
        sendovf = False
        reported = False
        rrs = []
        for op, g in zip(case.ops, groups):
            t = op.split()
            for x in g:
                if x.startswith("CALLRET "):
                    rr = int(x.split()[1])
                    if rr != 0:
                        pl = bytes.fromhex(t[2]) if t[2] != "-" else b""
                        expected += frame(23, rr, int(t[1]), pl)
                        rrs.append(rr)
                elif x.startswith("SENT "):
                    p = x.split()
                    code = int(p[1])
                    if code == 0 and not hard:
                        wire += bytes.fromhex(p[2]) if p[2] != "-" else b""
                    elif code not in (0, -5, -7):
                        hard = True
                elif x == "LOG SENDOVF":
                    sendovf = True
                elif x in ("LOG OUTAPPERR", "RESTART", "LOG ITERFAIL"):
                    if x == "LOG OUTAPPERR" and not reported and not hard and not sendovf:
                        # "unless the bounded send buffer overflows": the protocol layer's out buffer holds at most `bufMax` bytes, and
                        # everything accepted and not yet on the wire (queue + out buffer + parked bytes) is at least what it holds -
                        # with less than that outstanding the buffer cannot have overflowed, an accepted call was dropped
                        backlog = len(expected) - len(wire)
                        if backlog < self.buf_max():
                            fs.append(F.Finding("accepted-call-dropped-without-overflow", "a call was accepted (request id returned) and then "
                                                "dropped by the protocol layer with only %d bytes accepted and not yet sent (the out buffer "
                                                "takes %d)" % (backlog, self.buf_max())))
                    reported = True
        if any(b <= a or b == 0 for a, b in zip([0] + rrs, rrs)):
            fs.append(F.Finding("rrid-order", "request ids not strictly increasing non-zero: %s" % rrs[:10]))
        if not hard and not sendovf and not reported:
            if wire != expected[:len(wire)]:
                fs.append(F.Finding("wire-not-prefix", "bytes on the wire are not a prefix of the accepted calls' frames "
                                    "(first difference at %d)" % next((i for i in range(min(len(wire), len(expected)))
                                                                        if wire[i] != expected[i]), min(len(wire), len(expected)))))
            elif wire != expected:
                fs.append(F.Finding("silent-loss", "accepted frames missing from the wire with no overflow report: wire %d of %d bytes"
                                    % (len(wire), len(expected))))
            else:
                fr, tail, _ = good_frames(wire)
                if tail not in ("empty",):
                    fs.append(F.Finding("wire-not-decodable", "wire does not decode into whole frames"))
        elif hard and not sendovf and not reported:
            # after a hard error only: no duplication / reordering of accepted bytes
            if wire != expected[:len(wire)]:
                fs.append(F.Finding("wire-not-prefix", "before the hard error the wire was not a prefix"))
        return fs

    def nontrivial_key(self, case, groups):
        acc = sum(1 for g in groups for x in g if x.startswith("CALLRET ") and x != "CALLRET 0")
        rej = sum(1 for g in groups for x in g if x == "CALLRET 0")
        ref = sum(1 for g in groups for x in g if x.startswith("SENT -5") or x.startswith("SENT -7"))
        kinds = tuple(sorted(set(x for g in groups for x in g if x.startswith("LOG "))))
        if acc == 0:
            return None
        return (min(acc, 12), min(rej, 5), min(ref, 5), kinds, case.meta.get("mode"))


SPEC = C02()
