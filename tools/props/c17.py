"""C17 — MQTT CONNECT and command topics mean exactly what was configured and addressed."""
import struct

import common as C
import framework as F
from props.c16 import PREFIX

E, L = 256, 33      # SUPLA_EMAIL_MAXSIZE, SUPLA_LOCATION_PWD_MAXSIZE
GUID = bytes(0xA0 + i for i in range(16))


def store(user, pw):
    """reference for the form's storage of a long password: (Username field, Password field)"""
    uf = bytearray(E)
    uf[:len(user)] = user
    pf = bytearray(L)
    if len(pw) < L:
        pf[:len(pw)] = pw
    else:
        pf[:] = pw[:L]
        tail = pw[L:]
        room = E - len(user) - 1
        t = (tail + b"\0" * room)[:room]
        uf[len(user) + 1:len(user) + 1 + room] = t
        uf[E - 1] = 0
    return bytes(uf), bytes(pf)


def parse_connect(b):
    """reference MQTT 3.1.1 CONNECT decoder; returns dict or None"""
    try:
        if b[0] != 0x10:
            return None
        i, rl, sh = 1, 0, 0
        while True:
            x = b[i]
            rl |= (x & 127) << sh
            sh += 7
            i += 1
            if not x & 128:
                break
        body = b[i:i + rl]
        if len(body) != rl or i + rl != len(b):
            return None

        def s(j):
            n = struct.unpack(">H", body[j:j + 2])[0]
            return body[j + 2:j + 2 + n], j + 2 + n
        name, j = s(0)
        level, flags, ka = body[j], body[j + 1], struct.unpack(">H", body[j + 2:j + 4])[0]
        j += 4
        cid, j = s(j)
        r = {"name": name, "level": level, "flags": flags, "keepalive": ka, "client_id": cid}
        if flags & 4:
            r["will_topic"], j = s(j)
            r["will_msg"], j = s(j)
        if flags & 0x80:
            r["user"], j = s(j)
        if flags & 0x40:
            r["password"], j = s(j)
        if j != len(body) or flags & 1:
            return None
        return r
    except (IndexError, struct.error):
        return None


def ref_set_on(topic, msg):
    """the topic grammar of the property: prefix '/' 'channels/' N '/' cmd, N decimal 0..255"""
    pre = PREFIX + b"/channels/"
    if not topic.startswith(pre):
        return None
    rest = topic[len(pre):]
    if b"/" not in rest:
        return None
    num, cmd = rest.split(b"/", 1)
    if not num or not num.isdigit() or len(num) > 9 or int(num) > 255:
        return None
    m = msg.lower()
    if cmd == b"set/on":
        if msg == b"1" or m in (b"yes", b"true"):
            return int(num), 1
        if msg == b"0" or m in (b"no", b"false"):
            return int(num), 0
    elif cmd == b"execute_action":
        if m == b"turn_on":
            return int(num), 1
        if m == b"turn_off":
            return int(num), 0
        if m == b"toggle":
            return int(num), 255
    return None


def ref_rs(topic, msg):
    """shutter commands: set/closing_percentage and set/tilt take a decimal number 0..100 (an optional
    fraction is cut off), execute_action takes shut/reveal/stop/recalibrate/calibrate"""
    import re
    pre = PREFIX + b"/channels/"
    if not topic.startswith(pre) or not msg:
        return None
    rest = topic[len(pre):]
    if b"/" not in rest:
        return None
    num, cmd = rest.split(b"/", 1)
    if not num or not num.isdigit() or len(num) > 9 or int(num) > 255:
        return None
    if cmd in (b"set/closing_percentage", b"set/tilt"):
        m = re.fullmatch(rb"(-?)(\d+)(\.\d*)?", msg)
        if not m or len(m.group(2)) > 9 or int(m.group(2)) > 100 or (m.group(1) and int(m.group(2)) != 0):
            return None
        return (int(num), "pct" if cmd.endswith(b"percentage") else "tilt", int(m.group(2)))
    if cmd == b"execute_action" and msg.lower() in (b"shut", b"reveal", b"stop", b"recalibrate", b"calibrate"):
        return (int(num), "act", msg.lower().decode())
    return None


def ref_val(is_unsigned, raw, prec):
    neg = (not is_unsigned) and raw >= 1 << 63
    mag = (1 << 64) - raw if neg else raw
    p = prec
    while p > 0 and mag != 0 and mag % 10 == 0:
        mag //= 10
        p -= 1
    if mag == 0:
        return "0" if not neg else "-0"
    d = str(mag)
    if p == 0:
        body = d
    elif p >= len(d):
        body = "0." + "0" * (p - len(d)) + d
    else:
        body = d[:-p] + "." + d[-p:]
    return ("-" if neg else "") + body


class C17(F.Spec):
    pid = "C17"
    lean_module = "SuplaVerif.Props.C17"
    namespace = "SuplaVerif.C17"
    driver = "drv_mqtt"
    variant = "mqtt"
    extra_units = tuple(C.MQTT_UNITS)
    model_args = ["mqtt"]
    rule = ("(a) CONNECT: user names 0..100 chars, passwords 0..maximum storable (incl. exactly filling the tail area), "
            "auth on/off, stale long-password tails, decoded with a reference MQTT 3.1.1 grammar; (b) command topics: "
            "valid topics for channels 0..99999, wrong separator/prefix, signs, dots, case variants, truncated payloads; "
            "(c) number rendering: 64-bit values (0, +-1, powers of ten, INT64 limits, random) x precision 0..5 (+ up to 20). "
            "Non-trivial: a CONNECT was decoded / a topic accepted / a value rendered with a fraction.")
    assumptions = ["TLS not modelled", "the stored password representation is produced by a python reference of the "
                   "config form (the form itself is C14's subject)"]

    def driver_build(self):
        return C.build_driver(self.driver, self.variant, self.extra_units, extra_flags=["-DMQTT_SUPPORT_ENABLED"])

    def cases(self, rng, tier):
        # recorded findings' witnesses, every run
        yield self.topic_case("w-sep", [(PREFIX + b"Xchannels/1/set/on", b"1")])
        yield self.topic_case("w-narrow", [(PREFIX + b"/channels/256/set/on", b"1"), (PREFIX + b"/channels/99999/set/on", b"0")])
        yield self.topic_case("w-format", [(PREFIX + b"/channels/-1/set/on", b"1"), (PREFIX + b"/channels/1.5/set/on", b"1")])
        n = 120 if tier == "quick" else 1500
        # user-name lengths 0..45 with a 16-byte password: the CONNECT remaining length runs through 127/128/129
        # (the boundary of the one-byte length encoding) whatever the prefix length is
        for ul in range(0, 46):
            user, pw = b"u" * ul, b"P" * 16
            uf, pf = store(user, pw)
            yield F.Case("connect-len%d" % ul, ["cfg user " + uf.hex(), "cfg pass " + pf.hex(), "cfg flags 1", "start", "connected", "adv 150"],
                         {"tags": ["connect:auth", "pwlen:1", "sweep"], "kind": "connect", "user": user.hex(), "pw": pw.hex(), "noauth": False,
                          "uf": uf.hex(), "pf": pf.hex()})
        for i in range(n):
            yield self.gen_connect(rng, i)
        # the fixed-header encoder on every length boundary of the 1..4-byte encoding
        bounds = [0, 1, 126, 127, 128, 129, 255, 256, 16382, 16383, 16384, 16385, 2097150, 2097151, 2097152, 2097153,
                  268435454, 268435455, 268435456, 268435457, 4294967295]
        ops = []
        for r in bounds + [rng.randint(0, 300000000) for _ in range(20 if tier == "quick" else 400)]:
            ty = rng.choice([1, 2, 3, 3, 4, 5, 6, 7, 8, 9, 10, 11, 12, 13, 14])
            fl = rng.randint(0, 15) if ty == 3 else (2 if ty in (6, 8, 10) else 0)
            ops.append("packhdr %d %d %d" % (ty, fl, r))
        for j in range(0, len(ops), 16):
            yield F.Case("packhdr%d" % (j // 16), ["start"] + ops[j:j + 16], {"tags": ["packhdr"], "kind": "packhdr"})
        for i in range(n):
            yield self.gen_topics(rng, i)
        for i in range(n):
            yield self.gen_vals(rng, i)
        for i in range(n):
            yield self.gen_rs_topics(rng, i)

    def gen_connect(self, rng, i):
        noauth = rng.random() < .25
        user = bytes(rng.choice(b"abcdefghijklmnopqrstuvwxyz@._-0123456789") for _ in range(rng.choice([0, 1, 5, 20, 60, 100, 200, 253, 254])))
        room = E - len(user) - 2
        n = rng.choice([0, 1, 10, L - 1, L, L + 1, L + 10, L + room - 1, L + room, L + max(room, 0)])
        n = max(0, min(n, L + max(room, 0)))
        pw = bytes(rng.choice(b"ABCDEFGHIJKLMNOPQRSTUVWXYZabcdefghijklmnopqrstuvwxyz0123456789!#$%") for _ in range(n))
        uf, pf = store(user, pw)
        if len(pw) < L and rng.random() < .5:
            # a stale tail of an earlier long password stays behind the user name
            uf = bytearray(uf)
            stale = b"STALETAIL"[:max(0, E - len(user) - 2)]
            uf[len(user) + 1:len(user) + 1 + len(stale)] = stale
            uf = bytes(uf)
        flags = 1 | (8 if noauth else 0)
        ops = ["cfg user " + uf.hex(), "cfg pass " + pf.hex(), "cfg flags %d" % flags, "start", "connected", "adv 150"]
        return F.Case("connect%d" % i, ops, {"tags": ["connect:" + ("noauth" if noauth else "auth"), "pwlen:%d" % (0 if n == 0 else 1 if n < L else 2)],
                                               "kind": "connect", "user": user.hex(), "pw": pw.hex(), "noauth": noauth,
                                               "uf": uf.hex(), "pf": pf.hex()})

    def topic_case(self, name, pairs):
        ops = ["start"] + ["topic %s %s" % (t.hex() or "-", m.hex() or "-") for t, m in pairs]
        return F.Case(name, ops, {"tags": ["topic"], "kind": "topic"})

    def gen_topics(self, rng, i):
        pairs = []
        for _ in range(8):
            ch = rng.choice([0, 1, 7, 9, 10, 99, 100, 255, 256, 257, 511, 512, 1000, 65536, 99999])
            num = str(ch).encode()
            k = rng.choice(["ok", "ok", "ok", "sep", "prefix", "sign", "dot", "lead0", "nonum", "case", "cmd", "trunc", "extra", "space"])
            cmd = rng.choice([b"set/on", b"execute_action"])
            msg = rng.choice([b"1", b"0", b"true", b"TRUE", b"False", b"yes", b"NO", b"turn_on", b"TURN_OFF", b"toggle", b"2", b"", b"tru", b"truee"])
            sep = b"/"
            pre = PREFIX
            if k == "sep":
                sep = rng.choice([b"X", b".", b"-"])
            elif k == "prefix":
                pre = PREFIX[:-1] + b"4"
            elif k == "sign":
                num = rng.choice([b"-", b"+"]) + num
            elif k == "dot":
                num = num + b"." + rng.choice([b"5", b"0", b""])
            elif k == "lead0":
                num = b"00" + num
            elif k == "nonum":
                num = rng.choice([b"", b"x", b"1x"])
            elif k == "case":
                cmd = cmd.upper()
            elif k == "cmd":
                cmd = rng.choice([b"set/o", b"set/onn", b"set", b"execute_actio", b""])
            elif k == "extra":
                cmd = cmd + b"/x"
            elif k == "space":
                num = b" " + num
            t = pre + sep + b"channels/" + num + b"/" + cmd
            if k == "trunc":
                t = t[:rng.randint(0, len(t))]
            pairs.append((t, msg))
        return self.topic_case("topics%d" % i, pairs)

    def gen_rs_topics(self, rng, i):
        ops = ["start"]
        for _ in range(8):
            ch = rng.choice([0, 1, 7, 255, 256])
            cmd = rng.choice([b"set/closing_percentage", b"set/tilt", b"execute_action", b"set/tilt", b"set/closing_percentage"])
            msg = rng.choice([b"0", b"50", b"100", b"101", b"50.5", b"50.", b"50.abc", b"1.2.3", b"100.%", b"5x", b"x5", b"-", b"-0", b"-5",
                              b"+5", b" 5", b"5 ", b"1e2", b"0x10", b"0050", b"99999999999", b"", b".5", b"shut", b"SHUT", b"Reveal",
                              b"stop", b"recalibrate", b"calibrate", b"shutt", b"sto"])
            t = PREFIX + b"/channels/" + str(ch).encode() + b"/" + cmd
            ops.append("topicrs %s %s" % (t.hex(), msg.hex() or "-"))
        return F.Case("rstopics%d" % i, ops, {"tags": ["topicrs"], "kind": "topic"})

    def gen_vals(self, rng, i):
        ops = ["start"]
        for _ in range(10):
            u = rng.choice([0, 0, 1])
            v = rng.choice([0, 1, 9, 10, 100, 1000, 12345, 10 ** 18, 10 ** 19, (1 << 63) - 1, 1 << 63, (1 << 64) - 1, (1 << 64) - 10,
                            (1 << 64) - 1000, (1 << 64) - 12345, rng.getrandbits(64), rng.getrandbits(20) * 1000])
            if not u and v == 1 << 63:
                v = (1 << 63) + 1      # INT64_MIN: the negation is undefined behaviour in C (DESIGN.md O9)
            p = rng.choice([0, 1, 2, 3, 4, 5, 5, 7, 19, 20])
            ops.append("val %d %d %d" % (u, v, p))
        return F.Case("vals%d" % i, ops, {"tags": ["val"], "kind": "val"})

    # model: `val` lines pass through, the assembled password is compared with the CONNECT packet
    def derive_model(self, case, raw):
        ops, exp = [], []
        dev = PREFIX
        for g in raw:
            for x in g:
                if x.startswith("PREFIX "):
                    dev = x[7:].encode()
        for op, g in zip(case.ops, raw):
            if op.startswith("val "):
                ops.append(op)
                exp.append([x for x in g if x.startswith("VAL ")])
            elif op.startswith("packhdr "):
                ops.append(op)
                exp.append([x for x in g if x.startswith("PACKHDR ")])
            elif op.startswith("topicrs "):
                t = op.split()
                ops.append("topicrs %s %s %s" % (dev.hex() or "-", t[1], t[2]))
                exp.append([x for x in g if x.startswith("RSACT ")])
            elif op.startswith("topic "):
                # the relay command parser against its Lean model (Model/MqttTopic); the device prefix as the client printed it
                t = op.split()
                ops.append("topic %s %s %s" % (dev.hex() or "-", t[1], t[2]))
                exp.append([x for x in g if x.startswith("SETON ")])
            elif op == "connected" and case.meta.get("kind") == "connect" and not case.meta.get("noauth"):
                uf, pf = bytes.fromhex(case.meta["uf"]), bytes.fromhex(case.meta["pf"])
                ulen = uf.index(0) if 0 in uf else E
                pk = None
                for x in g:
                    if x.startswith("SENT 0 10"):
                        pk = parse_connect(bytes.fromhex(x.split()[2]))
                if ulen < E - 1:
                    tail = uf[ulen + 1:]
                    ops.append("assemble %d %d %s %s" % (L, len(tail), pf.hex(), tail.hex() or "-"))
                    pwd = pk.get("password", b"") if pk else b"?"
                    exp.append(["PASSWORD " + (pwd.hex() or "-")])
        return "\n".join(ops) + "\n", exp

    def monitor(self, case, groups, rc, err):
        if rc != 0:
            return [F.Finding("crash", "implementation aborted (rc=%s): %s" % (rc, err[-900:]))]
        raw = case.meta.get("raw_impl") or []
        fs = []
        kind = case.meta.get("kind")
        if kind == "connect":
            pk = None
            for g in raw:
                for x in g:
                    if x.startswith("SENT 0 10") and pk is None:
                        pk = parse_connect(bytes.fromhex(x.split()[2]))
                        if pk is None:
                            fs.append(F.Finding("connect-invalid", "CONNECT packet does not parse as MQTT 3.1.1: " + x[:120]))
            if pk is None:
                if not fs:
                    fs.append(F.Finding("connect-missing", "no CONNECT packet was sent"))
                return fs
            user, pw, noauth = bytes.fromhex(case.meta["user"]), bytes.fromhex(case.meta["pw"]), case.meta["noauth"]
            want_cid = GUID.hex().upper()[:22].encode()
            if pk["name"] != b"MQTT" or pk["level"] != 4 or pk["keepalive"] != 32 or not pk["flags"] & 2 or pk["client_id"] != want_cid:
                fs.append(F.Finding("connect-fields", "protocol/keep-alive/clean-session/client id wrong: %s" % pk))
            if pk.get("will_topic") != PREFIX + b"/state/connected" or pk.get("will_msg") != b"false":
                fs.append(F.Finding("connect-will", "last will is %s / %s" % (pk.get("will_topic"), pk.get("will_msg"))))
            if noauth:
                if "user" in pk or "password" in pk:
                    fs.append(F.Finding("credentials-when-auth-disabled", "authentication disabled but CONNECT carries user=%s password=%s"
                                        % ("user" in pk, "password" in pk)))
            else:
                if pk.get("user") != user:
                    fs.append(F.Finding("username-wrong", "user name %s, configured %s" % (pk.get("user"), user)))
                if pk.get("password", b"") != pw:
                    fs.append(F.Finding("password-incomplete", "password of %d bytes sent as %d bytes" % (len(pw), len(pk.get("password", b"")))))
        for op, g in zip(case.ops, raw):
            t = op.split()
            if t[0] == "topic":
                tp = bytes.fromhex(t[1]) if t[1] != "-" else b""
                ms = bytes.fromhex(t[2]) if t[2] != "-" else b""
                want = ref_set_on(tp, ms)
                for x in g:
                    if x.startswith("SETON "):
                        r, ch, on = [int(v) for v in x.split()[1:]]
                        got = (ch, on) if r else None
                        if got != want:
                            if want is None and tp.startswith(PREFIX) and not tp.startswith(PREFIX + b"/"):
                                cls = "topic-separator-unchecked"
                            elif want is None and tp.startswith(PREFIX + b"/channels/"):
                                num = tp[len(PREFIX) + 10:].split(b"/")[0]
                                cls = "topic-channel-narrowed" if num.isdigit() else "topic-number-format"
                            else:
                                cls = "topic-grammar"
                            fs.append(F.Finding(cls, "topic %r payload %r: device %s, grammar %s" % (tp[-30:], ms, got, want)))
            elif t[0] == "topicrs":
                tp = bytes.fromhex(t[1]) if t[1] != "-" else b""
                ms = bytes.fromhex(t[2]) if t[2] != "-" else b""
                want = ref_rs(tp, ms)
                for x in g:
                    if x.startswith("RSACT "):
                        r, ch, act, pct, tilt = [int(v) for v in x.split()[1:]]
                        if (r == 1) != (want is not None):
                            fs.append(F.Finding("rs-command-grammar", "shutter topic %r payload %r: device accepted=%d, grammar %s"
                                                % (tp[-28:], ms, r, want)))
                        elif r == 1 and want[1] == "pct" and (ch, pct) != (want[0], want[2]):
                            fs.append(F.Finding("rs-command-grammar", "payload %r gave channel %d percentage %d, expected %s" % (ms, ch, pct, want)))
                        elif r == 1 and want[1] == "tilt" and (ch, tilt) != (want[0], want[2]):
                            fs.append(F.Finding("rs-command-grammar", "payload %r gave channel %d tilt %d, expected %s" % (ms, ch, tilt, want)))
            elif t[0] == "val":
                want = ref_val(t[1] == "1", int(t[2]), int(t[3]))
                for x in g:
                    if x.startswith("VAL"):
                        got = x[4:]
                        if got != want and not (want == "-0"):
                            fs.append(F.Finding("value-rendering", "value %s (unsigned=%s, precision %s) rendered %r, exact %r" % (t[2], t[1], t[3], got, want)))
                        if len(got) > 24:
                            fs.append(F.Finding("value-overflow", "rendering longer than the 25-byte buffer"))
        return fs

    def nontrivial_key(self, case, groups):
        raw = case.meta.get("raw_impl") or []
        ks = set()
        for g in raw:
            for x in g:
                if x.startswith("SETON 1"):
                    ks.add("seton")
                elif x.startswith("RSACT 1"):
                    ks.add("rsact" + x.split()[3])
                elif x.startswith("VAL") and "." in x:
                    ks.add("frac" + str(len(x) // 6))
                elif x.startswith("SENT 0 10"):
                    ks.add("connect" + str(len(x) // 40))
        return (case.meta.get("kind"), tuple(sorted(ks))) if ks else None


SPEC = C17()
